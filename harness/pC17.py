"""C17 - resolver caches: no stale data, LRU bound, strict LRU eviction, exact counters, linearizable.

Cases are operation sequences over dns.resolver.Cache / dns.resolver.LRUCache with
dns.resolver.time rebound to a scripted clock (every time.time() read consumes one scripted
increment) and, for the concurrent histories, dns.resolver.threading rebound to a stand-in whose
Lock is a scheduling point of a deterministic scheduler.

case (sequential)  [0, interval, t0, ds0, ops]        Cache(interval) built at clock t0
                   [1, max_size, t0, ops]             LRUCache(max_size)
case (concurrent)  [kind, cfg, t0, (ds0,) ops, [seed, programs]]
                   `ops` is the sequential witness (calls in lock-acquisition order with the clock
                   increments each read saw) found when the case was generated; impl() re-runs the
                   threads under the same deterministic schedule and must reproduce it.
op   [0,k,ds] get  [1,k,vid,exp,ds] put(stub answer)  [2,k,vid,ttls,ds] put(real Answer built now)
     [3,k,ds] flush(k)  [4,ds] flush()  [5,m,ds] set_max_size  [6,k,ds] get_hits_for_key
     [7,ds] hits()  [8,ds] misses()  [9,ds] get_statistics_snapshot  [10,ds] reset_statistics
     [11,d] clock += d  [12,k,vid,ttls,ds] put(real negative Answer: CNAME TTLs + [SOA TTL, SOA minimum])
     [13,k,vid,msg,ds] put(Answer built from the response msg = [qr, rcode, questions, answer, authority])
output  [state0, [ret, state] per op]   (an exception ends the list with its code)
state   Cache: [[k,[vid,exp]]... in dict order, next_cleaning, hits, misses, now]
        LRU:   [[k,[vid,exp],node.hits] walking .next from the sentinel, [k..] walking .prev,
                [k, position of data[k] in the forward walk] in dict order, max_size, hits, misses, now]
"""
import ast
import itertools
import os
import threading as real_threading

import dns.exception
import dns.flags
import dns.message
import dns.name
import dns.rdata
import dns.rdataclass
import dns.rdatatype
import dns.resolver

import c17_skel
import lib
from lib import Err

ID = "C17"
COQ_IMPORTS = "From DV Require Import Model.CacheM Model.CacheAnsM Model.CacheSpecM."
COQ_RUN = "CacheSpecM.run"
CASE_TIMEOUT = 10.0
TRUSTED = [
    "model: coq/Model/CacheM.v (Cache value-level; LRUCache store-level with explicit prev/next ids; list-level spec alru)",
    "scripted clock bound to dns.resolver.time; scheduler shim bound to dns.resolver.threading (lock enter/exit and clock reads are the scheduling points)",
    "harness/c17_skel.py (python ast reader of the cache classes): its output - the per-method table `body is one with self.lock block` and the statement skeletons - is turned into Coq obligations on every run (guard_ok_*, linearizable_*_source, skeleton_*, translation_closed)",
    "CPython threading.Lock is mutual exclusion (replaced by the shim in the concurrent histories)",
]
ASSUMPTIONS = [
    "the clock is monotone (all increments >= 0) - hypothesis `mono` of the history theorems",
    "cache keys are compared by == / hash (dns.name.Name case-insensitive equality is C06's subject); the model uses integer keys",
]
RULE = ("cases are operation sequences (one case = one history) from structured generators seeded by VERIF_SEED, "
        "the exhaustive small-scope enumeration (every sequence over the stated alphabet up to the stated length), "
        "concurrent histories under a deterministic scheduler, plus the stored corpus; "
        "distinct = distinct canonical history; non-trivial = the history ran without an exception")


# ------------------------------------------------------------------ scripted clock
class Clock:
    def __init__(self):
        self.now = 0
        self.pend = []
        self.hook = None      # scheduler hook for concurrent runs

    def time(self):
        if self.hook is not None:
            return self.hook()
        if self.pend:
            self.now += self.pend.pop(0)
        return self.now


CLOCK = Clock()
dns.resolver.time = CLOCK      # module-level rebinding; dns.resolver only uses time.time()


class StubAnswer:
    __slots__ = ("expiration", "_vid")

    def __init__(self, vid, expiration):
        self._vid = vid
        self.expiration = expiration


A = dns.rdatatype.A
IN = dns.rdataclass.IN
_names = {}


def key_of(k, variant=0):
    """CacheKey for model key k; odd variants spell the name in upper case (same key by Name equality)."""
    kk = (k, variant & 1)
    if kk not in _names:
        label = f"k{k}".replace("-", "m")
        if variant & 1:
            label = label.upper()
        _names[kk] = (dns.name.from_text(label + ".example."), A, IN)
    return _names[kk]


_key_back = {}


def key_id(key):
    """inverse of key_of (through Name equality)"""
    if key not in _key_back:
        lab = key[0].labels[0].decode().lower()
        _key_back[key] = int(lab[1:].replace("m", "-"))
    return _key_back[key]


def real_answer(k, vid, ttls):
    """a dns.resolver.Answer from a response whose CNAME chain / answer rrset carry the given TTLs"""
    qn = f"k{k}.example.".replace("-", "m")
    lines = ["id 1", "opcode QUERY", "rcode NOERROR", "flags QR RD RA", ";QUESTION", f"{qn} IN A", ";ANSWER"]
    owner = qn
    for i, t in enumerate(ttls[:-1]):
        target = f"c{i}.{qn}"
        lines.append(f"{owner} {t} IN CNAME {target}")
        owner = target
    lines.append(f"{owner} {ttls[-1]} IN A 10.0.0.{vid % 250 + 1}")
    msg = dns.message.from_text("\n".join(lines) + "\n")
    a = dns.resolver.Answer(dns.name.from_text(qn), A, IN, msg)
    a._vid = vid
    return a


def negative_answer(k, vid, ttls):
    """an Answer for a NODATA / NXDOMAIN response: ttls = CNAME chain TTLs + [SOA TTL, SOA minimum]"""
    qn = f"k{k}.example.".replace("-", "m")
    nx = vid % 2 == 0 and len(ttls) == 2
    lines = ["id 1", "opcode QUERY", "rcode NXDOMAIN" if nx else "rcode NOERROR", "flags QR RD RA",
             ";QUESTION", f"{qn} IN A", ";ANSWER"]
    owner = qn
    for i, t in enumerate(ttls[:-2]):
        target = f"c{i}.{qn}"
        lines.append(f"{owner} {t} IN CNAME {target}")
        owner = target
    lines.append(";AUTHORITY")
    lines.append(f"example. {ttls[-2]} IN SOA ns.example. host.example. 1 2 3 4 {ttls[-1]}")
    msg = dns.message.from_text("\n".join(lines) + "\n")
    a = dns.resolver.Answer(dns.name.from_text(qn), A, IN, msg)
    a._vid = vid
    return a


# ---- responses described structurally (op 13):  [qr, rcode, [question..], [rrset..], [rrset..]]
#      question [labels, class, type]   rrset [labels, class, type, ttl, [rdata..]]
#      rdata [0, labels] CNAME target | [1, minimum] SOA | [2, k] an A record 10.0.(k//250).(k%250+1)
def build_message(desc):
    """a real dns.message.QueryMessage assembled record by record (find_rrset(create=True) + add),
    as dns.message.from_wire does"""
    qr, rc, qs, ans, auth = desc
    m = dns.message.QueryMessage(id=1)
    if qr:
        m.flags |= dns.flags.QR
    m.set_rcode(rc)
    for labels, cls, ty in qs:
        m.find_rrset(m.question, dns.name.Name(labels), cls, ty, create=True, force_unique=True)
    for section, rrsets in ((m.answer, ans), (m.authority, auth)):
        for labels, cls, ty, ttl, rds in rrsets:
            for rd in rds:
                rs = m.find_rrset(section, dns.name.Name(labels), cls, ty, create=True)
                if rd[0] == 0:
                    r = dns.rdata.from_text(cls, ty, dns.name.Name(rd[1]).to_text())
                elif rd[0] == 1:
                    r = dns.rdata.from_text(cls, ty, f"ns.example. host.example. 1 2 3 4 {rd[1]}")
                else:
                    r = dns.rdata.from_text(cls, ty, f"10.0.{rd[1] // 250 % 250}.{rd[1] % 250 + 1}")
                rs.add(r, ttl)
    return m


def encode_message(m):
    """read the assembled message back: this is what resolve_chaining will see"""
    def enc_rd(rs, rd):
        if int(rs.rdtype) == 5:
            return [0, [bytes(l) for l in rd.target.labels]]
        if int(rs.rdtype) == 6:
            return [1, rd.minimum]
        a = rd.address.split(".")
        return [2, int(a[2]) * 250 + int(a[3]) - 1]

    def enc_sec(sec):
        return [[[bytes(l) for l in rs.name.labels], int(rs.rdclass), int(rs.rdtype), rs.ttl, [enc_rd(rs, rd) for rd in rs]] for rs in sec]

    return [1 if m.flags & dns.flags.QR else 0, int(m.rcode()),
            [[[bytes(l) for l in q.name.labels], int(q.rdclass), int(q.rdtype)] for q in m.question],
            enc_sec(m.answer), enc_sec(m.authority)]


def message_answer(k, vid, desc):
    m = build_message(desc)
    q = m.question[0] if m.question else None
    a = dns.resolver.Answer(q.name if q else dns.name.root, q.rdtype if q else A, q.rdclass if q else IN, m)
    a._vid = vid
    return a


def gen_message(rng, k):
    """a response for k<k>.example.: CNAME chains (possibly looping, broken or too long), the wanted
    RRset or not, unrelated records, SOAs at several levels, both spellings of names"""
    def nm(*labels, up=False):
        ls = [l.encode() for l in labels] + [b"example", b""]
        if up or rng.random() < 0.15:
            ls = [l.upper() if rng.random() < 0.5 else l for l in ls]
        return ls

    qn = nm(f"k{k}".replace("-", "m"))
    qty = 5 if rng.random() < 0.08 else 1
    ttl = lambda: rng.choice([0, 1, 2, 5, 30, 300, 4294967295 if rng.random() < 0.05 else 60])  # noqa
    ans = []
    cur = qn
    shape = rng.random()
    nlinks = rng.choice([0, 0, 1, 1, 2, 3]) if shape < 0.95 else rng.choice([15, 16, 17])
    for i in range(nlinks):
        if shape >= 0.95 or rng.random() < 0.9:
            tgt = nm(f"c{i}", f"k{k}".replace("-", "m"))
        else:
            tgt = cur if rng.random() < 0.5 else qn          # a loop
        ans.append([cur, 1, 5, ttl(), [[0, tgt]]])
        cur = tgt
    r = rng.random()
    if r < 0.6:
        rds = [[2, rng.randrange(500)] for _ in range(rng.choice([1, 1, 2]))]
        ans.append([cur, 1, qty if qty == 1 else 1, ttl(), rds])
    elif r < 0.7:
        ans.append([nm("other"), 1, 1, ttl(), [[2, 7]]])        # unrelated
    if rng.random() < 0.15 and ans:
        rng.shuffle(ans)
    if rng.random() < 0.1 and ans:
        dup = list(rng.choice(ans))
        dup[3] = ttl()
        ans.append(dup)                                      # same owner/type again: merged, min TTL
    auth = []
    if rng.random() < 0.7:
        owner = rng.choice([[b"example", b""], [b"EXAMPLE", b""], cur, cur[1:] if len(cur) > 2 else cur, [b""], nm("elsewhere")])
        auth.append([owner, 1, 6, ttl(), [[1, rng.choice([0, 1, 3, 60, 86400])]]])
        if rng.random() < 0.2:
            auth.append([[b"example", b""], 1, 6, ttl(), [[1, rng.choice([0, 2, 7])]]])
    rc = 3 if rng.random() < 0.2 else (2 if rng.random() < 0.03 else 0)
    qr = 0 if rng.random() < 0.04 else 1
    qs = [[qn, 1, qty]]
    if rng.random() < 0.03:
        qs = [] if rng.random() < 0.5 else qs + [[nm("second"), 1, 1]]
    return encode_message(build_message([qr, rc, qs, ans, auth]))


def exc_code(e):
    if isinstance(e, dns.message.NotQueryResponse):
        return Err(20, "NotQueryResponse")
    if isinstance(e, dns.message.ChainTooLong):
        return Err(22, "ChainTooLong")
    if isinstance(e, dns.message.AnswerForNXDOMAIN):
        return Err(23, "AnswerForNXDOMAIN")
    if type(e) is dns.exception.FormError:
        return Err(21, "FormError")
    if isinstance(e, KeyError):
        return Err(1, "KeyError")
    if isinstance(e, AttributeError):
        return Err(2, "AttributeError")
    if isinstance(e, lib.Hang):
        raise e
    return Err(900, type(e).__name__ + ":" + str(e)[:80])


def obs_ans(a):
    return [a._vid, a.expiration]


def walk(cache, direction, limit):
    out = []
    n = getattr(cache.sentinel, direction)
    while n is not cache.sentinel:
        out.append(n)
        if len(out) > limit:
            raise AttributeError("ring walk does not return to the sentinel")
        n = getattr(n, direction)
    return out


def state_obs(cache):
    if isinstance(cache, dns.resolver.LRUCache):
        limit = len(cache.data) + 8
        fw = walk(cache, "next", limit)
        bw = walk(cache, "prev", limit)
        pos = {id(n): i for i, n in enumerate(fw)}
        return [
            [[key_id(n.key), obs_ans(n.value), n.hits] for n in fw],
            [key_id(n.key) for n in bw],
            [[key_id(k), pos.get(id(n), -1)] for k, n in cache.data.items()],
            cache.max_size, cache.statistics.hits, cache.statistics.misses, CLOCK.now,
        ]
    return [
        [[key_id(k), obs_ans(v)] for k, v in cache.data.items()],
        cache.next_cleaning, cache.statistics.hits, cache.statistics.misses, CLOCK.now,
    ]


def do_call(cache, op, idx):
    """perform one call (not the clock advance) on the cache; returns the observation of the result"""
    code = op[0]
    v = idx  # spelling variant of the key
    if code == 0:
        r = cache.get(key_of(op[1], v))
        return None if r is None else obs_ans(r)
    if code == 1:
        cache.put(key_of(op[1], v), StubAnswer(op[2], op[3]))
        return None
    if code == 2:
        cache.put(key_of(op[1], v), real_answer(op[1], op[2], op[3]))
        return None
    if code == 12:
        cache.put(key_of(op[1], v), negative_answer(op[1], op[2], op[3]))
        return None
    if code == 13:
        cache.put(key_of(op[1], v), message_answer(op[1], op[2], op[3]))
        return None
    if code == 3:
        cache.flush(key_of(op[1], v))
        return None
    if code == 4:
        cache.flush()
        return None
    if code == 5:
        cache.set_max_size(op[1])
        return None
    if code == 6:
        return cache.get_hits_for_key(key_of(op[1], v))
    if code == 7:
        return cache.hits()
    if code == 8:
        return cache.misses()
    if code == 9:
        s = cache.get_statistics_snapshot()
        return [s.hits, s.misses]
    if code == 10:
        cache.reset_statistics()
        return None
    raise ValueError("bad op")


def new_cache(case):
    CLOCK.hook = None
    if case[0] == 0:
        CLOCK.now, CLOCK.pend = case[2], list(case[3])
        c = dns.resolver.Cache(case[1])
        CLOCK.pend = []
        return c, case[4]
    CLOCK.now, CLOCK.pend = case[2], []
    return dns.resolver.LRUCache(case[1]), case[3]


def is_concurrent(case):
    return case[0] in (0, 1) and len(case) > (5 if case[0] == 0 else 4)


def is_ghost(case):
    return case[0] in (2, 3)


def plain(case):
    """kinds 2/3 (with a key universe: the model also prints its ghost state) -> kinds 0/1"""
    if case[0] == 2:
        return [0] + list(case[1:5])
    if case[0] == 3:
        return [1] + list(case[1:4])
    return case


def spec_track(case, out):
    """the bookkeeping the theorems speak about, kept by the harness from the calls and the
    implementation's results only (never from the model): per step, for every key of the universe,
    what a lookup now would have to return, how many calls ago the key was last used (put or
    successful get), and its successful lookups since it was last stored; plus hits/misses since the
    last reset.  The Coq definitions ideal_upd/expected/age/stats_of/key_hits must agree."""
    lru = case[0] == 3
    keys = case[5] if case[0] == 2 else case[4]
    ops = case[4] if case[0] == 2 else case[3]
    ideal, last_use, khits = {}, {}, {}
    hits = misses = 0
    nevents = 0
    tracks = []
    prev = out[0]

    def keyset(st):
        return [e[0] for e in (st[2] if lru else st[0])]

    for i, op in enumerate(ops):
        if i + 1 >= len(out) or isinstance(out[i + 1], Err):
            break
        ret, st = out[i + 1][0], out[i + 1][1]
        now = st[-1]
        code = op[0]
        if code != 11:
            nevents += 1
        if code == 0:
            if ret is not None:
                hits += 1
                last_use[op[1]] = nevents
                khits[op[1]] = khits.get(op[1], 0) + 1
            else:
                misses += 1
        elif code in (1, 2, 12, 13):
            k = op[1]
            val = next((e[1] for e in st[0] if e[0] == k), None)
            before, after = keyset(prev), keyset(st)
            for g in before:
                if g not in after and g != k:
                    ideal.pop(g, None)              # evicted
            ideal[k] = val
            last_use[k] = nevents
            khits[k] = 0
        elif code == 3:
            ideal.pop(op[1], None)
        elif code == 4:
            ideal.clear()
        elif code == 5:
            before, after = keyset(prev), keyset(st)
            for g in before:
                if g not in after:
                    ideal.pop(g, None)
        elif code == 10:
            hits = misses = 0
        tracks.append([
            [ideal[k] if (k in ideal and ideal[k] is not None and ideal[k][1] > now) else None for k in keys],
            [nevents - last_use[k] if k in last_use else None for k in keys],
            [hits, misses],
            [khits.get(k, 0) for k in keys],
        ])
        prev = st
    return tracks


def impl(case):
    if is_ghost(case):
        out = impl(plain(case))
        if isinstance(out, Err):
            return out
        out = lib.normalize(out)
        tr = spec_track(case, out)
        return [out[0]] + [(o if isinstance(o, Err) else [o[0], o[1], tr[i]]) for i, o in enumerate(out[1:])]
    if is_concurrent(case):
        return impl_concurrent(case)
    try:
        cache, ops = new_cache(case)
        out = [state_obs(cache)]
    except Exception as e:  # noqa
        return exc_code(e)
    for idx, op in enumerate(ops):
        try:
            if op[0] == 11:
                CLOCK.now += op[1]
                r = None
            else:
                CLOCK.pend = list(op[-1])
                r = do_call(cache, op, idx)
                CLOCK.pend = []
            out.append([r, state_obs(cache)])
        except Exception as e:  # noqa
            out.append(exc_code(e))
            break
    return out


# ------------------------------------------------------------------ concurrent histories
class Sched:
    """Deterministic cooperative scheduler over real threads: exactly one thread runs between two
    scheduling points (call start, lock enter, lock exit, every clock read, call end)."""

    def __init__(self, rng, nthreads, choices=None, coarse=False):
        self.rng = rng
        self.coarse = coarse            # scripted mode: branch only on who gets the free lock
        self.choices = choices          # None: random schedule; list: scripted (0 beyond its end)
        self.taken = []                 # (choice made, number of alternatives) per scheduling step
        self.main = real_threading.Semaphore(0)
        self.sems = [real_threading.Semaphore(0) for _ in range(nthreads)]
        self.state = ["ready"] * nthreads      # ready | wantlock | done
        self.owner = None
        self.current = None
        self.acq = []                          # (tid, op index in its program) in acquisition order
        self.reads = {}                        # (tid, opidx) -> readings seen inside the critical section
        self.snap = {}                         # (tid, opidx) -> state at release
        self.opidx = [0] * nthreads
        self.error = None

    def yield_(self, tid, state="ready"):
        self.state[tid] = state
        self.main.release()
        self.sems[tid].acquire()

    def run(self, threads, env_advance):
        for t in threads:
            t.start()
        steps = 0
        while True:
            runnable = [i for i, s in enumerate(self.state) if s == "ready" or (s == "wantlock" and self.owner is None)]
            if not runnable:
                break
            steps += 1
            if steps > 100000:
                self.error = "scheduler step limit"
                break
            if self.choices is None:
                env_advance(self.rng)
                tid = self.rng.choice(runnable)
            elif self.coarse and any(self.state[i] == "ready" for i in runnable):
                # code outside the lock touches nothing shared: run it eagerly, lowest thread first
                tid = next(i for i in runnable if self.state[i] == "ready")
            else:
                i = len(self.taken)
                c = self.choices[i] if i < len(self.choices) else 0
                c = c if c < len(runnable) else 0
                self.taken.append((c, len(runnable)))
                tid = runnable[c]
            self.current = tid
            if self.state[tid] == "wantlock":
                self.owner = tid
            self.state[tid] = "running"
            self.sems[tid].release()
            self.main.acquire()
        blocked = [i for i, s in enumerate(self.state) if s != "done"]
        if blocked and self.error is None:
            self.error = f"deadlock: threads {blocked} blocked"
        return self.error


class ShimLock:
    def __init__(self, sched_ref):
        self.ref = sched_ref

    def __enter__(self):
        s = self.ref[0]
        if s is None:
            return self
        tid = s.current
        s.yield_(tid, "wantlock")       # resumes only when the scheduler granted the lock
        s.acq.append((tid, s.opidx[tid]))
        return self

    def __exit__(self, *exc):
        s = self.ref[0]
        if s is None:
            return False
        tid = s.current
        s.snap[(tid, s.opidx[tid])] = s.snapshot()
        s.owner = None
        s.yield_(tid)
        return False

    # plain acquire/release for completeness
    def acquire(self, *a, **k):
        self.__enter__()
        return True

    def release(self):
        self.__exit__(None, None, None)


SCHED = [None]


class ThreadingShim:
    """stand-in for the `threading` module inside dns.resolver"""

    def __getattr__(self, name):
        return getattr(real_threading, name)

    @staticmethod
    def Lock():
        return ShimLock(SCHED)

    @staticmethod
    def RLock():
        return ShimLock(SCHED)


dns.resolver.threading = ThreadingShim()


def run_concurrent(kind, cfg, t0, ds0, programs, seed, choices=None, sched_out=None, coarse=False):
    """returns (error, acquisition order [(tid, opidx)], reads, results, snapshots, state0, final)
    choices: scripted schedule (exhaustive exploration) instead of the seeded random one"""
    import random

    rng = random.Random(seed)
    SCHED[0] = None
    head = [0, cfg, t0, ds0, []] if kind == 0 else [1, cfg, t0, []]
    cache, _ = new_cache(head)
    state0 = state_obs(cache)
    s = Sched(rng, len(programs), choices, coarse)
    s.snapshot = lambda: state_obs(cache)
    fine = choices is None
    results = {}

    def clock_hook():
        tid = s.current
        if s.owner == tid:
            if fine:
                s.yield_(tid)        # a scheduling point inside the critical section (time may pass)
            s.reads.setdefault((tid, s.opidx[tid]), []).append(CLOCK.now)
        return CLOCK.now

    def env_advance(r):
        if r.random() < 0.3:
            CLOCK.now += r.choice([0, 1, 1, 2, 5])

    def body(tid):
        s.sems[tid].acquire()
        try:
            for i, op in enumerate(programs[tid]):
                s.opidx[tid] = i
                if fine:
                    s.yield_(tid)
                results[(tid, i)] = do_call(cache, op, tid + i)
                if fine:
                    s.yield_(tid)
        except BaseException as e:  # noqa
            s.error = f"thread {tid}: {type(e).__name__}: {e}"
        s.state[tid] = "done"
        s.main.release()

    threads = [real_threading.Thread(target=body, args=(i,), daemon=True) for i in range(len(programs))]
    SCHED[0] = s
    CLOCK.hook = clock_hook
    try:
        err = s.run(threads, env_advance)
    finally:
        CLOCK.hook = None
        SCHED[0] = None
    for t in threads:
        t.join(timeout=0.2)
    if sched_out is not None:
        sched_out.extend(s.taken)
    return err, s.acq, s.reads, results, s.snap, state0, state_obs(cache)


def witness_of(programs, acq, reads, t0_now):
    """the sequential witness: calls in acquisition order; each carries the increments that turn the
    previous reading into the readings it saw"""
    ops = []
    last = t0_now
    for tid, i in acq:
        op = list(programs[tid][i])
        ds = []
        for r in reads.get((tid, i), []):
            ds.append(r - last)
            last = r
        op[-1] = ds
        ops.append(op)
    return ops


def impl_concurrent(case):
    kind, cfg, t0 = case[0], case[1], case[2]
    if kind == 0:
        ds0, ops, tail = case[3], case[4], case[5]
    else:
        ds0, ops, tail = [], case[3], case[4]
    seed, programs = tail[0], tail[1]
    choices = tail[2] if len(tail) > 2 else None
    coarse = bool(tail[3]) if len(tail) > 3 else False
    try:
        err, acq, reads, results, snap, state0, final = run_concurrent(kind, cfg, t0, ds0, programs, seed, choices, coarse=coarse)
    except Exception as e:  # noqa
        return exc_code(e)
    if err:
        return Err(901, err)
    now0 = state0[-1]
    if witness_of(programs, acq, reads, now0) != ops:
        return Err(902, "schedule not reproduced")
    out = [state0]
    last_now = now0
    for (tid, i) in acq:
        st = snap.get((tid, i))
        # `now` in a snapshot is the environment clock; the model's now is the last reading
        rs = reads.get((tid, i), [])
        if rs:
            last_now = rs[-1]
        st = st[:-1] + [last_now]
        out.append([results.get((tid, i)), st])
    return out


# ------------------------------------------------------------------ generators
def gen_ds(rng):
    r = rng.random()
    if r < 0.5:
        return []
    return [rng.choice([0, 0, 1, 1, 2, 3, 7]) for _ in range(rng.randint(1, 4))]


def gen_ops(rng, n, lru, nkeys, now, horizon):
    ops = []
    vid = 0
    for _ in range(n):
        r = rng.random()
        k = rng.randrange(nkeys)
        if r < 0.30:
            ops.append([0, k, gen_ds(rng)])
        elif r < 0.55:
            vid += 1
            e = now + rng.choice([-3, 0, 1, 2, 3, 5, 8, 13, 40, horizon])
            ops.append([1, k, vid, e, gen_ds(rng)])
        elif r < 0.66:
            vid += 1
            ttls = [rng.choice([0, 1, 2, 5, 30, 300]) for _ in range(rng.choice([1, 1, 1, 2, 3]))]
            r2 = rng.random()
            if r2 < 0.45:
                ops.append([13, k, vid, gen_message(rng, k), gen_ds(rng)])
            elif r2 < 0.6:
                ops.append([12, k, vid, ttls + [rng.choice([0, 3, 60])] if len(ttls) == 1 else ttls, gen_ds(rng)])
            else:
                ops.append([2, k, vid, ttls, gen_ds(rng)])
        elif r < 0.72:
            ops.append([3, k, gen_ds(rng)])
        elif r < 0.74:
            ops.append([4, gen_ds(rng)])
        elif r < 0.80 and lru:
            ops.append([5, rng.choice([-2, 0, 1, 1, 2, 2, 3, 4, 6]), gen_ds(rng)])
        elif r < 0.85 and lru:
            ops.append([6, k, gen_ds(rng)])
        elif r < 0.89:
            ops.append([rng.choice([7, 8, 9]), gen_ds(rng)])
        elif r < 0.90:
            ops.append([10, gen_ds(rng)])
        else:
            d = rng.choice([0, 1, 1, 2, 3, 5, 10, 60])
            ops.append([11, d])
        # keep a rough idea of the clock so that expirations stay interesting
        now += sum(ops[-1][-1]) if ops[-1][0] != 11 else ops[-1][1]
    return ops


def gen_case(rng, n):
    t0 = rng.choice([0, 1000, 10**9])
    if rng.random() < 0.45:
        interval = rng.choice([0, 1, 2, 5, 30, 300])
        return "cache", [0, interval, t0, gen_ds(rng)[:1], gen_ops(rng, n, False, rng.choice([2, 3, 5]), t0, 10**6)]
    m = rng.choice([-1, 0, 1, 2, 2, 3, 3, 4, 8])
    return "lru", [1, m, t0, gen_ops(rng, n, True, rng.choice([2, 3, 5, 9]), t0, 10**6)]


def gen_boundary(rng):
    """expiry boundaries hit exactly: the lookup's clock reading is exp-1, exp or exp+1, reached either
    between calls or by an increment consumed inside the call"""
    lru = rng.random() < 0.6
    t0 = rng.choice([0, 50, 10**9])
    ttl = rng.choice([0, 1, 2, 5])
    exp = t0 + ttl
    ops = []
    vid = 1
    if rng.random() < 0.5:
        ops.append([1, 0, vid, exp, []])
    else:
        ops.append([2, 0, vid, [ttl] if rng.random() < 0.6 else [ttl + rng.randint(0, 3), ttl], []])
    if rng.random() < 0.4:
        vid += 1
        ops.append([1, 1, vid, exp + rng.choice([-1, 0, 1, 100]), []])
    target = exp + rng.choice([-1, 0, 0, 1])
    gap = max(0, target - t0)
    inside = rng.randint(0, gap)
    if gap - inside:
        ops.append([11, gap - inside])
    look = rng.choice([0, 0, 6]) if lru else 0
    if look == 6 and ttl > 0:
        ops.insert(1, [0, 0, []])       # one hit first, so that get_hits_for_key can tell 1 from 0
    if lru:
        ds = [inside]
    else:
        # Cache.get reads the clock in _maybe_clean (once or twice) and then for the expiry test
        parts = sorted(rng.randint(0, inside) for _ in range(2))
        ds = [parts[0], parts[1] - parts[0], inside - parts[1]]
    ops.append([look, 0, ds])
    for _ in range(rng.randint(0, 3)):
        r = rng.random()
        if r < 0.4:
            ops.append([rng.choice([0, 6]) if lru else 0, rng.choice([0, 1]), [rng.choice([0, 0, 1])]])
        elif r < 0.6:
            ops.append([11, rng.choice([0, 1])])
        elif r < 0.8:
            ops.append([rng.choice([7, 8, 9]), []])
        else:
            vid += 1
            ops.append([1, rng.choice([0, 1]), vid, target + rng.choice([0, 1, 2]), []])
    if lru:
        return "lru-boundary", [1, rng.choice([1, 2, 3]), t0, ops]
    return "cache-boundary", [0, rng.choice([0, 1, 2, 300]), t0, [], ops]


def alphabet(lru, with_time, nkeys=3):
    """small-scope alphabet: nkeys keys; expirations relative to a clock that starts at 10"""
    al = []
    for k in range(nkeys):
        al.append(("get", k))
        al.append(("put", k))
        al.append(("flushk", k))
    al.append(("flush",))
    if lru:
        al += [("max", 1), ("max", 2)]
    if with_time:
        al.append(("adv", 2))
    return al


def concretize(seq, lru):
    """turn an abstract small-scope sequence into ops: put #i stores answer i expiring 3 ticks after
    the clock value at that point if i is odd, far in the future otherwise"""
    ops = []
    now = 10
    vid = 0
    for s in seq:
        if s[0] == "get":
            ops.append([0, s[1], []])
        elif s[0] == "put":
            vid += 1
            ops.append([1, s[1], vid, now + 3 if vid % 2 else now + 1000, []])
        elif s[0] == "flushk":
            ops.append([3, s[1], []])
        elif s[0] == "flush":
            ops.append([4, []])
        elif s[0] == "max":
            ops.append([5, s[1], []])
        elif s[0] == "adv":
            ops.append([11, s[1]])
            now += s[1]
    return ops


def small_scope(lru, cfg, length, with_time=True, nkeys=3, first=None):
    al = alphabet(lru, with_time, nkeys)
    heads = [al[first]] if first is not None else al
    for h in heads:
        for seq in itertools.product(al, repeat=length - 1):
            ops = concretize((h,) + seq, lru)
            yield [1, cfg, 10, ops] if lru else [0, cfg, 10, [], ops]


def scope_worker(task):
    lru, cfg, length, nkeys, first = task
    n = 0
    bad = []
    for case in small_scope(lru, cfg, length, True, nkeys, first):
        n += 1
        out = lib.normalize(impl(case))
        fs = check_history(case, out)
        if fs and len(bad) < 2:
            f = dict(fs[0])
            f["case"] = case
            f["case_kind"] = "small-scope"
            bad.append(f)
    return n, bad


def gen_programs(rng, lru, nthreads, nops):
    progs = []
    vid = 0
    for t in range(nthreads):
        p = []
        for _ in range(nops):
            r = rng.random()
            k = rng.randrange(3)
            if r < 0.35:
                p.append([0, k, []])
            elif r < 0.70:
                vid += 1
                p.append([1, k, vid, 100 + rng.choice([0, 1, 2, 4, 8, 1000]), []])
            elif r < 0.78:
                p.append([3, k, []])
            elif r < 0.82:
                p.append([4, []])
            elif r < 0.90 and lru:
                p.append([5, rng.choice([1, 2, 3]), []])
            elif r < 0.94 and lru:
                p.append([6, k, []])
            else:
                p.append([rng.choice([7, 8, 9, 10]), []])
        progs.append(p)
    return progs


def gen_concurrent(rng):
    lru = rng.random() < 0.6
    kind = 1 if lru else 0
    cfg = rng.choice([1, 2, 3]) if lru else rng.choice([0, 1, 5])
    programs = gen_programs(rng, lru, rng.choice([2, 2, 3, 4]), rng.choice([2, 3, 4]))
    seed = rng.randrange(1 << 30)
    err, acq, reads, results, snap, state0, final = run_concurrent(kind, cfg, 100, [], programs, seed)
    if err:
        return None, {"kind": "concurrent:scheduler", "what": err, "programs": programs, "seed": seed, "cache": kind, "cfg": cfg}
    ops = witness_of(programs, acq, reads, state0[-1])
    case = [0, cfg, 100, [], ops, [seed, programs]] if kind == 0 else [1, cfg, 100, ops, [seed, programs]]
    return case, None


CONC_ALPHABET = {
    True: [[0, 0, []], [1, 0, None, 200, []], [1, 1, None, 101, []], [3, 0, []], [4, []], [5, 1, []], [6, 0, []], [9, []]],
    False: [[0, 0, []], [1, 0, None, 200, []], [1, 1, None, 101, []], [3, 0, []], [4, []], [9, []]],
}


def conc_programs(lru, shape):
    """all assignments of alphabet symbols to the slots of `shape` (ops per thread)"""
    al = CONC_ALPHABET[lru]
    slots = sum(shape)
    for combo in itertools.product(range(len(al)), repeat=slots):
        vid = 0
        progs = []
        it = iter(combo)
        for n in shape:
            p = []
            for _ in range(n):
                op = [list(x) if isinstance(x, list) else x for x in al[next(it)]]
                if op[0] == 1:
                    vid += 1
                    op[2] = vid
                p.append(op)
            progs.append(p)
        yield progs


def all_schedules(kind, cfg, programs, limit=5000, coarse=False):
    """depth-first enumeration of every schedule of the programs (scheduling points: lock enter and
    lock exit; the clock stands still, so reads inside the lock need no scheduling point);
    yields (choices, run result)"""
    stack = [[]]
    n = 0
    while stack and n < limit:
        prefix = stack.pop()
        taken = []
        res = run_concurrent(kind, cfg, 100, [], programs, 0, choices=prefix, sched_out=taken, coarse=coarse)
        n += 1
        made = [c for c, _ in taken]
        yield made, res
        for i in range(len(prefix), len(taken)):
            for alt in range(1, taken[i][1]):
                stack.append(made[:i] + [alt])


def conc_case(kind, cfg, programs, choices, res, coarse=False):
    err, acq, reads, results, snap, state0, final = res
    ops = witness_of(programs, acq, reads, state0[-1])
    tail = [0, programs, choices, 1 if coarse else 0]
    return [0, cfg, 100, [], ops, tail] if kind == 0 else [1, cfg, 100, ops, tail]


def conc_check(kind, cfg, programs, choices, res, coarse=False):
    """one explored schedule against the property: equivalent to its lock-order witness run
    sequentially on a fresh cache, and the witness history satisfies the sequential oracle"""
    err = res[0]
    if err:
        return [{"kind": "concurrent:scheduler", "what": err, "programs": programs, "choices": choices, "cache": kind, "cfg": cfg, "sig": "sched"}]
    case = lib.normalize(conc_case(kind, cfg, programs, choices, res, coarse))
    out = lib.normalize(impl_concurrent(case))
    fs = check_history(case, out)
    if not fs and not isinstance(out, Err):
        seq = lib.normalize(impl(case[:-1]))
        if seq != out:
            fs = [{"kind": "concurrent:not-linearizable", "sig": "notlin", "step": None,
                   "what": "the concurrent history differs from its lock-acquisition-order witness run sequentially",
                   "sequential": seq, "concurrent": out}]
    for f in fs:
        f["case"] = case
        f["case_kind"] = "concurrent-exhaustive"
    return fs


def conc_worker(task):
    lru, cfg, shape, lo, hi, only_disruptive = task[:6]
    coarse = len(shape) > 2 or sum(shape) > 3
    kind = 1 if lru else 0
    n = 0
    bad = []
    for idx, programs in enumerate(conc_programs(lru, shape)):
        if idx < lo or idx >= hi:
            continue
        if only_disruptive and not any(op[0] in (3, 4, 5) for op in programs[-1]):
            continue        # the last thread must flush or resize while the others work
        for choices, res in all_schedules(kind, cfg, programs, coarse=coarse):
            n += 1
            fs = conc_check(kind, cfg, programs, choices, res, coarse)
            if fs and len(bad) < 2:
                bad.append(fs[0])
    return n, bad


_gen_failures = []


def ghostify(c):
    """add the key universe: the model then prints its ghost state after every step"""
    ops = c[3] if c[0] == 1 else c[4]
    keys = sorted({op[1] for op in ops if op[0] in (0, 1, 2, 3, 6, 12, 13)})
    if c[0] == 1:
        return [3, c[1], c[2], ops, keys]
    return [2, c[1], c[2], c[3], ops, keys]


def cases(ctx):
    for kind, c in cases0(ctx):
        if c[0] in (0, 1) and not is_concurrent(c) and kind not in ("lru-long", "cache-long") \
                and (kind.startswith("small") or kind.endswith("boundary") or ctx.rng.random() < 0.5):
            yield kind + "+ghost", ghostify(c)
        else:
            yield kind, c


def cases0(ctx):
    rng = ctx.rng
    # every sequence of length <= 3 over the small-scope alphabet goes through Coq too
    for lru, cfg in ((True, 1), (True, 2), (False, 0), (False, 2)):
        for c in small_scope(lru, cfg, ctx.n(2, 3)):
            yield ("small-lru" if lru else "small-cache"), c
    for _ in range(ctx.n(900, 20000)):
        kind, c = gen_case(rng, rng.choice([3, 6, 10, 16, 24]))
        yield kind, c
    for _ in range(ctx.n(400, 6000)):
        yield gen_boundary(rng)
    for _ in range(ctx.n(40, 400)):
        kind, c = gen_case(rng, rng.choice([60, 120, 250]))
        yield kind + "-long", c
    fixed = [
        (1, 2, [[[1, 0, 1, 200, []], [1, 1, 2, 101, []]], [[5, 1, []]]]),
        (1, 2, [[[1, 0, 1, 200, []], [0, 0, []]], [[4, []]]]),
        (1, 1, [[[1, 0, 1, 200, []], [6, 0, []]], [[1, 1, 2, 101, []]], [[3, 0, []]]]),
        (0, 2, [[[1, 0, 1, 200, []], [0, 0, []]], [[4, []]], [[1, 0, 2, 101, []]]]),
    ]
    for kind, cfg, programs in fixed[: ctx.n(2, 4)]:
        seen_w = set()
        for choices, res in all_schedules(kind, cfg, programs, limit=ctx.n(150, 3000)):
            if res[0]:
                _gen_failures.append({"kind": "concurrent:scheduler", "what": res[0], "programs": programs, "sig": "sched"})
                continue
            c = conc_case(kind, cfg, programs, choices, res)
            w = repr(c[3 if kind == 1 else 4])
            if w in seen_w:
                continue
            seen_w.add(w)
            yield "concurrent-exhaustive", c
    for _ in range(ctx.n(120, 2000)):
        c, f = gen_concurrent(rng)
        if f:
            _gen_failures.append(f)
        elif c:
            yield "concurrent", c


# ------------------------------------------------------------------ oracle (the property text on the implementation)
def ref_min_ttl(desc):
    """independent reference for the lifetime of an answer (RFC 1034 4.3.2 CNAME processing,
    RFC 2308 5: negative answers live min(SOA TTL, SOA MINIMUM)); -> ("ok", ttl) | ("err", code)"""
    qr, rc, qs, ans, auth = desc
    if not qr:
        return ("err", 20)
    if len(qs) != 1:
        return ("err", 21)
    low = lambda n: [l.lower() for l in n]  # noqa
    qn, cls, ty = qs[0]

    def find(sec, name, t):
        for r in sec:
            if low(r[0]) == low(name) and r[1] == cls and r[2] == t:
                return r
        return None

    best = 4294967295
    cur = qn
    answer = None
    hops = 0
    while True:
        a = find(ans, cur, ty)
        if a is not None:
            best = min(best, a[3])
            answer = a
            break
        c = find(ans, cur, 5) if ty != 5 else None
        if c is None:
            break
        best = min(best, c[3])
        cur = c[4][0][1]
        hops += 1
        if hops >= 16:
            return ("err", 22)
    if rc == 3 and answer is not None:
        return ("err", 23)
    if answer is None:
        au = cur
        while True:
            soa = find(auth, au, 6)
            if soa is not None:
                best = min(best, soa[3], soa[4][0][1])
                break
            if len(au) <= 1:
                break
            au = au[1:]
    return ("ok", best)


_shrunk = {}


def with_ops(case, ops):
    c = list(case)
    c[3 if case[0] == 1 else 4] = ops
    return c


def shrink(case, what):
    """greedy minimisation of a failing sequential history (same failure text must persist)"""
    def fails(c):
        c = lib.normalize(c)
        fs = check_history(c, lib.normalize(impl(c)))
        return next((f for f in fs if f["what"] == what), None)

    ops = list(case[3] if case[0] == 1 else case[4])
    f = fails(case)
    if f is None:
        return case, None
    if f.get("step") is not None and f["step"] >= 0:
        ops = ops[: f["step"] + 1]
    budget = 400
    changed = True
    while changed and budget > 0:
        changed = False
        for i in range(len(ops) - 1, -1, -1):
            budget -= 1
            cand = ops[:i] + ops[i + 1:]
            if fails(with_ops(case, cand)) is not None:
                ops = cand
                changed = True
        for i, op in enumerate(ops):
            if op[0] != 11 and op[-1]:
                budget -= 1
                cand = ops[:i] + [op[:-1] + [[]]] + ops[i + 1:]
                if fails(with_ops(case, cand)) is not None:
                    ops = cand
                    changed = True
    small = with_ops(case, ops)
    return small, fails(small)


def oracle(ctx, kind, case, out):
    if is_ghost(case):
        gcase = case
        case = plain(case)
        out = out if isinstance(out, Err) else [out[0]] + [(o if isinstance(o, Err) else o[:2]) for o in out[1:]]
    fs = check_history(case, out)
    if fs and not is_concurrent(case):
        out_fs = []
        for f in fs:
            if f["what"] in _shrunk or len(_shrunk) >= 6:
                out_fs.append(f)
                continue
            small, sf = shrink(case, f["what"])
            _shrunk[f["what"]] = small
            if sf is not None:
                sf = dict(sf)
                sf["case"] = small
                sf["shrunk_from_ops"] = len(case[3] if case[0] == 1 else case[4])
                out_fs.insert(0, sf)
            else:
                out_fs.append(f)
        return out_fs
    return fs


def check_history(case, out):
    F = []
    lru = case[0] == 1

    def fail(what, step=None, **kw):
        F.append({"kind": ("lru:" if lru else "cache:") + what, "what": what, "step": step, "sig": what, **kw})

    if isinstance(out, Err):
        fail("exception " + out.text)
        return F
    ops = case[3] if lru else case[4]
    if is_concurrent(case):
        programs = case[-1][1]
        total = sum(len(p) for p in programs)
        if len(ops) != total:
            fail("a call ran without taking the cache lock: %d calls issued, %d lock acquisitions"
                 % (total, len(ops)), None, sig="unlocked")
            return F
    ideal = {}         # key -> [vid, exp]: latest stored answer, not flushed, not evicted
    last_use = {}      # key -> step of last put / successful get
    node_hits = {}
    hits = misses = 0
    prev_state = out[0]
    now = prev_state[-1]

    def keys_of(st):
        return [e[0] for e in (st[2] if lru else st[0])]

    def check_shape(st, step):
        if lru:
            fw, bw, d, mx = st[0], st[1], st[2], st[3]
            fk = [e[0] for e in fw]
            if fk != list(reversed(bw)):
                fail("ring walked backwards is not the reverse of the ring walked forwards", step)
            if len(set(fk)) != len(fk):
                fail("a key occurs twice on the ring", step)
            if sorted(fk) != sorted(e[0] for e in d):
                fail("dict keys differ from ring keys", step)
            for k, pos in d:
                if pos < 0 or pos >= len(fw) or fw[pos][0] != k:
                    fail("data[k] is not the ring node carrying k", step)
            if len(d) > mx:
                fail("cache holds more entries than max_size", step, size=len(d), max_size=mx)
            if mx < 1:
                fail("max_size below 1", step)

    check_shape(prev_state, -1)
    for step, op in enumerate(ops):
        if step + 1 >= len(out):
            break
        o = out[step + 1]
        if isinstance(o, Err):
            if op[0] == 13 and 20 <= o.code <= 23:
                want = ref_min_ttl(op[3])
                if want != ("err", o.code):
                    fail("the Answer constructor raised although the response is a valid answer (or raised the wrong error)",
                         step, raised=o.code, reference=list(want))
            else:
                fail("exception " + o.text, step)
            break
        ret, st = o
        if st[-1] < now:
            fail("clock went backwards (harness)", step)
        before_now = now
        now = st[-1]
        code = op[0]
        before = keys_of(prev_state)
        after = keys_of(st)
        gone = [k for k in before if k not in after]
        new = [k for k in after if k not in before]
        check_shape(st, step)
        if code == 0:
            k = op[1]
            want = ideal.get(k)
            if ret is not None:
                if ret[1] <= now:
                    fail("stale answer returned (expiration <= time of the lookup)", step, ret=ret, now=now)
                if want != ret:
                    fail("get returned something other than the most recently stored answer", step, ret=ret, want=want)
                hits += 1
                last_use[k] = step
                node_hits[k] = node_hits.get(k, 0) + 1
            else:
                if want is not None and want[1] > now:
                    fail("get missed although an unexpired answer was stored and neither flushed nor evicted", step, want=want, now=now)
                misses += 1
            if lru:
                if new or any(g != k for g in gone):
                    fail("get changed the key set beyond dropping its own expired key", step)
                if gone and want is not None and want[1] > now:
                    fail("get dropped an unexpired entry", step)
            elif new:
                fail("get added a key", step)
        elif code in (1, 2, 12, 13):
            k = op[1]
            if code == 1:
                val = [op[2], op[3]]
            else:
                # expiration = clock reading when the Answer was built + min ttl: read it back
                val = None
                for e in (st[0] if lru else st[0]):
                    if e[0] == k:
                        val = e[1]
                if val is None or val[0] != op[2]:
                    fail("put did not store the answer", step)
                    val = [op[2], 0]
                made_at = before_now + (op[4][0] if op[4] else 0)
                if code == 13:
                    want = ref_min_ttl(op[3])
                    if want[0] != "ok":
                        fail("an Answer was built from a response that is not a valid answer", step, reference=list(want))
                    elif val[1] != made_at + want[1]:
                        fail("Answer.expiration is not its creation time plus the minimum TTL of the CNAME chain and the answer "
                             "(or of the enclosing SOA for a negative answer)", step,
                             expiration=val[1], created=made_at, reference_ttl=want[1])
                elif val[1] != made_at + min(op[3]):
                    fail("Answer.expiration is not its creation time plus the minimum TTL", step,
                         expiration=val[1], created=made_at, ttls=op[3])
            evicted = [g for g in gone if g != k]
            if k not in after:
                fail("put did not store the key", step)
            if lru:
                mx = st[3]
                nb = len([x for x in before if x != k])
                if len(after) != min(nb, mx - 1) + 1:
                    fail("put evicted more or fewer entries than needed", step, before=before, after=after)
                for g in evicted:
                    for k2 in after:
                        if k2 != k and last_use.get(g, -1) >= last_use.get(k2, -1):
                            fail("evicted an entry that was used more recently than one that was kept", step, evicted=g, kept=k2)
                if st[0] and st[0][0][0] != k:
                    fail("the stored key is not the most recently used ring node", step)
                for g in evicted:
                    ideal.pop(g, None)
                    node_hits.pop(g, None)
            ideal[k] = val
            last_use[k] = step
            node_hits[k] = 0
        elif code == 3:
            k = op[1]
            if k in after or new or any(g != k for g in gone):
                fail("flush(key) did not remove exactly that key", step)
            ideal.pop(k, None)
            node_hits.pop(k, None)
        elif code == 4:
            if after:
                fail("flush() left entries behind", step)
            ideal.clear()
            node_hits.clear()
        elif code == 5:
            mx = st[3]
            if mx != max(1, op[1]):
                fail("set_max_size did not clamp/set the limit", step)
            if len(after) != min(len(before), mx) or new:
                fail("set_max_size evicted more or fewer entries than needed", step)
            for g in gone:
                for k2 in after:
                    if last_use.get(g, -1) >= last_use.get(k2, -1):
                        fail("evicted an entry that was used more recently than one that was kept", step, evicted=g, kept=k2)
                ideal.pop(g, None)
                node_hits.pop(g, None)
        elif code == 6:
            k = op[1]
            want = ideal.get(k)
            exp = node_hits.get(k, 0) if (want is not None and want[1] > now and k in before) else 0
            if ret != exp:
                fail("get_hits_for_key is not the number of hits of the stored answer", step, ret=ret, want=exp)
            if gone or new:
                fail("get_hits_for_key changed the key set", step)
        elif code == 7:
            if ret != hits:
                fail("hits() is not the number of successful lookups", step, ret=ret, want=hits)
        elif code == 8:
            if ret != misses:
                fail("misses() is not the number of failed lookups", step, ret=ret, want=misses)
        elif code == 9:
            if ret != [hits, misses]:
                fail("statistics snapshot differs from the lookups counted", step, ret=ret, want=[hits, misses])
        elif code == 10:
            hits = misses = 0
        if code in (6, 7, 8, 9, 10, 11) and (gone or new):
            fail("a statistics call or the passage of time changed the key set", step)
        if not lru and code in (0, 1, 2, 12, 13, 6, 7, 8, 9, 10, 11):
            # the simple cache may drop entries while cleaning, but only expired ones
            for g in gone:
                w = ideal.get(g)
                if w is not None and w[1] > now and not (code in (1, 2, 12, 13) and g == op[1]):
                    fail("cleaning dropped an unexpired entry", step, key=g)
        sh, sm = (st[4], st[5]) if lru else (st[2], st[3])
        if [sh, sm] != [hits, misses]:
            fail("hit/miss counters do not account for every lookup exactly once", step, counters=[sh, sm], want=[hits, misses])
        if lru:
            # node hits on the ring
            for e in st[0]:
                if e[2] != node_hits.get(e[0], 0):
                    fail("node.hits differs from the hits since the answer was stored", step, key=e[0])
            # recency order on the ring = order of last use
            ks = [e[0] for e in st[0]]
            lu = [last_use.get(k, -1) for k in ks]
            if any(a <= b for a, b in zip(lu, lu[1:])):
                fail("ring order is not most-recently-used first", step, ring=ks, last_use=lu)
        prev_state = st
    return F


# ------------------------------------------------------------------ AST guard: methods_atomic
GUARDED = {
    "CacheBase": ["reset_statistics", "hits", "misses", "get_statistics_snapshot"],
    "Cache": ["get", "put", "flush"],
    "LRUCache": ["set_max_size", "get", "get_hits_for_key", "put", "flush"],
}


# ------------------------------------------------------------------ generated obligations (guard + skeletons)
_gen = {}


def expected_skeletons():
    """the constants of coq/Model/CacheSkel.v, for readable diffs in the log"""
    import re
    src = open(os.path.join(lib.COQ, "Model", "CacheSkel.v"), encoding="utf-8").read()
    out = {}
    for m in re.finditer(r"Definition (skel_\w+) : list string :=\s*\[(.*?)\]%string\.", src, re.S):
        out[m.group(1)] = [x.replace('""', '"') for x in re.findall(r'"((?:[^"]|"")*)"', m.group(2))]
    return out


def skel_ident(k):
    return "skel_" + k.replace(".", "_").replace("__init__", "init")


def ensure_generated(ctx):
    if _gen:
        return _gen
    r = c17_skel.read(lib.REPO)
    errors = list(r["errors"]) + ast_guard_callsites()
    exp = expected_skeletons()
    meths = ["MGet", "MPut", "MFlush", "MSetMax", "MHitsFor", "MHits", "MMisses", "MSnapshot", "MReset"]

    def table(classes, absent_ok=()):
        flags = {}
        for cname in classes:
            for name, ok in r["atomic"].get(cname, {}).items():
                flags[c17_skel.METH[name]] = ok
        lines = []
        for m in meths:
            v = flags.get(m, m in absent_ok)
            lines.append(f"  | {m} => {'true' if v else 'false'}")
        return "\n".join(lines), [m for m in meths if not flags.get(m, m in absent_ok)]

    lru_tbl, lru_bad = table(["CacheBase", "LRUCache"])
    cache_tbl, cache_bad = table(["CacheBase", "Cache"], absent_ok=("MSetMax", "MHitsFor"))
    thms = ["guard_ok_lru", "guard_ok_cache", "linearizable_lru_source", "linearizable_cache_source", "translation_closed"]
    predicted_bad = []
    if lru_bad:
        predicted_bad += ["guard_ok_lru", "linearizable_lru_source"]
    if cache_bad:
        predicted_bad += ["guard_ok_cache", "linearizable_cache_source"]
    if errors:
        predicted_bad.append("translation_closed")
    v = ["From Coq Require Import String.",
         "From DV Require Import Base.Prelude Model.CacheM Model.CacheSkel Proofs.CacheConc Proofs.CacheGuard.",
         f"(* regenerated from {lib.REPO}/dns/resolver.py by harness/c17_skel.py *)",
         "Definition src_atomic_lru (m : meth) : bool :=\n  match m with\n" + lru_tbl + "\n  end.",
         "Definition src_atomic_cache (m : meth) : bool :=\n  match m with\n" + cache_tbl + "\n  end.",
         "Theorem guard_ok_lru : forallb src_atomic_lru all_meths = true.\nProof. vm_compute. reflexivity. Qed.",
         "Theorem guard_ok_cache : forallb src_atomic_cache all_meths = true.\nProof. vm_compute. reflexivity. Qed."]
    for nm, stp, tbl in (("lru", "lru_step", "src_atomic_lru"), ("cache", "cache_step", "src_atomic_cache")):
        v.append(f"""Theorem linearizable_{nm}_source : forall s t0 ls g,
  gexec {stp} (fun c => {tbl} (meth_of c)) (ginit s t0) ls g ->
  exists ls' rs,
    ls = map GL ls' /\\ exec {stp} (init_conf s t0) ls' (fst g) /\\
    wrun {stp} (witness ls') (s, t0) = Ok (rs, (cf_obj (fst g), cf_now (fst g))) /\\
    forall t, thread_results t (witness_tid ls') rs = responses t ls' ++ pending (cf_ph (fst g) t).
Proof. exact (guarded_linearizable {stp} _ (guard_all _ guard_ok_{nm})). Qed.
Print Assumptions linearizable_{nm}_source.""")
    v.append("Definition src_translation_errors : list string := " + c17_skel.coq_skeleton(errors[:20]) + ".")
    v.append("Theorem translation_closed : src_translation_errors = []%list.\nProof. reflexivity. Qed.")
    diffs = []
    for k in sorted(set(r["skeletons"]) | {kk for kk in []}):
        ident = skel_ident(k)
        name = "skeleton_" + ident[5:]
        thms.append(name)
        v.append(f"Definition src_{ident} : list string :=\n  {c17_skel.coq_skeleton(r['skeletons'][k])}.")
        v.append(f"Theorem {name} : src_{ident} = {ident}.\nProof. reflexivity. Qed.")
        if exp.get(ident) != r["skeletons"][k]:
            predicted_bad.append(name)
            want = exp.get(ident, [])
            got = r["skeletons"][k]
            diffs.append(f"{k}: source statements differ from the modelled ones\n   model : " + " | ".join(x for x in want if x not in got)
                         + "\n   source: " + " | ".join(x for x in got if x not in want))
    for ident in sorted(exp):
        if ident not in {skel_ident(k) for k in r["skeletons"]}:
            name = "skeleton_" + ident[5:]
            thms.append(name)
            predicted_bad.append(name)
            v.append(f"Theorem {name} : ([] : list string) = {ident}.\nProof. reflexivity. Qed.")
            diffs.append(f"{ident}: method of the model is missing from the source")
    path = os.path.join(ctx.scratch, "GuardC17.v")
    with open(path, "w") as f:
        f.write("\n".join(v) + "\n")
    lib.coq_make(["Proofs/CacheGuard.vo", "Model/CacheSkel.vo"])
    rc, out, dt = lib.run_cmd(["coqc", "-Q", lib.COQ, "DV", "-Q", ctx.scratch, "Scratch", path], timeout=600)
    ok = rc == 0 and out.count("Closed under the global context") == 2
    if ok:
        discharged = len(thms)
    else:
        discharged = max(0, len(thms) - len(set(predicted_bad))) if predicted_bad else 0
    log = ""
    if not ok:
        log = "generated guard/skeleton obligations do not check (dns/resolver.py no longer has the shape the model assumes):\n"
        if lru_bad or cache_bad:
            log += f"  methods whose body is not a single `with self.lock:` block: LRUCache {lru_bad} Cache {cache_bad}\n"
        for e in errors[:10]:
            log += "  translator: " + e + "\n"
        for d in diffs[:10]:
            log += "  " + d + "\n"
        log += "  failing obligations: " + ", ".join(sorted(set(predicted_bad))) + "\n" + out[-1500:]
    _gen.update(ok=ok, obligations=len(thms), discharged=discharged, theorems=thms, log=log,
                info={"methods_checked": sum(len(x) for x in r["atomic"].values()), "skeletons": len(r["skeletons"]),
                      "not_atomic": {"LRUCache": lru_bad, "Cache": cache_bad}, "translator_errors": errors[:10],
                      "skeleton_diffs": diffs[:10], "coqc_s": round(dt, 2)})
    return _gen


def generated_obligations(ctx):
    g = ensure_generated(ctx)
    ctx.notes["ast_guard"] = "ok" if g["ok"] else g["info"]
    return {k: g[k] for k in ("ok", "obligations", "discharged", "theorems", "log", "info")}


def ast_guard_callsites():
    """private helpers that touch shared state are only called from the modelled classes"""
    path = os.path.join(lib.REPO, "dns", "resolver.py")
    try:
        tree = ast.parse(open(path, encoding="utf-8").read())
    except Exception as e:  # noqa
        return [f"dns/resolver.py does not parse: {e}"]
    problems = []
    allowed = {("Cache", m) for m in GUARDED["Cache"]} | {("LRUCache", m) for m in GUARDED["LRUCache"]}
    for cls in tree.body:
        if not isinstance(cls, ast.ClassDef):
            # module-level functions must not reach into a cache
            for node in ast.walk(cls):
                if isinstance(node, ast.Call) and isinstance(node.func, ast.Attribute) \
                        and node.func.attr in ("_maybe_clean", "link_after"):
                    problems.append(f"module level code calls {node.func.attr}")
            continue
        for fn in ast.walk(cls):
            if not isinstance(fn, ast.FunctionDef):
                continue
            for node in ast.walk(fn):
                if isinstance(node, ast.Call) and isinstance(node.func, ast.Attribute) \
                        and node.func.attr in ("_maybe_clean", "unlink", "link_after"):
                    if (cls.name, fn.name) not in allowed and cls.name != "LRUCacheNode":
                        problems.append(f"{cls.name}.{fn.name} calls {node.func.attr} outside the guarded methods")
    src = ast.unparse(next((c for c in tree.body if isinstance(c, ast.ClassDef) and c.name == "CacheBase"), ast.Module(body=[], type_ignores=[])))
    if "self.lock = threading.Lock()" not in src:
        problems.append("CacheBase.__init__ no longer creates self.lock = threading.Lock()")
    return problems


def extra(ctx):
    F = list(_gen_failures)
    del _gen_failures[:]
    # exhaustive small scope, oracle only
    import multiprocessing

    if ctx.quick:
        scopes = [(True, 1, 4, 3), (True, 2, 4, 3), (True, 3, 4, 3), (False, 0, 4, 3), (False, 2, 4, 3)]
    else:
        scopes = [(True, 1, 5, 3), (True, 2, 5, 3), (True, 3, 5, 3), (False, 0, 5, 3), (False, 2, 5, 3),
                  (True, 2, 6, 2), (False, 2, 6, 2)]
    tasks = []
    for lru, cfg, length, nkeys in scopes:
        for first in range(len(alphabet(lru, True, nkeys))):
            tasks.append((lru, cfg, length, nkeys, first))
    n = 0
    bad = []
    procs = 4 if ctx.quick else 8
    # every schedule (lock enter / exit / clock reads as scheduling points) of every small program
    if ctx.quick:
        cshapes = [(True, 2, (1, 1), False), (False, 2, (1, 1), False), (True, 2, (2, 1), True)]
    else:
        cshapes = [(True, 1, (1, 1), False), (True, 2, (1, 1), False), (False, 0, (1, 1), False), (False, 2, (1, 1), False),
                   (True, 2, (2, 1), False), (False, 2, (2, 1), False),
                   (True, 2, (1, 1, 1), False), (True, 1, (2, 2), False), (True, 2, (2, 1, 1), True)]
    ctasks = []
    for lru, cfg, shape, only in cshapes:
        total = len(CONC_ALPHABET[lru]) ** sum(shape)
        chunk = max(8, total // 24)
        for lo in range(0, total, chunk):
            ctasks.append((lru, cfg, shape, lo, lo + chunk, only))
    nconc = 0
    with multiprocessing.get_context("fork").Pool(procs) as pool:
        for k, b in pool.imap_unordered(scope_worker, tasks, chunksize=1):
            n += k
            bad += b
        for k, b in pool.imap_unordered(conc_worker, ctasks, chunksize=1):
            nconc += k
            for f in b:
                if len([x for x in F if x.get("case_kind") == "concurrent-exhaustive"]) < 2:
                    F.append(f)
    ctx.notes["exhaustive_concurrent"] = (
        f"every schedule (scheduling points: lock enter and lock exit; for more than 3 calls or 2 threads only the order in which waiting threads get the lock; the clock stands still) of every program over "
        f"get/put/flush(k)/flush()/set_max_size/get_hits_for_key/snapshot with thread shapes "
        + ", ".join(f"{'LRU' if l else 'Cache'}({c}){sh}{' last thread flushes or resizes' if o else ''}" for l, c, sh, o in cshapes)
        + f": {nconc} schedules, each compared with its lock-order witness run sequentially and checked by the sequential oracle")
    seen_sig = set()
    for f in bad:
        if f["what"] in seen_sig or len(seen_sig) >= 3:
            continue
        seen_sig.add(f["what"])
        small, sf = shrink(f["case"], f["what"])
        if sf is not None:
            sf = dict(sf)
            sf["case"] = small
            sf["case_kind"] = "small-scope"
            F.append(sf)
        else:
            F.append(f)
    ctx.notes["exhaustive"] = True
    ctx.notes["exhaustive_scope"] = (
        "every op sequence (every prefix observed, property oracle after every step) over get/put/flush(k) on K keys, "
        "flush(), set_max_size 1|2 (LRU), clock+2; LRUCache max_size 1..3, Cache interval 0|2; "
        + ("length 4 with K=3" if ctx.quick else "length 5 with K=3, and length 6 with K=2 for LRUCache(2) and Cache(2)")
        + f": {n} histories")
    ctx.notes["extra_evaluations"] = n + nconc
    ctx.notes["extra_nontrivial"] = n + nconc
    return F
