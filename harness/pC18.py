"""C18 - a network exchange returns only a genuine response; stream framing is exact.

Implementation side: dns.query / dns.asyncquery udp, receive_udp, tcp, receive_tcp, send_tcp,
_net_read, _net_write, _matches_destination and dns.message.Message.is_response, driven through the
public `sock` parameters by scripted socket objects.  The real dns.query._wait_for runs against a
scripted selector and clock (dns.query.selectors / dns.query.time are rebound to the fakes below).
Model side: coq/Model/NetM.v (`NetM.run`).  The oracle is written from the property text and looks at
implementation outputs only.
"""
import asyncio
import ipaddress
import itertools
import socket
import struct

import dns._asyncbackend
import dns.asyncquery
import dns.exception
import dns.flags
import dns.message
import dns.name
import dns.query
import dns.renderer
import dns.tsig
import dns.rrset

from lib import Err

ID = "C18"
COQ_IMPORTS = "From DV Require Import Model.NetM."
COQ_RUN = "NetM.run"
CASE_TIMEOUT = 30.0
TRUSTED = [
    "model: coq/Model/NetM.v (is_response, _addresses_equal/_matches_destination, inet_pton/is_multicast, the end of from_wire, _wait_for, receive_udp/_udp_recv, udp, _net_read, _net_write, send_tcp, receive_tcp, tcp)",
    "scripted sockets / selector / clock of harness/pC18.py stand for the operating system: one script event per socket call; for dns.asyncquery the scripted backend socket implements the deadline the way dns.query._wait_for does",
    "dns.message.from_wire is abstract in the model: per wire string the harness supplies (short?, header+question, section error, trailing?) by construction of the datagram (or, for random octets, by probing from_wire with fixed options); the model derives the outcome for the option combination at hand",
    "address text -> binary (dns.ipv4/dns.ipv6 inet_aton) is abstract: the harness supplies the binary forms computed with the standard library's ipaddress module",
]
RULE = "cases = structured scripts of socket events (datagrams built field by field, chunkings, would-block, EOF, deadlines) x option combinations, drawn from one PRNG seeded by VERIF_SEED, plus exhaustive chunkings of short streams; distinct = distinct canonical case; non-trivial = every case (each is a complete exchange with a defined outcome)"
ASSUMPTIONS = [
    "a socket call consumes exactly one script event; time advances only while waiting in the selector",
]

# ------------------------------------------------------------------ scripted OS


class ScriptEnd(BaseException):
    """The script is exhausted and there is no deadline: the real call would block forever."""


class Livelock(BaseException):
    """The code under test keeps polling a socket whose script ended long ago."""


SPIN_LIMIT = 5000


class _Clock:
    now = 0


CLOCK = _Clock()


class _FakeTime:
    @staticmethod
    def time():
        return float(CLOCK.now)


EV_READ = 1
EV_WRITE = 2


class _FakeSelector:
    def __enter__(self):
        return self

    def __exit__(self, *a):
        return False

    def register(self, fd, events):
        self.fd = fd
        self.events = events

    def select(self, timeout):
        self.fd.spins = getattr(self.fd, "spins", 0) + 1
        if self.fd.spins > SPIN_LIMIT:
            raise Livelock()
        direction, dt = self.fd.pending
        if not (self.events & direction):
            dt = None  # waiting for the wrong kind of readiness: never satisfied
        if timeout is None:
            if dt is None:
                raise ScriptEnd()
            CLOCK.now += dt
            return [1]
        if dt is not None and dt < timeout:
            CLOCK.now += dt
            return [1]
        CLOCK.now += timeout
        return []


class _FakeSelectors:
    EVENT_READ = EV_READ
    EVENT_WRITE = EV_WRITE
    DefaultSelector = _FakeSelector


def install():
    dns.query.time = _FakeTime
    dns.query.selectors = _FakeSelectors
    dns.asyncquery.time = _FakeTime
    dns.message.time = _FakeTime  # TSIG signing / validation time follows the scripted clock
    dns.renderer.time = _FakeTime


install()


def _async_wait(exp, dt):
    """What the scripted async backend does while waiting: same rule as dns.query._wait_for."""
    now = CLOCK.now
    if exp is None:
        if dt is None:
            raise ScriptEnd()
        CLOCK.now += dt
        return
    t = exp - now
    if t <= 0:
        raise dns.exception.Timeout
    if dt is None or dt >= t:
        CLOCK.now += t
        raise dns.exception.Timeout
    CLOCK.now += dt


def where_text(a):
    """the `where` argument for an address tuple: the zone index goes into the text"""
    t = a[3].decode("latin-1")
    return t + "%" + str(a[2][2]) if len(a[2]) == 3 and a[2][2] else t


def addr_tuple(a):
    return (a[3].decode("latin-1"), *a[2])


class USock:
    """sync datagram socket"""

    def __init__(self, af, sevs, evs):
        self.family = af
        self.sevs = list(sevs)
        self.evs = list(evs)
        self.consumed = 0
        self.sent = []
        self.pending = (0, None)

    def recvfrom(self, n):
        if not self.evs:
            self.pending = (EV_READ, None)
            raise BlockingIOError
        ev = self.evs.pop(0)
        self.consumed += 1
        if ev[0] == 0:
            return (ev[1][:n], addr_tuple(ev[2]))  # a datagram longer than the buffer is cut, as by the OS
        self.pending = (EV_READ, ev[1])
        raise BlockingIOError

    def sendto(self, data, dest):
        if not self.sevs:
            self.sent.append((bytes(data), dest))
            return len(data)
        ev = self.sevs.pop(0)
        if ev[0] == 0:
            self.sent.append((bytes(data), dest))
            return ev[1]
        self.pending = (EV_WRITE, ev[1])
        raise BlockingIOError

    def send(self, data):
        return self.sendto(data, None)


class AUSock(dns._asyncbackend.DatagramSocket):
    """async datagram socket (dns.asyncbackend.DatagramSocket interface)"""

    def __init__(self, af, sevs, evs):
        super().__init__(af, socket.SOCK_DGRAM)
        self.family = af
        self.sevs = list(sevs)
        self.evs = list(evs)
        self.consumed = 0
        self.sent = []

    async def recvfrom(self, size, timeout):
        exp = None if timeout is None else CLOCK.now + timeout
        while True:
            if not self.evs:
                _async_wait(exp, None)
            ev = self.evs.pop(0)
            self.consumed += 1
            if ev[0] == 0:
                return (ev[1][:size], addr_tuple(ev[2]))
            _async_wait(exp, ev[1])

    async def sendto(self, what, destination, timeout):
        exp = None if timeout is None else CLOCK.now + timeout
        while True:
            if not self.sevs:
                self.sent.append((bytes(what), destination))
                return len(what)
            ev = self.sevs.pop(0)
            if ev[0] == 0:
                self.sent.append((bytes(what), destination))
                return ev[1]
            _async_wait(exp, ev[1])


class TSock:
    """sync stream socket"""

    def __init__(self, stream, revs, wevs):
        self.stream = bytes(stream)
        self.revs = list(revs)
        self.wevs = list(wevs)
        self.sent = b""
        self.pending = (0, None)

    def recv(self, count):
        if not self.revs:
            d = self.stream[:count]
            self.stream = self.stream[len(d):]
            return d
        ev = self.revs.pop(0)
        if ev[0] == 0:
            d = self.stream[: min(ev[1], count)]
            self.stream = self.stream[len(d):]
            return d
        if ev[0] == 1:
            self.pending = (EV_READ, ev[1])
            raise BlockingIOError
        if ev[0] == 3:  # TLS layer needs to read first
            self.pending = (EV_READ, ev[1])
            raise dns.query.ssl.SSLWantReadError
        if ev[0] == 4:  # TLS layer needs to write first (renegotiation)
            self.pending = (EV_WRITE, ev[1])
            raise dns.query.ssl.SSLWantWriteError
        return b""

    def send(self, buf):
        if not self.wevs:
            self.sent += bytes(buf)
            return len(buf)
        ev = self.wevs.pop(0)
        if ev[0] == 0:
            k = min(ev[1], len(buf))
            self.sent += bytes(buf[:k])
            return k
        if ev[0] == 3:
            self.pending = (EV_READ, ev[1])
            raise dns.query.ssl.SSLWantReadError
        if ev[0] == 4:
            self.pending = (EV_WRITE, ev[1])
            raise dns.query.ssl.SSLWantWriteError
        self.pending = (EV_WRITE, ev[1])
        raise BlockingIOError


class ATSock(dns._asyncbackend.StreamSocket):
    """async stream socket (dns.asyncbackend.StreamSocket interface)"""

    def __init__(self, stream, revs, wevs):
        super().__init__(socket.AF_INET, socket.SOCK_STREAM)
        self.stream = bytes(stream)
        self.revs = list(revs)
        self.wevs = list(wevs)
        self.sent = b""

    async def getpeername(self):
        return ("10.0.0.53", 53)

    async def recv(self, size, timeout):
        exp = None if timeout is None else CLOCK.now + timeout
        while True:
            if not self.revs:
                d = self.stream[:size]
                self.stream = self.stream[len(d):]
                return d
            ev = self.revs.pop(0)
            if ev[0] == 0:
                d = self.stream[: min(ev[1], size)]
                self.stream = self.stream[len(d):]
                return d
            if ev[0] == 2:
                return b""
            _async_wait(exp, ev[1])

    async def sendall(self, what, timeout):
        exp = None if timeout is None else CLOCK.now + timeout
        data = bytes(what)
        while data:
            if not self.wevs:
                self.sent += data
                return
            ev = self.wevs.pop(0)
            if ev[0] == 0:
                k = min(ev[1], len(data))
                self.sent += data[:k]
                data = data[k:]
            else:
                _async_wait(exp, ev[1])


_LOOP = None


def run_async(coro):
    global _LOOP
    if _LOOP is None:
        _LOOP = asyncio.new_event_loop()
    return _LOOP.run_until_complete(coro)


# ------------------------------------------------------------------ codes


def exc_code(e):
    M = dns.message
    X = dns.exception
    table = [
        (ScriptEnd, 98),
        (Livelock, 93),
        (X.Timeout, 1),
        (dns.query.UnexpectedSource, 2),
        (dns.query.BadResponse, 3),
        (M.Truncated, 4),
        (M.ShortHeader, 5),
        (M.TrailingJunk, 6),
        (M.BadEDNS, 8),
        (M.BadTSIG, 9),
        (X.FormError, 7),
        (M.UnknownTSIGKey, 10),
        (X.DNSException, 11),
        (EOFError, 12),
        (OverflowError, 21),
        (ValueError, 22),
        (NotImplementedError, 23),
    ]
    for cls, code in table:
        if isinstance(e, cls):
            return Err(code, type(e).__name__)
    return Err(99, type(e).__name__ + ":" + str(e)[:60])


FORMERR_CODES = (3, 5, 6, 7, 8, 9)

# ------------------------------------------------------------------ messages


def abs_of_message(m):
    return [
        m.id,
        int(m.flags),
        int(m.ednsflags),
        [[list(rr.name.labels), int(rr.rdclass), int(rr.rdtype)] for rr in m.question],
    ]


def message_of_abs(a, response=False):
    """A real Message object with the given header fields and question (used for the query and,
    in the is_response cases, for the response)."""
    mid, flags, edns, qs = a[:4]
    m = dns.message.QueryMessage(id=mid)
    m.flags = dns.flags.Flag(flags)
    for labels, c, t in qs:
        m.question.append(dns.rrset.RRset(dns.name.Name(labels), c, t))
    if edns:
        m.use_edns(0, ednsflags=edns)
    if len(a) > 4 and a[4]:
        m.use_tsig(KEYRINGS[a[4]], KEYNAME)
    return m


KEYNAME = dns.name.from_text("key.example.")
KEYRINGS = {
    1: {KEYNAME: dns.tsig.Key(KEYNAME, b"0123456789abcdef0123456789abcdef", "hmac-sha256")},
    2: {KEYNAME: dns.tsig.Key(KEYNAME, b"another-secret-another-secret-00", "hmac-sha256")},
}
OTHERKEY = dns.name.from_text("other.example.")
KEYRINGS[3] = {OTHERKEY: dns.tsig.Key(OTHERKEY, b"0123456789abcdef0123456789abcdef", "hmac-sha256")}


def signed_reply(q, now, variant):
    """A reply to the TSIG-signed query q (abstract, key 1), rendered and signed by dnspython
    itself at scripted time `now`; returns (wire, pabs)."""
    CLOCK.now = now
    qm = message_of_abs(q)
    qm.to_wire()
    r = dns.message.make_response(qm)
    owner = qm.question[0].name if qm.question else dns.name.root
    r.answer.append(dns.rrset.from_text(owner, 300, "IN", "A", "10.0.0.7"))
    err = None
    if variant == "otherkey":
        r.use_tsig(KEYRINGS[2], KEYNAME)
        r.request_mac = qm.mac
        err = 11
    elif variant == "unknownkey":
        r.use_tsig(KEYRINGS[3], OTHERKEY)
        r.request_mac = qm.mac
        err = 11  # the query's keyring is the single Key object: a different owner name is dns.tsig.BadKey
    elif variant == "latesig":
        CLOCK.now = now + 5000
        err = 11
    wire = r.to_wire()
    CLOCK.now = now
    if variant == "badmac":
        b = bytearray(wire)
        b[-10] ^= 0x40
        wire = bytes(b)
        err = 11
    elif variant == "forged_id":
        b = bytearray(wire)
        b[1] ^= 1
        wire = bytes(b)
        # the MAC covers the *original* id kept in the TSIG record, so the signature still verifies;
        # the message is simply not a response to this query any more
        return wire, [0, [r.id ^ 1, int(r.flags), 0, q[3]], None, 0]
    elif variant == "unsigned_requestmac":
        # signed as if it answered a different request
        r2 = dns.message.make_response(qm)
        r2.answer = r.answer
        r2.request_mac = b"\x00" * 32
        wire = r2.to_wire()
        err = 11
    return wire, [0, [r.id, int(r.flags), 0, q[3]], err, 0]


SIGNED_VARIANTS = ["good", "good", "good", "badmac", "otherkey", "unknownkey", "latesig", "forged_id", "unsigned_requestmac"]


def tsig_cases(ctx, rng):
    """exchanges whose query is TSIG-signed: udp()/tcp() must hand the keyring and the request MAC
    to the parser, so that the properly signed reply is returned and the others are not"""
    for i in range(ctx.n(40, 300)):
        q = gen_query(rng)
        while (q[1] >> 11) & 15 == 5 or not q[3]:
            q = gen_query(rng)
        q = [q[0], q[1], 0, q[3][:1], 1]  # one question: name compression may change the case of later ones
        now = rng.choice([0, 500])
        port = 53
        dest = mk_addr("10.0.0.53", port)
        evs, tab = [], {}
        for j in range(rng.choice([1, 1, 2, 3])):
            if rng.random() < 0.2:
                evs.append([1, rng.choice([0, 1, 2, 5])])
            v = rng.choice(SIGNED_VARIANTS)
            wire, pabs = signed_reply(q, now, v)
            ctx.count("dgram:signed/" + v)
            tab[wire] = pabs
            evs.append([0, wire, dest if rng.random() < 0.9 else mk_addr("10.0.0.54", port)])
        CLOCK.now = now
        qwire = message_of_abs(q).to_wire()
        opts_list = rng.sample(OPTS, 6)
        timeout = rng.choice([None, 20])
        tabl = [[w, a] for w, a in tab.items()]
        yield "udp_tsig", [5, q, qwire, dest, timeout, socket.AF_INET, opts_list, [], tabl, evs, now]
        # the same replies over TCP, one exchange per reply
        w0 = evs[-1][1]
        stream = struct.pack("!H", len(w0)) + w0
        revs = sprinkle(rng, [[0, rng.choice([1, 3, 50, 1000])] for _ in range(rng.randrange(6))], "r", 0.1)
        yield "tcp_tsig", [9, q, qwire, timeout, 0, [], stream, revs, tabl, now]




def wname(labels):
    return b"".join(bytes([len(l)]) + l for l in labels)


def rr(labels, rdtype, rdclass, ttl, rdata, rdlen=None):
    return wname(labels) + struct.pack("!HHIH", rdtype, rdclass, ttl, len(rdata) if rdlen is None else rdlen) + rdata


A_RR = lambda owner, last: rr(owner, 1, 1, 300, bytes([10, 0, 0, last]))
TSIG_RDATA = wname([b"hmac-sha256", b""]) + b"\x00" * 6 + struct.pack("!HH", 300, 4) + b"abcd" + struct.pack("!HHH", 1, 0, 0)

BODIES = ["ok", "ok", "ok", "ok", "cut_rdata", "count_over", "q_cut", "opt_in_answer", "tsig_nokey", "tsig_notlast", "bad_rdlen", "bad_label", "short"]


def build_dgram(mid, flags, qs, body="ok", nans=1, opt=None, trailing=b"", tag=0):
    """Build a datagram field by field.  Returns (wire, pabs) where pabs =
    [short, [id, flags, ednsflags, question as parsed], err or None, trailing] is what a correct
    parser is expected to find (dns.message.from_wire is compared with it in the `fromwire` cases)."""
    opcode = (flags >> 11) & 15
    if opcode == 5 and not qs and body != "short":
        # an update without a zone entry: every later record is a FormError; keep to the bare header (+ OPT)
        body, nans = "ok", 0
    owner = qs[0][0] if qs else [b"x", b""]
    qwires = [wname(n) + struct.pack("!HH", t, c) for n, c, t in qs]
    answers = [A_RR(owner, (tag + i) % 250 + 1) for i in range(nans)]
    additional = []
    err = None
    edns = 0
    parsed_qs = [list(x) for x in qs]
    ancount = None
    # what the question section yields
    if opcode == 5:
        # dns.update.UpdateMessage: the zone section is exactly one SOA of a data class
        parsed_qs = []
        for n, c, t in qs:
            if c in (254, 255) or t != 6 or parsed_qs:
                err = 7
                break
            parsed_qs.append([n, c, t])
    if body == "bad_label" and qs:
        qwires[-1] = b"\x80" + qwires[-1]
        if err is None:
            err = 7
            parsed_qs = parsed_qs[: len(qs) - 1]
    if err is not None:
        # reading stopped inside the question section; nothing after it matters
        body = "ok" if body not in ("short",) else body
        opt = None
    if opt is not None and body in ("ok", "tsig_nokey", "bad_rdlen"):
        additional.append(rr([b""], 41, 1232, opt, b""))
    if body == "opt_in_answer":
        answers = [rr([b""], 41, 1232, 0, b"")] + answers
        if err is None:
            err = 8
    elif body == "tsig_nokey":
        additional.append(rr([b"key", b""], 250, 255, 0, TSIG_RDATA))
        if err is None:
            err = 10
            edns = opt if opt is not None else 0
    elif body == "tsig_notlast":
        additional.append(rr([b"key", b""], 250, 255, 0, TSIG_RDATA))
        additional.append(A_RR(owner, 9))
        if err is None:
            err = 9
    elif body == "bad_rdlen":
        answers = answers + [rr(owner, 1, 1, 300, b"\x0a\x00\x00", 3)]
        if err is None:
            err = 7
    elif body == "count_over":
        ancount = len(answers) + 1
        if err is None:
            err = 7
    elif body == "cut_rdata":
        if not answers:
            answers = [A_RR(owner, 7)]
        if err is None:
            err = 7
    elif body == "ok" and err is None:
        edns = opt if opt is not None else 0
    hdr = struct.pack(
        "!HHHHHH", mid, flags, len(qs), len(answers) if ancount is None else ancount, 0, len(additional)
    )
    wire = hdr + b"".join(qwires) + b"".join(answers) + b"".join(additional)
    if body == "cut_rdata":
        wire = wire[:-2]
        trailing = b""
    elif body == "count_over":
        trailing = b""
    elif body == "q_cut" and qs:
        wire = hdr + b"".join(qwires[:-1]) + qwires[-1][:-3]
        trailing = b""
        if err is None or opcode == 5:
            # the cut entry is never completed; an update's earlier verdict on a complete entry stands
            if not (opcode == 5 and err is not None and len(parsed_qs) < len(qs) - 1):
                err = 7
                parsed_qs = parsed_qs[: len(qs) - 1]
            edns = 0
    elif body == "q_cut":
        pass
    if body == "short":
        wire = wire[: tag % 12]
        return wire, [1, [0, 0, 0, []], None, 0]
    if err is not None and err != 10:
        edns = 0
    wire += trailing
    if err is not None:
        trail = 0
    else:
        trail = 1 if trailing else 0
    return wire, [0, [mid, flags, edns, parsed_qs], err, trail]


def probe_abs(wire):
    """pabs of arbitrary octets, by probing dns.message.from_wire with fixed options."""
    M = dns.message
    if len(wire) < 12:
        return [1, [0, 0, 0, []], None, 0]
    mid, flags = struct.unpack("!HH", wire[:4])
    try:
        m = M.from_wire(wire, ignore_trailing=True)
    except Exception as e:  # noqa
        code = exc_code(e).code
        pm = [mid, flags, 0, []]
        if code in FORMERR_CODES and flags & 0x200:
            try:
                M.from_wire(wire, ignore_trailing=True, raise_on_truncation=True)
            except M.Truncated as t:
                pm = abs_of_message(t.message())
            except Exception:  # noqa
                pass
        return [0, pm, code, 0]
    trailing = 0
    try:
        M.from_wire(wire)
    except M.TrailingJunk:
        trailing = 1
    except Exception:  # noqa
        pass
    return [0, abs_of_message(m), None, trailing]


# ------------------------------------------------------------------ addresses

ADDR_TEXTS = [
    "10.0.0.53", "10.0.0.54", "10.0.0.53", "224.0.0.251", "239.1.2.3", "240.0.0.1", "223.255.255.255",
    "2001:db8::53", "2001:DB8:0:0:0:0:0:53", "2001:db8::54", "ff02::fb", "fe80::1", "::ffff:10.0.0.53",
    "bogus", "10.0.0", "10.0.0.256",
]


def mk_addr(text, port, flow=0, scope=0):
    v4 = v6 = None
    try:
        v4 = ipaddress.IPv4Address(text).packed
    except Exception:  # noqa
        pass
    try:
        v6 = ipaddress.IPv6Address(text).packed
    except Exception:  # noqa
        pass
    rest = [port] if (v6 is None) else [port, flow, scope]
    return [v4, v6, rest, text.encode("latin-1")]


def af_of(a):
    return socket.AF_INET if a[0] is not None else socket.AF_INET6


def source_ok(af, frm, dest):
    """Property text: the reply arrived from the queried address and port (binary compare in the
    socket's family); a multicast destination is answered from any address, same port."""
    if dest is None:
        return True
    i = 0 if af == socket.AF_INET else 1
    if frm[i] is not None and dest[i] is not None and frm[i] == dest[i] and frm[2] == dest[2]:
        return True
    b = dest[0] if dest[0] is not None else dest[1]
    mc = b is not None and ((len(b) == 4 and 224 <= b[0] <= 239) or (len(b) == 16 and b[0] == 255))
    return bool(mc and frm[2] == dest[2])


# ------------------------------------------------------------------ property predicates (independent)


def canon_qs(qs):
    return {(tuple(bytes(l).lower() for l in n), c, t) for n, c, t in qs}


def genuine(q, r):
    """Is r (abstract [id, flags, ednsflags, question]) a response to q per the property text
    and the documented leniencies of Message.is_response?"""
    if not (r[1] & 0x8000):
        return False
    if q[0] != r[0]:
        return False
    if (q[1] >> 11) & 15 != (r[1] >> 11) & 15:
        return False
    rcode = (r[1] & 15) | ((r[2] >> 20) & 0xFF0)
    if rcode in (1, 2, 4, 5) and not r[3]:
        return True
    if (q[1] >> 11) & 15 == 5:
        return True
    return canon_qs(q[3]) == canon_qs(r[3])


def deadline_reachable(now, deadline, *scripts):
    """Can the would-blocks of these scripts add up to the deadline at all?  (block events are
    [1, dt]; dt None never ends).  If not, a Timeout is never justified."""
    total = 0
    for evs in scripts:
        for e in evs:
            if is_block(e):
                if e[1] is None:
                    return True
                total += e[1]
    return deadline - now <= 0 or total >= deadline - now


def expected_parse(pabs, it, rot):
    """('ok', m) | ('trunc', m) | ('err', code) - from the construction of the datagram."""
    short, m, err, trailing = pabs
    if short:
        return ("err", 5)
    tc = bool(m[1] & 0x200)
    if err is None and trailing and not it:
        err = 6
    if err is not None:
        if err in FORMERR_CODES and tc and rot:
            return ("trunc", m)
        return ("err", err)
    if tc and rot:
        return ("trunc", m)
    return ("ok", m)


# ------------------------------------------------------------------ generators

NAMES = [
    [b"www", b"example", b""],
    [b"WWW", b"Example", b""],
    [b"example", b""],
    [b"mail", b"example", b""],
    [b""],
    [b"a" * 63, b"b", b""],
]


def flip_case(rng, n):
    return [bytes((c ^ 0x20) if (65 <= (c & ~0x20) <= 90 and rng.random() < 0.5) else c for c in l) for l in n]


def gen_query(rng):
    op = rng.choice([0, 0, 0, 0, 0, 4, 5, 2])
    flags = (op << 11) | rng.choice([0, 0x100, 0x110, 0x20])
    n = rng.choice(NAMES)
    if op == 5:
        qs = [[n, 1, 6]]
    else:
        qs = [[n, rng.choice([1, 1, 3, 255]), rng.choice([1, 1, 28, 15, 255, 6])]]
        if rng.random() < 0.12:
            qs.append([rng.choice(NAMES), 1, rng.choice([1, 28])])
        if rng.random() < 0.04:
            qs = []
    edns = rng.choice([0, 0, 0, 0x8000])
    return [rng.randrange(65536), flags, edns, qs]


def mutate_response(rng, q, forge=None):
    """Header and question of a datagram related to q: genuine or forged in one way."""
    mid, qflags, _, qs = q
    qs = [list(x) for x in qs]
    flags = 0x8000 | (qflags & 0x7900) | rng.choice([0, 0x80, 0x480, 0x400])
    kind = forge or rng.choice(
        ["genuine"] * 6
        + ["id", "noqr", "opcode", "qname", "qcase", "qtype", "qclass", "qextra", "qempty", "qdup", "rcode", "rcode_empty", "tc", "tc_forged"]
    )
    opt = None
    if kind == "id":
        mid = (mid + rng.choice([1, 255, 256, 32768])) % 65536
    elif kind == "noqr":
        flags &= 0x7FFF
    elif kind == "opcode":
        flags = (flags & ~0x7800) | (rng.choice([x for x in (0, 1, 2, 4, 5, 6, 15) if x != (qflags >> 11) & 15]) << 11)
    elif kind == "qname" and qs:
        qs[0][0] = rng.choice([n for n in NAMES if canon_qs([[n, 0, 0]]) != canon_qs([[qs[0][0], 0, 0]])])
    elif kind == "qcase" and qs:
        qs = [[flip_case(rng, n), c, t] for n, c, t in qs]
    elif kind == "qtype" and qs:
        qs[0][2] = qs[0][2] % 250 + 1
    elif kind == "qclass" and qs:
        qs[0][1] = qs[0][1] % 250 + 1
    elif kind == "qextra":
        qs.append([rng.choice(NAMES), 1, 16])
    elif kind == "qempty":
        qs = []
    elif kind == "qdup" and qs:
        qs = qs + [[flip_case(rng, qs[0][0]), qs[0][1], qs[0][2]]]
    elif kind == "rcode":
        flags |= rng.choice([1, 2, 3, 4, 5, 9])
        if rng.random() < 0.4:
            opt = rng.choice([1 << 24, 0x8000, (1 << 24) | 0x8000])
    elif kind == "rcode_empty":
        flags |= rng.choice([1, 2, 3, 4, 5, 0])
        qs = []
        if rng.random() < 0.4:
            opt = rng.choice([1 << 24, 0x8000])
    elif kind == "tc":
        flags |= 0x200
    elif kind == "tc_forged":
        flags |= 0x200
        mid = (mid + 1) % 65536
    if forge is None and rng.random() < 0.25:
        # a second, independent alteration (e.g. an error rcode together with a foreign question)
        k2 = rng.choice(["rcode", "rcode", "qname", "qtype", "qextra", "qempty", "id", "opcode"])
        if k2 == "rcode":
            flags = (flags & ~0xF) | rng.choice([1, 2, 4, 5, 3])
        elif k2 == "qname" and qs:
            qs[0][0] = rng.choice([n for n in NAMES if canon_qs([[n, 0, 0]]) != canon_qs([[qs[0][0], 0, 0]])])
        elif k2 == "qtype" and qs:
            qs[0][2] = qs[0][2] % 250 + 1
        elif k2 == "qextra":
            qs.append([rng.choice(NAMES), 1, 16])
        elif k2 == "qempty":
            qs = []
        elif k2 == "id":
            mid = (mid + 1) % 65536
        elif k2 == "opcode":
            flags ^= 0x0800
        kind += "+" + k2
    if rng.random() < 0.08:
        flags |= 0x200
    if opt is None and rng.random() < 0.15:
        opt = rng.choice([0, 0x8000, 1 << 24])
    return mid, flags, qs, opt, kind


def gen_dgram(rng, q, tag):
    mid, flags, qs, opt, kind = mutate_response(rng, q)
    body = rng.choice(BODIES)
    trailing = bytes(rng.randrange(256) for _ in range(rng.choice([0, 0, 0, 0, 1, 3])))
    nans = rng.choice([0, 1, 1, 2]) if rng.random() < 0.94 else rng.choice([40, 150])  # now and then a large datagram
    wire, pabs = build_dgram(mid, flags, qs, body, nans, opt, trailing, tag)
    return wire, pabs, kind + "/" + body


def garbage(rng, base):
    r = rng.random()
    if r < 0.3:
        return bytes(rng.randrange(256) for _ in range(rng.choice([0, 3, 11, 12, 13, 20, 40])))
    b = bytearray(base)
    if r < 0.7 and b:
        for _ in range(rng.choice([1, 1, 2, 4])):
            b[rng.randrange(len(b))] ^= 1 << rng.randrange(8)
        return bytes(b)
    return bytes(b[: rng.randrange(len(b) + 1)])


def gen_dt(rng):
    return rng.choice([0, 1, 1, 2, 3, 5, 10, None])


OPTS = [list(t) for t in itertools.product([0, 1], repeat=5)]


def gen_udp_script(ctx, rng, nmax=8):
    """query, destination, events, parse table"""
    q = gen_query(rng)
    v6 = rng.random() < 0.3
    if rng.random() < 0.12:
        dest_text = rng.choice(["224.0.0.251", "ff02::fb"])
        v6 = ":" in dest_text
    else:
        dest_text = rng.choice(["2001:db8::53", "2001:DB8:0:0:0:0:0:53"]) if v6 else "10.0.0.53"
    port = rng.choice([53, 5353])
    dest = mk_addr(dest_text, port, 0, 0)
    good_from = [mk_addr(t, port) for t in (["2001:db8::53", "2001:DB8:0:0:0:0:0:53"] if v6 else ["10.0.0.53"])]
    scoped = v6 and dest_text.startswith("2001") and rng.random() < 0.25
    if scoped:
        # link-local destination with a zone index: udp() is called with "fe80::1%3"
        dest = mk_addr("fe80::1", port, 0, 3)
        good_from = [mk_addr("fe80::1", port, 0, 3), mk_addr("FE80:0::1", port, 0, 3)]
    if dest_text in ("224.0.0.251", "ff02::fb"):
        good_from = [mk_addr("2001:db8::99" if v6 else "10.9.9.9", port)]
    bad_from = (
        [mk_addr("2001:db8::54", port), mk_addr("2001:db8::53", port + 1), mk_addr("2001:db8::53", port, 0, 7), mk_addr("10.0.0.53", port)]
        if v6
        else [mk_addr("10.0.0.54", port), mk_addr("10.0.0.53", port + 1), mk_addr("2001:db8::53", port), mk_addr("bogus", port)]
    )
    if scoped:
        bad_from = [mk_addr("fe80::1", port, 0, 0), mk_addr("fe80::1", port, 0, 4), mk_addr("fe80::2", port, 0, 3), mk_addr("fe80::1", port, 1, 3)]
    evs = []
    tab = {}
    n = rng.choice([0, 1, 1, 1, 2, 2, 3, 3, 4, 5, 6, nmax])
    for i in range(n):
        r = rng.random()
        if r < 0.18:
            evs.append([1, gen_dt(rng)])
            continue
        wire, pabs, kind = gen_dgram(rng, q, i)
        if r < 0.28:
            wire = garbage(rng, wire)
            pabs = probe_abs(wire)
            kind = "garbage"
        frm = rng.choice(good_from) if rng.random() < 0.75 else rng.choice(bad_from)
        tab[wire] = pabs
        evs.append([0, wire, frm])
        ctx.count("dgram:" + kind)
    return q, dest, evs, [[w, a] for w, a in tab.items()], v6


def compositions(n):
    """all ways to split n octets into positive chunks"""
    if n == 0:
        yield []
        return
    for first in range(1, n + 1):
        for rest in compositions(n - first):
            yield [first] + rest


def small_msg(rng, q=None, forge=None):
    q = q or gen_query(rng)
    mid, flags, qs, opt, kind = mutate_response(rng, q, forge)
    body = rng.choice(["ok", "ok", "ok", "cut_rdata", "bad_rdlen", "short"]) if forge is None else "ok"
    trailing = b"\x00" if (forge is None and rng.random() < 0.1) else b""
    wire, pabs = build_dgram(mid, flags, qs, body, rng.choice([0, 1]), opt, trailing, rng.randrange(250))
    return q, wire, pabs


def is_block(e):
    """would-block class events: BlockingIOError (1), ssl.SSLWantReadError (3), ssl.SSLWantWriteError (4)"""
    return e[0] in (1, 3, 4)


def sprinkle(rng, evs, kind, p_block=0.2, p_eof=0.0):
    """insert would-block (and EOF) events into a chunk script"""
    out = []
    for e in evs:
        while rng.random() < p_block:
            out.append([rng.choice([1, 1, 1, 3, 4] if kind == "r" else [1, 1, 1, 4, 3]), gen_dt(rng)])
        out.append(e)
    if rng.random() < p_eof:
        out.insert(rng.randrange(len(out) + 1), [2])
    return out


def cases(ctx):
    rng = ctx.rng
    # ---- is_response
    for _ in range(ctx.n(300, 4000)):
        q = gen_query(rng)
        mid, flags, qs, opt, kind = mutate_response(rng, q)
        ctx.count("isresp:" + kind)
        yield "isresp", [1, q, [mid, flags, opt or 0, qs]]
    # ---- is_response: small scope, exhaustively: every response opcode x rcode 0..6 (x extended
    #      rcode bit) x question same / empty / other / superset, for a QUERY and an UPDATE query;
    #      plus QR clear and foreign id for each opcode
    n0 = [b"www", b"example", b""]
    for qop, qq in ((0, [[n0, 1, 1]]), (5, [[[b"example", b""], 1, 6]])):
        q = [0x2222, (qop << 11) | 0x100, 0, qq]
        variants = [qq, [], [[[b"other", b""], qq[0][1], qq[0][2]]], qq + [[[b"x", b""], 1, 16]]]
        for rop in range(16):
            base = 0x8000 | (rop << 11)
            yield "isresp_exh", [1, q, [0x2222, base & 0x7FFF, 0, qq]]
            yield "isresp_exh", [1, q, [0x2223, base, 0, qq]]
            for rc in range(7):
                for ext in (0, 1 << 24):
                    for v in variants:
                        yield "isresp_exh", [1, q, [0x2222, base | rc, ext, v]]
    # ---- _matches_destination
    for _ in range(ctx.n(200, 4000)):
        af = rng.choice([socket.AF_INET, socket.AF_INET, socket.AF_INET6, 99])
        f = mk_addr(rng.choice(ADDR_TEXTS), rng.choice([53, 54]), 0, rng.choice([0, 0, 3]))
        d = None if rng.random() < 0.05 else mk_addr(rng.choice(ADDR_TEXTS), 53, 0, 0)
        if d is not None and rng.random() < 0.5:
            f = mk_addr(rng.choice([d[3].decode(), d[3].decode().upper()]), rng.choice([53, 53, 54]), 0, rng.choice([0, 0, 0, 3]))
        yield "matchdest", [2, af, f, d, rng.randrange(2)]
    # ---- _matches_destination: multicast boundaries, systematically
    bounds = ["223.255.255.255", "224.0.0.0", "239.255.255.255", "240.0.0.0", "ff00::1", "feff::1", "ff02::fb", "10.0.0.53", "2001:db8::53"]
    for dt_ in bounds:
        for ft in (dt_, "10.9.9.9", "2001:db8::99"):
            for fport in (53, 54):
                for iu in (0, 1):
                    af = socket.AF_INET6 if ":" in dt_ else socket.AF_INET
                    yield "matchdest_bound", [2, af, mk_addr(ft, fport), mk_addr(dt_, 53), iu]
                    if ":" in ft and fport == 53:
                        yield "matchdest_bound", [2, af, mk_addr(ft, fport, 0, 3), mk_addr(dt_, 53), iu]
                        yield "matchdest_bound", [2, af, mk_addr(ft, fport, 1, 0), mk_addr(dt_, 53), iu]
    # ---- from_wire option handling (ties the by-construction description of datagrams to from_wire)
    for i in range(ctx.n(250, 2500)):
        q = gen_query(rng)
        wire, pabs, kind = gen_dgram(rng, q, i)
        ctx.count("fromwire:" + kind)
        for it, rot in ((0, 0), (1, 1), (rng.randrange(2), rng.randrange(2))):
            yield "fromwire", [3, pabs, it, rot, wire]
    # ---- receive_udp / udp: random scripts x all option combinations
    for s in range(ctx.n(70, 450)):
        q, dest, evs, tab, v6 = gen_udp_script(ctx, rng)
        af = socket.AF_INET6 if v6 else socket.AF_INET
        timeout = rng.choice([None, 5, 5, 20, 0])
        now = rng.choice([0, 1000])
        sevs = [[1, gen_dt(rng)]] * rng.choice([0, 0, 0, 1]) + [[0, rng.choice([12, 30])]] * rng.choice([0, 1])
        opts_list = OPTS if (s % 3 == 0 or ctx.tier == "thorough") else rng.sample(OPTS, 8)
        qwire = message_of_abs(q).to_wire()
        yield "udp", [5, q, qwire, dest, timeout, af, opts_list, sevs, tab, evs, now]
        exp = None if timeout is None else now + timeout
        query = q if rng.random() < 0.8 else None
        d = dest if rng.random() < 0.85 else None
        yield "recv_udp", [4, af, d, exp, now, opts_list, query, tab, evs]
    # ---- _net_read: exhaustive chunkings of short streams, both flavours
    nmax = ctx.n(7, 12)
    total = 0
    for n in range(0, nmax + 1):
        stream = bytes(rng.randrange(256) for _ in range(n))
        for comp in compositions(n):
            total += 1
            evs = [[0, k] for k in comp]
            want = rng.choice([n, n, max(0, n - 1), n + 1]) if rng.random() < 0.3 else n
            counts = [want] if want < 2 or rng.random() < 0.5 else [2, want - 2]
            yield "net_read_exh", [6, stream, evs, None, 0, counts]
            if total % 4 == 0:
                evs2 = sprinkle(rng, evs, "r", 0.25, 0.15)
                exp = rng.choice([None, 4, 12, 30])
                yield "net_read", [6, stream, evs2, exp, 0, counts]
    ctx.notes["exhaustive"] = True
    ctx.notes["exhaustive_scope"] = f"all {total} chunkings of every stream length 0..{nmax} for _net_read; all chunkings of lengths 0..{ctx.n(6, 10)} for _net_write"
    # ---- _net_read / _net_write: every script of length <= L over a small alphabet of socket events
    L = 3
    ralpha = [[0, 1], [0, 2], [0, 9], [1, 1], [1, None], [2], [3, 1], [4, 1]]
    walpha = [[0, 0], [0, 1], [0, 2], [0, 9], [1, 1], [1, None], [3, 1], [4, 1]]
    nexh = 0
    for ln in range(0, L + 1):
        for evs in itertools.product(ralpha, repeat=ln):
            for exp in (None, 2):
                nexh += 1
                yield "net_read_script_exh", [6, b"\x01\x02\x03", list(evs), exp, 0, [2, 1]]
        for evs in itertools.product(walpha, repeat=ln):
            for exp in (None, 2):
                nexh += 1
                yield "net_write_script_exh", [7, b"\x01\x02\x03", list(evs), exp, 0]
    ctx.notes["exhaustive_stream_scripts"] = f"all {nexh} read/write scripts of length <= {L} over 8-event alphabets (chunks of 0/1/2/9, BlockingIOError 1 tick / forever, SSLWantRead, SSLWantWrite, EOF) with and without a deadline"
    # ---- _net_write: exhaustive chunkings
    for n in range(0, ctx.n(6, 10) + 1):
        data = bytes(rng.randrange(256) for _ in range(n))
        for j, comp in enumerate(compositions(n)):
            evs = [[0, k] for k in comp]
            yield "net_write_exh", [7, data, evs, None, 0]
            if j % 4 == 0:
                evs2 = sprinkle(rng, [[0, k + rng.choice([0, 0, 5])] for k in comp] + [[0, 0]] * rng.choice([0, 1]), "w", 0.25)
                rng.shuffle(evs2)
                yield "net_write", [7, data, evs2, rng.choice([None, 4, 12, 30]), 0]
    # ---- framing round trip: send_tcp of several messages, receive_tcp on what reached the wire
    for i in range(ctx.n(150, 1500)):
        k = rng.choice([1, 1, 2, 3])
        msgs = []
        tab = {}
        for _ in range(k):
            _, w, a = small_msg(rng)
            msgs.append(w)
            tab[w] = a
        total_len = sum(len(m) + 2 for m in msgs)
        wevs = sprinkle(rng, [[0, rng.choice([1, 2, 3, 7, 50, 1000])] for _ in range(rng.randrange(12))], "w", 0.15)
        revs = sprinkle(rng, [[0, rng.choice([1, 1, 2, 3, 7, 50, 1000])] for _ in range(rng.randrange(2 * total_len // 3 + 2))], "r", 0.15, 0.05)
        exp = rng.choice([None, None, 15, 40])
        extra = rng.choice([0, 0, 0, 1])
        yield "frame", [8, 0, msgs, wevs, revs, exp, 0, rng.randrange(2), [[w, a] for w, a in tab.items()], extra]
    # ---- large streams (generated octets, (seed, length)): 64 kB framing under random chunking
    for i in range(ctx.n(2, 12)):
        ln = rng.choice([65535, 65535, 40000, 65536, 300])
        seed = rng.randrange(1 << 30)
        wevs = [[0, rng.choice([1, 100, 1460, 9000, 70000])] for _ in range(rng.randrange(40))]
        revs = sprinkle(rng, [[0, rng.choice([1, 2, 100, 1460, 9000, 70000])] for _ in range(rng.randrange(60))], "r", 0.1)
        tab = [[[seed, ln], probe_abs(stream_of([seed, ln]))]] if ln <= 65535 else []
        yield "frame_big", [8, 1, [[seed, ln]], wevs, revs, None, 0, 1, tab, 0]
    # ---- tcp(): whole exchange
    for i in range(ctx.n(200, 2000)):
        q = gen_query(rng)
        _, w, a = small_msg(rng, q)
        tab = {w: a}
        stream = struct.pack("!H", len(w)) + w
        r = rng.random()
        if r < 0.1:
            stream = stream[: rng.randrange(len(stream))]  # early end of stream
        elif r < 0.2:
            _, w2, a2 = small_msg(rng, q, "genuine")
            tab[w2] = a2
            stream += struct.pack("!H", len(w2)) + w2  # a second message follows: must be left alone
        elif r < 0.25:
            stream = struct.pack("!H", len(w) + 5) + w  # length prefix promises more than arrives
        comp_evs = [[0, rng.choice([1, 1, 2, 3, 5, 100])] for _ in range(rng.randrange(len(stream) + 2))]
        revs = sprinkle(rng, comp_evs, "r", 0.15, 0.04)
        wevs = sprinkle(rng, [[0, rng.choice([1, 2, 5, 100])] for _ in range(rng.randrange(8))], "w", 0.15)
        timeout = rng.choice([None, None, 10, 30, 0])
        qwire = message_of_abs(q).to_wire()
        yield "tcp", [9, q, qwire, timeout, rng.randrange(2), wevs, stream, revs, [[x, y] for x, y in tab.items()], rng.choice([0, 500])]
    yield from udp_exhaustive(ctx)
    yield from deadline_cases(ctx, rng)
    yield from big_dgram_cases(ctx, rng)
    yield from fallback_cases(ctx, rng)
    yield from tsig_cases(ctx, rng)
    yield from msgobj_cases(ctx, rng)


def udp_exhaustive(ctx):
    """every script of length <= L over a fixed alphabet of events, under all 32 option
    combinations: genuine reply from the server / from elsewhere, wrong id, malformed, genuine with
    TC, forged with TC, a short would-block, a would-block that never ends"""
    q = [0x1234, 0x0100, 0, [[[b"www", b"example", b""], 1, 1]]]
    qs = q[3]
    server = mk_addr("10.0.0.53", 53)
    elsewhere = mk_addr("10.0.0.54", 53)
    mk = lambda mid, flags, body, tag: build_dgram(mid, flags, qs, body, 1, None, b"", tag)
    g, ga = mk(0x1234, 0x8180, "ok", 1)
    w, wa = mk(0x1235, 0x8180, "ok", 2)
    m, ma = mk(0x1234, 0x8180, "cut_rdata", 3)
    t, ta = mk(0x1234, 0x8380, "ok", 4)
    tf, tfa = mk(0x1235, 0x8380, "cut_rdata", 5)
    tab = [[g, ga], [w, wa], [m, ma], [t, ta], [tf, tfa]]
    alphabet = [[0, g, server], [0, g, elsewhere], [0, w, server], [0, m, server], [0, t, server], [0, tf, server], [1, 2], [1, None]]
    qwire = message_of_abs(q).to_wire()
    L = ctx.n(2, 3)
    n = 0
    for ln in range(0, L + 1):
        for evs in itertools.product(alphabet, repeat=ln):
            n += 1
            yield "udp_exh", [5, q, qwire, server, 5, socket.AF_INET, OPTS, [], tab, list(evs), 0]
    ctx.notes["exhaustive_udp"] = f"all {n} scripts of length <= {L} over an 8-event alphabet x all 32 option combinations x sync/async"
    # receive_udp called directly: without a query (nothing to compare a truncated reply with: it
    # must be reported as Truncated when asked, whatever ignore_errors says) and with one, with and
    # without a destination; every script of length <= 2
    m2 = 0
    for query, dest in ((None, server), (None, None), (q, server)):
        for ln in range(0, 3):
            for evs in itertools.product(alphabet, repeat=ln):
                m2 += 1
                yield "recv_udp_exh", [4, socket.AF_INET, dest, 5, 0, OPTS, query, tab, list(evs)]
    ctx.notes["exhaustive_receive_udp"] = f"all {m2} (query None/given, destination given/None) x scripts of length <= 2 x all 32 option combinations x sync/async"


def big_dgram_cases(ctx, rng):
    """a genuine reply larger than the classic 512 octets: the receive buffer must take it whole"""
    for i in range(ctx.n(4, 20)):
        q = gen_query(rng)
        while (q[1] >> 11) & 15 == 5 or not q[3]:
            q = gen_query(rng)
        dest = mk_addr("10.0.0.53", 53)
        wire, pabs = build_dgram(q[0], 0x8000 | (q[1] & 0x7900), q[3], "ok", rng.choice([30, 60, 150]), None, b"", i)
        qwire = message_of_abs(q).to_wire()
        yield "udp_big", [5, q, qwire, dest, 5, socket.AF_INET, rng.sample(OPTS, 4), [], [[wire, pabs]], [[0, wire, dest]], 0]


def deadline_cases(ctx, rng):
    """streams whose would-blocks add up across several socket calls to (about) the deadline"""
    for i in range(ctx.n(60, 600)):
        stream = bytes(rng.randrange(256) for _ in range(6))
        evs = []
        for _ in range(rng.randrange(2, 7)):
            evs.append([rng.choice([1, 1, 3, 4]), rng.choice([1, 2, 3, 4, 5, 6])])
            evs.append([0, rng.choice([1, 1, 2, 6])])
        yield "net_read_deadline", [6, stream, evs, rng.choice([5, 8, 10, 12, 15]), 0, [2, 4]]
        wv = []
        for _ in range(rng.randrange(1, 5)):
            wv.append([rng.choice([1, 1, 4, 3]), rng.choice([1, 2, 3, 4, 5])])
            wv.append([0, rng.choice([1, 2, 100])])
        yield "net_write_deadline", [7, bytes(range(6)), wv, rng.choice([5, 8, 10, 12]), 0]
    for i in range(ctx.n(50, 500)):
        q = gen_query(rng)
        _, w, a = small_msg(rng, q, "genuine")
        stream = struct.pack("!H", len(w)) + w
        wv, rv = [], []
        for _ in range(rng.randrange(0, 3)):
            wv += [[rng.choice([1, 1, 4, 3]), rng.choice([1, 2, 3, 4])], [0, rng.choice([1, 3, 100])]]
        for _ in range(rng.randrange(1, 4)):
            rv += [[rng.choice([1, 1, 3, 4]), rng.choice([1, 2, 3, 4])], [0, rng.choice([1, 2, 100])]]
        if rng.random() < 0.5:
            rv = rv[1:]  # the answer is already there when the send completes
        tmo = rng.choice([4, 6, 8, 10, 14])
        if rng.random() < 0.4:
            # the send side alone waits until (or one tick short of) the deadline
            wv = [[1, rng.choice([tmo, tmo - 1, tmo + 3])], [0, 100]]
        qwire = message_of_abs(q).to_wire()
        yield "tcp_deadline", [9, q, qwire, tmo, 0, wv, stream, rv, [[w, a]], rng.choice([0, 500])]


def fallback_cases(ctx, rng):
    for i in range(ctx.n(120, 1000)):
        q, dest, evs, tab, v6 = gen_udp_script(ctx, rng, 5)
        af = socket.AF_INET6 if v6 else socket.AF_INET
        tabd = {w: a for w, a in tab}
        port = dest[2][0]
        good = mk_addr(dest[3].decode(), port)
        if rng.random() < 0.7:
            # a truncated (or plain) genuine reply at the end of the script
            mid, flags, qs, opt, kind = mutate_response(rng, q, rng.choice(["tc", "tc", "genuine"]))
            wire, pabs = build_dgram(mid, flags, qs, rng.choice(["ok", "cut_rdata", "count_over"]), 1, opt, b"", 77)
            tabd[wire] = pabs
            evs = evs + [[0, wire, good]]
        _, w, a = small_msg(rng, q, rng.choice(["genuine", "genuine", "genuine", "id", "tc", None]))
        if rng.random() < 0.35 and a[2] is None and not a[0]:
            w, a = w + b"\x00\x01", [a[0], a[1], a[2], 1]  # trailing octets: ignore_trailing must reach tcp()
        tabd[w] = a
        stream = struct.pack("!H", len(w)) + w
        if rng.random() < 0.1:
            stream = stream[: rng.randrange(len(stream))]
        revs = sprinkle(rng, [[0, rng.choice([1, 2, 5, 100])] for _ in range(rng.randrange(len(stream) + 2))], "r", 0.15, 0.03)
        wevs = sprinkle(rng, [[0, rng.choice([1, 2, 5, 100])] for _ in range(rng.randrange(6))], "w", 0.15)
        o = rng.choice(OPTS)
        timeout = rng.choice([None, 10, 30])
        qwire = message_of_abs(q).to_wire()
        yield "fallback", [10, q, qwire, dest, timeout, af, o, [[x, y] for x, y in tabd.items()], evs, wevs, stream, revs, rng.choice([0, 500])]


# ------------------------------------------------------------------ implementation runner


def stream_of(spec):
    if isinstance(spec, (bytes, bytearray)):
        return bytes(spec)
    seed, ln = spec
    out = bytearray()
    x = seed
    for _ in range(ln):
        x = (x * 1103515245 + 12345) % 2147483648
        out.append((x >> 16) & 255)
    return bytes(out)


def _call(flavour, sync_fn, async_fn):
    try:
        if flavour == 0:
            return sync_fn(), None
        return run_async(async_fn()), None
    except (ScriptEnd, Livelock) as e:
        return None, exc_code(e)
    except Exception as e:  # noqa
        return None, exc_code(e)


def digest(b):
    h = 7
    for c in b:
        h = (h * 31 + c + 1) % 2147483647
    return [len(b), h]


def singles(case):
    """split a batched case into (path, single case with the flavour in position 1)"""
    op = case[0]
    if op in (1, 2, 3, 11):
        return [((), case)]
    if op == 4:
        _, af, dest, exp, now, os_, query, tab, evs = case
        return [((i, fl), [4, fl, af, dest, exp, now, o, query, tab, evs]) for i, o in enumerate(os_) for fl in (0, 1)]
    if op == 5:
        _, q, qwire, dest, timeout, af, os_, sevs, tab, evs, now = case
        return [((i, fl), [5, fl, q, qwire, dest, timeout, af, o, sevs, tab, evs, now]) for i, o in enumerate(os_) for fl in (0, 1)]
    return [((fl,), [op, fl] + list(case[1:])) for fl in (0, 1)]


def impl(case):
    out = None
    for path, c1 in singles(case):
        r = impl1(c1)
        if not path:
            return r
        if out is None:
            out = []
        cur = out
        for k in path[:-1]:
            while len(cur) <= k:
                cur.append([])
            cur = cur[k]
        cur.append(r)
    return out if out is not None else []


def impl1(case):
    op = case[0]
    if op == 1:
        q = message_of_abs(case[1])
        r = message_of_abs(case[2])
        return int(q.is_response(r))
    if op == 2:
        _, af, f, d, iu = case
        try:
            return int(dns.query._matches_destination(af, addr_tuple(f), None if d is None else addr_tuple(d), bool(iu)))
        except Exception as e:  # noqa
            return exc_code(e)
    if op == 3:
        _, pabs, it, rot, wire = case
        try:
            # one_rr_per_rrset must not influence the outcome: alternate it
            m = dns.message.from_wire(wire, ignore_trailing=bool(it), raise_on_truncation=bool(rot), one_rr_per_rrset=bool(len(wire) % 2))
            return [0, abs_of_message(m)]
        except dns.message.Truncated as t:
            return [1, abs_of_message(t.message())]
        except Exception as e:  # noqa
            return exc_code(e)
    if op == 4:
        _, fl, af, dest, exp, now, o, query, tab, evs = case
        CLOCK.now = now
        sock = (USock if fl == 0 else AUSock)(af, [], evs)
        qm = None if query is None else message_of_abs(query)
        d = None if dest is None else addr_tuple(dest)
        args = (d, exp, bool(o[0]), bool(o[1]), None, b"", bool(o[2]), bool(o[3]), bool(o[4]), qm)
        res, err = _call(fl, lambda: dns.query.receive_udp(sock, *args), lambda: dns.asyncquery.receive_udp(sock, *args))
        if err is not None:
            return [err, sock.consumed]
        r = res[0]
        two = int(len(res) == 2)
        if len(res) == 3:
            ev = evs[sock.consumed - 1]
            if res[2] != addr_tuple(ev[2]):
                return Err(97, "from_address is not the source of the returned datagram")
        if not (0 < sock.consumed <= len(evs)) or evs[sock.consumed - 1][0] != 0 or evs[sock.consumed - 1][1] != r.wire:
            return Err(94, "returned message is not the datagram that was read last")
        return [0, sock.consumed, abs_of_message(r), int(res[1]), two]
    if op == 5:
        _, fl, q, qwire, where, timeout, af, o, sevs, tab, evs, now = case
        CLOCK.now = now
        sock = (USock if fl == 0 else AUSock)(af, sevs, evs)
        qm = message_of_abs(q)
        text, port = where_text(where), where[2][0]
        kw = dict(timeout=timeout, port=port, ignore_unexpected=bool(o[0]), one_rr_per_rrset=bool(o[1]),
                  ignore_trailing=bool(o[2]), raise_on_truncation=bool(o[3]), sock=sock, ignore_errors=bool(o[4]))
        res, err = _call(fl, lambda: dns.query.udp(qm, text, **kw), lambda: dns.asyncquery.udp(qm, text, **kw))
        if err is not None:
            return [err, sock.consumed]
        if len(sock.sent) != 1 or sock.sent[0][0] != qwire or sock.sent[0][1] != addr_tuple(where):
            return Err(96, "the query was not sent exactly once to the destination")
        if not (0 < sock.consumed <= len(evs)) or evs[sock.consumed - 1][0] != 0 or evs[sock.consumed - 1][1] != res.wire:
            return Err(94, "returned message is not the datagram that was read last")
        return [0, sock.consumed, abs_of_message(res), int(res.time), 0]
    if op == 6:
        _, fl, stream, evs, exp, now, counts = case
        CLOCK.now = now
        sock = (TSock if fl == 0 else ATSock)(stream_of(stream), evs, [])
        out = []
        for c in counts:
            res, err = _call(fl, lambda: dns.query._net_read(sock, c, exp), lambda: dns.asyncquery._read_exactly(sock, c, exp))
            if err is not None:
                out.append(err)
                return out
            out.append(res)
        out.append([sock.stream, int(CLOCK.now)])
        return out
    if op == 7:
        _, fl, data, evs, exp, now = case
        CLOCK.now = now
        d = stream_of(data)
        sock = (TSock if fl == 0 else ATSock)(b"", [], evs)
        if fl == 0:
            res, err = _call(0, lambda: dns.query._net_write(sock, d, exp), None)
        else:
            # the async flavour has no _net_write; send through the scripted backend the way
            # dns.asyncquery.send_tcp does, without the length prefix
            res, err = _call(1, None, lambda: sock.sendall(d, dns.asyncquery._timeout(exp)))
        if err is not None:
            return err
        return [sock.sent, int(CLOCK.now)]
    if op == 8:
        _, fl, big, msgs, wevs, revs, exp, now, it, tab, extra = case
        enc_b = digest if big else (lambda b: b)
        CLOCK.now = now
        wsock = (TSock if fl == 0 else ATSock)(b"", [], wevs)
        for m in msgs:
            w = stream_of(m)
            res, err = _call(fl, lambda: dns.query.send_tcp(wsock, w, exp), lambda: dns.asyncquery.send_tcp(wsock, w, exp))
            if err is not None:
                return err
            if res[0] != len(w) + 2:
                return Err(95, "send_tcp reported a wrong length")
        # the time of the sends is not carried over: the receive side starts at `now` again
        CLOCK.now = now
        rsock = (TSock if fl == 0 else ATSock)(wsock.sent, revs, [])
        out = [enc_b(wsock.sent)]
        for _ in range(len(msgs) + extra):
            res, err = _call(
                fl,
                lambda: dns.query.receive_tcp(rsock, exp, False, None, b"", bool(it)),
                lambda: dns.asyncquery.receive_tcp(rsock, exp, False, None, b"", bool(it)),
            )
            if err is not None:
                out.append(err)
                break
            out.append([enc_b(res[0].wire), abs_of_message(res[0]), int(res[1])])
        return out
    if op == 9:
        _, fl, q, qwire, timeout, it, wevs, stream, revs, tab, now = case
        CLOCK.now = now
        sock = (TSock if fl == 0 else ATSock)(stream_of(stream), revs, wevs)
        qm = message_of_abs(q)
        kw = dict(timeout=timeout, ignore_trailing=bool(it), sock=sock)
        res, err = _call(fl, lambda: dns.query.tcp(qm, "10.0.0.53", **kw), lambda: dns.asyncquery.tcp(qm, "10.0.0.53", **kw))
        if err is not None:
            return err
        return [res.wire, abs_of_message(res), int(res.time), sock.sent, sock.stream]
    if op == 10:
        _, fl, q, qwire, where, timeout, af, o, tab, evs, wevs, stream, revs, now = case
        CLOCK.now = now
        usock = (USock if fl == 0 else AUSock)(af, [], evs)
        tsock = (TSock if fl == 0 else ATSock)(stream_of(stream), revs, wevs)
        qm = message_of_abs(q)
        text, port = where_text(where), where[2][0]
        pre = (qm, text, timeout, port, None, 0, bool(o[0]), bool(o[1]), bool(o[2]), usock, tsock)
        res, err = _call(
            fl,
            lambda: dns.query.udp_with_fallback(*pre, bool(o[4])),
            lambda: dns.asyncquery.udp_with_fallback(*pre, None, bool(o[4])),
        )
        if err is not None:
            return err
        r, used = res
        return [int(used), r.wire, abs_of_message(r), int(r.time)]
    if op == 11:
        return run_msgobj(case)
    raise ValueError("unknown op")


TSIG_ALGS = ["hmac-sha256", "hmac-sha1", "hmac-sha224", "hmac-sha384", "hmac-sha512", "hmac-sha256-128", "hmac-sha384-192", "hmac-sha512-256", "HMAC-MD5.SIG-ALG.REG.INT"]


def make_object_message(rng, variant):
    """a Message object of the given variant: plain / tsig / pad / tsig+pad; returns (message, keyring)"""
    q = gen_query(rng)
    while (q[1] >> 11) & 15 == 5:
        q = gen_query(rng)
    m = message_of_abs(q[:4])
    if rng.random() < 0.5:
        m.flags |= dns.flags.QR
        owner = m.question[0].name if m.question else dns.name.root
        m.answer.append(dns.rrset.from_text(owner, 300, "IN", "A", "10.0.0.%d" % rng.randrange(1, 250)))
    keyring = None
    if "pad" in variant:
        m.use_edns(0, pad=rng.choice([128, 468, 32]))
    if "tsig" in variant:
        alg = rng.choice(TSIG_ALGS)
        key = dns.tsig.Key(KEYNAME, bytes(rng.randrange(256) for _ in range(rng.choice([16, 32, 64]))), alg)
        keyring = {KEYNAME: key}
        m.use_tsig(keyring, KEYNAME)
    return m, keyring, q


VARIANTS = ["plain", "tsig", "pad", "tsig+pad"]


def msgobj_cases(ctx, rng):
    """send_tcp / send_udp given a Message OBJECT (not bytes) - unsigned, TSIG-signed (several
    algorithms), EDNS-padded, signed and padded - 1 to 3 per connection, over fragmenting sockets.
    Oracle-only cases (the messages are rebuilt from the seed in the case)."""
    for i in range(ctx.n(80, 800)):
        variants = [rng.choice([0, 1, 2, 3, 1, 3]) for _ in range(rng.choice([1, 1, 2, 3]))]
        wevs = sprinkle(rng, [[0, rng.choice([1, 2, 3, 7, 1000])] for _ in range(rng.randrange(10))], "w", 0.1)
        wevs = [e for e in wevs if e[1] is not None]
        revs = sprinkle(rng, [[0, rng.choice([1, 2, 5, 50, 1000])] for _ in range(rng.randrange(12))], "r", 0.1)
        revs = [e for e in revs if e[0] == 0 or e[1] is not None]
        yield "msgobj", [11, variants, rng.randrange(1 << 30), wevs, revs]


def run_msgobj(case):
    """-> list of [flavour, text] problems; empty when the stream carries exactly u16(len(w)) + w for
    every message (w = the message's own wire form), the prefix counts exactly what follows it, and
    receive_tcp at the other end (with the keyring) returns the messages, in order, equal to the
    originals."""
    import random

    _, variants, seed, wevs, revs = case
    P = []
    dest = ("10.0.0.53", 53)
    for fl in (0, 1):
        rng = random.Random(seed)
        CLOCK.now = 0
        msgs = [make_object_message(rng, VARIANTS[v]) for v in variants]
        ts = (TSock if fl == 0 else ATSock)(b"", [], wevs)
        wires = []
        bad = False
        for (m, keyring, q), v in zip(msgs, variants):
            vn = VARIANTS[v]
            before = len(ts.sent)
            t0 = CLOCK.now
            res, err = _call(fl, lambda: dns.query.send_tcp(ts, m, None), lambda: dns.asyncquery.send_tcp(ts, m, None))
            t1 = CLOCK.now
            CLOCK.now = t0  # the TSIG time-signed of the reference rendering = when send_tcp rendered
            w = m.to_wire()
            wires.append(w)
            piece = ts.sent[before:]
            if err is not None:
                P.append([fl, "send_tcp(Message, %s) raised %s" % (vn, err.text)])
                bad = True
                break
            if len(piece) < 2 or struct.unpack("!H", piece[:2])[0] != len(piece) - 2:
                P.append([fl, "send_tcp(Message, %s): the 2-octet prefix (%d) does not count the octets that follow it (%d): framing lost for every later message" % (vn, struct.unpack("!H", piece[:2])[0] if len(piece) >= 2 else -1, len(piece) - 2)])
                bad = True
                break
            if piece != struct.pack("!H", len(w)) + w or res[0] != len(w) + 2:
                P.append([fl, "send_tcp(Message, %s) did not put the length-prefixed wire form of the message on the stream" % vn])
                bad = True
                break
            us = (USock if fl == 0 else AUSock)(socket.AF_INET, [], [])
            res, err = _call(fl, lambda: dns.query.send_udp(us, m, dest, None), lambda: dns.asyncquery.send_udp(us, m, dest, None))
            if err is not None or us.sent != [(w, dest)] or res[0] != len(w):
                P.append([fl, "send_udp(Message, %s) did not send the wire form of the message to the destination" % vn])
            CLOCK.now = t1
        if bad:
            continue
        rs = (TSock if fl == 0 else ATSock)(ts.sent, revs, [])
        for (m, keyring, q), v, w in zip(msgs, variants, wires):
            vn = VARIANTS[v]
            res, err = _call(
                fl,
                lambda: dns.query.receive_tcp(rs, None, False, keyring, b"", False),
                lambda: dns.asyncquery.receive_tcp(rs, None, False, keyring, b"", False),
            )
            if err is not None:
                P.append([fl, "receive_tcp failed on a stream written by send_tcp(Message, %s): %s" % (vn, err.text)])
                break
            r = res[0]
            if r != m or r.id != m.id or int(r.flags) != int(m.flags) or r.wire != w or bool(r.had_tsig) != ("tsig" in vn):
                P.append([fl, "receive_tcp returned a message different from the %s one given to send_tcp" % vn])
                break
        else:
            if rs.stream:
                P.append([fl, "octets left on the stream after all messages were received"])
    return P


# ------------------------------------------------------------------ oracle (property text on implementation outputs)


def oracle(ctx, kind, case, out):
    F = []
    for path, c1 in singles(case):
        o1 = out
        try:
            for k in path:
                o1 = o1[k]
        except Exception:  # noqa
            F.append({"kind": kind + ":shape", "what": "implementation output has an unexpected shape", "sig": "shape", "impl": out})
            break
        fl = ("sync", "async")[path[-1]] if path else ""
        F += oracle1(ctx, kind, c1, o1, fl)
        if len(F) > 3:
            break
    return F


def oracle1(ctx, kind, case, out, flavour):
    F = []

    def fail(what, **kw):
        F.append({"kind": kind + ":" + what, "what": what, "sig": what, "flavour": flavour, "single": case, "impl": out, **kw})

    op = case[0]
    if op >= 4:
        head = out[0] if isinstance(out, list) and out else out
        if isinstance(head, list) and head and isinstance(head[-1], Err):
            head = head[-1]
        ctx.count("exchange:%s:%s" % (kind, "err%d" % head.code if isinstance(head, Err) else "ok"))
        ctx.notes["extra_evaluations"] = ctx.notes.get("extra_evaluations", 0) + 1
        ctx.notes["extra_nontrivial"] = ctx.notes.get("extra_nontrivial", 0) + 1
    hd = out
    while isinstance(hd, list) and hd:
        hd = hd[-1] if isinstance(hd[-1], Err) else hd[0]
    if isinstance(hd, Err) and hd.code in (93, 94, 95, 96, 97):
        fail("livelock / harness-level check failed: " + hd.text)
        return F
    if isinstance(out, Err) and out.code >= 90 and out.code != 98:
        fail("harness-level check failed or unexpected exception: " + out.text)
        return F
    if op == 1:
        if bool(out) != genuine(case[1], case[2]):
            fail("is_response differs from: QR set, same id, same opcode, same question (documented leniencies only)")
    elif op == 2:
        _, af, f, d, iu = case
        if isinstance(out, Err):
            if out.code == 2 and (iu or source_ok(af, f, d)):
                fail("UnexpectedSource although configured to ignore or the source matches")
        elif af in (socket.AF_INET, socket.AF_INET6) and bool(out) != source_ok(af, f, d):
            fail("source acceptance differs from binary address+port equality (multicast: port only)")
    elif op == 3:
        _, pabs, it, rot, wire = case
        exp = expected_parse(pabs, it, rot)
        got = ("err", out.code) if isinstance(out, Err) else (("ok", "trunc")[out[0]], out[1])
        if got[0] == "ok" and exp[0] != "ok":
            fail("from_wire returned a message for a datagram that is malformed / truncated as configured")
        elif got != exp and not (got[0] == exp[0] == "err"):
            fail("from_wire outcome differs from the construction of the datagram")
    elif op in (4, 5):
        F += oracle_udp(kind, case, out, fail)
    elif op == 6:
        _, fl, stream, evs, exp, now, counts = case
        s = stream_of(stream)
        pos = 0
        for i, c in enumerate(counts):
            if i >= len(out):
                break
            o = out[i]
            if isinstance(o, Err):
                ok_err = (o.code == 12 and (len(s) - pos < c or any(e[0] == 2 or (e[0] == 0 and e[1] == 0) for e in evs))) or (
                    o.code == 1 and exp is not None and deadline_reachable(now, exp, evs)
                ) or (o.code == 98 and exp is None)
                if not ok_err:
                    fail("read failed although the stream holds enough octets and nothing ended it (no EOF, deadline not reachable)")
                break
            if o != s[pos: pos + c] or len(o) != c:
                fail("read of n octets did not return exactly the next n octets of the stream")
            pos += c
        else:
            if isinstance(out[-1], list) and out[-1][0] != s[pos:]:
                fail("octets after the requested count were not left in the stream")
            if isinstance(out[-1], list) and exp is not None and not (out[-1][1] == now or out[-1][1] < exp):
                fail("a read succeeded although the deadline had expired while waiting")
    elif op == 7:
        _, fl, data, evs, exp, now = case
        d = stream_of(data)
        if isinstance(out, Err):
            if not ((out.code == 1 and exp is not None and deadline_reachable(now, exp, evs)) or (out.code == 98 and exp is None)):
                fail("write failed without a deadline that could be reached / end of script")
        elif out[0] != d:
            fail("the octets accepted by the socket are not exactly the data, in order")
    elif op == 8:
        _, fl, big, msgs, wevs, revs, exp, now, it, tab, extra = case
        enc_b = digest if big else (lambda b: b)
        ws = [stream_of(m) for m in msgs]
        if isinstance(out, Err):
            if not ((out.code == 1 and exp is not None) or out.code == 98 or (out.code == 21 and any(len(w) > 65535 for w in ws))):
                fail("send_tcp failed unexpectedly")
            return F
        framed = b"".join(struct.pack("!H", len(w)) + w for w in ws)
        if out[0] != enc_b(framed):
            fail("send_tcp did not put length-prefixed messages on the wire in order")
        t = {stream_of(w): a for w, a in tab}
        for j, o in enumerate(out[1:]):
            if isinstance(o, Err):
                break
            if j >= len(ws) or o[0] != enc_b(ws[j]):
                fail("receive_tcp returned octets that are not the j-th message sent")
            elif ws[j] in t and expected_parse(t[ws[j]], it, 0)[0] != "ok":
                fail("receive_tcp returned a malformed message")
        clean = exp is None and not any(e[0] == 2 or (e[0] == 0 and e[1] == 0) or (is_block(e) and e[1] is None) for e in revs)
        if clean:
            for j, w in enumerate(ws):
                if j + 1 >= len(out):
                    fail("a message that was completely delivered was not received")
                    break
                o = out[j + 1]
                ok_expected = (w in t and expected_parse(t[w], it, 0)[0] == "ok") or not tab
                if isinstance(o, Err):
                    if ok_expected and tab:
                        fail("a well-formed, completely delivered message was not returned")
                    break
    elif op == 9:
        _, fl, q, qwire, timeout, it, wevs, stream, revs, tab, now = case
        s = stream_of(stream)
        t = {stream_of(w): a for w, a in tab}
        if isinstance(out, Err):
            if out.code == 6 and it:
                fail("TrailingJunk raised although ignore_trailing was set")
            if out.code == 1 and (timeout is None or not deadline_reachable(now, now + timeout, wevs, revs)):
                fail("tcp() timed out although the deadline could not have been reached")
            return F
        wire, m, tm, sent, rest = out
        if timeout is not None and not (tm == 0 or tm < timeout):
            fail("tcp() returned an answer although the deadline had expired while waiting")
        if sent != struct.pack("!H", len(qwire)) + qwire:
            fail("tcp() did not send the length-prefixed query")
        if len(s) < 2 or s[2: 2 + struct.unpack("!H", s[:2])[0]] != wire or len(wire) != struct.unpack("!H", s[:2])[0]:
            fail("tcp() returned a message that is not the first complete frame of the stream")
        elif rest != s[2 + len(wire):]:
            fail("tcp() consumed octets beyond the frame")
        if wire in t:
            pe = expected_parse(t[wire], it, 0)
            if pe[0] != "ok":
                fail("tcp() returned a malformed message")
            elif not genuine(q, pe[1]):
                fail("tcp() returned a message that is not a response to the query")
    elif op == 11:
        for fl, text in out if isinstance(out, list) else []:
            t = text.decode("latin-1") if isinstance(text, bytes) else str(text)
            F.append({"kind": kind + ":" + t[:60], "what": t, "sig": t[:40], "flavour": ("sync", "async")[fl], "single": case, "impl": out})
    elif op == 10:
        _, fl, q, qwire, where, timeout, af, o, tab, evs, wevs, stream, revs, now = case
        if isinstance(out, Err):
            if out.code == 6 and o[2]:
                fail("TrailingJunk raised although ignore_trailing was set")
            return F
        used, wire, m, tm = out
        t = {stream_of(w): a for w, a in tab}
        s = stream_of(stream)
        if wire in t:
            pe = expected_parse(t[wire], o[2], 0 if used else 1)
            if pe[0] != "ok":
                fail("udp_with_fallback returned a malformed or (over UDP) truncated message")
            elif not genuine(q, pe[1]):
                fail("udp_with_fallback returned a message that is not a response to the query")
        if used:
            if len(s) < 2 or s[2: 2 + struct.unpack("!H", s[:2])[0]] != wire:
                fail("the TCP answer is not the first frame of the stream")
        else:
            src = [ev for ev in evs if ev[0] == 0 and ev[1] == wire]
            if not src:
                fail("the UDP answer is not a datagram of the script")
            elif af in (socket.AF_INET, socket.AF_INET6) and not any(source_ok(af, ev[2], where) for ev in src):
                fail("the UDP answer did not come from the queried address and port")
    return F


def oracle_udp(kind, case, out, fail):
    """The exchange returns only a genuine response from the queried address; forged / malformed
    datagrams are skipped or raise as configured; a genuine truncated reply is reported."""
    if case[0] == 5:
        _, fl, q, qwire, dest, timeout, af, o, sevs, tab, evs, now = case
        query = q
        final_check = True
    else:
        _, fl, af, dest, exp, now, o, query, tab, evs = case
        final_check = False
    iu, one, it, rot, ie = o
    t = {stream_of(w): a for w, a in tab}
    if not isinstance(out, list):
        return []
    head, consumed = out[0], out[1]

    def classify(ev):
        """'skip' | 'accept' | ('raise', code) for a datagram event, from the property text"""
        if af not in (socket.AF_INET, socket.AF_INET6):
            return None
        if dest is not None and dest[0] is None and dest[1] is None:
            return None
        if not source_ok(af, ev[2], dest):
            return "skip" if iu else ("raise", 2)
        p = expected_parse(t[ev[1]], it, rot)
        if p[0] == "err":
            return "skip" if ie else ("raise", p[1])
        gen = query is None or genuine(query, p[1])
        if p[0] == "trunc":
            return "skip" if (ie and not gen) else ("raise", 4)
        if gen:
            return "accept"
        if ie:
            return "skip"
        return ("raise", 3) if final_check else "accept"

    # nothing before the point where the call ended may have been a reply that had to end it
    for ev in evs[: max(consumed - 1, 0)]:
        if ev[0] == 0:
            c = classify(ev)
            if c == "accept":
                fail("a genuine reply was skipped")
                break
            if isinstance(c, tuple):
                fail("a datagram that must raise as configured was skipped")
                break
    last = evs[consumed - 1] if 0 < consumed <= len(evs) else None
    if isinstance(head, Err):
        code = head.code
        if last is not None and last[0] == 0 and code not in (1, 98):
            c = classify(last)
            if c == "accept":
                fail("a genuine reply from the queried address raised instead of being returned")
            elif c == "skip":
                fail("a datagram configured to be ignored raised")
            elif isinstance(c, tuple) and c[1] != code and not (c[1] >= 5 and code >= 5):
                fail("raised a different error than configured")
        if code == 1 and (timeout if case[0] == 5 else exp) is None:
            fail("Timeout without a deadline")
        elif code == 1:
            deadline = (now + timeout) if case[0] == 5 else exp
            waits = [e[1] for e in (sevs if case[0] == 5 else []) if e[0] == 1]
            waits += [e[1] for e in evs[:consumed] if e[0] == 1]
            t = now
            reached = consumed >= len(evs) and not any(e[0] == 0 for e in evs[consumed:])
            for d in waits:
                if d is None or deadline - t <= 0 or d >= deadline - t:
                    reached = True
                    break
                t += d
            if not reached:
                fail("Timeout raised although the deadline had not been reached")
        return []
    # a message was returned
    if case[0] == 5 and timeout is not None and not (out[3] == 0 or out[3] < timeout):
        fail("an answer was returned although the deadline had expired while waiting for it")
    if case[0] == 4 and exp is not None and not (out[3] == now or out[3] < exp):
        fail("an answer was returned although the deadline had expired while waiting for it")
    if last is None or last[0] != 0:
        fail("returned message is not the datagram that was read last")
        return []
    c = classify(last)
    if c is None:
        return []
    if not source_ok(af, last[2], dest):
        fail("returned a datagram that did not come from the queried address and port")
    p = expected_parse(t[last[1]], it, rot)
    if p[0] == "err":
        fail("returned a malformed datagram")
    elif p[0] == "trunc":
        fail("returned a truncated reply although truncation was to be raised")
    elif (final_check or (ie and query is not None)) and not genuine(query, p[1]):
        fail("returned a message that is not a response to the query (QR, id, opcode, question)")
    elif p[1] != out[2]:
        fail("returned message's header/question differ from the datagram's")
    return []
