"""Shared machinery for the /verif checks.

A property module (harness/pCxx.py) provides
    ID            "C06"
    COQ_IMPORTS   Coq `Require` lines for the model
    COQ_RUN       name of the model's  run : obs -> obs
    def cases(ctx)            -> iterable of (kind, case)     (case: nested ints/bytes/lists/None)
    def impl(case)            -> value of the same shape      (implementation under /repo)
    def oracle(ctx, kind, case, out) -> list of failure dicts (property evaluated on the implementation)
    optionally  def extra(ctx) -> list of failure dicts       (checks that are not case/obs shaped)
    optionally  TRUSTED = [...], RULE = "..."

The deciding argument is the set of theorems in coq/Props/<ID>.v (re-checked on every run);
the correspondence (model `run` evaluated by vm_compute inside Coq vs. the implementation) ties
the model to the code; the oracle only searches for a concrete failing input.
"""
from __future__ import annotations

import argparse
import concurrent.futures
import hashlib
import importlib
import json
import os
import random
import re
import shutil
import signal
import subprocess
import sys
import time

VERIF = os.path.dirname(os.path.dirname(os.path.abspath(__file__)))
REPO = os.environ.get("VERIF_REPO", "/repo")
COQ = os.path.join(VERIF, "coq")
JOBS = int(os.environ.get("VERIF_JOBS", "16"))

os.environ.setdefault("PYTHONHASHSEED", "0")
if sys.path[0] != REPO:
    sys.path.insert(0, REPO)
# make sure `import dns` is the tree under test, not an installed copy
sys.path[:] = [p for p in sys.path if p not in ("", ".")]
if REPO not in sys.path:
    sys.path.insert(0, REPO)


class Err:
    """An exception observed on the implementation, mapped to a small code."""

    __slots__ = ("code", "text")

    def __init__(self, code, text=""):
        self.code = code
        self.text = text

    def __eq__(self, other):
        return isinstance(other, Err) and other.code == self.code

    def __hash__(self):
        return hash(("Err", self.code))

    def __repr__(self):
        return f"Err({self.code}{',' + self.text if self.text else ''})"


class Hang(Exception):
    pass


def _alarm(signum, frame):
    raise Hang()


def with_watchdog(fn, *args, seconds=10.0):
    old = signal.signal(signal.SIGALRM, _alarm)
    signal.setitimer(signal.ITIMER_REAL, seconds)
    try:
        return fn(*args)
    finally:
        signal.setitimer(signal.ITIMER_REAL, 0)
        signal.signal(signal.SIGALRM, old)


# ---------------------------------------------------------------- obs <-> Coq text


def to_obs(v) -> str:
    if v is None:
        return "N"
    if isinstance(v, bool):
        return "I 1" if v else "I 0"
    if isinstance(v, int):
        return f"I {v}" if v >= 0 else f"I ({v})"
    if isinstance(v, (bytes, bytearray)):
        return "B [" + ";".join(str(b) for b in v) + "]"
    if isinstance(v, str):
        return to_obs(v.encode("latin-1"))
    if isinstance(v, Err):
        return f"E {v.code}" if v.code >= 0 else f"E ({v.code})"
    if isinstance(v, (list, tuple)):
        return "L [" + ";".join(_paren(to_obs(x)) for x in v) + "]"
    raise TypeError(f"cannot convert {type(v)} to obs")


def _paren(s):
    return s if s == "N" else "(" + s + ")"


def jsonable(v):
    if isinstance(v, (bytes, bytearray)):
        return {"hex": bytes(v).hex()}
    if isinstance(v, Err):
        return {"err": v.code, "text": v.text}
    if isinstance(v, (list, tuple)):
        return [jsonable(x) for x in v]
    if isinstance(v, dict):
        return {str(k): jsonable(x) for k, x in v.items()}
    if isinstance(v, (int, str, bool, float)) or v is None:
        return v
    return repr(v)


def unjson(v):
    if isinstance(v, dict):
        if "hex" in v:
            return bytes.fromhex(v["hex"])
        if "err" in v:
            return Err(v["err"], v.get("text", ""))
        return {k: unjson(x) for k, x in v.items()}
    if isinstance(v, list):
        return [unjson(x) for x in v]
    return v


def normalize(v):
    """tuples->lists, bool->int, bytearray->bytes so values compare structurally"""
    if isinstance(v, bool):
        return int(v)
    if isinstance(v, (list, tuple)):
        return [normalize(x) for x in v]
    if isinstance(v, bytearray):
        return bytes(v)
    if isinstance(v, str):
        return v.encode("latin-1")
    return v


_tok = re.compile(r"\s*(\(|\)|\[|\]|;|-?\d+|[A-Z])")


def parse_obs(text):
    """Parse one obs term as printed by Coq (Z scope open)."""
    toks = _tok.findall(text.replace("%Z", "").replace("%nat", ""))
    pos = [0]

    def peek():
        return toks[pos[0]] if pos[0] < len(toks) else None

    def nxt():
        t = toks[pos[0]]
        pos[0] += 1
        return t

    def atom():
        t = nxt()
        if t == "(":
            v = term()
            assert nxt() == ")"
            return v
        if t == "N":
            return None
        if re.fullmatch(r"-?\d+", t):
            return int(t)
        pos[0] -= 1
        return term()

    def lst(f):
        assert nxt() == "["
        out = []
        if peek() == "]":
            nxt()
            return out
        while True:
            out.append(f())
            t = nxt()
            if t == "]":
                return out
            assert t == ";", t

    def term():
        t = nxt()
        if t == "(":
            v = term()
            assert nxt() == ")"
            return v
        if t == "N":
            return None
        if t == "I":
            return atom()
        if t == "E":
            return Err(atom())
        if t == "B":
            return bytes(lst(atom))
        if t == "L":
            return lst(term)
        raise ValueError(f"bad obs token {t!r}")

    return term()


def parse_obs_list(text):
    toks_text = text.strip()
    assert toks_text.startswith("["), toks_text[:50]
    # wrap as L [...] and reuse the parser
    return parse_obs("L " + toks_text)


# ---------------------------------------------------------------- Coq runners

FORBIDDEN = re.compile(
    r"\b(Admitted|admit|Axiom|Axioms|Parameter|Parameters|Conjecture|Hypothesis|Hypotheses|Variable|Variables|bypass_check|type-in-type|impredicative-set)\b|Unset\s+Guard|Unset\s+Positivity|Unset\s+Universe|Admit\s+Obligations"
)


def run_cmd(cmd, cwd=None, timeout=3600, env=None):
    t0 = time.time()
    try:
        p = subprocess.run(cmd, cwd=cwd, stdout=subprocess.PIPE, stderr=subprocess.STDOUT, timeout=timeout, env=env)
        return p.returncode, p.stdout.decode("utf-8", "replace"), time.time() - t0
    except subprocess.TimeoutExpired as e:
        out = (e.stdout or b"").decode("utf-8", "replace")
        return 124, out + "\nTIMEOUT", time.time() - t0


def coq_make(targets=()):
    """Build (incrementally) the committed Coq project; returns (ok, log)."""
    rc, out, _ = run_cmd([os.path.join(VERIF, "tools", "coqbuild.sh"), *targets], timeout=3400)
    return rc == 0, out


def coq_closure(files):
    """Transitive closure of `From DV Require ... X.Y` dependencies of the given coq/-relative files."""
    todo = list(files)
    seen = []
    while todo:
        f = todo.pop()
        if f in seen or not os.path.exists(os.path.join(COQ, f)):
            continue
        seen.append(f)
        src = strip_comments(open(os.path.join(COQ, f), encoding="utf-8").read())
        for m in re.finditer(r"From\s+DV\s+Require\s+(?:Import\s+|Export\s+)?(.*?)\.(?=\s|$)", src, re.S):
            for mod in m.group(1).split():
                todo.append(mod.replace(".", "/") + ".v")
        for m in re.finditer(r"(?<!DV )Require\s+(?:Import\s+|Export\s+)?(DV\..*?)\.(?=\s|$)", src, re.S):
            for mod in m.group(1).split():
                if mod.startswith("DV."):
                    todo.append(mod[3:].replace(".", "/") + ".v")
    return seen


def scan_forbidden(files=None):
    """Admitted/Axiom/... in the given files (default: the whole development).
    `Variable`/`Hypothesis` are allowed inside a Section only (section-depth scan)."""
    bad = []
    if files is None:
        files = []
        for root, _, fs in os.walk(COQ):
            files += [os.path.relpath(os.path.join(root, f), COQ) for f in fs if f.endswith(".v")]
    for rel in sorted(files):
        path = os.path.join(COQ, rel)
        depth = 0
        text = strip_comments(open(path, encoding="utf-8").read())
        for ln, line in enumerate(text.split("\n"), 1):
            s = line.strip()
            if re.match(r"Section\s+\w+", s):
                depth += 1
            elif re.match(r"End\s+\w+", s) and depth > 0:
                depth -= 1
            for m in FORBIDDEN.finditer(line):
                w = m.group(0)
                if re.match(r"Variables?|Hypothes[ie]s", w) and depth > 0:
                    continue
                bad.append(f"coq/{rel}:{ln}: {w}")
    return bad


def strip_comments(text):
    out = []
    depth = 0
    i = 0
    n = len(text)
    while i < n:
        if text.startswith("(*", i):
            depth += 1
            i += 2
        elif text.startswith("*)", i) and depth > 0:
            depth -= 1
            i += 2
        else:
            if depth == 0:
                out.append(text[i])
            elif text[i] == "\n":
                out.append("\n")
            i += 1
    return "".join(out)


def coq_props(prop_id, extra_files=()):
    """Re-check coq/Props/<id>.v (always recompiled so that Print Assumptions is captured).
    Returns dict(ok, obligations, discharged, theorems, assumptions, log)."""
    files = [f"Props/{prop_id}.v", *extra_files]
    ok, log = coq_make([f[:-2] + ".vo" for f in files])
    res = {"ok": False, "obligations": 0, "discharged": 0, "theorems": [], "assumptions": {}, "log": ""}
    theorems = []
    for f in files:
        src = strip_comments(open(os.path.join(COQ, f), encoding="utf-8").read())
        theorems += re.findall(r"^\s*(?:Theorem|Corollary)\s+(\w+)", src, re.M)
    res["theorems"] = theorems
    res["obligations"] = len(theorems)
    if not ok:
        res["log"] = log[-4000:]
        # which theorems still stand?  none is claimed when the project does not build
        return res
    outs = []
    all_ok = True
    for f in files:
        rc, out, _ = run_cmd(
            ["coqc", "-Q", ".", "DV", "-w", "-notation-overridden,-deprecated-hint-without-locality", f],
            cwd=COQ,
            timeout=1200,
        )
        outs.append(out)
        if rc != 0:
            all_ok = False
    out = "\n".join(outs)
    res["log"] = out[-6000:]
    # Print Assumptions output:  "Closed under the global context"  or  "Axioms:\n name : type"
    closed = len(re.findall(r"Closed under the global context", out))
    axioms = re.findall(r"^Axioms:\n((?:.+\n?)+?)(?=^\S|\Z)", out, re.M)
    res["assumptions"] = {"closed_under_global_context": closed, "axioms": sorted(set(a.strip() for a in axioms))}
    res["discharged"] = len(theorems) if all_ok else 0
    res["ok"] = all_ok
    res["closure"] = sorted(coq_closure(files))
    res["forbidden"] = scan_forbidden(res["closure"])
    if res["forbidden"]:
        res["ok"] = False
    return res


class _global_slot:
    """Machine-wide bound on concurrent correspondence coqc processes (memory: ~0.7 GB each),
    so that several checks running at once cannot exhaust RAM.  VERIF_SLOTS slots, flock based."""

    N = int(os.environ.get("VERIF_SLOTS", "20"))

    def __enter__(self):
        import fcntl

        while True:
            for k in range(self.N):
                f = open(f"/tmp/.verif-slot-{k}", "w")
                try:
                    fcntl.flock(f, fcntl.LOCK_EX | fcntl.LOCK_NB)
                    self.f = f
                    return self
                except OSError:
                    f.close()
            time.sleep(0.2 + random.random() * 0.3)

    def __exit__(self, *a):
        self.f.close()
        return False


def _coq_shard(args):
    path, imports, run, pairs = args
    body = [
        "From DV Require Import Base.Prelude.",
        imports,
        "Open Scope Z_scope.",
        "Set Printing Width 1000000.",
        "Set Printing Depth 1000000.",
        "Definition cases : list (obs * obs) := [",
        ";\n".join(f"({c},\n {e})" for c, e in pairs),
        "].",
        f"Definition bad := bad_idx {run} 0%nat cases.",
        "Eval vm_compute in (length cases, bad).",
        f"Eval vm_compute in (map (fun i => {run} (fst (nth i cases (N, N)))) bad).",
    ]
    with open(path, "w") as f:
        f.write("\n".join(body) + "\n")
    for attempt in range(2):
        with _global_slot():
            rc, out, dt = run_cmd(
                ["bash", "-c", f"ulimit -s unlimited 2>/dev/null; exec coqc -Q {COQ} DV -Q {os.path.dirname(path)} Scratch {path}"],
                timeout=1500,
            )
        if rc == 0:
            break
    if rc != 0:
        return {"error": out[-3000:], "path": path}
    m = re.search(r"=\s*\((\d+)(?:%nat)?,\s*(\[[^\]]*\])\)", out)
    if not m:
        return {"error": "unparsable: " + out[-2000:], "path": path}
    n = int(m.group(1))
    bad = [int(x) for x in re.findall(r"\d+", m.group(2))]
    outs = []
    if bad:
        m2 = re.search(r":\s*nat \* list nat\s*=\s*(\[.*\])\s*:\s*list obs", out, re.S)
        if m2:
            try:
                outs = parse_obs_list(m2.group(1))
            except Exception as ex:  # pragma: no cover
                outs = [f"unparsed: {ex}"] * len(bad)
    return {"n": n, "bad": bad, "model": outs}


def coq_compare(ctx, imports, run, pairs, shard=200):
    """pairs: list of (case, impl_output).  Returns list of (index, model_output)."""
    if not pairs:
        return [], []
    d = os.path.join(ctx.scratch, "cases")
    os.makedirs(d, exist_ok=True)
    jobs = []
    texts = [(to_obs(c), to_obs(o)) for c, o in pairs]
    # balance shards by text size
    cur, size, k = [], 0, 0
    bounds = []
    start = 0
    for i, t in enumerate(texts):
        cur.append(t)
        size += len(t[0]) + len(t[1])
        if len(cur) >= shard or size > 400_000:
            jobs.append((os.path.join(d, f"cases_{ctx.prop}_{k}.v"), imports, run, cur))
            bounds.append(start)
            start = i + 1
            cur, size, k = [], 0, k + 1
    if cur:
        jobs.append((os.path.join(d, f"cases_{ctx.prop}_{k}.v"), imports, run, cur))
        bounds.append(start)
    bad = []
    errors = []
    with concurrent.futures.ThreadPoolExecutor(max_workers=JOBS) as ex:
        for b, r in zip(bounds, ex.map(_coq_shard, jobs)):
            if "error" in r:
                errors.append(r)
                continue
            for j, idx in enumerate(r["bad"]):
                mo = r["model"][j] if j < len(r["model"]) else None
                bad.append((b + idx, mo))
    return bad, errors


# ---------------------------------------------------------------- context / evidence / verdict


class Ctx:
    def __init__(self, prop, tier, seed):
        self.prop = prop
        self.tier = tier
        self.seed = seed
        self.rng = random.Random(seed * 1000003 + int(hashlib.sha1(prop.encode()).hexdigest()[:6], 16))
        self.scratch = os.path.join(VERIF, "build", f"{prop}-{os.getpid()}")
        os.makedirs(self.scratch, exist_ok=True)
        self.t0 = time.time()
        self.dist = {}
        self.notes = {}

    @property
    def quick(self):
        return self.tier == "quick"

    def n(self, quick, thorough):
        return quick if self.tier == "quick" else thorough

    def count(self, key, k=1):
        self.dist[key] = self.dist.get(key, 0) + k

    def cleanup(self):
        shutil.rmtree(self.scratch, ignore_errors=True)


def load_known(prop):
    """known_findings/<id>.json: {"findings": [{"id","what","match":{...}}], "fixed": [...]}.
    Only "findings" suppress anything; "fixed" entries are documentation."""
    path = os.path.join(VERIF, "known_findings", prop + ".json")
    if not os.path.exists(path):
        return []
    data = json.load(open(path))
    return list(data.get("findings", []))


def finding_matches(f, failure):
    m = f.get("match", {})
    for k, want in m.items():
        got = failure.get(k)
        if isinstance(want, dict) and "regex" in want:
            if got is None or not re.search(want["regex"], str(got)):
                return False
        elif isinstance(want, list):
            if got not in want:
                return False
        elif got != want:
            return False
    return True


def write_replay(prop, n, payload):
    d = os.path.join(VERIF, "replay")
    os.makedirs(d, exist_ok=True)
    path = os.path.join(d, f"{prop}-{n}.json")
    with open(path, "w") as f:
        json.dump(jsonable(payload), f, indent=1, sort_keys=True)
    return path


def case_key(case):
    return hashlib.sha1(repr(normalize(case)).encode()).hexdigest()


def corpus_cases(prop):
    d = os.path.join(VERIF, "corpus", prop)
    out = []
    if os.path.isdir(d):
        for f in sorted(os.listdir(d)):
            if f.endswith(".json"):
                j = json.load(open(os.path.join(d, f)))
                out.append((j.get("kind", "corpus"), unjson(j["case"])))
    return out


BASE_TRUSTED = [
    "Coq 8.16.1 kernel (coqc full .vo build; vm_compute used for finite tables and for evaluating the model on correspondence cases; no native_compute)",
    "Print Assumptions output under every property theorem is recorded in coverage.assumptions_reported",
    "hand-written Gallina model of the anchored Python functions, tied to /repo by the correspondence check of this run (same cases through `run` inside Coq and through the implementation)",
    "harness/lib.py + harness/p<ID>.py (case generation, exception->code mapping, obs printing), CPython 3.12",
]


def run_property(mod, argv=None):
    ap = argparse.ArgumentParser()
    ap.add_argument("--tier", default=os.environ.get("VERIF_TIER", "quick"))
    ap.add_argument("--replay", default=None)
    ap.add_argument("--seed", type=int, default=int(os.environ.get("VERIF_SEED", "1")))
    a = ap.parse_args(argv)
    tier = a.tier if a.tier in ("quick", "thorough") else "quick"
    ctx = Ctx(mod.ID, tier, a.seed)
    try:
        if a.replay:
            return replay(mod, ctx, a.replay)
        return _run(mod, ctx)
    finally:
        ctx.cleanup()


def replay(mod, ctx, path):
    j = json.load(open(path))
    print(json.dumps(j, indent=1)[:3000])
    case = j.get("case")
    if case is None:
        print("replay file names a broken obligation, no concrete case")
        return 0
    case = unjson(case)
    kind = j.get("kind", "replay")
    out = normalize(safe_impl(mod, case))
    print("implementation:", jsonable(out))
    fails = mod.oracle(ctx, kind, case, out) if hasattr(mod, "oracle") else []
    print("oracle failures:", jsonable(fails))
    if getattr(mod, "COQ_RUN", None):
        coq_make([f"Props/{mod.ID}.vo"])
        bad, errs = coq_compare(ctx, mod.COQ_IMPORTS, mod.COQ_RUN, [(case, out)])
        print("model agrees" if not bad and not errs else f"model differs: {jsonable(bad)} {errs}")
    return 1 if fails else 0


def safe_impl(mod, case):
    try:
        return with_watchdog(mod.impl, case, seconds=getattr(mod, "CASE_TIMEOUT", 20.0))
    except Hang:
        return Err(-2, "hang")


def _run(mod, ctx):
    prop = mod.ID
    known = load_known(prop)
    violations = []  # (kind, payload)
    known_hits = {}
    notes = []

    # 1. proofs
    extra_files = getattr(mod, "EXTRA_PROP_FILES", ())
    proofs = coq_props(prop, extra_files)
    if hasattr(mod, "generated_obligations"):
        g = mod.generated_obligations(ctx)
        proofs["obligations"] += g["obligations"]
        proofs["discharged"] += g["discharged"]
        proofs["theorems"] += g.get("theorems", [])
        if not g["ok"]:
            proofs["ok"] = False
            proofs["log"] += "\n" + g.get("log", "")
        proofs.setdefault("generated", g.get("info"))

    # 2. cases through the implementation + oracle
    seen = {}
    pairs = []
    kinds = []
    failures = []
    nontrivial = set()
    all_cases = corpus_cases(prop) + list(mod.cases(ctx)) if hasattr(mod, "cases") else []
    for kind, case in all_cases:
        case = normalize(case)
        k = case_key(case)
        ctx.count("kind:" + kind)
        if k in seen:
            continue
        out = normalize(safe_impl(mod, case))
        seen[k] = out
        okey = ("err", out.code) if isinstance(out, Err) else ("ok",)
        if not isinstance(out, Err):
            nontrivial.add(k)
        elif (kind, okey) not in nontrivial:
            nontrivial.add((kind, okey))
        ctx.count("outcome:" + ("err%d" % out.code if isinstance(out, Err) else "ok"))
        if isinstance(out, Err) and out.code == -2:
            failures.append({"kind": "hang", "case_kind": kind, "case": case, "what": "implementation did not terminate within the watchdog"})
        if hasattr(mod, "oracle"):
            for f in mod.oracle(ctx, kind, case, out) or []:
                f.setdefault("case_kind", kind)
                f.setdefault("case", case)
                failures.append(f)
        if getattr(mod, "COQ_RUN", None) and not (hasattr(mod, "in_model") and not mod.in_model(kind, case)):
            pairs.append((case, out))
            kinds.append(kind)
    if hasattr(mod, "extra"):
        for f in mod.extra(ctx) or []:
            failures.append(f)

    # 3. correspondence
    disagreements = []
    corr_errors = []
    if pairs:
        bad, corr_errors = coq_compare(ctx, mod.COQ_IMPORTS, mod.COQ_RUN, pairs)
        for idx, mo in bad:
            disagreements.append({"case_kind": kinds[idx], "case": pairs[idx][0], "impl": pairs[idx][1], "model": mo})

    # 4. verdict
    nrep = 0
    lines = []
    for f in failures:
        hit = next((kf for kf in known if finding_matches(kf, f)), None)
        if hit:
            known_hits.setdefault(hit["id"], hit)
            continue
        violations.append(("oracle", f))
    for kf in known_hits.values():
        lines.append(f"KNOWN-FINDING: property={prop} {kf['what']}")
    reported = set()
    for kind, f in violations:
        sig = (f.get("kind"), f.get("sig"))
        if sig in reported and len(reported) > 0:
            continue
        reported.add(sig)
        if nrep >= 5:
            break
        nrep += 1
        path = write_replay(prop, nrep, {"property": prop, "source": kind, **f})
        lines.append(f"VIOLATION property={prop} replay={path}")
    broken = []
    if not proofs["ok"]:
        broken.append({"what": "proof obligations no longer check", "log": proofs.get("log", "")[-3000:], "forbidden": proofs.get("forbidden")})
    if disagreements:
        broken.append({"what": "model/implementation correspondence differs", "n": len(disagreements), "first": disagreements[:5]})
    if corr_errors:
        broken.append({"what": "correspondence evaluation failed inside Coq", "errors": corr_errors[:2]})
    if broken and not violations:
        # the oracle found no concrete failing input among the cases explored (it ran on all of
        # them, including the disagreeing ones); widen the search if the module offers one
        found = []
        if hasattr(mod, "widen"):
            found = mod.widen(ctx, disagreements) or []
            found = [f for f in found if not any(finding_matches(kf, f) for kf in known)]
        if found:
            for f in found[:3]:
                nrep += 1
                path = write_replay(prop, nrep, {"property": prop, "source": "widened-search", **f})
                lines.append(f"VIOLATION property={prop} replay={path}")
            violations += [("widened", f) for f in found]
        else:
            nrep += 1
            path = write_replay(prop, nrep, {"property": prop, "source": "broken-obligation", "broken": broken})
            lines.append(f"VIOLATION property={prop} replay={path} no-failing-input-found")
            violations.append(("broken", broken))
    elif broken:
        # concrete violation already reported; keep the broken obligations in the first replay
        pass

    # 5. evidence
    samples = [
        {"kind": kinds[i], "case": jsonable(pairs[i][0]), "impl": jsonable(pairs[i][1])}
        for i in sorted(ctx.rng.sample(range(len(pairs)), min(6, len(pairs))))
    ] if pairs else []
    if not samples:
        samples = ctx.notes.get("samples", [{"note": "see distribution"}])
    cov = {
        "obligations": proofs["obligations"],
        "discharged": proofs["discharged"],
        "checker_cmd": f"tools/coqbuild.sh && coqc -Q coq DV coq/Props/{prop}.v  (via ./check {prop} --tier {ctx.tier})",
        "trusted_base": BASE_TRUSTED + list(getattr(mod, "TRUSTED", [])),
        "theorems": proofs["theorems"],
        "coq_files": proofs.get("closure", []),
        "assumptions_reported": proofs["assumptions"],
        "evaluations": len(seen) + ctx.notes.get("extra_evaluations", 0),
        "distinct_nontrivial": len(nontrivial) + ctx.notes.get("extra_nontrivial", 0),
        "rule": getattr(mod, "RULE", "cases are drawn from the module's structured generators (one PRNG seeded by VERIF_SEED) plus the stored corpus; distinct = distinct canonical case; non-trivial = the implementation returned a value, or an error class not yet seen for that case kind"),
        "correspondence_cases": len(pairs),
        "correspondence_disagreements": len(disagreements),
        "oracle_failures": len(failures),
        "known_findings_hit": sorted(known_hits),
        "samples": samples,
        "distribution": dict(sorted(ctx.dist.items())),
        "exhaustive": bool(ctx.notes.get("exhaustive", False)),
    }
    for k, v in ctx.notes.items():
        if k not in ("samples", "extra_evaluations", "extra_nontrivial", "exhaustive"):
            cov[k] = v
    ev = {
        "property_id": prop,
        "tier": ctx.tier,
        "seed": ctx.seed,
        "level": "proof",
        "coverage": cov,
        "assumptions": list(getattr(mod, "ASSUMPTIONS", [])),
        "wall_s": round(time.time() - ctx.t0, 2),
        "violations": len([1 for l in lines if l.startswith("VIOLATION")]),
    }
    # runs against a scratch tree (VERIF_REPO) must not overwrite the registered evidence
    evdir = os.path.join(VERIF, "evidence") if os.path.realpath(REPO) == "/repo" else os.path.join(VERIF, "build", "alt-evidence")
    os.makedirs(evdir, exist_ok=True)
    with open(os.path.join(evdir, f"{prop}.json"), "w") as f:
        json.dump(ev, f, indent=1, sort_keys=True)
    for l in lines:
        print(l)
    print(
        f"{prop} tier={ctx.tier} seed={ctx.seed}: theorems {proofs['discharged']}/{proofs['obligations']}, "
        f"cases {len(seen)}, correspondence {len(pairs)} ({len(disagreements)} differ), "
        f"oracle failures {len(failures)} ({len(known_hits)} known findings), {ev['wall_s']}s"
    )
    sys.stdout.flush()
    return 1 if any(l.startswith("VIOLATION") for l in lines) else 0


def main():
    if len(sys.argv) < 2:
        print("usage: check <property id> [--tier quick|thorough] [--replay file]")
        return 2
    prop = sys.argv[1]
    sys.path.insert(0, os.path.join(VERIF, "harness"))
    mod = importlib.import_module("p" + prop)
    return run_property(mod, sys.argv[2:])


if __name__ == "__main__":
    sys.exit(main())
