"""Record-level generators, runner and oracle for C05 (all implemented rdata types).

A record case is  [100, rdclass, rdtype, wire, ochoice]   (value given by its wire form) or
                  [101, rdclass, rdtype, text, ochoice, relativize]  (value given as text).
The runner evaluates the property text on the implementation and returns the list of
violated clauses  [[what, detail], ...]  ([] = all clauses hold, [0] = not a value).
"""
import os
import re

import dns.exception
import dns.name
import dns.rdata
import dns.rdataclass
import dns.rdatatype
import dns.rdtypes.ANY.TXT
import dns.zone

import lib

# resolve every implemented class once, IN first, so that dns.rdata.get_rdata_class never caches
# GenericRdata for a type depending on the order of the cases (integrator note)
dns.rdata.load_all_types(False)

IN = dns.rdataclass.IN
CH = dns.rdataclass.CH
ORIGIN = dns.name.from_text("example.")
ORIGIN2 = dns.name.from_text("sub.example.")
UNKNOWN_TYPE = 65280


def txt_text(strings):
    return dns.rdtypes.ANY.TXT.TXT(IN, dns.rdatatype.TXT, [bytes(s) for s in strings]).to_text()


def generic_text(data, chunk, sep):
    style = dns.rdata.RdataStyle(hex_chunk_size=chunk, hex_chunk_separator=bytes(sep).decode())
    return dns.rdata.GenericRdata(IN, UNKNOWN_TYPE, bytes(data)).to_styled_text(style)


# ------------------------------------------------------------------ specimens

EXTRA_SPECIMENS = [
    (IN, "SIG", "NSEC 1 3 3600 20200101000000 20030101000000 2143 foo.example. MxFcby9k/yvedMfQgKzhH5er0Mu/vILz45IkskceFGgi"),
    (IN, "SIG", "TYPE0 5 0 0 4294967295 0 65535 . AQID"),
    (IN, "KEY", "256 3 5 AQPSKmynfzW4kyBv015MUG2DeIQ3Cbl+BBZH4b/0PY1kxkmvHjcZc8nokfzj31Ga"),
    (IN, "KEY", "NOKEY|FLAG2 3 8"),
    (IN, "KEY", "HOST|SIG3 TLS RSASHA256 AQID"),
    (IN, "NINFO", '"one" "two\\000\\255"'),
    # lists with more than two items
    (IN, "HIP", "2 200100107b1a74df365639cc39f1d578 AwEAAbdxyhNuSutc5EMzxTs9LBPCIkOFH8cIvM4p9+LrV4e19WzK00+CI6zBCQTdtWsuxKbWIy87UOoJTwkUs7lB "
                "rvs1.example.com. rvs2.example.com. rvs3.example.com. rvs4.example."),
    (IN, "HTTPS", '1 . alpn="h2,h3" port=8443 ipv4hint=1.2.3.4,5.6.7.8 ech=AQID ipv6hint=::1,2001:db8::1 key65000="x\\000y"'),
    (IN, "SVCB", "16 foo.example. mandatory=alpn,port alpn=h2 no-default-alpn port=53 key7=x"),
    (IN, "APL", "1:10.0.0.0/8 !1:10.1.0.0/16 2:2001:db8::/32 !2:2001:db8:1::/48 1:192.168.0.0/16"),
    (IN, "TXT", '"1" "2" "3" "4" "5" "6"'),
    (IN, "NSEC", "x.example. A TYPE256 TYPE512 TYPE768 TYPE1024 TYPE65535"),
    (IN, "AMTRELAY", "10 1 3 relay.example."),
    (IN, "AMTRELAY", "0 0 0 ."),
    (IN, "IPSECKEY", "10 3 2 gw.example. AQNRU3mG7TVTO2BkR47usntb102uFJtugbo6BSGvgqt4AQ=="),
    (IN, "EUI64", "00-01-02-ab-cd-ef-fe-ff"),
    (IN, "TKEY", "hmac-sha256. 1609459200 1609545600 3 0 AQIDBA== AQID"),
    (IN, "TKEY", "gss-tsig. 0 4294967295 65535 65535 AQIDBAUGBwg="),
    (IN, "TSIG", "hmac-sha256. 1609459200 300 4 AQIDBA== 12345 NOERROR 0"),
    (IN, "TSIG", "hmac-sha1. 281474976710655 65535 3 AQID 65535 BADTIME 6 AAAAAAAB"),
    (CH, "A", "ch-addr.example. 4660"),
    (CH, "A", ". 177777"),
    (IN, "TXT", '"a b" "\\"q\\"" "\\000\\031\\127\\128\\200\\255" ";(" ""'),
    (IN, "HINFO", '"a\\"b\\\\c" "\\000\\031 ;"'),
    (IN, "HINFO", '"\\200" "x"'),
    (IN, "X25", '"\\001\\127"'),
    (IN, "ISDN", '"" "\\255"'),
    (IN, "CAA", '255 issue "\\000;\\200"'),
    (IN, "NAPTR", '1 2 "\\255" "a b" "!^.*$!sip:x@example.com!" \\..example.'),
    (IN, "URI", '1 2 "a b"'),
    (IN, "URI", '65535 0 "x"'),
    (IN, "LOC", "90 0 0.000 N 180 0 0.000 W -100000.00m 0.00m 0.00m 0.00m"),
    (IN, "LOC", "0 0 0.001 S 0 0 0.001 W 42849672.95m 90000000.00m 90000000.00m 90000000.00m"),
    (IN, "LOC", "89 59 59.999 S 179 59 59.999 E 1.15m 0.09m 0.07m 0.03m"),
    (IN, "APL", ""),
    (IN, "APL", "1:0.0.0.0/0 !2:::/0 2:1:2:3:4:5:6:7:8/128 1:255.255.255.255/32"),
    (IN, "NSEC", "\\000.\\255.example. A TYPE65535"),
    (IN, "NSEC", "x.example. A RRSIG NSEC CAA"),
    (IN, "NSEC", "x.example. A NS SOA TYPE255 TYPE256 TYPE512 TYPE1234 TYPE65280"),
    (IN, "NSEC3", "1 0 10 ab 2t7b4g4vsa5smi47k61mv5bv1a22bojr A RRSIG NSEC3PARAM CAA TYPE768"),
    (IN, "CSYNC", "66 3 A NS AAAA CAA"),
    (IN, "TXT", '"a\\001b\\127" "\\195\\169\\"\\\\" "tab\\009nl\\010" "\\226\\130\\172 \\240\\159\\152\\128"'),
    (IN, "SPF", '"v=spf1 \\031 \\195\\188"'),
    (IN, "NSEC3", "1 0 0 - 00 A"),
    (IN, "NSEC3", "255 255 65535 ff vvvvvvvvvvvvvvvvvvvvvvvvvvvvvvvv"),
    (IN, "CSYNC", "0 65535"),
    (IN, "CERT", "PKIX 0 0 AA=="),
    (IN, "CERT", "65535 65535 255 /w=="),
    (IN, "DS", "0 0 5 00"),
    (IN, "CDS", "0 0 0 00"),
    (IN, "CDNSKEY", "0 3 0 AA=="),
    (IN, "SSHFP", "4 2 " + "ab" * 32),
    (IN, "WKS", "10.0.0.1 6"),
    (IN, "WKS", "255.255.255.255 255 0 7 8 65535"),
    (IN, "SOA", "\\@.example. a\\.b.example. 4294967295 4294967295 0 1 2147483647"),
    (IN, "SOA", ". . 0 0 0 0 0"),
    (IN, "MX", "0 \\(x\\)\\;\\\".A\\032B.example."),
    (IN, "SRV", "1 2 3 *._tcp.example."),
    (IN, "HIP", "2 200100107B1A74DF365639CC39F1D578 AwEAAbdx a.example. b."),
    (IN, "IPSECKEY", "255 3 255 gw.example. AA=="),
    (IN, "AMTRELAY", "255 1 3 ."),
    (IN, "L64", "0 0000:0000:0000:0000"),
    (IN, "NID", "65535 ffff:ffff:ffff:ffff"),
    (IN, "L32", "65535 255.255.255.255"),
    (IN, "EUI48", "ff-ff-ff-ff-ff-ff"),
    (IN, "NSAP", "0x"),
    (IN, "SVCB", '1 . alpn="h2" port=443 ipv4hint=1.2.3.4 key65534="\\001\\255" ipv6hint=::1'),
    (IN, "HTTPS", "0 ."),
    (IN, "ZONEMD", "0 255 255 00"),
    (IN, "DSYNC", "TYPE65535 255 0 ."),
    (IN, "RP", "a\\.b.example. ."),
    (IN, "OPENPGPKEY", "AA=="),
    (IN, "DHCID", "AAEC"),
    (IN, "RESINFO", '"\\255"'),
]

_cache = {}


def specimens(repo):
    """{(rdclass, rdtype): [wire, ...]} from tests/example plus the hand-written list"""
    if repo in _cache:
        return _cache[repo]
    out = {}
    # static wire forms first (harness/c05wires.json, computed on the unchanged tree): a change that breaks
    # from_text must not make the values it breaks disappear from the test set
    try:
        import json as _json
        with open(os.path.join(os.path.dirname(os.path.abspath(__file__)), "c05wires.json")) as fh:
            for k, ws in _json.load(fh)["wires"].items():
                c, t = k.split(",")
                out[(int(c), int(t))] = [bytes.fromhex(w) for w in ws]
    except Exception:  # noqa
        out = {}
    path = os.path.join(repo, "tests", "example")
    try:
        z = dns.zone.from_file(path, origin="example.", relativize=False, check_origin=False)
        for _, node in sorted(z.nodes.items()):
            for rds in node.rdatasets:
                for rd in rds:
                    out.setdefault((int(rds.rdclass), int(rds.rdtype)), []).append(rd.to_wire())
    except Exception:  # noqa  (a broken tree must not stop the hand-written specimens)
        pass
    for rdclass, rdtype, text in EXTRA_SPECIMENS:
        t = dns.rdatatype.from_text(rdtype)
        try:
            rd = dns.rdata.from_text(rdclass, t, text, origin=ORIGIN, relativize=False)
            out.setdefault((int(rdclass), int(t)), []).append(rd.to_wire())
        except Exception:  # noqa
            out.setdefault((int(rdclass), int(t)), [])
    out = {k: list(dict.fromkeys(v)) for k, v in out.items()}
    _cache[repo] = out
    return out


def implemented_types():
    """(rdclass, rdtype) of every type with a non-generic implementation (OPT has no text form)."""
    out = []
    for t in dns.rdatatype.RdataType:
        if t == dns.rdatatype.OPT:
            continue
        cls = dns.rdata.get_rdata_class(IN, t, use_generic=False)
        if cls is not None and cls is not dns.rdata.GenericRdata:
            out.append((int(IN), int(t)))
    out.append((int(CH), int(dns.rdatatype.A)))
    return out


INTERESTING = [0, 1, 0x1F, 0x20, 0x22, 0x28, 0x3B, 0x40, 0x5C, 0x7E, 0x7F, 0x80, 0xC8, 0xFF]


def mutate_wire(rng, w):
    b = bytearray(w)
    for _ in range(rng.choice([1, 1, 1, 2, 3])):
        r = rng.random()
        if r < 0.35 and b:
            b[rng.randrange(len(b))] = rng.choice(INTERESTING) if rng.random() < 0.6 else rng.randrange(256)
        elif r < 0.5 and b:
            i = rng.randrange(len(b))
            b[i] = (b[i] + rng.choice([1, -1])) % 256
        elif r < 0.6 and b:
            b[rng.randrange(len(b))] ^= 1 << rng.randrange(8)
        elif r < 0.7 and b:
            del b[rng.randrange(len(b)):]
        elif r < 0.8 and b:
            del b[rng.randrange(len(b))]
        elif r < 0.9:
            b[len(b):] = bytes(rng.choice(INTERESTING) for _ in range(rng.randint(1, 4)))
        else:
            b.insert(rng.randint(0, len(b)), rng.choice(INTERESTING))
    return bytes(b)


NUMS = ["0", "1", "59", "60", "90", "91", "127", "128", "180", "181", "255", "256", "999", "1000", "65535", "65536",
        "2147483647", "2147483648", "4294967295", "4294967296", "-1", "00", "0.00m", "-100000.00m", "-100000.01m",
        "-100001.00m", "42849672.95m", "42849672.96m", "1.15m", "0.29m", "90000000.00m", "99999999.99m", "1e3", "1.5",
        "20200101000000", "99991231235959", "1w", "\\065", '"\\200"', '""', '"a\\"b"', "\\200", "é", "TYPE0", "TYPE65536",
        "A", "-", ".", "@", "x.", "0x", "::", "1.2.3.4", "N", "S", "E", "W"]


def mutate_rdtext(rng, t):
    toks = t.split(" ")
    i = rng.randrange(len(toks))
    r = rng.random()
    if r < 0.55:
        toks[i] = rng.choice(NUMS)
    elif r < 0.65:
        del toks[i]
    elif r < 0.75:
        toks.insert(i, rng.choice(NUMS))
    elif r < 0.9 and toks[i]:
        j = rng.randrange(len(toks[i]))
        toks[i] = toks[i][:j] + rng.choice(["\\200", "\\034", "\\\\", "0", "9", "z", "\\", '"', "é", "\\ ", "\\032", "\\009", "\\ ", "+", "_", "0x", "-"]) + toks[i][j + (rng.random() < 0.5):]
    else:
        toks[i] = toks[i].upper() if rng.random() < 0.5 else toks[i] + toks[i]
    return " ".join(toks)


def bitmap_wire(types):
    """canonical RFC 4034 type bitmap of a set of types (independent of dns.rdtypes.util.Bitmap)"""
    out = b""
    for window in sorted({t >> 8 for t in types}):
        bits = bytearray(32)
        for t in types:
            if t >> 8 == window:
                bits[(t & 0xFF) >> 3] |= 0x80 >> (t & 7)
        n = max(i for i in range(32) if bits[i]) + 1
        out += bytes([window, n]) + bytes(bits[:n])
    return out


def gen_types(rng):
    pool = [1, 2, 6, 15, 16, 28, 46, 47, 48, 50, 51, 255, 256, 257, 258, 263, 511, 512, 768, 1234, 32768, 65280, 65535]
    r = rng.random()
    if r < 0.5:
        return set(rng.sample(pool, rng.randint(1, 8)))
    if r < 0.8:
        # a high bit in an early window, only low bits in later ones
        return {rng.choice([255, 250, 128, 47])} | {(w << 8) | rng.randrange(1, 8) for w in rng.sample(range(1, 256), rng.randint(1, 4))}
    return {rng.randrange(1, 65536) for _ in range(rng.randint(1, 12))}


# ------------------------------------------------------------------ character-strings at the length boundary
# octets that expand under escaping: \\DDD (4 characters) for controls / DEL / high octets, \\" and \\\\ (2 characters);
# a legal string of <= 255 octets then has a text of up to 1020 characters
EXPANDING = [bytes(range(0, 32)) + bytes(range(127, 256)), b'"\\', bytes([0]), bytes([255]), bytes([200, 34, 92, 7])]
BOUNDARY_LENGTHS = [63, 64, 65, 85, 86, 127, 128, 129, 254, 255]


def independent_escape(b):
    """RFC 1035 5.1 text of an octet string, written without the library"""
    return "".join("\\" + chr(c) if c in (34, 92) else chr(c) if 32 <= c < 127 else "\\%03d" % c for c in b)


def boundary_strings(rng, full=False):
    """octet strings of 63..255 octets whose escaped text is longer than 255 characters (and the
    printable controls of the same lengths)"""
    out = []
    lengths = BOUNDARY_LENGTHS if full else [64, 128, 255, rng.choice(BOUNDARY_LENGTHS)]
    for n in lengths:
        for pool in (EXPANDING if full else [EXPANDING[0], EXPANDING[1], rng.choice(EXPANDING)]):
            out.append(bytes(rng.choice(pool) for _ in range(n)))
        # printable with a single quote / backslash (255 octets -> 256 characters)
        b = bytearray(rng.randrange(97, 123) for _ in range(n))
        b[rng.randrange(n)] = rng.choice(b'"\\')
        out.append(bytes(b))
        out.append(bytes(rng.randrange(97, 123) for _ in range(n)))
    return out


def cs(b):
    return bytes([len(b)]) + b


def charstring_values(rng, full=False):
    """(rdclass, rdtype, wire) of every type with counted / quoted strings, the strings at the length boundary
    and made of octets that expand under escaping; built from octets only (no library text code)"""
    T = dns.rdatatype
    name = b"\x01x\x07example\x00"
    short = [b"", b"a", b"\x00", b'"']
    for s in boundary_strings(rng, full):
        o = rng.choice(short + [s])
        yield int(IN), int(T.HINFO), cs(s) + cs(o)
        yield int(IN), int(T.HINFO), cs(o) + cs(s)
        yield int(IN), int(T.X25), cs(s)
        yield int(IN), int(T.ISDN), cs(s) + (cs(o) if o else b"")
        yield int(IN), int(T.ISDN), cs(o or b"1") + cs(s)
        yield int(IN), int(T.NAPTR), b"\x00\x01\x00\x02" + cs(s) + cs(o) + cs(b"") + name
        yield int(IN), int(T.NAPTR), b"\x00\x01\x00\x02" + cs(o) + cs(s) + cs(o) + name
        yield int(IN), int(T.NAPTR), b"\xff\xff\x00\x00" + cs(b"") + cs(o) + cs(s) + b"\x00"
        yield int(IN), int(T.CAA), b"\x80" + cs(b"issue") + s
        yield int(IN), int(T.CAA), b"\x00" + cs(b"x") + s + s + s
        yield int(IN), int(T.URI), b"\x00\x01\x00\x02" + s
        yield int(IN), int(T.URI), b"\x00\x01\x00\x02" + s + s
        for t in (T.TXT, T.SPF, T.AVC, T.NINFO, T.RESINFO, T.WALLET):
            if full or t == T.TXT or rng.random() < 0.2:
                yield int(IN), int(t), cs(s)
                yield int(IN), int(t), cs(o) + cs(s) + cs(s)


def structured_values(rng, n):
    """(rdclass, rdtype, wire) of values built without the library's text or bitmap code"""
    nxt = b"\x01x\x07example\x00"
    for _ in range(n):
        bm = bitmap_wire(gen_types(rng))
        yield int(IN), int(dns.rdatatype.NSEC), nxt + bm
        yield int(IN), int(dns.rdatatype.NSEC3), b"\x01\x00\x00\x0a\x02\xab\xcd\x14" + bytes(rng.randrange(256) for _ in range(20)) + bm
        yield int(IN), int(dns.rdatatype.CSYNC), b"\x00\x00\x00\x42\x00\x03" + bm
        # TXT-like strings that are valid UTF-8 and contain control / quote / non-ASCII characters
        strs = []
        for _ in range(rng.randint(1, 3)):
            t = "".join(rng.choice(["a", " ", "\x00", "\x01", "\x1f", "\x7f", '"', "\\", ";", "\t", "\n", "\u00e9", "\u20ac", "\U0001f600",
                                    "\u0080", "\u009f", "\u00a0", "\u00ad", "\u07ff", "\u0378", "\u200b", "\u2028", "\u3000", "\ue000",
                                    "\ufeff", "\uffff", "\U000e0001", "\U0010ffff"])
                        for _ in range(rng.randint(0, 8)))
            strs.append(t.encode()[:255])
        w = b"".join(bytes([len(x)]) + x for x in strs)
        yield int(IN), int(rng.choice([dns.rdatatype.TXT, dns.rdatatype.SPF, dns.rdatatype.AVC, dns.rdatatype.NINFO])), w


def ctor_values(rng, per_type):
    """values built through the class constructors by the shared generator harness/records.py
    (C02); optional - the check does not depend on it"""
    try:
        import records as R
        T = R.table()
    except Exception:  # noqa
        return
    for t in T.types:
        if t["name"] == "OPT":
            continue
        for _ in range(per_type):
            try:
                v = R.gen_values(rng, t)
                rd = R.make_rdata(t, t["rdclass"] if t["rdclass"] != 255 else int(IN), v)
                yield int(rd.rdclass), int(rd.rdtype), rd.to_wire()
            except Exception:  # noqa
                continue


def record_cases(ctx):
    rng = ctx.rng
    repo = lib.REPO
    spec = specimens(repo)
    types = implemented_types()
    ctx.notes["record_types"] = len(types)
    nmut = ctx.n(6, 150)
    nrand = ctx.n(2, 40)
    ntext = ctx.n(4, 100)
    for rdclass, rdtype, w in structured_values(rng, ctx.n(25, 600)):
        yield "rd-structured", [100, rdclass, rdtype, w, rng.randrange(2)]
    for rdclass, rdtype, w in charstring_values(rng, full=not ctx.quick):
        yield "rd-charstring", [100, rdclass, rdtype, w, rng.randrange(2)]
    for rdclass, rdtype, w in ctor_values(rng, ctx.n(3, 60)):
        yield "rd-ctor", [100, rdclass, rdtype, w, rng.randrange(2)]
    for rdclass, rdtype in types:
        seeds = spec.get((rdclass, rdtype), [])
        if not seeds:
            ctx.count("no-specimen:" + dns.rdatatype.to_text(rdtype))
        for w in seeds:
            for oc in (0, 1):
                yield "rd-wire", [100, rdclass, rdtype, w, oc]
        for _ in range(nmut if seeds else 0):
            yield "rd-wire-mut", [100, rdclass, rdtype, mutate_wire(rng, rng.choice(seeds)), rng.randrange(2)]
        for _ in range(nrand):
            n = rng.choice([0, 1, 2, 3, 4, 6, 8, 16, 17, 20, 40])
            yield "rd-wire-rand", [100, rdclass, rdtype, bytes(rng.randrange(256) if rng.random() < 0.7 else rng.choice(INTERESTING) for _ in range(n)), rng.randrange(2)]
        texts = []
        for w in seeds:
            try:
                texts.append(dns.rdata.from_wire(rdclass, rdtype, w, 0, len(w)).to_text())
            except Exception:  # noqa
                pass
        for t in texts:
            yield "rd-text", [101, rdclass, rdtype, t.encode("utf-8", "surrogatepass"), 0, 0]
        # systematic probe of the lenient number syntaxes (int()/float() accept blanks, signs, "_"): an escaped
        # blank / a sign / an underscore at the start, inside and at the end of every token of the first text(s)
        for t in texts[: (1 if ctx.quick else 3)]:
            toks = t.split(" ")
            for i, tk in enumerate(toks):
                if not tk or tk.startswith('"'):
                    continue
                for v in ("\\ " + tk[1:], "\\ " + tk, tk[:-1] + "\\ ", "+" + tk[1:], tk[:1] + "_" + tk[2:]):
                    if v != tk:
                        yield "rd-text-lenient", [101, rdclass, rdtype, " ".join(toks[:i] + [v] + toks[i + 1:]).encode("utf-8", "surrogatepass"), 0, 0]
        for _ in range(ntext if texts else 0):
            t = mutate_rdtext(rng, rng.choice(texts))
            yield "rd-text-mut", [101, rdclass, rdtype, t.encode("utf-8", "surrogatepass"), rng.randrange(2), rng.randrange(2)]
    # unknown types: generic form only
    for _ in range(ctx.n(30, 600)):
        n = rng.choice([0, 1, 2, 5, 33, 64, 65, 200])
        yield "rd-unknown", [100, int(IN), rng.choice([UNKNOWN_TYPE, 999, 65535, 1234]), bytes(rng.randrange(256) for _ in range(n)), 0]


# ------------------------------------------------------------------ runner

# RdataStyle fields (dns/rdata.py RdataStyle + dns/name.py NameStyle + dns/style.py): origin / relativize are
# driven by the modes of value_checks; txt_is_utf8 (bool) x hex/base64 chunk sizes x separators are enumerated here;
# omit_final_dot has its own mode (read back with the root origin); idna_codec changes the name syntax
# (not zone-file text) and truncate_crypto is documented as losing information: both excluded.
STYLES = [
    ("default", {}),
    ("utf8", {"txt_is_utf8": True}),
    ("nochunk", {"hex_chunk_size": 0, "base64_chunk_size": 0}),
    ("tab2-utf8", {"hex_chunk_size": 2, "hex_chunk_separator": "\t", "base64_chunk_size": 3, "base64_chunk_separator": "  ", "txt_is_utf8": True}),
    ("odd", {"hex_chunk_size": 7, "base64_chunk_size": 5, "hex_chunk_separator": " \t", "base64_chunk_separator": " "}),
    ("one-nosep", {"hex_chunk_size": 1, "base64_chunk_size": 1, "hex_chunk_separator": "", "base64_chunk_separator": "\t\t"}),
    ("big", {"hex_chunk_size": 4096, "base64_chunk_size": 4096, "txt_is_utf8": True}),
]


# variable-length fields that have no text form when empty (to_text prints nothing / a double
# blank, from_text needs at least one token): known finding C05 "empty-field-no-text"
EMPTY_FIELDS = {
    "DS": ["digest"], "CDS": ["digest"], "DLV": ["digest"], "DNSKEY": ["key"], "CDNSKEY": ["key"], "KEY": ["key"],
    "RRSIG": ["signature"], "SIG": ["signature"], "TLSA": ["cert"], "SMIMEA": ["cert"], "SSHFP": ["fingerprint"],
    "CERT": ["certificate"], "DHCID": ["data"], "OPENPGPKEY": ["key"], "BRID": ["value"], "HHIT": ["value"],
    "ZONEMD": ["digest"], "TKEY": ["key"], "TSIG": ["mac"], "HIP": ["hit", "key"], "NSEC3": ["next"],
}


def canonical_bitmap(windows):
    """RFC 4034 4.1.2 / RFC 5155 3.2.1: no trailing zero octets (hence no empty block), type 0 clear"""
    for window, bitmap in windows:
        if len(bitmap) == 0 or bitmap[-1] == 0:
            return False
        if window == 0 and bitmap[0] & 0x80:
            return False
    return True


def well_formed(x, tname):
    """Values the library accepts from wire although the RFCs forbid them and whose text form
    therefore has no reason to read back to the same octets (reason returned, None = well-formed)."""
    if tname in ("NSEC", "NSEC3", "CSYNC") and not canonical_bitmap(x.windows):
        return "non-canonical type bitmap (trailing zero octets / empty block / bit 0)"
    if tname == "KEY" and (int(x.flags) & 0xC000) == 0xC000 and len(x.key) > 0:
        return "KEY with NOKEY flags and key data (RFC 2535 3.1.2)"
    if tname == "WKS" and len(x.bitmap) > 8192:
        return "WKS bitmap longer than 65536 bits (ports are 16 bit)"
    if tname in ("SVCB", "HTTPS"):
        # RFC 9460 7.1.1 / 7.3 / 8: alpn, ipv4hint, ipv6hint and mandatory carry a non-empty list; from_wire
        # accepts the empty value (alpn becomes a key without value, the hints / mandatory an empty tuple)
        import dns.rdtypes.svcbbase as S
        for k, v in x.params.items():
            if int(k) == 1 and v is None:
                return "SVCB alpn with an empty value (RFC 9460 7.1.1)"
            if isinstance(v, (S.IPv4HintParam, S.IPv6HintParam)) and len(v.addresses) == 0:
                return "SVCB address hint with an empty list (RFC 9460 7.3)"
            if isinstance(v, S.MandatoryParam) and len(v.keys) == 0:
                return "SVCB mandatory with an empty list (RFC 9460 8)"
    return None


def note_for(x, tname):
    for f in EMPTY_FIELDS.get(tname, []):
        if len(getattr(x, f)) == 0:
            if tname == "KEY" and (int(x.flags) & 0xC000) == 0xC000:
                continue  # NOKEY: nothing follows the algorithm (RFC 2535 7.1) and from_text reads no key
            return "empty-field-no-text"
    if tname == "WKS" and len(x.bitmap) > 0 and x.bitmap[-1] == 0:
        return "wks-trailing-zero-octets"
    return "-"


def _short(e):
    return (type(e).__name__ + ": " + str(e))[:120]


def _rt(x, expect, rdclass, rdtype, style_kw, out_origin, out_rel, in_origin, in_rel, in_relto, tag, fails):
    """one to_text / from_text round trip; appends violated clauses"""
    try:
        style = dns.rdata.RdataStyle(origin=out_origin, relativize=out_rel, **style_kw)
        text = x.to_text(style=style)
    except Exception as e:  # noqa
        fails.append(("to_text raised", f"{tag} exc={_short(e)}"))
        return
    try:
        y = dns.rdata.from_text(rdclass, rdtype, text, origin=in_origin, relativize=in_rel, relativize_to=in_relto)
    except Exception as e:  # noqa
        fails.append(("text does not parse back", f"{tag} text={text[:150]!r} exc={_short(e)}"))
        return
    try:
        same = y == expect
    except Exception as e:  # noqa
        fails.append(("comparison raised", f"{tag} exc={_short(e)}"))
        return
    if not same:
        fails.append(("text parses back to a different record", f"{tag} text={text[:150]!r} got={_safe_text(y)[:150]!r}"))
    elif tag.endswith("mode=abs-asis"):
        # no relativization involved: the octets must be identical, name case included
        try:
            if y.to_wire() != x.to_wire():
                fails.append(("text parses back to a different record", f"{tag} wire differs text={text[:150]!r}"))
        except Exception as e:  # noqa
            fails.append(("accepted from text but to_wire raised", f"{tag} text={text[:150]!r} exc={_short(e)}"))


def _safe_text(y):
    try:
        return y.to_text()
    except Exception as e:  # noqa
        return "<" + _short(e) + ">"


def value_checks(rdclass, rdtype, wire, use_origin, fails):
    """all clauses of the property for the value whose wire form is `wire`"""
    try:
        x_abs = dns.rdata.from_wire(rdclass, rdtype, wire, 0, len(wire))
    except Exception:  # noqa  (rejected: not a value; non-library exceptions here are C04's business)
        return False
    x_rel = x_sub = x_absn = None
    if use_origin:
        try:
            x_rel = dns.rdata.from_wire(rdclass, rdtype, wire, 0, len(wire), origin=ORIGIN)
            # relativizing is case-insensitive: a name below the origin comes back with the origin's
            # own spelling, so the expected absolute record is the re-absolutized relative one
            wn = x_rel.to_wire(origin=ORIGIN)
            x_absn = dns.rdata.from_wire(rdclass, rdtype, wn, 0, len(wn))
            x_sub = dns.rdata.from_wire(rdclass, rdtype, wn, 0, len(wn), origin=ORIGIN2)
        except Exception:  # noqa
            x_rel = x_sub = x_absn = None
    tname = dns.rdatatype.to_text(rdtype)
    if well_formed(x_abs, tname) is not None:
        # only: producing text must not fail
        try:
            x_abs.to_text()
        except Exception as e:  # noqa
            fails.append(("to_text raised", f"{tname} note=not-well-formed exc={_short(e)}"))
        return None
    note = note_for(x_abs, tname)
    for sid, kw in STYLES:
        tag = f"{tname} note={note} style={sid}"
        # names as they are
        _rt(x_abs, x_abs, rdclass, rdtype, kw, None, False, None, True, None, tag + " mode=abs-asis", fails)
        if x_rel is not None:
            _rt(x_rel, x_rel, rdclass, rdtype, kw, None, False, ORIGIN, True, None, tag + " mode=rel-asis", fails)
            # relativized on output, made absolute / kept relative on input
            _rt(x_abs, x_absn, rdclass, rdtype, kw, ORIGIN, True, ORIGIN, False, None, tag + " mode=relout-absin", fails)
            _rt(x_abs, x_rel, rdclass, rdtype, kw, ORIGIN, True, ORIGIN, True, None, tag + " mode=relout-relin", fails)
            # derelativized on output
            _rt(x_rel, x_absn, rdclass, rdtype, kw, ORIGIN, False, None, True, None, tag + " mode=absout", fails)
            # relativize_to a different origin
            _rt(x_rel, x_sub, rdclass, rdtype, kw, None, False, ORIGIN, True, ORIGIN2, tag + " mode=relto", fails)
        if sid == "default":
            # the legacy keyword interface of Rdata.to_text (BaseStyle.from_keywords): chunksize / separator
            for lkw in ({"chunksize": 5, "separator": "\t"}, {"chunksize": 0}, {"separator": "  "}):
                try:
                    ltext = x_abs.to_text(**lkw)
                except Exception as e:  # noqa
                    fails.append(("to_text raised", f"{tag} mode=legacy-kw kw={lkw} exc={_short(e)}"))
                    break
                try:
                    y = dns.rdata.from_text(rdclass, rdtype, ltext)
                    if y != x_abs:
                        fails.append(("text parses back to a different record", f"{tag} mode=legacy-kw kw={lkw} text={ltext[:120]!r}"))
                except Exception as e:  # noqa
                    fails.append(("text does not parse back", f"{tag} mode=legacy-kw kw={lkw} text={ltext[:120]!r} exc={_short(e)}"))
                    break
        if sid in ("default", "odd"):
            # NameStyle.omit_final_dot: absolute names lose their final dot; the root origin restores it
            _rt(x_abs, x_abs, rdclass, rdtype, dict(kw, omit_final_dot=True), None, False, dns.name.root, False, None,
                tag + " mode=omitdot", fails)
        if fails and sid == "utf8":
            # the remaining styles repeat the same failure; keep the report small
            break
    # RFC 3597 generic form
    try:
        g = x_abs.to_generic()
        if bytes(g.data) != bytes(wire) and dns.rdata.from_wire(rdclass, rdtype, g.data, 0, len(g.data)) != x_abs:
            fails.append(("to_generic changes the value", tname))
        for sid, kw in STYLES[2:6]:
            gt = g.to_text(style=dns.rdata.RdataStyle(**kw))
            y = dns.rdata.from_text(rdclass, rdtype, gt)
            if y != x_abs:
                fails.append(("generic text of a known type parses to a different record", f"{tname} style={sid} text={gt[:120]!r}"))
            u = dns.rdata.from_text(rdclass, UNKNOWN_TYPE, gt)
            if bytes(u.data) != bytes(g.data) or u.to_text(style=dns.rdata.RdataStyle(**kw)) != gt:
                fails.append(("generic text does not round-trip as an unknown type", f"{tname} style={sid} text={gt[:120]!r}"))
        if x_rel is not None:
            g2 = x_rel.to_generic(origin=ORIGIN)
            if dns.rdata.from_wire(rdclass, rdtype, g2.data, 0, len(g2.data)) != x_absn:
                fails.append(("to_generic(origin) of the relativized record differs", tname))
    except Exception as e:  # noqa
        fails.append(("generic form raised", f"{tname} exc={_short(e)}"))
    return True


def run_record_case(case):
    op, rdclass, rdtype = case[0], case[1], case[2]
    fails = []
    if op == 100:
        r = value_checks(rdclass, rdtype, bytes(case[3]), bool(case[4]), fails)
        if r is False:
            return [0]
        if r is None and not fails:
            return [1]
    else:
        text = bytes(case[3]).decode("utf-8", "surrogatepass")
        origin = ORIGIN if case[4] else None
        tname = dns.rdatatype.to_text(rdtype)
        try:
            y = dns.rdata.from_text(rdclass, rdtype, text, origin=origin, relativize=bool(case[5]))
        except dns.exception.DNSException:
            return [0]
        except Exception as e:  # noqa
            return [["from_text raised a non-library exception", f"{tname} text={text[:120]!r} exc={_short(e)}"]]
        note = note_for(y, tname)
        wf = well_formed(y, tname) is None
        try:
            w = y.to_wire(origin=ORIGIN)
        except Exception as e:  # noqa
            fails.append(("accepted from text but to_wire raised", f"{tname} note={note} text={text[:120]!r} exc={_short(e)}"))
            w = None
        try:
            t2 = y.to_text()
            try:
                y2 = dns.rdata.from_text(rdclass, rdtype, t2, origin=origin, relativize=bool(case[5])) if wf else y
                if y2 != y:
                    fails.append(("text parses back to a different record", f"{tname} note={note} mode=fromtext text={t2[:150]!r} got={_safe_text(y2)[:150]!r}"))
            except Exception as e:  # noqa
                fails.append(("text does not parse back", f"{tname} note={note} mode=fromtext text={t2[:150]!r} exc={_short(e)}"))
        except Exception as e:  # noqa
            fails.append(("to_text raised", f"{tname} note={note} mode=fromtext text={text[:120]!r} exc={_short(e)}"))
        if w is not None and not fails:
            value_checks(rdclass, rdtype, w, bool(case[4]), fails)
    return [[a.encode("ascii", "replace"), b.encode("ascii", "backslashreplace")] for a, b in fails[:6]]


def record_oracle(ctx, kind, case, out):
    F = []
    if isinstance(out, lib.Err):
        return [{"kind": kind + ":runner", "what": "record runner raised " + out.text, "rdtype": dns.rdatatype.to_text(case[2]), "sig": "runner"}]
    if out == [0]:
        ctx.count("rd-rejected")
        return F
    if out == [1]:
        ctx.count("rd-not-well-formed")
        return F
    ctx.count("rd-value")
    tname = dns.rdatatype.to_text(case[2])
    for item in out:
        what = bytes(item[0]).decode()
        detail = bytes(item[1]).decode()
        m = re.search(r"note=(\S+)", detail)
        mode = re.search(r"mode=(\S+)", detail)
        F.append({"kind": "rd:" + what, "what": what, "rdtype": tname, "note": m.group(1) if m else "-",
                  "mode": mode.group(1) if mode else "-", "detail": detail, "sig": tname + ":" + what})
    return F
