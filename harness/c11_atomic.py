"""C11 - opening a reader is ONE atomic step with respect to commits: the model's `open_reader` selects the
version and registers the reader in a single transition.  Two ties to the code:

* a structure guard (generated obligation `astguard_reader_open_is_one_critical_section`): in
  dns/versioned.py, Zone.reader has exactly one `with self._version_lock` block, and the version selection
  (every access to self._versions), the construction of the Transaction and `self._readers.add` are all inside
  it; _end_read removes the reader and prunes inside one block; set_pruning_policy assigns and prunes inside
  one block; _commit_version_unlocked appends, prunes and ends the write in that order;
* a schedule-level test on the implementation (real threads under the C12 scheduler shim): the reader thread
  is stopped at every preemption point of reader() - every lock operation, and with sys.settrace every source
  line - two complete write transactions are committed there (the default policy prunes everything that is
  not pinned), the reader is resumed until it holds its transaction, and then
      every open reader's version is one of zone._versions (same object),
      zone.reader(id=<that id>) succeeds and yields the same content,
      the reader still reads the content of the version it selected, also after further commits.
"""
import ast
import os

import c12_sched as cs
import c12_astguard


# ---------------------------------------------------------------------------------- structure guard


def _find_method(tree, cls, name):
    for node in ast.walk(tree):
        if isinstance(node, ast.ClassDef) and node.name == cls:
            for f in node.body:
                if isinstance(f, ast.FunctionDef) and f.name == name:
                    return f
    return None


def _inside(node, container):
    return any(n is node for n in ast.walk(container))


def _attr_accesses(fn, attr):
    return [n for n in ast.walk(fn) if isinstance(n, ast.Attribute) and n.attr == attr]


def _calls(fn, pred):
    return [n for n in ast.walk(fn) if isinstance(n, ast.Call) and pred(n)]


def guard():
    problems = []
    path = os.path.join(c12_astguard.repo(), "dns", "versioned.py")
    try:
        tree = ast.parse(open(path, encoding="utf-8").read())
    except Exception as e:  # noqa
        return False, [f"dns/versioned.py: cannot be parsed ({e})"]

    def one_lock_block(fname):
        fn = _find_method(tree, "Zone", fname)
        if fn is None:
            problems.append(f"Zone.{fname} not found")
            return None, None
        withs = [n for n in ast.walk(fn) if c12_astguard.is_lock_with(n)]
        if len(withs) != 1:
            problems.append(f"Zone.{fname}: {len(withs)} `with self._version_lock` blocks (the model has one atomic step)")
            return fn, None
        return fn, withs[0]

    fn, w = one_lock_block("reader")
    if w is not None:
        adds = _calls(fn, lambda c: isinstance(c.func, ast.Attribute) and c.func.attr == "add"
                      and isinstance(c.func.value, ast.Attribute) and c.func.value.attr == "_readers")
        if len(adds) != 1 or not _inside(adds[0], w):
            problems.append("Zone.reader: self._readers.add(...) is not inside the lock block")
        for a in _attr_accesses(fn, "_versions"):
            if not _inside(a, w):
                problems.append(f"Zone.reader line {a.lineno}: version selection outside the lock block")
        if not _attr_accesses(fn, "_versions"):
            problems.append("Zone.reader: no version selection found")
        ctor = _calls(fn, lambda c: isinstance(c.func, ast.Name) and c.func.id == "Transaction")
        if len(ctor) != 1 or not _inside(ctor[0], w):
            problems.append("Zone.reader: the Transaction is not constructed inside the lock block")
        rets = [n for n in ast.walk(fn) if isinstance(n, ast.Return)]
        if not rets or not all(_inside(r, w) for r in rets):
            problems.append("Zone.reader: returns outside the lock block")
    fn, w = one_lock_block("_end_read")
    if w is not None:
        rem = _calls(fn, lambda c: isinstance(c.func, ast.Attribute) and c.func.attr in ("remove", "discard"))
        pr = _calls(fn, lambda c: isinstance(c.func, ast.Attribute) and c.func.attr == "_prune_versions_unlocked")
        if not rem or not pr or not all(_inside(x, w) for x in rem + pr):
            problems.append("Zone._end_read: remove + prune are not inside one lock block")
        elif rem[0].lineno > pr[0].lineno:
            problems.append("Zone._end_read: prunes before removing the reader")
    fn, w = one_lock_block("set_pruning_policy")
    if w is not None:
        st = [n for n in ast.walk(fn) if isinstance(n, ast.Attribute) and n.attr == "_pruning_policy"
              and isinstance(n.ctx, ast.Store)]
        pr = _calls(fn, lambda c: isinstance(c.func, ast.Attribute) and c.func.attr == "_prune_versions_unlocked")
        if not st or not pr or not all(_inside(x, w) for x in st + pr):
            problems.append("Zone.set_pruning_policy: assignment + prune are not inside one lock block")
    fn = _find_method(tree, "Zone", "_commit_version_unlocked")
    if fn is None:
        problems.append("Zone._commit_version_unlocked not found")
    else:
        app = _calls(fn, lambda c: isinstance(c.func, ast.Attribute) and c.func.attr == "append")
        pr = _calls(fn, lambda c: isinstance(c.func, ast.Attribute) and c.func.attr == "_prune_versions_unlocked")
        en = _calls(fn, lambda c: isinstance(c.func, ast.Attribute) and c.func.attr == "_end_write_unlocked")
        if not (app and pr and en) or not (app[0].lineno < pr[0].lineno < en[0].lineno):
            problems.append("Zone._commit_version_unlocked: append / prune / end-write order changed")
    return (not problems), problems


def generated_obligations(ctx):
    ok, problems = guard()
    # the lock discipline itself (fail closed): every access to the shared fields and every CALL of a
    # *_unlocked method is inside `with self._version_lock`, inside another *_unlocked method, or in __init__
    # (so e.g. _commit_version must take the lock around _commit_version_unlocked)
    ok2, problems2, _ = c12_astguard.guard()
    ok = ok and ok2
    problems = problems + problems2
    ctx.notes["structure_guard"] = {"ok": ok, "problems": problems[:10]}
    return {
        "obligations": 1, "discharged": 1 if ok else 0, "ok": ok,
        "theorems": ["astguard_reader_open_is_one_critical_section"],
        "log": "structure guard (the model's open_reader / close_reader / set_policy / commit are single atomic "
               "steps):\n" + "\n".join(problems),
        "info": {},
    }


# ---------------------------------------------------------------------------------- schedule-level test

import pC11

W_A = [0, 0, [[0, 2, 1], [0, 0, 11]], 1]
W_B = [0, 0, [[0, 2, 2], [0, 0, 12]], 1]
W_C = [0, 0, [[0, 3, 3]], 1]
READERS = [[1, None], [1, 0, 2], [1, 1, 10]]


def reader_ready(w):
    return w.done or w.gate[0] == "read"


def one_run(kind, rprog, p, line_mode):
    """reader stopped after p of its own steps; W_A and W_B commit there; reader resumed.
    Returns (failure or None, number of reader steps until it held its transaction)"""
    r = cs.Run([rprog, W_A, W_B, W_C], kind, line_mode=line_mode)
    z = r.z
    fail = None
    nread = 0
    try:
        # a first committed version (id 2, serial 10) so that there is something to prune
        with z.writer() as t:
            t.replace(pC11.key_name(0), pC11.key_rdataset(0, 10))
            t.replace(pC11.key_name(2), pC11.key_rdataset(2, 0))
        ws = r.sched.workers
        rd = ws[0]

        def step_reader():
            nonlocal nread
            r.step(0)
            nread += 1

        budget = 100000
        # phase 1: p steps of the reader alone
        while nread < p and not reader_ready(rd) and r.sched.enabled(rd):
            step_reader()
        # phase 2: two complete write transactions; the reader only moves when they are blocked by it
        for wt in (1, 2):
            while not ws[wt].done and budget:
                budget -= 1
                if r.sched.enabled(ws[wt]):
                    r.step(wt)
                elif not reader_ready(rd) and r.sched.enabled(rd):
                    step_reader()
                else:
                    return {"what": "deadlock between a reader and a writer"}, nread
        # phase 3: the reader gets its transaction
        while not reader_ready(rd) and budget:
            budget -= 1
            if not r.sched.enabled(rd):
                return {"what": "reader blocked with no writer active"}, nread
            step_reader()
        if rd.error is not None:
            return {"what": "reader raised " + repr(rd.error)}, nread

        def check(when):
            for txn in z._readers:
                v = txn.version
                if not any(v is x for x in z._versions):
                    return {"what": "an open reader's version is not retained", "when": when, "vid": v.id,
                            "retained": [x.id for x in z._versions]}
                try:
                    t2 = z.reader(id=v.id)
                except KeyError:
                    return {"what": "reader(id=) of a pinned version raised KeyError", "when": when, "vid": v.id}
                same = pC11.txn_content(t2) == pC11.txn_content(txn)
                t2.rollback()
                if not same:
                    return {"what": "two readers of one version id see different content", "when": when}
            return None

        if not rd.done:
            fail = check("after the commits that ran inside reader()")
            seen = list(rd.result)
            if fail is None:
                # one more commit while the reader is open, then the reader reads again and closes
                while not ws[3].done:
                    r.step(3)
                fail = check("after a later commit")
            if fail is None:
                while not rd.done:
                    r.step(0)
                if getattr(rd, "result2", seen) != seen:
                    fail = {"what": "snapshot changed under the open reader", "at_open": seen, "later": rd.result2}
        else:
            # KeyError path (the requested id / serial was pruned before the lock was taken): nothing registered
            if len(z._readers):
                fail = {"what": "a failed reader() left a registered reader"}
    finally:
        r.close()
    return fail, nread


# ---------------------------------------------------------------------------------------------------
# a COMMIT (append + prune + end of write) is one atomic step with respect to readers: stop the committing
# thread at every source line (sys.settrace) of its whole life - in particular inside _commit_version,
# _commit_version_unlocked and _prune_versions_unlocked - and let readers open (latest, and by the id of the
# version that is about to be pruned), close, and the policy change there.

def commit_window_run(kind, variant, p):
    """variant 0: reader(id=<old version>) and reader() open at line p of the committing writer;
    variant 1: a reader that pinned the old version closes at line p and another opens on it by id;
    variant 2: set_max_versions(1) runs at line p while an older version is pinned.
    Returns (failure or None, line steps of the committer, progs, schedule)"""
    import c12_lines
    W = [0, 0, [[0, 2, 5]], 1]
    if variant == 0:
        progs = [W, [1, 0, 2], [1, None], [0, 0, [[0, 3, 1]], 1]]
        before, intruders = [], [1, 2]
    elif variant == 1:
        progs = [W, [1, None], [1, 0, 2], [0, 0, [[0, 3, 1]], 1]]
        before, intruders = [1], [1, 2]
    else:
        progs = [W, [1, None], [2, 1], [0, 0, [[0, 3, 1]], 1]]
        before, intruders = [1], [2]
    lr = c12_lines.LineRun(progs, kind)
    r = lr.r
    z = r.z
    ws = r.sched.workers
    sched = []
    fail = None
    n_obs = 0

    def ready(w):
        return w.done or w.gate[0] == "read"

    def run_until(tid, cond, budget=5000):
        nonlocal fail
        while fail is None and not cond() and budget:
            budget -= 1
            run = tid
            if not r.sched.enabled(ws[tid]):
                owner = r.sched.lock.owner
                others = [w.tid for w in ws if not w.done and r.sched.enabled(w) and not (w.gate[0] == "read")]
                if owner is not None and owner in others:
                    run = owner
                elif others:
                    run = others[0]
                else:
                    fail = {"what": "deadlock: unfinished threads and no step enabled", "blocked": tid}
                    return
            sched.append(run)
            r.step(run)
            fail = lr.check_state(len(sched) - 1)

    try:
        with z.writer() as t:      # version 2: the one a commit of W will want to prune
            t.replace(pC11.key_name(0), pC11.key_rdataset(0, 10))
        for tid in before:
            run_until(tid, lambda tid=tid: ready(ws[tid]))
        k = 0
        while fail is None and k < p and not ws[0].done:
            run_until(0, lambda k0=len(sched): len(sched) > k0)
            k += 1
        n_obs = k
        for tid in intruders:
            if variant == 1 and tid == 1:
                run_until(1, lambda: ws[1].done)           # the pinning reader closes here
            else:
                run_until(tid, lambda tid=tid: ready(ws[tid]))
        run_until(0, lambda: ws[0].done)
        if fail is None:
            # with everything quiet: every open reader's version must be retained and reachable by id
            for txn in list(z._readers):
                if not any(txn.version is v for v in z._versions):
                    fail = {"what": "an open reader's version is not retained", "vid": txn.version.id,
                            "retained": [v.id for v in z._versions]}
                    break
                try:
                    z.reader(id=txn.version.id).rollback()
                except KeyError:
                    fail = {"what": "reader(id=) of a pinned version raised KeyError", "vid": txn.version.id}
                    break
        for w in ws:
            if fail is None and not w.done:
                run_until(w.tid, lambda w=w: w.done)
        if fail is None and (z._write_txn is not None or len(z._readers)):
            fail = {"what": "zone not idle after every thread finished"}
    finally:
        r.close()
    return fail, n_obs, progs, sched


def commit_window_check(ctx):
    F = []
    runs = 0
    for kind in (0, 1):
        for variant in (0, 1, 2):
            _, total, _, _ = commit_window_run(kind, variant, 10 ** 6)
            for p in range(total + 1):
                fail, _, progs, sched = commit_window_run(kind, variant, p)
                runs += 1
                if fail is not None:
                    F.append({
                        "kind": "C11:commit-atomicity:" + fail["what"], "sig": "commit-window:" + fail["what"],
                        "what": fail["what"] + " (readers / policy scheduled at source line %d of a committing writer)" % p,
                        "zone": ("dns.versioned.Zone", "dns.btreezone.Zone")[kind], "variant": variant,
                        "detail": {k: v for k, v in fail.items() if k != "what"},
                        "case": [105, kind, variant, p],
                    })
                    break
    ctx.notes["extra_evaluations"] = ctx.notes.get("extra_evaluations", 0) + runs
    ctx.notes["extra_nontrivial"] = ctx.notes.get("extra_nontrivial", 0) + runs
    ctx.notes["commit_window_runs"] = runs
    seen, out = set(), []
    for f in F:
        if f["sig"] not in seen:
            seen.add(f["sig"])
            out.append(f)
    return out


def replay_commit_window(case):
    _, kind, variant, p = case
    fail, _, _, _ = commit_window_run(kind, variant, p)
    return fail


def check(ctx):
    return reader_open_check(ctx) + commit_window_check(ctx)


def reader_open_check(ctx):
    F = []
    evals = 0
    points = {}
    for kind in (0, 1):
        for rprog in READERS if not ctx.quick else READERS[:2] if kind else READERS:
            for line_mode in (False, True):
                # how many steps does this reader need when it runs alone?
                _, total = one_run(kind, rprog, 10 ** 6, line_mode)
                points[(kind, tuple(map(str, rprog)), line_mode)] = total
                for p in range(total + 1):
                    fail, _ = one_run(kind, rprog, p, line_mode)
                    evals += 1
                    if fail is not None:
                        F.append({
                            "kind": "C11:reader-open-atomicity:" + fail["what"],
                            "what": fail["what"] + " (two commits scheduled inside Zone.reader())",
                            "sig": "atomic:" + fail["what"],
                            "zone": ("dns.versioned.Zone", "dns.btreezone.Zone")[kind], "reader": rprog,
                            "preempted_after_reader_steps": p, "granularity": "source line" if line_mode else "lock operation",
                            "detail": {k: v for k, v in fail.items() if k != "what"},
                            "case": [104, kind, rprog, p, int(line_mode)],
                        })
                        break
    ctx.notes["extra_evaluations"] = ctx.notes.get("extra_evaluations", 0) + evals
    ctx.notes["extra_nontrivial"] = ctx.notes.get("extra_nontrivial", 0) + evals
    ctx.notes["reader_atomicity_runs"] = evals
    ctx.notes["reader_atomicity_scope"] = ("two full commits at every preemption point of Zone.reader(): " +
                                           "; ".join(f"{k[1]} kind {k[0]} {'lines' if k[2] else 'lock ops'}: {v + 1} points"
                                                     for k, v in points.items()))
    seen = set()
    out = []
    for f in F:
        if f["sig"] in seen:
            continue
        seen.add(f["sig"])
        out.append(f)
    return out


def replay(case):
    _, kind, rprog, p, line_mode = case
    rprog = [None if x is None else x for x in rprog]
    fail, _ = one_run(kind, rprog, p, bool(line_mode))
    return fail
