"""C16 - stub resolution reaches the documented outcome under every fault sequence.

One case = one resolver configuration, a list of resolve() calls sharing the resolver (and
its cache), a finite script of per-query outcomes followed by a tail outcome repeated
forever, and a controlled clock (exact rational seconds, integer milliseconds).  The case is
run through dns.resolver.Resolver.resolve and dns.asyncresolver.Resolver.resolve (asyncio) with
real Do53Nameserver / DoHNameserver objects over scripted dns.query / dns.asyncquery transports
and scripted dns.nameserver.Nameserver subclasses; the observation is, per resolve call, the
trace of (server, tcp, backoff, timeout, question name, script index), the final result, the
clock, and cache probes.  The same case is evaluated by coq/Model/ResolM.v (`ResolM.run`) in Coq.

Explicit case layout (nested ints / bytes / lists / None) as the generators build it:
  case   = [rcfg, [resolution...], [outcome...], tail_outcome]
  rcfg   = [[ [id, kind] ...], timeout_ms, lifetime_ms, retry_servfail, cache_kind (0 none, 1 Cache,
            2 LRUCache), use_search_by_default, [search name...], domain name, ndots | None]
            server kind: 0 address string (Do53Nameserver), 1 https URL (DoHNameserver, always max
            size), 2 scripted Nameserver, 3 scripted always-max-size Nameserver
  resolution = [qname, rdtype, rdclass, tcp, raise_on_no_answer, lifetime_ms | None,
                search | None, advance_ms, preload]   (preload=1: not a resolve() call - the user stores
                Answer(qname, rdtype, rdclass, <next scripted reply>) with resolver.cache.put)
  outcome = [duration_ms, reply]
  reply   = exception class index into EXC (int)  |  [qr, rcode, nquestions, [rr...], [rr...]]
  rr      = [owner | None (= question name), rdclass, rdtype, ttl, data]
            data = target name | None (= question name) for CNAME (type 5), SOA minimum (type 6),
                   small int otherwise
  name    = list of labels (bytes)
What crosses to Coq is the interned form `intern(case)` = [name table] + case with every name
replaced by its index; names in observations are table indices, pairs of indices (a concatenation,
i.e. a search-list candidate) or explicit labels (`enc_name`).
Observation = [flavour] when sync and asyncio agree, else [sync, asyncio];
  flavour = [[ [trace, final, clock_ms] per resolution ], [cache probes per resolution], anomalies]
"""
import ast
import asyncio
import fractions
import itertools
import os
import socket
import ssl
import types

from lib import Err

ID = "C16"
COQ_IMPORTS = "From DV Require Import Model.ResolM."
COQ_RUN = "ResolM.run"
CASE_TIMEOUT = 30.0

import dns.asyncbackend  # noqa: E402
import dns.asyncresolver  # noqa: E402
import dns.exception  # noqa: E402
import dns.flags  # noqa: E402
import dns.message  # noqa: E402
import dns.name  # noqa: E402
import dns.nameserver  # noqa: E402
import dns.query  # noqa: E402
import dns.rcode  # noqa: E402
import dns.rdata  # noqa: E402
import dns.rdataclass  # noqa: E402
import dns.rdatatype  # noqa: E402
import dns.resolver  # noqa: E402
import dns.tsig  # noqa: E402

F = fractions.Fraction

# ---------------------------------------------------------------- exception classes a query may raise
# index -> (class, category); the categories are what the property text names
EXC = [
    (dns.exception.FormError, "malformed"),  # 0
    (dns.query.BadResponse, "malformed"),  # 1
    (dns.message.ShortHeader, "malformed"),  # 2
    (dns.message.TrailingJunk, "malformed"),  # 3
    (dns.name.BadLabelType, "malformed"),  # 4
    (EOFError, "network"),  # 5
    (OSError, "network"),  # 6
    (ConnectionRefusedError, "network"),  # 7
    (socket.gaierror, "network"),  # 8
    (TimeoutError, "network"),  # 9   (builtin: an OSError, not dns.exception.Timeout)
    (NotImplementedError, "network"),  # 10
    (dns.message.Truncated, "truncated"),  # 11
    (dns.exception.Timeout, "timeout"),  # 12
    (dns.query.UnexpectedSource, "other"),  # 13
    (dns.exception.DNSException, "other"),  # 14
    (ValueError, "other"),  # 15
    (dns.tsig.BadSignature, "other"),  # 16
    (ssl.SSLError, "network"),  # 17
    (dns.exception.UnexpectedEnd, "other"),  # 18
    (KeyError, "other"),  # 19
]
X_TRUNC = 11
X_TIMEOUT = 12

CHAIN_EXC = [dns.message.NotQueryResponse, dns.exception.FormError, dns.message.ChainTooLong, dns.message.AnswerForNXDOMAIN]

A, NS, CNAME, SOA, TXT, AAAA, ANY, OPT = 1, 2, 5, 6, 16, 28, 255, 41
NOERROR, FORMERR, SERVFAIL, NXDOMAIN, NOTIMP, REFUSED, YXDOMAIN = 0, 1, 2, 3, 4, 5, 6


class Clock:
    """exact clock: integer milliseconds, time() returns an exact Fraction of seconds"""

    def __init__(self):
        self.ms = 0

    def time(self):
        return F(self.ms, 1000)

    def sleep(self, s):
        self.ms += to_ms(s)


def to_ms(s):
    v = F(s).limit_denominator(1000000) * 1000
    if v.denominator == 1:
        return int(v)
    return int(round(v))


class Backend:
    def __init__(self, clock):
        self.clock = clock

    async def sleep(self, interval):
        self.clock.sleep(interval)

    def name(self):
        return "scripted"


def mkname(labels):
    return dns.name.Name(tuple(bytes(l) for l in labels))


def labels_of(n):
    return [bytes(l) for l in n.labels]


class Env:
    def __init__(self, script, tail):
        self.script = script
        self.tail = tail
        self.pos = 0
        self.clock = Clock()
        self.trace = []


def make_rdata(rdclass, rdtype, data, qname):
    if rdtype == CNAME:
        target = qname if data is None else mkname(data)
        return dns.rdata.from_text(rdclass, rdtype, target.to_text())
    if rdtype == SOA:
        return dns.rdata.from_text(rdclass, rdtype, f". . 1 2 3 4 {data}")
    return dns.rdata.GenericRdata(rdclass, rdtype, bytes([data % 256]))


def build_message(request, idx, reply):
    qr, rcode, nq, ans, auth = reply
    r = dns.message.make_response(request)
    q = request.question[0]
    if not qr:
        r.flags &= ~dns.flags.QR
    r.set_rcode(rcode)
    if nq == 0:
        r.question = []
    elif nq >= 2:
        for _ in range(nq - 1):
            r.question.append(r.question[0])
    for sec, rrs in ((r.answer, ans), (r.authority, auth)):
        for owner, rdclass, rdtype, ttl, data in rrs:
            name = q.name if owner is None else mkname(owner)
            rrset = r.find_rrset(sec, name, rdclass, rdtype, create=True)
            rrset.add(make_rdata(rdclass, rdtype, data, q.name), ttl)
    r._c16_idx = idx
    return r


class Runaway(BaseException):
    """the resolver keeps issuing queries far beyond what its lifetime allows (BaseException so that
    the resolver's own `except Exception` cannot swallow it)"""


MAX_QUERIES = 6000


def scripted_exchange(env, ident, request, timeout, tcp, raise_on_truncation=True):
    """one query against the scripted world; shared by every transport"""
    idx = env.pos
    if idx > MAX_QUERIES:
        raise Runaway()
    dur, reply = env.script[idx] if idx < len(env.script) else env.tail
    env.pos += 1
    tms = timeout * 1000
    tms = int(tms) if F(tms).denominator == 1 else -777777
    env.trace.append([ident, int(bool(tcp)), env.pending_backoff, tms, labels_of(request.question[0].name), idx])
    env.pending_backoff = 0
    if (isinstance(reply, int) and reply == X_TIMEOUT) or dur >= tms:
        env.clock.ms += max(0, tms)
        raise dns.exception.Timeout(timeout=timeout)
    env.clock.ms += dur
    if isinstance(reply, int):
        if reply == X_TRUNC and not raise_on_truncation:
            # what dns.query.udp does without raise_on_truncation: hand back the truncated message
            r = dns.message.make_response(request)
            r.flags |= dns.flags.TC
            r._c16_idx = idx
            return r
        raise EXC[reply][0]()
    return build_message(request, idx, reply)


class ScriptedNS(dns.nameserver.Nameserver):
    def __init__(self, ident, maxsize, env):
        super().__init__()
        self.ident = ident
        self.maxsize = bool(maxsize)
        self.env = env

    def __str__(self):
        return f"scripted:{self.ident}"

    def kind(self):
        return "scripted"

    def is_always_max_size(self):
        return self.maxsize

    def answer_nameserver(self):
        return f"ns{self.ident}"

    def answer_port(self):
        return 5300 + self.ident

    def query(self, request, timeout, source, source_port, max_size, one_rr_per_rrset=False, ignore_trailing=False):
        return scripted_exchange(self.env, self.ident, request, timeout, max_size)

    async def async_query(self, request, timeout, source, source_port, max_size, backend, one_rr_per_rrset=False, ignore_trailing=False):
        return scripted_exchange(self.env, self.ident, request, timeout, max_size)


# ---------------------------------------------------------------- wire level: real dns.query.udp/tcp over scripted sockets
# In the `wire` family the real dns.query.udp / tcp (and dns.asyncquery twins) run over scripted socket
# objects, so that receive_udp / receive_tcp / Message.is_response / from_wire are on the path.  A script
# entry is then [duration, [kind, aux, message]]:
#   kind 0 normal reply, 1 header-only reply (empty question section) with the message's rcode,
#        2 reply with the TC bit, 3 garbage, 4 silence on UDP / connection closed on TCP, 5 QR bit clear,
#        6 socket error, 7 silence;   aux (before the reply): 0 nothing, 1 datagram with a wrong id,
#        2 with another question, 3 from another address, 4 garbage.
# Responses are recognised by their message id: query number i carries id i + 1.

def ridx(resp):
    v = getattr(resp, "_c16_idx", None)
    return v if v is not None else resp.id - 1


def wire_rdata(rdclass, rdtype, data, qname):
    if rdtype == A and rdclass == 1:
        return dns.rdata.from_text(rdclass, rdtype, f"10.0.0.{data % 256}")
    return make_rdata(rdclass, rdtype, data, qname)


class WireExchange:
    """what the scripted peer does for one query"""

    def __init__(self, env, ident, where, q, idx, dur, wreply, tcp, port=53):
        kind, aux, msg = wreply
        self.env, self.where, self.tcp, self.kind, self.port = env, where, tcp, kind, port
        self.start = env.clock.ms
        self.arrival = self.start + dur
        self.error = kind == 6
        genuine = None
        if kind in (0, 1, 2, 5):
            r = dns.message.make_response(q)
            qr, rcode, nq, ans, auth = msg
            r.set_rcode(rcode)
            for sec, rrs in ((r.answer, ans), (r.authority, auth)):
                for owner, rdclass, rdtype, ttl, data in rrs:
                    name = q.question[0].name if owner is None else mkname(owner)
                    rrset = r.find_rrset(sec, name, rdclass, rdtype, create=True)
                    rrset.add(wire_rdata(rdclass, rdtype, data, q.question[0].name), ttl)
            if kind == 1:
                r.question = []
            if kind == 2:
                r.flags |= dns.flags.TC
            if kind == 5:
                r.flags &= ~dns.flags.QR
            genuine = r.to_wire()
        elif kind == 3:
            genuine = b"\x00\x01\x02\x03\x04"
        self.datagrams = []  # (arrival ms, wire, from address)
        early = self.start + dur // 2
        if not tcp:
            if aux == 1:
                r = dns.message.make_response(q)
                r.id = (q.id + 77) & 0xFFFF
                self.datagrams.append((early, r.to_wire(), (where, port)))
            elif aux == 2:
                r = dns.message.make_response(dns.message.make_query("spoofed.example.", "A", id=q.id))
                self.datagrams.append((early, r.to_wire(), (where, port)))
            elif aux == 3:
                self.datagrams.append((early, dns.message.make_response(q).to_wire(), ("10.99.99.99", port)))
            elif aux == 4:
                self.datagrams.append((early, b"\xff\xfe\xfd", (where, port)))
            if genuine is not None:
                self.datagrams.append((self.arrival, genuine, (where, port)))
            self.stream = None
        else:
            if genuine is not None:
                self.stream = len(genuine).to_bytes(2, "big") + genuine
            elif kind == 4:
                self.stream = b""  # EOF at arrival
            else:
                self.stream = None  # silence

    def next_time(self):
        if self.tcp:
            return self.arrival if self.stream is not None else None
        return self.datagrams[0][0] if self.datagrams else None

    def wait(self, exp_ms):
        """advance the clock to the next arrival or to the expiration (then Timeout)"""
        t = self.next_time()
        clock = self.env.clock
        if exp_ms is not None and (t is None or t >= exp_ms):
            clock.ms = max(clock.ms, exp_ms)
            raise dns.exception.Timeout
        if t is None:
            raise Runaway()  # waiting forever
        clock.ms = max(clock.ms, t)

    def recvfrom(self):
        if self.datagrams and self.datagrams[0][0] <= self.env.clock.ms:
            _, w, frm = self.datagrams.pop(0)
            return w, frm
        raise BlockingIOError

    def recv(self, count):
        if self.stream is not None and self.arrival <= self.env.clock.ms:
            if self.stream == b"":
                return b""
            out, self.stream = self.stream[:count], self.stream[count:]
            if self.stream == b"":
                self.stream = None if out else b""
            return out
        raise BlockingIOError


class FakeSocket:
    """scripted stand-in for a non-blocking socket.socket"""

    def __init__(self, env, af, kind):
        self.env, self.family, self.type = env, af, kind

    def setblocking(self, flag):
        pass

    def bind(self, addr):
        pass

    def close(self):
        pass

    def __enter__(self):
        return self

    def __exit__(self, *a):
        return False

    def fileno(self):
        return -1

    def sendto(self, data, dest):
        if self.env.exchange.error:
            raise OSError("scripted network error")
        return len(data)

    def send(self, data):
        return len(data)

    def connect_ex(self, addr):
        if self.env.exchange.error:
            raise OSError("scripted network error")
        return 0

    def getsockopt(self, *a):
        return 0

    def recvfrom(self, n):
        return self.env.exchange.recvfrom()

    def recv(self, n):
        return self.env.exchange.recv(n)


import dns._asyncbackend  # noqa: E402


class FakeAsyncDgram(dns._asyncbackend.DatagramSocket):
    def __init__(self, env, af):
        super().__init__(af, socket.SOCK_DGRAM)
        self.env = env

    async def sendto(self, what, destination, timeout):
        if self.env.exchange.error:
            raise OSError("scripted network error")
        return len(what)

    async def recvfrom(self, size, timeout):
        ex = self.env.exchange
        while True:
            try:
                return ex.recvfrom()
            except BlockingIOError:
                ex.wait(None if timeout is None else self.env.clock.ms + to_ms(timeout))

    async def close(self):
        pass

    async def getpeername(self):
        return (self.env.exchange.where, self.env.exchange.port)

    async def getsockname(self):
        return ("0.0.0.0", 0)


class FakeAsyncStream(dns._asyncbackend.StreamSocket):
    def __init__(self, env, af):
        self.family = af
        self.type = socket.SOCK_STREAM
        self.env = env

    async def sendall(self, what, timeout):
        return None

    async def recv(self, size, timeout):
        ex = self.env.exchange
        while True:
            try:
                return ex.recv(size)
            except BlockingIOError:
                ex.wait(None if timeout is None else self.env.clock.ms + to_ms(timeout))

    async def close(self):
        pass

    async def getpeername(self):
        return (self.env.exchange.where, self.env.exchange.port)

    async def getsockname(self):
        return ("0.0.0.0", 0)


def endpoint_ident(by_where, where, port):
    """the scripted server listening on (address, port) - or on that URL -, None when nobody does"""
    v = by_where.get((where, port))
    return v if v is not None else by_where.get(where)


def no_server(env, q, timeout, tcp):
    """a query sent where no scripted server listens: nothing is consumed from the script; UDP gets no
    reply, a TCP connection is refused"""
    tms = timeout * 1000
    tms = int(tms) if F(tms).denominator == 1 else -777777
    env.trace.append([-1, int(tcp), env.pending_backoff, tms, labels_of(q.question[0].name), env.pos])
    env.pending_backoff = 0
    if tcp:
        raise ConnectionRefusedError("no scripted server at this endpoint")
    env.clock.ms += max(0, tms)
    raise dns.exception.Timeout(timeout=timeout)


class WireLayer:
    """wrappers that record the query and then call the REAL dns.query / dns.asyncquery functions"""

    def __init__(self, env, by_where, real):
        self.env, self.by_where, self.real = env, by_where, real
        self.anomalies = []

    def note(self, what):
        if what not in self.anomalies:
            self.anomalies.append(what)

    def begin(self, q, where, timeout, tcp, a, kw):
        env = self.env
        port = kw.get("port", a[0] if a else 53)
        ident = endpoint_ident(self.by_where, where, port)
        if ident is None:
            self.note(4)  # query sent to an endpoint that is not the configured (address, port)
            no_server(env, q, timeout, tcp)
        idx = env.pos
        if idx > MAX_QUERIES:
            raise Runaway()
        dur, wreply = env.script[idx] if idx < len(env.script) else env.tail
        env.pos += 1
        tms = timeout * 1000
        tms = int(tms) if F(tms).denominator == 1 else -777777
        env.trace.append([ident, int(tcp), env.pending_backoff, tms, labels_of(q.question[0].name), idx])
        env.pending_backoff = 0
        q.id = idx + 1
        env.exchange = WireExchange(env, ident, where, q, idx, dur, wreply, tcp, port)

    def udp(self, q, where, timeout=None, *a, **kw):
        self.begin(q, where, timeout, False, a, kw)
        return self.real["udp"](q, where, timeout, *a, **kw)

    def tcp(self, q, where, timeout=None, *a, **kw):
        self.begin(q, where, timeout, True, a, kw)
        return self.real["tcp"](q, where, timeout, *a, **kw)

    async def audp(self, q, where, timeout=None, *a, **kw):
        self.begin(q, where, timeout, False, a, kw)
        return await self.real["audp"](q, where, timeout, *a, **kw)

    async def atcp(self, q, where, timeout=None, *a, **kw):
        self.begin(q, where, timeout, True, a, kw)
        return await self.real["atcp"](q, where, timeout, *a, **kw)

    def wait_for(self, fd, readable, writable, _, expiration):
        if not readable:
            return
        self.env.exchange.wait(None if expiration is None else to_ms(expiration))


def is_wire_case(case):
    script, tail = case[2], case[3]
    return any((not isinstance(o[1], int)) and len(o[1]) == 3 for o in list(script) + [tail])




def do53_address(ident):
    return f"10.0.{ident // 200}.{ident % 200 + 1}"


def doh_url(ident):
    return f"https://doh{ident}.example:8443/dns-query"


class Transports:
    """scripted replacements for dns.query / dns.asyncquery udp, tcp, https so that the real
    Do53Nameserver / DoHNameserver classes (and _enrich_nameservers) are on the path"""

    def __init__(self, env, by_where):
        self.env = env
        self.by_where = by_where
        self.anomalies = []

    def note(self, what):
        if what not in self.anomalies:
            self.anomalies.append(what)

    def udp(self, q, where, timeout=None, port=53, source=None, source_port=0, ignore_unexpected=False,
            one_rr_per_rrset=False, ignore_trailing=False, raise_on_truncation=False, sock=None, ignore_errors=False, backend=None):
        if not raise_on_truncation:
            self.note(1)  # UDP query that would not report truncation
        if not ignore_errors:
            self.note(2)
        if not ignore_unexpected:
            self.note(3)
        ident = endpoint_ident(self.by_where, where, port)
        if ident is None:
            self.note(4)
            no_server(self.env, q, timeout, False)
        return scripted_exchange(self.env, ident, q, timeout, False, raise_on_truncation)

    def tcp(self, q, where, timeout=None, port=53, source=None, source_port=0, one_rr_per_rrset=False,
            ignore_trailing=False, sock=None, backend=None):
        ident = endpoint_ident(self.by_where, where, port)
        if ident is None:
            self.note(4)
            no_server(self.env, q, timeout, True)
        return scripted_exchange(self.env, ident, q, timeout, True)

    def https(self, q, where, timeout=None, port=443, source=None, source_port=0, one_rr_per_rrset=False,
              ignore_trailing=False, **kw):
        if not kw.get("post", True):
            self.note(5)
        ident = endpoint_ident(self.by_where, where, None)
        if ident is None:
            self.note(4)
            no_server(self.env, q, timeout, True)
        return scripted_exchange(self.env, ident, q, timeout, True)

    async def audp(self, *a, **kw):
        return self.udp(*a, **kw)

    async def atcp(self, *a, **kw):
        return self.tcp(*a, **kw)

    async def ahttps(self, *a, **kw):
        kw.pop("client", None)
        return self.https(*a, **kw)


def err_code(e):
    """one resolver `errors` tuple (server, tcp, port, ex, response) -> small int"""
    ex, response = e[3], e[4]
    if isinstance(ex, str):
        return 100 + int(dns.rcode.from_text(ex))
    if response is not None:
        if isinstance(ex, dns.resolver.YXDOMAIN):
            return 300
        for i, cls in enumerate(CHAIN_EXC):
            if type(ex) is cls:
                return 200 + i
        return 998
    for i, (cls, _) in enumerate(EXC):
        if type(ex) is cls:
            return i
    return 999


def errors_obs(errors, by_name):
    return [[by_name.get(e[0], -1), int(bool(e[1])), err_code(e)] for e in errors]


def answer_obs(a, env_servers):
    rr = a.rrset
    rrobs = None if rr is None else [labels_of(rr.name), int(rr.rdtype), int(rr.ttl), len(rr)]
    return [
        labels_of(a.qname),
        int(a.rdtype),
        int(a.rdclass),
        labels_of(a.canonical_name),
        rrobs,
        int(a.chaining_result.minimum_ttl),
        to_ms(a.expiration),
        env_servers.get(a.nameserver, None),
        len(a.chaining_result.cnames),
        ridx(a.response),
    ]


def final_obs(result, exc, servers_by_answer_name, servers_by_str):
    if exc is None:
        return [0] + answer_obs(result, servers_by_answer_name)
    if isinstance(exc, dns.resolver.NoAnswer):
        return [1, ridx(exc.kwargs["response"])]
    if isinstance(exc, dns.resolver.NXDOMAIN):
        qn = list(exc.kwargs["qnames"])
        resp = exc.kwargs["responses"]
        return [2, [labels_of(n) for n in qn], [ridx(resp[n]) if n in resp else None for n in qn]]
    if isinstance(exc, dns.resolver.YXDOMAIN):
        return [3]
    if isinstance(exc, dns.resolver.NoNameservers):
        return [4, errors_obs(exc.kwargs["errors"], servers_by_str)]
    if isinstance(exc, dns.resolver.LifetimeTimeout):
        return [5, errors_obs(exc.kwargs["errors"], servers_by_str), to_ms(exc.kwargs["timeout"])]
    if isinstance(exc, dns.resolver.NoMetaqueries):
        return [6]
    if isinstance(exc, dns.name.NameTooLong):
        return Err(2, "NameTooLong")
    if isinstance(exc, dns.name.LabelTooLong):
        return Err(1, "LabelTooLong")
    if isinstance(exc, dns.name.EmptyLabel):
        return Err(3, "EmptyLabel")
    if isinstance(exc, dns.name.AbsoluteConcatenation):
        return Err(9, "AbsoluteConcatenation")
    if isinstance(exc, AssertionError):
        return Err(150, "AssertionError")
    if isinstance(exc, ValueError):
        return Err(151, "ValueError " + str(exc)[:80])
    return Err(199, type(exc).__name__ + ": " + str(exc)[:80])


_loop = None


def get_loop():
    global _loop
    if _loop is None or _loop.is_closed():
        _loop = asyncio.new_event_loop()
    return _loop


def cache_probes(res, qname, rdtype, rdclass, srch):
    """cache.get for (candidate, rdtype, rdclass) and (candidate, ANY, rdclass), per candidate name"""
    if res.cache is None:
        return []
    try:
        cands = res._get_qnames_to_try(mkname(qname), None if srch is None else bool(srch))
    except Exception:  # noqa: BLE001
        cands = []
    pr = []
    for cn in cands:
        for key in ((cn, rdtype, rdclass), (cn, ANY, rdclass)):
            try:
                v = res.cache.get((key[0], dns.rdatatype.RdataType.make(key[1]), dns.rdataclass.RdataClass.make(key[2])))
            except Exception:  # noqa: BLE001
                v = None
            pr.append(None if v is None else ridx(v.response))
    return pr


def run_case(case, flavour):
    """flavour: 'sync' | 'async'.  Server kinds: 0 = address string (real Do53Nameserver over scripted
    dns.query.udp/tcp), 1 = https URL (real DoHNameserver over scripted dns.query.https),
    2 / 3 = scripted Nameserver objects (3: is_always_max_size)."""
    rcfg, resolutions, script, tail = case
    servers, timeout_ms, lifetime_ms, retry_servfail, cache_kind, usbd, search, domain, ndots = rcfg
    env = Env(script, tail)
    env.pending_backoff = 0
    clock = env.clock

    def sleep(s):
        env.pending_backoff += to_ms(s)
        clock.sleep(s)

    fake_time = types.SimpleNamespace(time=clock.time, sleep=sleep)
    by_where = {}
    wire = is_wire_case(case)
    saved = (dns.resolver.time, dns.asyncresolver.time, dns.query.udp, dns.query.tcp, dns.query.https,
             dns.asyncquery.udp, dns.asyncquery.tcp, dns.asyncquery.https,
             dns.query.time, dns.asyncquery.time, dns.query.socket_factory, dns.query._wait_for)
    dns.resolver.time = fake_time
    dns.asyncresolver.time = fake_time
    if wire:
        tr = WireLayer(env, by_where, {"udp": dns.query.udp, "tcp": dns.query.tcp,
                                       "audp": dns.asyncquery.udp, "atcp": dns.asyncquery.tcp})
        dns.query.time = fake_time
        dns.asyncquery.time = fake_time
        dns.query.socket_factory = lambda af, kind, proto: FakeSocket(env, af, kind)
        dns.query._wait_for = tr.wait_for
        dns.query.udp, dns.query.tcp = tr.udp, tr.tcp
        dns.asyncquery.udp, dns.asyncquery.tcp = tr.audp, tr.atcp
    else:
        tr = Transports(env, by_where)
        dns.query.udp, dns.query.tcp, dns.query.https = tr.udp, tr.tcp, tr.https
        dns.asyncquery.udp, dns.asyncquery.tcp, dns.asyncquery.https = tr.audp, tr.atcp, tr.ahttps
    try:
        if flavour == "sync":
            res = dns.resolver.Resolver(configure=False)
        else:
            res = dns.asyncresolver.Resolver(configure=False)
        seen = {}
        objs = []
        by_str = {}
        by_ans = {}
        by_port = {}
        ans_to_str = {}
        # non-53 ports, chosen per case through all three routes: resolver.port (for plain address
        # strings), the nameserver_ports mapping, Do53Nameserver(address, port) objects
        salt = len(script) + len(servers) + timeout_ms // 100
        res.port = 53 if salt % 3 == 0 else 1053 + salt % 7
        ports = {}
        for ident, kind in servers:
            if ident in seen:  # the same identifier listed twice is the same object listed twice
                objs.append(seen[ident])
                continue
            if kind == 0:
                addr = do53_address(ident)
                route = (salt + ident) % 3
                if route == 0:
                    o, port = addr, res.port
                elif route == 1:
                    o, port = addr, 5300 + ident
                    ports[addr] = port
                else:
                    port = 5400 + ident
                    o = dns.nameserver.Do53Nameserver(addr, port)
                by_where[(addr, port)] = ident
                by_str[f"Do53:{addr}@{port}"] = ident
                by_ans[addr] = ident
            elif kind == 1:
                o = doh_url(ident)
                by_where[o] = ident
                by_str[o] = ident
                by_ans[o] = ident
            else:
                o = ScriptedNS(ident, kind == 3, env)
                by_str[str(o)] = ident
                by_ans[o.answer_nameserver()] = ident
            seen[ident] = o
            objs.append(o)
        res.nameserver_ports = ports
        for o in res._enrich_nameservers(list(seen.values()), ports, res.port):
            by_port[str(o)] = o.answer_port()
            ans_to_str[o.answer_nameserver()] = str(o)
        res.nameservers = objs
        res.timeout = F(timeout_ms, 1000)
        res.lifetime = F(lifetime_ms, 1000)
        res.retry_servfail = bool(retry_servfail)
        if cache_kind == 1:
            res.cache = dns.resolver.Cache()
        elif cache_kind == 2:
            res.cache = dns.resolver.LRUCache()
        res.use_search_by_default = bool(usbd)
        res.search = [mkname(n) for n in search]
        res.domain = mkname(domain)
        res.ndots = ndots
        res.rotate = False

        class BackendSleep(Backend):
            async def sleep(self, interval):
                sleep(interval)

            def datagram_connection_required(self):
                return False

            async def make_socket(self, af, socktype, proto=0, source=None, destination=None, timeout=None,
                                  ssl_context=None, server_hostname=None):
                if socktype == socket.SOCK_DGRAM:
                    return FakeAsyncDgram(env, af)
                if env.exchange.error:
                    raise OSError("scripted network error")
                return FakeAsyncStream(env, af)

        backend = BackendSleep(clock)
        out = []
        probes = []
        for qname, rdtype, rdclass, tcp, raise_na, lifetime, srch, advance, pre in resolutions:
            clock.ms += advance
            env.trace = []
            env.pending_backoff = 0
            if pre:
                idx = env.pos
                dur, reply = env.script[idx] if idx < len(env.script) else env.tail
                env.pos += 1
                stored = Err(71, "not stored")
                if not isinstance(reply, int):
                    try:
                        qn = mkname(qname)
                        ty = dns.rdatatype.RdataType.make(rdtype)
                        cl = dns.rdataclass.RdataClass.make(rdclass)
                        rq = dns.message.make_query(qn, ty, cl)
                        ans = dns.resolver.Answer(qn, ty, cl, build_message(rq, idx, reply))
                        if res.cache is not None:
                            res.cache.put((qn, ty, cl), ans)
                        stored = Err(70, "stored")
                    except dns.exception.DNSException:
                        pass
                out.append([[], stored, clock.ms])
                probes.append(cache_probes(res, qname, rdtype, rdclass, srch))
                continue
            kwargs = dict(
                tcp=bool(tcp),
                raise_on_no_answer=bool(raise_na),
                lifetime=None if lifetime is None else F(lifetime, 1000),
                search=None if srch is None else bool(srch),
            )
            result = exc = None
            try:
                qn = mkname(qname)
                ty, cl = rdtype, rdclass
                # the documented argument forms: Name or text, RdataType/int or text
                if len(qname) > 0 and (len(qname) + rdtype + advance) % 2 == 0:
                    qn = qn.to_text()
                    if 0 < rdtype < 65536 and (rdtype + len(resolutions)) % 2 == 0:
                        ty = dns.rdatatype.to_text(rdtype)
                    if rdclass in (1, 3, 4) and (rdclass + len(script)) % 2 == 0:
                        cl = dns.rdataclass.to_text(rdclass)
                if flavour == "sync":
                    result = res.resolve(qn, ty, cl, **kwargs)
                else:
                    result = get_loop().run_until_complete(res.resolve(qn, ty, cl, backend=backend, **kwargs))
            except Exception as e:  # noqa: BLE001
                exc = e
            # the port recorded with an error / an answer is the port of that server
            errs = exc.kwargs.get("errors", []) if isinstance(exc, (dns.resolver.NoNameservers, dns.resolver.LifetimeTimeout)) else []
            for er in errs:
                if by_port.get(er[0]) != er[2]:
                    tr.note(6)
            if result is not None and result.nameserver is not None and by_port.get(ans_to_str.get(result.nameserver)) != result.port:
                tr.note(7)
            out.append([env.trace, final_obs(result, exc, by_ans, by_str), clock.ms])
            probes.append(cache_probes(res, qname, rdtype, rdclass, srch))
        return [out, probes, sorted(tr.anomalies)]
    finally:
        (dns.resolver.time, dns.asyncresolver.time, dns.query.udp, dns.query.tcp, dns.query.https,
         dns.asyncquery.udp, dns.asyncquery.tcp, dns.asyncquery.https,
         dns.query.time, dns.asyncquery.time, dns.query.socket_factory, dns.query._wait_for) = saved


# ---- interning of names (keeps the Coq case files small) --------------------------------------
# compact case = [names, rcfg, resolutions, script, tail] where every name is an index into names

def _walk_case(case, fn):
    """apply fn to every name position of an explicit case, returning the rebuilt case"""
    rcfg, reqs, script, tail = case

    def rr(r):
        owner, rdclass, rdtype, ttl, data = r
        return [None if owner is None else fn(owner), rdclass, rdtype, ttl,
                (None if data is None else fn(data)) if rdtype == CNAME else data]

    def outcome(o):
        d, rep = o
        if isinstance(rep, int):
            return [d, rep]
        if len(rep) == 3:  # wire family: [kind, aux, message]
            qr, rcode, nq, ans, auth = rep[2]
            return [d, [rep[0], rep[1], [qr, rcode, nq, [rr(x) for x in ans], [rr(x) for x in auth]]]]
        qr, rcode, nq, ans, auth = rep
        return [d, [qr, rcode, nq, [rr(x) for x in ans], [rr(x) for x in auth]]]

    servers, timeout_ms, lifetime_ms, rsf, ck, usbd, search, domain, ndots = rcfg
    rcfg2 = [servers, timeout_ms, lifetime_ms, rsf, ck, usbd, [fn(x) for x in search], fn(domain), ndots]
    reqs2 = [[fn(r[0])] + list(r[1:]) for r in reqs]
    return [rcfg2, reqs2, [outcome(o) for o in script], outcome(tail)]


def intern(case):
    table = []
    index = {}

    def fn(n):
        k = tuple(bytes(l) for l in n)
        if k not in index:
            index[k] = len(table)
            table.append([bytes(l) for l in n])
        return index[k]

    body = _walk_case(case, fn)
    return [table] + body


def expand(ccase):
    table = ccase[0]
    return _walk_case(ccase[1:], lambda k: table[k] if isinstance(k, int) else k)


def enc_name(table, n):
    n = [bytes(l) for l in n]
    for i, t in enumerate(table):
        if t == n:
            return i
    for i, t in enumerate(table):
        if n[: len(t)] == t:
            rest = n[len(t):]
            for j, u in enumerate(table):
                if u == rest:
                    return [i, j]
    return [n]


def dec_name(table, o):
    if isinstance(o, int):
        return table[o]
    if len(o) == 2 and isinstance(o[0], int):
        return table[o[0]] + table[o[1]]
    return o[0]


def compress_result(table, res):
    """replace the names of one flavour's observation by table references"""
    out, probes, anomalies = res
    out2 = []
    for trace, fin, clk in out:
        trace2 = [[e[0], e[1], e[2], e[3], enc_name(table, e[4]), e[5]] for e in trace]
        if isinstance(fin, Err):
            fin2 = fin
        elif fin[0] == 0:
            rr = fin[5]
            fin2 = [0, enc_name(table, fin[1]), fin[2], fin[3], enc_name(table, fin[4]),
                    None if rr is None else [enc_name(table, rr[0])] + rr[1:]] + fin[6:]
        elif fin[0] == 2:
            fin2 = [2, [enc_name(table, n) for n in fin[1]], fin[2]]
        else:
            fin2 = fin
        out2.append([trace2, fin2, clk])
    return [out2, probes, anomalies]


def expand_result(table, res):
    out, probes, anomalies = res
    out2 = []
    for trace, fin, clk in out:
        trace2 = [[e[0], e[1], e[2], e[3], dec_name(table, e[4]), e[5]] for e in trace]
        if isinstance(fin, Err):
            fin2 = fin
        elif fin[0] == 0:
            rr = fin[5]
            fin2 = [0, dec_name(table, fin[1]), fin[2], fin[3], dec_name(table, fin[4]),
                    None if rr is None else [dec_name(table, rr[0])] + rr[1:]] + fin[6:]
        elif fin[0] == 2:
            fin2 = [2, [dec_name(table, n) for n in fin[1]], fin[2]]
        else:
            fin2 = fin
        out2.append([trace2, fin2, clk])
    return [out2, probes, anomalies]


def impl(ccase):
    """observation = [sync] when the asyncio resolver behaves identically, else [sync, async]"""
    case = expand(ccase)
    table = ccase[0]
    try:
        s = compress_result(table, run_case(case, "sync"))
        a = compress_result(table, run_case(case, "async"))
    except Runaway:
        global _loop
        _loop = None  # the interrupted coroutine leaves the private event loop unusable
        return Err(-3, "runaway")
    from lib import normalize
    return [s] if normalize(s) == normalize(a) else [s, a]


# ---------------------------------------------------------------- generators

def nm(*ls):
    return [l if isinstance(l, bytes) else l.encode() for l in ls]


ROOT = [b""]
SUFFIXES = [nm("a", "example", ""), nm("b", "example", ""), nm("corp", ""), nm("x", "y", "z", ""), nm("A", "Example", "")]
TARGETS = [nm("t1", "example", ""), nm("t2", "example", ""), nm("t3", ""), nm("T1", "EXAMPLE", ""), nm("deep", "t1", "example", "")]
QNAMES_REL = [nm("host"), nm("www", "host"), nm("a", "b", "c"), nm("h"), []]
QNAMES_ABS = [nm("host", "example", ""), nm("www", "example", "com", ""), ROOT, nm("t1", "example", "")]
TTLS = [0, 1, 5, 60, 300, 86400, 2147483647]
MINIMUMS = [0, 30, 3600, 4294967295]
DURS = [0, 0, 1, 10, 50, 100, 499, 500, 1999, 2000, 2001, 3000]
RDTYPES = [A, A, A, AAAA, TXT, CNAME, NS]
KINDS = ["answer", "cname", "nodata", "nx", "servfail", "refused", "formerr-rcode", "yx", "malformed", "trunc", "timeout", "network", "other"]


def gen_answer_rrs(rng, qtype, qclass, chain_len, final=True, loop=False):
    """answer section: a CNAME chain of chain_len links from the question name, then the data"""
    rrs = []
    owner = None
    targets = rng.sample(TARGETS, min(len(TARGETS), 3)) if chain_len <= 3 else []
    for i in range(chain_len):
        if chain_len <= 3:
            t = targets[i % len(targets)]
        else:
            t = nm("c%d" % i, "chain", "")
        if loop and i == chain_len - 1:
            t = None
        rrs.append([owner, qclass, CNAME, rng.choice(TTLS), t])
        owner = t
    if final:
        for k in range(rng.choice([1, 1, 2, 3])):
            rrs.append([owner, qclass, qtype, rng.choice(TTLS), 0 if qtype == SOA else (k + 1)]) if qtype != CNAME else rrs.append(
                [owner, qclass, CNAME, rng.choice(TTLS), rng.choice(TARGETS)]
            )
    if rng.random() < 0.15:
        rng.shuffle(rrs)
    if rng.random() < 0.1:
        rrs.append([rng.choice(TARGETS), qclass, rng.choice([A, TXT, CNAME]), rng.choice(TTLS), rng.choice(TARGETS) if False else 9])
        if rrs[-1][2] == CNAME:
            rrs[-1][4] = rng.choice(TARGETS)
    return rrs


def gen_soa(rng, qclass, cands):
    out = []
    if rng.random() < 0.75:
        r = rng.random()
        if r < 0.3:
            owner = None
        elif r < 0.6 and cands:
            c = rng.choice(cands)
            k = rng.randrange(len(c) + 1)
            owner = c[k:] if c[k:] else ROOT
        elif r < 0.8:
            owner = ROOT
        else:
            owner = rng.choice(SUFFIXES + TARGETS)
        out.append([owner, qclass, SOA, rng.choice(TTLS), rng.choice(MINIMUMS)])
        if rng.random() < 0.1:
            out.append([owner, qclass, SOA, rng.choice(TTLS), rng.choice(MINIMUMS)])
    if rng.random() < 0.1:
        out.append([rng.choice(SUFFIXES), qclass, NS, 300, 1])
    return out


def gen_reply(rng, kind, qtype, qclass, cands):
    if kind == "answer":
        return [1, NOERROR, 1, gen_answer_rrs(rng, qtype, qclass, 0), []]
    if kind == "cname":
        r = rng.random()
        if r < 0.6:
            n = rng.choice([1, 1, 2, 3])
        elif r < 0.8:
            n = rng.choice([14, 15, 16, 17])
        else:
            n = rng.choice([1, 2, 3])
            return [1, NOERROR, 1, gen_answer_rrs(rng, qtype, qclass, n, final=rng.random() < 0.3, loop=rng.random() < 0.6), gen_soa(rng, qclass, cands)]
        return [1, NOERROR, 1, gen_answer_rrs(rng, qtype, qclass, n), []]
    if kind == "nodata":
        return [1, NOERROR, 1, [], gen_soa(rng, qclass, cands)]
    if kind == "nx":
        ans = gen_answer_rrs(rng, qtype, qclass, rng.choice([0, 1])) if rng.random() < 0.12 else (
            gen_answer_rrs(rng, qtype, qclass, rng.choice([1, 2]), final=False) if rng.random() < 0.15 else []
        )
        return [1, NXDOMAIN, 1, ans, gen_soa(rng, qclass, cands)]
    if kind == "servfail":
        return [1, SERVFAIL, 1, [], []]
    if kind == "refused":
        return [1, rng.choice([REFUSED, REFUSED, NOTIMP, 7, 8, 9, 10, 11, 15]), 1, [], []]
    if kind == "formerr-rcode":
        return [1, FORMERR, 1, [], []]
    if kind == "yx":
        return [1, YXDOMAIN, 1, [], []]
    if kind == "malformed":
        r = rng.random()
        if r < 0.6:
            return rng.choice([0, 1, 2, 3, 4])
        if r < 0.75:  # not a response
            return [0, rng.choice([NOERROR, NXDOMAIN]), 1, gen_answer_rrs(rng, qtype, qclass, 0), []]
        return [1, rng.choice([NOERROR, NXDOMAIN, SERVFAIL]), rng.choice([0, 2, 3]), gen_answer_rrs(rng, qtype, qclass, 0), []]
    if kind == "trunc":
        return X_TRUNC
    if kind == "timeout":
        return X_TIMEOUT
    if kind == "network":
        return rng.choice([5, 6, 7, 8, 9, 10, 17])
    if kind == "other":
        return rng.choice([13, 14, 15, 16, 18, 19])
    raise ValueError(kind)


def py_candidates(rcfg, qname, search):
    """candidate names by the resolv.conf rules (independent of the implementation)"""
    servers, timeout_ms, lifetime_ms, rsf, cache_kind, usbd, slist, domain, ndots = rcfg
    if search is None:
        search = usbd
    if len(qname) > 0 and qname[-1] == b"":
        return [qname]
    absq = qname + ROOT
    if not search:
        return [absq]
    if slist:
        sl = slist
    elif domain != ROOT:
        sl = [domain]
    else:
        sl = []
    nd = 1 if ndots is None else ndots
    dots = len(qname) - 1
    l = [qname + s for s in sl]
    return [absq] + l if dots >= nd else l + [absq]


def gen_rcfg(rng):
    n = rng.choice([1, 2, 2, 3, 3, 4])
    servers = [[i, rng.choice([0, 0, 0, 0, 2, 2, 1, 3])] for i in range(n)]
    if rng.random() < 0.05 and n >= 2:
        dup = [x for x in servers if x[1] >= 2]
        if dup:
            servers.append(list(rng.choice(dup)))
    timeout = rng.choice([2000, 2000, 500, 100, 1000, 3000])
    lifetime = rng.choice([5000, 5000, 5000, 300, 1000, 2500, 10000, 10000, 0, 150])
    search = rng.sample(SUFFIXES, rng.choice([0, 0, 1, 2, 3]))
    if rng.random() < 0.05:
        search.append(nm("rel", "suffix"))
    domain = rng.choice([ROOT, nm("dom", ""), nm("a", "example", "")])
    ndots = rng.choice([None, None, 0, 1, 2, 3])
    return [servers, timeout, lifetime, rng.randrange(2), rng.choice([0, 1, 1, 2]), rng.randrange(2), search, domain, ndots]


def gen_request(rng, first):
    r = rng.random()
    if r < 0.6:
        qn = rng.choice(QNAMES_REL)
    elif r < 0.97:
        qn = rng.choice(QNAMES_ABS)
    else:
        qn = [b"x" * 60, b"y" * 60, b"z" * 60, b"w" * rng.choice([40, 58, 59, 60, 63])]  # relative, near the 255 limit
    rdtype = rng.choice(RDTYPES) if rng.random() < 0.985 else rng.choice([255, 41, 250, 128, 127, 256])
    rdclass = 1 if rng.random() < 0.93 else rng.choice([3, 3, 3, 254, 255, 4])
    lifetime = None if rng.random() < 0.8 else rng.choice([200, 1000, 4000, 20000])
    search = rng.choice([None, None, 0, 1, 1])
    advance = 0 if first else rng.choice([0, 0, 10, 1000, 5001, 61000, 400000])
    return [qn, rdtype, rdclass, 1 if rng.random() < 0.2 else 0, 1 if rng.random() < 0.7 else 0, lifetime, search, advance, 0]


PROFILES = {
    "mixed": None,
    "soft": ["servfail", "timeout", "other", "trunc", "servfail", "timeout", "nx", "answer"],
    "hard": ["malformed", "network", "refused", "trunc", "nx", "formerr-rcode", "answer", "cname"],
    "search": ["nx", "nx", "nx", "malformed", "trunc", "answer", "nodata", "servfail"],
    "chain": ["cname", "cname", "nodata", "nx", "answer"],
}


def gen_case(rng, profile=None, nscript=None):
    rcfg = gen_rcfg(rng)
    nreq = rng.choice([1, 1, 2, 3])
    reqs = [gen_request(rng, i == 0) for i in range(nreq)]
    if nreq > 1 and rng.random() < 0.7:
        for r in reqs[1:]:
            if rng.random() < 0.7:
                r[0], r[1], r[2], r[6] = reqs[0][0], reqs[0][1], reqs[0][2], reqs[0][6]
    if profile == "soft":
        rcfg[3] = 1
    if profile == "search":
        rcfg[6] = rng.sample(SUFFIXES, rng.choice([1, 2, 3]))
        for r in reqs:
            if rng.random() < 0.8:
                r[0] = rng.choice(QNAMES_REL[:4])
                r[6] = 1
    kinds = PROFILES.get(profile) or KINDS
    cands = []
    for r in reqs:
        cands += py_candidates(rcfg, r[0], None if r[6] is None else bool(r[6]))
    qtype, qclass = reqs[0][1], reqs[0][2]
    if qtype > 65535 or qtype in (41,) or 128 <= qtype < 256:
        qtype = A
    n = rng.choice([0, 1, 2, 3, 4, 5, 6, 8, 12]) if nscript is None else nscript
    script = []
    for _ in range(n):
        k = rng.choice(kinds)
        d = rng.choice(DURS)
        if rng.random() < 0.02 and rcfg[4] == 0:
            # (with a cache a clock stepping backwards revives expired entries differently in Cache and
            # LRUCache - outside the model and the property)
            d = rng.choice([-1, -200, -999, -1001, -3000])
        qc = qclass if rng.random() < 0.95 else rng.choice([1, 3])
        script.append([d, gen_reply(rng, k, qtype, qc, cands)])
    tk = rng.choice(["timeout", "answer", "answer", "servfail", "network", "network", "nx", "nx", "trunc", "other", "nodata", "refused"])
    tail = [rng.choice([0, 1, 10, 100, 700, 2500]), gen_reply(rng, tk, qtype, qclass, cands)]
    return [rcfg, reqs, script, tail]


# exhaustive small scope: every sequence of outcome kinds of length <= depth
EXH_KINDS = ["answer", "nodata", "nx", "servfail", "refused", "yx", "malformed", "trunc", "timeout", "network"]


def exh_reply(kind):
    if kind == "answer":
        return [1, NOERROR, 1, [[None, 1, A, 300, 1]], []]
    if kind == "nodata":
        return [1, NOERROR, 1, [], [[ROOT, 1, SOA, 300, 60]]]
    if kind == "nx":
        return [1, NXDOMAIN, 1, [], [[ROOT, 1, SOA, 300, 60]]]
    if kind == "servfail":
        return [1, SERVFAIL, 1, [], []]
    if kind == "refused":
        return [1, REFUSED, 1, [], []]
    if kind == "yx":
        return [1, YXDOMAIN, 1, [], []]
    if kind == "malformed":
        return 0
    if kind == "trunc":
        return X_TRUNC
    if kind == "timeout":
        return X_TIMEOUT
    if kind == "network":
        return 6
    raise ValueError(kind)


EXH_SETTINGS = [
    # servers, retry_servfail, tcp, search list, cache, raise_on_no_answer
    ([[0, 0], [1, 0]], 0, 0, [], 0, 1),
    ([[0, 0], [1, 0], [2, 0]], 1, 0, [nm("a", "example", "")], 0, 1),
    ([[0, 0], [1, 0]], 0, 0, [nm("a", "example", ""), nm("b", "example", "")], 1, 0),
    ([[0, 0]], 1, 1, [nm("a", "example", "")], 0, 1),
    ([[0, 1], [1, 0]], 1, 0, [], 1, 1),
]


def exh_cases(depth, settings):
    for servers, rsf, tcp, search, cache, raise_na in settings:
        rcfg = [servers, 1000, 2500, rsf, cache, 0, search, ROOT, None]
        req = [nm("host"), A, 1, tcp, raise_na, None, 1, 0, 0]
        for n in range(depth + 1):
            for seq in itertools.product(EXH_KINDS, repeat=n):
                script = [[50, exh_reply(k)] for k in seq]
                yield [rcfg, [req], script, [0, X_TIMEOUT]]


def gen_long_soft(rng):
    """many back-off rounds: soft failures with short durations under a long lifetime"""
    n = rng.choice([1, 2, 3])
    servers = [[i, rng.choice([0, 0, 2, 3, 1])] for i in range(n)]
    lifetime = rng.choice([8000, 12000, 20000, 30000])
    rcfg = [servers, rng.choice([2000, 500, 5000]), lifetime, 1, rng.choice([0, 1]), 0,
            rng.sample(SUFFIXES, rng.choice([0, 1, 2])), ROOT, None]
    req = [rng.choice(QNAMES_REL[:3]), A, 1, rng.randrange(2), 1, None, rng.choice([0, 1]), 0, 0]
    cands = py_candidates(rcfg, req[0], bool(req[6]))
    kinds = ["servfail", "servfail", "other", "timeout", "trunc"]
    script = []
    for _ in range(rng.choice([0, 3, 10, 25, 40])):
        k = rng.choice(kinds if rng.random() < 0.9 else ["nx", "refused", "malformed"])
        script.append([rng.choice([0, 0, 1, 5, 30, 150]), gen_reply(rng, k, A, 1, cands)])
    tail = [rng.choice([0, 0, 1, 20]), gen_reply(rng, rng.choice(["servfail", "other", "trunc"]), A, 1, cands)]
    return [rcfg, [req], script, tail]


def gen_backwards(rng):
    """the clock steps backwards during the first queries"""
    case = gen_case(rng, "mixed", nscript=rng.choice([2, 3, 5]))
    case[0][4] = 0
    for i, o in enumerate(case[2][:2]):
        if rng.random() < 0.7:
            o[0] = rng.choice([-1, -10, -200, -999, -1000, -1001, -1500, -5000])
    return case


def gen_cache_case(rng):
    """several resolve() calls against one cache: same / different type, class, name; TTL expiry"""
    rcfg = gen_rcfg(rng)
    rcfg[4] = rng.choice([1, 2])
    rcfg[2] = rng.choice([5000, 10000])
    base = gen_request(rng, True)
    base[1] = rng.choice([A, AAAA, TXT])
    base[2] = rng.choice([1, 1, 1, 3])
    reqs = [base]
    for _ in range(rng.choice([1, 2, 3])):
        r = list(base)
        x = rng.random()
        if x < 0.15:
            r[1] = rng.choice([A, AAAA, TXT])
        elif x < 0.25:
            r[2] = rng.choice([1, 3])
        elif x < 0.35:
            r[0] = [lab.upper() for lab in r[0]]
        elif x < 0.45:
            r[4] = 1 - r[4]
        r[7] = rng.choice([0, 1, 999, 1000, 1001, 4999, 5000, 5001, 59999, 60000, 60001, 299990, 300000, 86400000])
        reqs.append(r)
    cands = []
    for r in reqs:
        cands += py_candidates(rcfg, r[0], None if r[6] is None else bool(r[6]))
    script = []
    for _ in range(rng.choice([1, 2, 3, 4, 6])):
        k = rng.choice(["answer", "answer", "nodata", "nx", "nx", "cname", "servfail", "timeout"])
        qc = base[2] if rng.random() < 0.9 else rng.choice([1, 3])
        rep = gen_reply(rng, k, base[1], qc, cands)
        if not isinstance(rep, int):  # short TTLs so that expiry matters
            for rr in rep[3] + rep[4]:
                if rng.random() < 0.7:
                    rr[3] = rng.choice([0, 1, 5, 60, 300])
        script.append([rng.choice([0, 1, 10, 100]), rep])
    tail = [rng.choice([0, 10]), gen_reply(rng, rng.choice(["answer", "nx", "timeout", "nodata"]), base[1], base[2], cands)]
    if rng.random() < 0.35 and cands:
        # the user stores an Answer under a key of his choosing first
        pq = rng.choice(cands)
        pty = rng.choice([ANY, ANY, base[1], base[1], TXT])
        pk = rng.choice(["nodata", "nx", "answer", "nx", "cname"])
        rep = gen_reply(rng, pk, A if pty == ANY else pty, base[2], cands)
        if not isinstance(rep, int):
            for rr in rep[3] + rep[4]:
                rr[3] = rng.choice([5, 60, 300, 86400])
        reqs = [[pq, pty, base[2], 0, 0, None, None, 0, 1]] + reqs
        script = [[0, rep]] + script
    return [rcfg, reqs, script, tail]


def gen_targeted(rng, i):
    """dense coverage of corners that random profiles reach only now and then"""
    k = i % 6
    if k == 0:
        # back-off rounds inside several candidates: soft failures, then NXDOMAIN, repeatedly
        n = rng.choice([1, 2])
        servers = [[j, rng.choice([0, 2])] for j in range(n)]
        rcfg = [servers, 2000, rng.choice([5000, 10000]), 1, 0, 0, rng.sample(SUFFIXES[:4], rng.choice([1, 2, 3])), ROOT, None]
        req = [nm("host"), A, 1, 0, 1, None, 1, 0, 0]
        script = []
        for _ in range(rng.choice([2, 3, 4])):
            for _ in range(rng.choice([n, 2 * n, 3 * n + 1])):
                script.append([rng.choice([0, 5, 40]), gen_reply(rng, rng.choice(["servfail", "other", "timeout"]), A, 1, [])])
            script.append([5, exh_reply("nx")])
        return [rcfg, [req], script, [0, exh_reply(rng.choice(["answer", "nx", "servfail"]))]]
    if k == 1:
        # every exception class, UDP and TCP, one or two servers
        servers = [[0, rng.choice([0, 2])], [1, rng.choice([0, 1, 3])]][: rng.choice([1, 2])]
        rcfg = [servers, 1000, 3000, rng.randrange(2), 0, 0, [], ROOT, None]
        req = [nm("host", "example", ""), A, 1, rng.randrange(2), 1, None, None, 0, 0]
        script = [[rng.choice([0, 10]), rng.randrange(len(EXC))] for _ in range(rng.choice([1, 2, 3, 4]))]
        return [rcfg, [req], script, [0, rng.choice([exh_reply("answer"), 12, 6])]]
    if k == 2:
        # negative replies: CNAME chain, then SOA at ancestors of the canonical name / of the question name
        rcfg = [[[0, 0]], 2000, 5000, 0, rng.choice([1, 2]), 0, [], ROOT, None]
        q = nm("www", "host", "example", "")
        canon = nm("deep", "t1", "example", "")
        soa_owner = rng.choice([canon, canon[1:], canon[2:], ROOT, q, q[1:], nm("t1", "example", ""), nm("other", "")])
        ans = [[None, 1, CNAME, rng.choice(TTLS), canon]] if rng.random() < 0.7 else []
        rcode = rng.choice([NOERROR, NXDOMAIN])
        rep = [1, rcode, 1, ans, [[soa_owner, 1, SOA, rng.choice(TTLS), rng.choice(MINIMUMS)]]]
        reqs = [[q, A, 1, 0, rng.randrange(2), None, None, 0, 0], [q, A, 1, 0, rng.randrange(2), None, None, rng.choice([0, 1000, 60000]), 0]]
        return [rcfg, reqs, [[5, rep]], [5, exh_reply("answer")]]
    if k == 3:
        # duplicate candidate names (case variants in the search list), NXDOMAIN everywhere
        sl = [nm("a", "example", ""), nm("A", "Example", ""), nm("a", "example", "")][: rng.choice([2, 3])]
        rcfg = [[[0, 0], [1, 2]], 2000, 5000, 0, rng.choice([0, 1]), 0, sl, ROOT, rng.choice([None, 0, 2])]
        req = [rng.choice([nm("host"), nm("Host")]), A, 1, 0, 1, None, 1, 0, 0]
        script = [[5, exh_reply(rng.choice(["nx", "nx", "nx", "servfail", "malformed"]))] for _ in range(rng.choice([2, 3, 4, 5]))]
        return [rcfg, [req, list(req)], script, [5, exh_reply(rng.choice(["nx", "answer"]))]]
    if k == 4:
        # unusable replies: not a response, question count, NXDOMAIN with an answer, long chains
        rcfg = [[[0, 0], [1, 0], [2, 2]], 2000, 5000, 0, rng.choice([0, 1]), 0, [], ROOT, None]
        req = [nm("host", "example", ""), rng.choice([A, CNAME]), 1, 0, 1, None, None, 0, 0]
        bad = rng.choice([
            [0, NOERROR, 1, [[None, 1, A, 300, 1]], []],
            [1, NOERROR, rng.choice([0, 2]), [[None, 1, A, 300, 1]], []],
            [1, NXDOMAIN, 1, [[None, 1, req[1], 300, nm("t3", "") if req[1] == CNAME else 1]], []],
            [1, NOERROR, 1, gen_answer_rrs(rng, A, 1, rng.choice([15, 16, 17])), []],
            [0, NXDOMAIN, 1, [], []],
        ])
        return [rcfg, [req], [[5, bad], [5, bad]], [5, exh_reply(rng.choice(["answer", "nx", "nodata"]))]]
    # user-stored cache entries under the ANY key / the query key, NOERROR and NXDOMAIN
    rcfg = [[[0, 0]], 2000, 5000, 0, rng.choice([1, 2]), 0, [nm("a", "example", "")], ROOT, None]
    cand = nm("host", "a", "example", "")
    pty = rng.choice([ANY, ANY, A])
    rep = rng.choice([[1, NOERROR, 1, [], [[ROOT, 1, SOA, 300, 60]]], [1, NXDOMAIN, 1, [], [[ROOT, 1, SOA, 300, 60]]],
                      [1, NOERROR, 1, [[None, 1, A if pty == ANY else pty, 300, 1]], []]])
    reqs = [[cand, pty, 1, 0, 0, None, None, 0, 1], [nm("host"), A, 1, 0, rng.randrange(2), None, 1, rng.choice([0, 59999, 60000, 300000]), 0]]
    return [rcfg, reqs, [[0, rep], [5, exh_reply(rng.choice(["nx", "answer"]))]], [5, exh_reply("answer")]]


def gen_wire(rng):
    """wire family: Do53 servers, real dns.query.udp/tcp over scripted sockets (see WireExchange)"""
    n = rng.choice([1, 1, 2, 3])
    servers = [[i, 0] for i in range(n)]
    rcfg = [servers, rng.choice([2000, 500, 1000]), rng.choice([5000, 3000, 1500, 10000]), rng.randrange(2),
            rng.choice([0, 0, 1]), 0, rng.sample(SUFFIXES[:3], rng.choice([0, 0, 1])), ROOT, None]
    req = [rng.choice([nm("host", "example", ""), nm("host")]), A, 1, 1 if rng.random() < 0.25 else 0,
           1 if rng.random() < 0.7 else 0, None, rng.choice([None, 1]), 0, 0]
    cands = py_candidates(rcfg, req[0], None if req[6] is None else bool(req[6]))

    def wreply():
        kind = rng.choice([0, 0, 0, 1, 1, 1, 2, 3, 4, 5, 6, 7])
        aux = rng.choice([0, 0, 1, 2, 3, 4])
        if kind == 1:
            msg = [1, rng.choice([FORMERR, SERVFAIL, NOTIMP, REFUSED, REFUSED, NOERROR, NXDOMAIN]), 0, [], []]
        elif kind == 2:
            msg = [1, NOERROR, 1, rng.choice([[], [[None, 1, A, 300, 1]]]), []]
        elif kind in (0, 5):
            k = rng.choice(["answer", "cname", "nodata", "nx", "servfail", "refused", "formerr-rcode", "yx"])
            msg = gen_reply(rng, k, A, 1, cands)
            if kind == 5:
                msg[0] = 0
            # only record types whose scripted rdata is valid on the wire; one spelling per name (name
            # compression is case-insensitive, so a decoded name may borrow the case of an earlier one)
            def low(n):
                return None if n is None else [bytes(l).lower() for l in n]

            for sec in (3, 4):
                msg[sec] = [[low(r[0]), r[1], r[2], r[3], low(r[4]) if r[2] == CNAME else r[4]]
                            for r in msg[sec] if r[2] in (A, CNAME, SOA)]
        else:
            msg = [1, NOERROR, 1, [], []]
        return [kind, aux, msg]

    script = []
    for _ in range(rng.choice([1, 2, 3, 4, 6])):
        w = wreply()
        script.append([0 if w[0] == 6 else rng.choice([0, 2, 10, 50, 400, 1999, 2000]), w])
    tail = [10, rng.choice([[0, 0, [1, NOERROR, 1, [[None, 1, A, 300, 1]], []]], [7, 0, [1, NOERROR, 1, [], []]],
                            [1, 0, [1, REFUSED, 0, [], []]], [6, 0, [1, NOERROR, 1, [], []]]])]
    if tail[1][0] == 6:
        tail[0] = 0
    return [rcfg, [req], script, tail]


def cases(ctx):
    rng = ctx.rng
    for i in range(ctx.n(300, 4000)):
        ctx.count("profile:wire")
        yield "wire", intern(gen_wire(rng))
    for i in range(ctx.n(360, 3000)):
        ctx.count("profile:targeted")
        yield "targeted-%d" % (i % 6), intern(gen_targeted(rng, i))
    n = ctx.n(1000, 10000)
    profiles = ["mixed", "mixed", "soft", "hard", "search", "chain", "cache", "long-soft", "backwards", "cache"]
    for i in range(n):
        p = profiles[i % len(profiles)]
        ctx.count("profile:" + p)
        if p == "cache":
            c = gen_cache_case(rng)
        elif p == "long-soft":
            c = gen_long_soft(rng)
        elif p == "backwards":
            c = gen_backwards(rng)
        else:
            c = gen_case(rng, p)
        yield "random-" + p, intern(c)
    # exhaustive small scopes: every sequence of outcome kinds up to a depth, per fixed setting
    k = 0
    if ctx.quick:
        plan = [(2, EXH_SETTINGS[:3], True)]
    else:
        plan = [(3, EXH_SETTINGS, True), (4, EXH_SETTINGS[:2], True), (5, EXH_SETTINGS[1:2], False)]
    done = set()
    scopes = []
    for depth, settings, through_model in plan:
        n0 = k
        for c in exh_cases(depth, settings):
            key = repr(c)
            if key in done:
                continue
            done.add(key)
            k += 1
            yield ("exhaustive" if through_model else "exhaustive-oracle"), intern(c)
        scopes.append(f"depth<={depth} x {len(settings)} settings ({'model+impl+oracle' if through_model else 'impl+oracle'}): {k - n0} new cases")
    ctx.notes["exhaustive"] = True
    ctx.notes["exhaustive_scope"] = f"all sequences of outcome kinds out of {len(EXH_KINDS)} ({', '.join(EXH_KINDS)}); " + "; ".join(scopes)


def in_model(kind, case):
    return kind != "exhaustive-oracle"


# ---------------------------------------------------------------- oracle (property text on implementation outputs)

def lower(l):
    return bytes(c + 32 if 65 <= c <= 90 else c for c in l)


def name_eq(a, b):
    return [lower(x) for x in a] == [lower(x) for x in b]


def name_fits(n):
    return all(len(l) <= 63 for l in n) and sum(len(l) + 1 for l in n) <= 255


def ref_sections(rrs, qname):
    """RRs -> RRsets as a DNS message holds them: (owner, class, type) -> [ttl, [rdata...]] in order of
    first appearance; TTL is the minimum; singleton types keep the newest rdata"""
    out = []
    for owner, rdclass, rdtype, ttl, data in rrs:
        owner = qname if owner is None else owner
        if rdtype == CNAME:
            data = ("name", tuple(lower(x) for x in (qname if data is None else data)), qname if data is None else data)
        elif rdtype == SOA:
            data = ("soa", data)
        else:
            data = ("other", data % 256)
        for rs in out:
            if name_eq(rs[0], owner) and rs[1] == rdclass and rs[2] == rdtype:
                rs[3] = min(rs[3], ttl)
                if rdtype in (CNAME, SOA, 39, 47, 50, 51):
                    rs[4] = [data]
                elif data[:2] not in [d[:2] for d in rs[4]]:
                    rs[4].append(data)
                break
        else:
            out.append([owner, rdclass, rdtype, ttl, [data]])
    return out


def ref_find(sec, name, rdclass, rdtype):
    for rs in sec:
        if name_eq(rs[0], name) and rs[1] == rdclass and rs[2] == rdtype:
            return rs
    return None


def ref_chain(reply, qname, qtype, qclass):
    """Independent reading of a reply (RFC 1034 4.3.2 / RFC 2308): follow CNAMEs from the question name.
    Returns ('bad', why) or ('ok', canonical, rrset|None, min_ttl, ncnames)."""
    qr, rcode, nq, ans, auth = reply
    if not qr:
        return ("bad", "not a response")
    if nq != 1:
        return ("bad", "question count")
    answer = ref_sections(ans, qname)
    authority = ref_sections(auth, qname)
    name = qname
    ttl = 2**32 - 1
    n = 0
    found = None
    while True:
        found = ref_find(answer, name, qclass, qtype)
        if found is not None:
            ttl = min(ttl, found[3])
            break
        if qtype == CNAME:
            break
        c = ref_find(answer, name, qclass, CNAME)
        if c is None:
            break
        n += 1
        if n >= 16:
            return ("bad", "chain too long")
        ttl = min(ttl, c[3])
        name = c[4][0][2]
    if rcode == NXDOMAIN and found is not None:
        return ("bad", "answer in an NXDOMAIN reply")
    if found is None:
        au = name
        while True:
            s = ref_find(authority, au, qclass, SOA)
            if s is not None:
                ttl = min(ttl, s[3], s[4][0][1])
                break
            if len(au) == 0 or au == [b""]:
                break
            au = au[1:]
    return ("ok", name, found, ttl, n)


def classify(reply, dur, granted, qname, qtype, qclass):
    """outcome category of the property text for one query, as observed within the granted timeout"""
    if (isinstance(reply, int) and reply == X_TIMEOUT) or dur >= granted:
        return "timeout", None
    if isinstance(reply, int):
        return EXC[reply][1], None
    rcode = reply[1]
    if rcode in (NOERROR, NXDOMAIN):
        ch = ref_chain(reply, qname, qtype, qclass)
        if ch[0] == "bad":
            return "malformed", ch
        if rcode == NXDOMAIN:
            return "nxdomain", ch
        return ("answer" if ch[2] is not None else "nodata"), ch
    if rcode == YXDOMAIN:
        return "yxdomain", None
    if rcode == SERVFAIL:
        return "servfail", None
    return "other-rcode", None


def wire_face(reply, tcp):
    """what a server behaviour of the wire family amounts to for the resolver, by the documented
    semantics of the transports: UDP (ignore_errors, ignore_unexpected, raise_on_truncation) skips
    anything that is not a well-formed response to the query - a reply without question section counts
    as a response only for FORMERR / SERVFAIL / NOTIMP / REFUSED - and reports truncation; TCP raises
    on a malformed message (FormError), a non-response (BadResponse) and a closed connection (EOFError)"""
    if isinstance(reply, int) or len(reply) != 3:
        return reply
    kind, aux, msg = reply
    if kind == 0:
        return msg
    if kind == 1:
        if msg[1] in (FORMERR, SERVFAIL, NOTIMP, REFUSED):
            return msg
        return 1 if tcp else X_TIMEOUT
    if kind == 2:
        return msg if tcp else X_TRUNC
    if kind == 3:
        return 2 if tcp else X_TIMEOUT
    if kind == 4:
        return 5 if tcp else X_TIMEOUT
    if kind == 5:
        return 1 if tcp else X_TIMEOUT
    if kind == 6:
        return 6
    return X_TIMEOUT


def proves_broken(cat, tcp, retry_servfail):
    return cat in ("malformed", "network", "other-rcode") or (cat == "servfail" and not retry_servfail) or (cat == "truncated" and tcp)


def oracle(ctx, kind, ccase, out):
    fails = []

    def fail(what, sig=None, **kw):
        fails.append({"kind": "C16:" + (sig or what), "sig": sig or what, "what": what, **kw})

    if isinstance(out, Err):
        if out.code in (-2, -3):
            fail(f"resolution does not terminate within its lifetime (more than {MAX_QUERIES} queries / watchdog)", sig="no-termination")
        else:
            fail("implementation raised outside the resolver: " + out.text, sig="harness-error")
        return fails
    table = ccase[0]
    case = expand(ccase)
    if len(out) != 1:
        fail("synchronous and asynchronous resolver behave differently", sig="sync-async", sync=out[0], asyncio=out[1])
    for flavour, res in zip(("sync", "async"), out):
        check_flavour(fail, case, expand_result(table, res), flavour)
    return fails


def check_flavour(fail0, case, res, flavour):
    rcfg, reqs, script, tail = case
    servers, timeout_ms, lifetime_cfg, rsf, cache_kind, usbd, slist, domain, ndots = rcfg
    ids = [s[0] for s in servers]
    dup_servers = len(set(ids)) != len(ids)
    outs, probes, anomalies = res
    ANOM = {1: 'UDP query issued without raise_on_truncation', 2: 'UDP query issued without ignore_errors', 3: 'UDP query issued without ignore_unexpected', 4: 'query sent to the wrong port', 5: 'DoH query not POSTed', 6: 'errors entry carries the wrong port', 7: 'Answer.port is not the port of the answering server'}
    for an in anomalies:
        fail0('nameserver transport misuse: ' + ANOM.get(an, str(an)), sig='transport-%s' % an, flavour=flavour)
    clock = 0
    pos = 0
    # cache as the property describes it: key -> (script idx, expiry, kind)
    known = {}

    def fail(what, sig=None, **kw):
        fail0(what, sig=sig, flavour=flavour, request=ri, **kw)

    for ri, (req, (trace, fin, end_clock)) in enumerate(zip(reqs, outs)):
        qname, qtype, qclass, tcp, raise_na, lifetime, srch, advance, pre = req
        lifetime = lifetime_cfg if lifetime is None else lifetime
        clock += advance
        start = clock
        if pre:
            # the user's cache.put: remember what the cache now holds under that key
            idx = pos
            pos += 1
            dur, reply = script[idx] if idx < len(script) else tail
            if cache_kind and not isinstance(reply, int):
                ch = ref_chain(reply, qname, qtype, qclass)
                if ch[0] == "ok":
                    known[(tuple(lower(x) for x in qname), qtype, qclass)] = (
                        idx, clock + 1000 * ch[3], "nx" if reply[1] == NXDOMAIN else "ans", ch)
            check_probes(fail, cache_kind, probes, ri, py_candidates(rcfg, qname, None if srch is None else bool(srch)), qtype, qclass, known, clock)
            continue
        pos += len(trace)
        if isinstance(fin, Err):
            cands0 = py_candidates(rcfg, qname, None if srch is None else bool(srch))
            if fin.code == 2 and not all(name_fits(c) for c in cands0):
                continue  # a candidate name exceeds 255 octets: NameTooLong before any query
            fail("undocumented exception " + fin.text, sig="undocumented")
            clock = end_clock
            continue
        code = fin[0]
        meta = (128 <= qtype < 256) or qtype == OPT or qclass in (254, 255)
        if code == 6:
            if not meta:
                fail("NoMetaqueries for an ordinary type/class", sig="metaquery")
            if trace:
                fail("queries were sent for a metaquery", sig="metaquery")
            continue
        if meta:
            fail("metaquery was not refused", sig="metaquery")
            continue
        cands = py_candidates(rcfg, qname, None if srch is None else bool(srch))
        # ---- replay the clock along the trace, classify every query
        cats = []
        cand_i = 0
        nx_seen = {}
        broken = set()
        prev = None
        for k, ev in enumerate(trace):
            sid, etcp, backoff, granted, eq, idx = ev
            clock += backoff
            elapsed = clock - start
            if not (elapsed < lifetime) and elapsed >= 0:
                fail("a query was issued after the lifetime had expired", sig="query-after-lifetime", event=k)
            exp_granted = min(lifetime - max(elapsed, 0), timeout_ms)
            if granted != exp_granted:
                fail("per-query timeout is not min(remaining lifetime, resolver timeout)", sig="timeout-budget", event=k, expected=exp_granted)
            dur, reply = script[idx] if idx < len(script) else tail
            reply = wire_face(reply, etcp)
            cat, ch = classify(reply, dur, granted, eq, qtype, qclass)
            cats.append((cat, ch))
            clock += max(0, granted) if cat == "timeout" else dur
            # candidate names: search-list / ndots order
            while cand_i < len(cands) and cands[cand_i] != eq:
                # moving on is only allowed after an NXDOMAIN for the candidate (from the net or the cache)
                c = cands[cand_i]
                if not any(name_eq(c, n) for n in nx_seen):
                    ck = known.get((tuple(lower(x) for x in c), ANY, qclass))
                    if not (ck and ck[1] > clock - (max(0, granted) if cat == "timeout" else dur) and ck[2] == "nx"):
                        fail("candidate name skipped without an NXDOMAIN for it", sig="candidate-order", event=k)
                cand_i += 1
            if cand_i >= len(cands):
                fail("query for a name that is not a search-list/ndots candidate", sig="candidate-order", event=k)
                cand_i = 0
            # never re-ask a server that proved broken within the resolution
            if sid in broken and not dup_servers:
                fail("a server that proved broken was asked again", sig="broken-reasked", event=k, server=sid)
            # truncation: one TCP retry on the same server
            if prev is not None and prev[0] == "truncated" and not prev[2]:
                if not (sid == prev[1] and etcp and eq == prev[3] and backoff == 0):
                    fail("truncated UDP reply was not retried over TCP on the same server", sig="tc-retry", event=k)
            if proves_broken(cat, etcp, rsf):
                broken.add(sid)
            if cat == "nxdomain":
                nx_seen[tuple(eq)] = idx
            prev = (cat, sid, etcp, eq)
            # terminal outcomes must end the resolution at once
            if k < len(trace) - 1 and cat in ("answer", "nodata", "yxdomain"):
                fail("resolution continued after " + cat, sig="first-acceptable", event=k)
            # remember what a cache would hold
            if cache_kind and ch is not None and ch[0] == "ok":
                if cat in ("answer", "nodata"):
                    known[(tuple(lower(x) for x in eq), qtype, qclass)] = (idx, clock + 1000 * ch[3], "ans", ch)
                elif cat == "nxdomain":
                    known[(tuple(lower(x) for x in eq), ANY, qclass)] = (idx, clock + 1000 * ch[3], "nx", ch)
        if prev is not None and prev[0] == "truncated" and not prev[2] and code not in (5,):
            fail("truncated UDP reply was not retried over TCP", sig="tc-retry")
        last = cats[-1] if cats else None
        # ---- final result
        if code == 5:
            # the clock after a possible last back-off sleep
            clock = end_clock
            el = end_clock - start
            if not (el >= lifetime or el < -1000):
                fail("LifetimeTimeout before the lifetime expired", sig="lifetime")
            if el > lifetime + 2000 and all(script[e[5]][0] >= 0 if e[5] < len(script) else True for e in trace):
                fail("resolution ended more than one back-off interval after its lifetime", sig="lifetime")
        else:
            if end_clock != clock:
                fail("clock at the end of the resolution does not match the trace", sig="clock", expected=clock)
            clock = end_clock
        if code == 0 or code == 1:
            src = fin[10] if code == 0 else fin[1]
            from_net = bool(trace) and trace[-1][5] == src and last[0] in ("answer", "nodata")
            if from_net:
                cat, ch = last
                if code == 0 and cat == "nodata" and raise_na:
                    fail("empty answer returned although raise_on_no_answer", sig="no-answer")
                if code == 1 and not (cat == "nodata" and raise_na):
                    fail("NoAnswer raised for a reply with data / without raise_on_no_answer", sig="no-answer")
                if code == 0:
                    check_answer(fail, fin, trace[-1][4], qtype, qclass, ch, clock, trace[-1][0])
            else:
                # must be a cache hit for the candidate now being tried
                if not cache_kind:
                    fail("answer does not come from the last reply and there is no cache", sig="first-acceptable")
                else:
                    hit = None
                    for c in cands:
                        ck = known.get((tuple(lower(x) for x in c), qtype, qclass))
                        if ck and ck[0] == src and ck[1] > clock:
                            hit = ck
                            break
                    if hit is None:
                        fail("answer is neither the last reply nor an unexpired cache entry for a candidate", sig="cache-hit")
                    elif code == 0:
                        if hit[3][2] is None and raise_na:
                            fail("cached empty answer returned although raise_on_no_answer", sig="no-answer")
                    elif code == 1 and not (hit[3][2] is None and raise_na):
                        fail("NoAnswer from a cached answer with data", sig="no-answer")
        elif code == 2:
            qn = fin[1]
            if qn != cands:
                fail("NXDOMAIN names are not the search-list/ndots candidates", sig="candidates", expected=cands)
            for c, src in zip(qn, fin[2]):
                ok = False
                if src is not None:
                    dur, reply = script[src] if src < len(script) else tail
                    reply = wire_face(reply, any(e[5] == src and e[1] for e in trace))
                    if not isinstance(reply, int) and reply[1] == NXDOMAIN:
                        # the reply was given for this very name: in this trace or remembered from the cache
                        if any(e[5] == src and name_eq(e[4], c) and cats[i][0] == "nxdomain" for i, e in enumerate(trace)):
                            ok = True
                        else:
                            ck = known.get((tuple(lower(x) for x in c), ANY, qclass))
                            ok = bool(ck and ck[0] == src and ck[2] == "nx")
                if not ok:
                    fail("NXDOMAIN raised although a candidate name did not get NXDOMAIN", sig="nxdomain-all", name=c)
            if last is not None and last[0] in ("answer", "nodata", "yxdomain"):
                fail("NXDOMAIN raised after an acceptable reply", sig="first-acceptable")
        elif code == 3:
            if last is None or last[0] != "yxdomain":
                fail("YXDOMAIN raised but the last reply was not YXDOMAIN", sig="yxdomain")
        elif code == 4:
            if not dup_servers and set(ids) - broken:
                fail("NoNameservers although a server had not proved broken", sig="no-nameservers", alive=sorted(set(ids) - broken))
            if last is not None and last[0] in ("answer", "nodata", "yxdomain", "nxdomain"):
                fail("NoNameservers raised after a usable reply", sig="first-acceptable")
        elif code == 5:
            if last is not None and last[0] in ("answer", "nodata", "yxdomain"):
                fail("LifetimeTimeout raised after an acceptable reply", sig="first-acceptable")
        # ---- cached under the queried name, type and class
        check_probes(fail, cache_kind, probes, ri, cands, qtype, qclass, known, clock)
    return None


def check_probes(fail, cache_kind, probes, ri, cands, qtype, qclass, known, clock):
    if not (cache_kind and ri < len(probes)):
        return
    pr = probes[ri]
    for ci, c in enumerate(cands):
        if 2 * ci + 1 >= len(pr):
            break
        for slot, ty in ((0, qtype), (1, ANY)):
            ck = known.get((tuple(lower(x) for x in c), ty, qclass))
            exp = ck[0] if ck and ck[1] > clock else None
            if pr[2 * ci + slot] != exp:
                fail("cache content differs from the replies received for (name, type, class)", sig="cache-key", name=c, rdtype=ty, expected=exp, got=pr[2 * ci + slot])


def check_answer(fail, fin, qn, qtype, qclass, ch, now, server):
    _, a_qname, a_type, a_class, canon, rr, min_ttl, expiration, a_server, ncnames, src = fin
    if a_qname != qn or a_type != qtype or a_class != qclass:
        fail("Answer is not for the queried name/type/class", sig="answer-key")
    if not name_eq(canon, ch[1]) or ncnames != ch[4] or ncnames >= 16:
        fail("canonical name is not the end of the CNAME chain", sig="chain", expected=ch[1])
    if min_ttl != ch[3]:
        fail("minimum TTL is not the minimum over the chain", sig="chain-ttl", expected=ch[3])
    if (rr is None) != (ch[2] is None):
        fail("answer RRset presence differs from the chain walk", sig="chain")
    elif rr is not None:
        if not name_eq(rr[0], ch[1]) or rr[1] != qtype or rr[2] != ch[2][3] or rr[3] != len(ch[2][4]):
            fail("answer RRset is not the RRset at the canonical name", sig="chain")
    if expiration != now + 1000 * min_ttl:
        fail("expiration is not arrival time + minimum TTL", sig="chain-ttl")
    if a_server != server:
        fail("Answer.nameserver is not the server that replied", sig="answer-key")


TRUSTED = [
    "model: coq/Model/ResolM.v (_Resolution.next_request/next_nameserver/query_result, _compute_timeout, _get_qnames_to_try, Resolver.resolve loop, Answer, Cache get/put, QueryMessage.resolve_chaining, find_rrset/Rdataset.add as used to assemble replies)",
    "scripted world shared by model and harness: query i gets outcome script[i] (then the tail forever); a reply that would take >= the granted timeout is a dns.exception.Timeout after exactly that timeout; clock = exact integer milliseconds (fractions.Fraction seconds patched into dns.resolver.time / dns.asyncresolver.time / the async backend sleep)",
    "the asyncio resolver is driven on a private event loop with scripted Nameserver.async_query; sync and async observations must be identical",
]
RULE = (
    "cases = resolver configuration x 1-3 resolve() calls sharing cache and clock x script of per-query outcomes; random profiles "
    "(mixed/soft/hard/search/chain) plus every sequence of outcome kinds up to the stated depth for fixed settings; "
    "distinct = distinct canonical case; non-trivial = implementation returned an observation"
)
ASSUMPTIONS = [
    "durations are non-negative in terminates_within_lifetime / tc_retry_once_same_server (a clock stepping backwards is exercised by the correspondence only)",
    "nameserver objects are distinct in broken_never_reasked (the same object listed twice is removed once per failure, as list.remove does)",
]


# ---------------------------------------------------------------- the twin loops (sync / async) and dns/nameserver.py

def _norm_loop(fn):
    """normalise a resolve() body: strip awaits, map the async spellings onto the sync ones"""

    class T(ast.NodeTransformer):
        def visit_Await(self, node):
            return self.visit(node.value)

        def visit_Call(self, node):
            self.generic_visit(node)
            f = node.func
            if isinstance(f, ast.Attribute) and f.attr == "async_query":
                f.attr = "query"
                node.keywords = [k for k in node.keywords if k.arg != "backend"]
            if isinstance(f, ast.Attribute) and f.attr == "sleep" and isinstance(f.value, ast.Name) and f.value.id == "backend":
                f.value.id = "time"
            if isinstance(f, ast.Attribute) and f.attr == "_Resolution" and isinstance(f.value, ast.Attribute):
                node.func = ast.Name(id="_Resolution", ctx=ast.Load())  # dns.resolver._Resolution -> _Resolution
            return node

    body = []
    for st in fn.body:
        if isinstance(st, ast.Expr) and isinstance(st.value, ast.Constant) and isinstance(st.value.value, str):
            continue  # docstring
        if isinstance(st, ast.If) and ast.unparse(st.test) == "not backend":
            continue  # backend defaulting
        body.append(T().visit(st))
    return "\n".join(ast.unparse(ast.fix_missing_locations(x)) for x in body)


def _find_method(path, cls, name):
    tree = ast.parse(open(path, encoding="utf-8").read())
    for node in tree.body:
        if isinstance(node, ast.ClassDef) and node.name == cls:
            for m in node.body:
                if isinstance(m, (ast.FunctionDef, ast.AsyncFunctionDef)) and m.name == name:
                    return m
    return None


def extra(ctx):
    fails = []
    repo = os.path.dirname(os.path.dirname(os.path.abspath(dns.resolver.__file__)))
    sync = _find_method(os.path.join(repo, "dns", "resolver.py"), "Resolver", "resolve")
    asyn = _find_method(os.path.join(repo, "dns", "asyncresolver.py"), "Resolver", "resolve")
    if sync is None or asyn is None:
        fails.append({"kind": "C16:twin-loops", "sig": "twin-loops", "what": "Resolver.resolve not found in dns/resolver.py or dns/asyncresolver.py"})
    else:
        a, b = _norm_loop(sync), _norm_loop(asyn)
        if a != b:
            import difflib
            d = "\n".join(difflib.unified_diff(a.splitlines(), b.splitlines(), "sync", "async", lineterm="", n=1))
            fails.append({"kind": "C16:twin-loops", "sig": "twin-loops",
                          "what": "the asyncio resolve() loop is not the synchronous loop with awaits", "diff": d[:3000]})
    ctx.notes["twin_loop_guard"] = "Resolver.resolve (sync) and asyncresolver.Resolver.resolve compared as normalised ASTs"
    # dns/nameserver.py facts the resolver relies on
    ns = dns.nameserver
    facts = [
        ("Do53Nameserver is not always-max-size", ns.Do53Nameserver("10.0.0.1").is_always_max_size() is False),
        ("DoTNameserver is not always-max-size", ns.DoTNameserver("10.0.0.1").is_always_max_size() is False),
        ("DoQNameserver is not always-max-size", ns.DoQNameserver("10.0.0.1").is_always_max_size() is False),
        ("DoHNameserver is always-max-size", ns.DoHNameserver("https://h.example/dns-query").is_always_max_size() is True),
        ("Do53 answer_nameserver/answer_port", (ns.Do53Nameserver("10.0.0.1", 5353).answer_nameserver(), ns.Do53Nameserver("10.0.0.1", 5353).answer_port()) == ("10.0.0.1", 5353)),
        ("Do53 default port 53", ns.Do53Nameserver("10.0.0.1").answer_port() == 53),
        ("DoH answer_port from URL / default 443", (ns.DoHNameserver("https://h.example:8443/q").answer_port(), ns.DoHNameserver("https://h.example/q").answer_port()) == (8443, 443)),
        ("DoT/DoQ default port 853", (ns.DoTNameserver("10.0.0.1").answer_port(), ns.DoQNameserver("10.0.0.1").answer_port()) == (853, 853)),
        ("str(Do53Nameserver)", str(ns.Do53Nameserver("10.0.0.1", 53)) == "Do53:10.0.0.1@53"),
    ]
    for what, ok in facts:
        if not ok:
            fails.append({"kind": "C16:nameserver", "sig": "nameserver-" + what, "what": "dns.nameserver: " + what + " does not hold"})
    # nameserver_ports / default port reach the transport
    seen = []

    def fake_udp(q, where, timeout=None, port=53, **kw):
        seen.append((where, port))
        raise dns.exception.Timeout

    saved = dns.query.udp
    dns.query.udp = fake_udp
    try:
        r = dns.resolver.Resolver(configure=False)
        r.nameservers = ["10.9.9.1", "10.9.9.2"]
        r.nameserver_ports = {"10.9.9.2": 5300}
        r.port = 1053
        r.lifetime = 0.05
        r.timeout = 0.01
        try:
            r.resolve("example.", "A")
        except Exception:  # noqa: BLE001
            pass
    finally:
        dns.query.udp = saved
    if set(seen) != {("10.9.9.1", 1053), ("10.9.9.2", 5300)}:
        fails.append({"kind": "C16:nameserver", "sig": "nameserver-ports", "what": "resolver.port / nameserver_ports do not reach the transport", "seen": sorted(set(seen))})
    # every nameserver class hands its configured endpoint (address / url, port, hostname) to its transport,
    # over UDP and TCP, sync and async
    calls = []

    def rec(name):
        def f(q, where, *a, **kw):
            calls.append((name, where, kw.get("port", a[1] if len(a) > 1 else None), kw.get("server_hostname")))
            raise dns.exception.Timeout

        async def af(q, where, *a, **kw):
            kw.pop("backend", None)
            return f(q, where, *a, **kw)

        return f, af

    names = ["udp", "tcp", "tls", "quic", "https"]
    saved_q = {n: (getattr(dns.query, n), getattr(dns.asyncquery, n)) for n in names}
    try:
        for n in names:
            f, af = rec(n)
            setattr(dns.query, n, f)
            setattr(dns.asyncquery, n, af)
        rq = dns.message.make_query("example.", "A")
        objs = [
            (ns.Do53Nameserver("10.1.1.1", 5353), False, ("udp", "10.1.1.1", 5353, None)),
            (ns.Do53Nameserver("10.1.1.1", 5353), True, ("tcp", "10.1.1.1", 5353, None)),
            (ns.DoTNameserver("10.1.1.2", 8853, hostname="dot.example"), False, ("tls", "10.1.1.2", 8853, "dot.example")),
            (ns.DoQNameserver("10.1.1.3", 8854, server_hostname="doq.example"), False, ("quic", "10.1.1.3", 8854, "doq.example")),
            (ns.DoHNameserver("https://doh.example:8443/dns-query"), True, ("https", "https://doh.example:8443/dns-query", None, None)),
        ]
        for o, max_size, want in objs:
            for flavour in ("sync", "async"):
                calls.clear()
                try:
                    if flavour == "sync":
                        o.query(rq, 1.0, None, 0, max_size)
                    else:
                        get_loop().run_until_complete(o.async_query(rq, 1.0, None, 0, max_size, Backend(Clock())))
                except dns.exception.Timeout:
                    pass
                except Exception as e:  # noqa: BLE001
                    calls.append(("error", repr(e)[:80], None, None))
                if calls != [want]:
                    fails.append({"kind": "C16:nameserver", "sig": "nameserver-endpoint-%s-%s-%s" % (type(o).__name__, want[0], flavour),
                                  "what": "dns.nameserver: %s.%s does not send the query to its configured endpoint" % (type(o).__name__, "query" if flavour == "sync" else "async_query"),
                                  "expected": list(want), "got": [list(c) for c in calls]})
    finally:
        for n in names:
            setattr(dns.query, n, saved_q[n][0])
            setattr(dns.asyncquery, n, saved_q[n][1])
    ctx.notes["extra_evaluations"] = len(facts) + 2 + 10
    return fails


def widen(ctx, disagreements):
    """the proofs or the correspondence broke but the oracle found nothing among the cases of this run:
    search more widely (other seeds, the neighbourhood of the disagreeing cases) for a concrete input
    on which the implementation violates the property text"""
    import random

    from lib import normalize, safe_impl
    import sys

    mod = sys.modules[__name__]
    found = []

    def try_case(kind, ccase):
        ccase = normalize(ccase)
        out = normalize(safe_impl(mod, ccase))
        for f in oracle(ctx, kind, ccase, out) or []:
            f.setdefault("case_kind", kind)
            f.setdefault("case", ccase)
            found.append(f)
        return bool(found)

    # neighbourhood: the disagreeing cases with every prefix of their script
    for d in disagreements[:20]:
        case = expand(d["case"])
        for n in range(len(case[2]) + 1):
            c2 = [case[0], case[1], case[2][:n], case[3]]
            if try_case("widened-prefix", intern(c2)) and len(found) >= 3:
                return found
    for extra_seed in range(1, 7):
        rng = random.Random(ctx.seed * 7919 + extra_seed)
        for i in range(1500):
            p = ["mixed", "soft", "hard", "search", "chain", "cache", "long-soft"][i % 7]
            if p == "cache":
                c = gen_cache_case(rng)
            elif p == "long-soft":
                c = gen_long_soft(rng)
            else:
                c = gen_case(rng, p)
            if try_case("widened-" + p, intern(c)) and len(found) >= 3:
                return found
    return found
