"""C04 oracle engine: entry-point probes, seeds and mutators (used by harness/pC04.py).

A *probe* is (entry, payload) with payload made of ints / bytes / str / lists only, so that a
failing probe is its own replay.  `run_probe` feeds the payload to the named parser entry point
of the implementation under $VERIF_REPO, classifies whatever comes out and, when a value is
returned, pushes it through the renderers (to_text / to_wire / to_generic ...).  The verdict is
the property text: only the library's own exception hierarchy (plus exactly ValueError/KeyError
for the zone-semantic entry points), no hang, continue_on_error records instead of raising.
"""
from __future__ import annotations

import ast
import io
import os
import random
import re
import signal
import sys

import dns.edns
import dns.exception
import dns.flags
import dns.message
import dns.name
import dns.rdata
import dns.rdataclass
import dns.rdatatype
import dns.rrset
import dns.tokenizer
import dns.tsig
import dns.tsigkeyring
import dns.ttl
import dns.update  # noqa: F401
import dns.wire
import dns.zone
import dns.zonefile

REPO = os.environ.get("VERIF_REPO", "/repo")

# dns.rdata.get_rdata_class caches GenericRdata under (ANY, type) when an IN-only type is first
# asked for in class ANY, and a later first lookup of (IN, type) then resolves to GenericRdata for
# the rest of the process.  Resolve every implemented (class, type) up front so that no result
# depends on the order of the cases (dynamic loading stays enabled).
dns.rdata.load_all_types(False)

# ------------------------------------------------------------------------------ watchdog
# ExceptionWrapper / `except Exception` inside the library would swallow an exception raised by
# a signal handler, so the handler only sets a flag and raises; the flag decides.


class _Hang(BaseException):
    pass


_hang_flag = [0]


def _on_alarm(signum, frame):
    _hang_flag[0] += 1
    raise _Hang()


def guarded(fn, seconds):
    """run fn(); returns (value, exception, hung)"""
    _hang_flag[0] = 0
    old = signal.signal(signal.SIGALRM, _on_alarm)
    # after the first shot the alarm re-fires every 2 ms: code that swallows the exception
    # (ExceptionWrapper, continue_on_error: once per record) is thrown out again at once
    signal.setitimer(signal.ITIMER_REAL, seconds, 0.002)
    val = exc = None
    try:
        try:
            val = fn()
        finally:
            signal.setitimer(signal.ITIMER_REAL, 0)
    except _Hang as e:
        exc = e
    except BaseException as e:  # noqa
        exc = e
    finally:
        signal.setitimer(signal.ITIMER_REAL, 0)
        signal.signal(signal.SIGALRM, old)
    return val, exc, _hang_flag[0] > 0


# ------------------------------------------------------------------------------ verdict

DNSEX = dns.exception.DNSException
ZONE_ENTRIES = ("zone_text", "read_rrsets")
ZONE_SEMANTIC_FILES = ("dns/transaction.py", "dns/zone.py", "dns/versioned.py", "dns/btreezone.py", "dns/node.py")


def exc_name(e):
    t = type(e)
    return (t.__module__ + "." if t.__module__ not in ("builtins",) else "") + t.__name__


def _frames(e):
    out = []
    tb = e.__traceback__
    while tb is not None:
        fn = tb.tb_frame.f_code.co_filename
        if "/dns/" in fn:
            code = tb.tb_frame.f_code
            out.append(("dns/" + fn.split("/dns/", 1)[1], getattr(code, "co_qualname", code.co_name)))
        tb = tb.tb_next
    return out


def site_of(e):
    """innermost frame inside the dns package: 'dns/zonefile.py:Reader.read'"""
    fr = _frames(e)
    return "?" if not fr else fr[-1][0] + ":" + fr[-1][1]


def via_of(e):
    """deepest frame inside the module of the entry point (the outermost dns frame's file):
    'dns/message.py:_TextReader._header_line'"""
    fr = _frames(e)
    if not fr:
        return "?"
    home = fr[0][0]
    last = [f for f in fr if f[0] == home][-1]
    return last[0] + ":" + last[1]


def allowed(entry, e):
    if isinstance(e, DNSEX):
        return True
    if entry in ZONE_ENTRIES and type(e) in (ValueError, KeyError):
        # "zone-semantic violations may additionally surface as the documented ValueError/KeyError":
        # only when raised by the zone / transaction layer (e.g. "add() has non-origin SOA"), not by
        # a conversion inside the reader or a record parser
        return site_of(e).split(":")[0] in ZONE_SEMANTIC_FILES
    if entry == "edns_wire" and type(e) is ValueError:
        # the direct option API documents (and tests/test_edns.py pins) ValueError for a bad option;
        # inside a message or an OPT rdata the same parsers run under ExceptionWrapper(FormError)
        return True
    return False


def family(entry, e):
    """finer classification used for statistics and for the family check"""
    if isinstance(e, dns.exception.FormError):
        return "FormError"
    if isinstance(e, dns.exception.SyntaxError):
        return "SyntaxError"
    if isinstance(e, DNSEX):
        return "DNSException:" + type(e).__name__
    return "other:" + exc_name(e)


# which non-FormError / non-SyntaxError library exceptions each entry documents
WIRE_EXTRA = (
    dns.message.Truncated,
    dns.message.UnknownTSIGKey,
    dns.tsig.BadSignature,
    dns.tsig.BadTime,
    dns.tsig.PeerError,
    dns.tsig.BadKey,
    dns.tsig.BadAlgorithm,
    dns.exception.AlgorithmKeyMismatch,
)
TEXT_EXTRA = (
    dns.name.NameTooLong,  # documented by dns.name for every constructor (FormError family member)
    dns.name.IDNAException,
    dns.name.NeedAbsoluteNameOrOrigin,
    dns.name.AbsoluteConcatenation,
)


def in_family(entry, e):
    if entry in ("msg_wire", "msg_multi", "name_wire", "rdata_wire"):
        return isinstance(e, dns.exception.FormError) or isinstance(e, WIRE_EXTRA)
    if entry in ("name_text",):
        return isinstance(e, (dns.exception.SyntaxError,) + TEXT_EXTRA)
    if entry in ("rdata_text", "ttl_text", "tok_api"):
        return isinstance(e, dns.exception.SyntaxError) or (entry == "tok_api" and isinstance(e, TEXT_EXTRA))
    if entry in ZONE_ENTRIES:
        # SyntaxError family (with file:line), the name-limit errors dns.name documents for every
        # constructor, and the documented zone-semantic errors
        return isinstance(e, (dns.exception.SyntaxError,) + TEXT_EXTRA + (dns.zone.NoSOA, dns.zone.NoNS, dns.zone.UnknownOrigin,
                                                                           dns.zonefile.CNAMEAndOtherData, dns.zone.BadZone)) \
            or not isinstance(e, DNSEX)
    if entry == "msg_text":
        return isinstance(e, (dns.exception.SyntaxError, dns.message.UnknownHeaderField) + TEXT_EXTRA) or isinstance(
            e, DNSEX
        )
    return True


# ------------------------------------------------------------------------------ renderers


def render_rdata(rd, origin):
    """every returned rdata must render again; returns list of (stage, exception)"""
    bad = []
    for stage, fn in (
        ("to_text", lambda: rd.to_text()),
        ("to_text_origin", lambda: rd.to_text(origin=origin, relativize=True)),
        ("to_wire", lambda: rd.to_wire(origin=origin)),
        ("to_generic", lambda: rd.to_generic(origin=origin).to_text()),
        ("to_digestable", lambda: rd.to_digestable(origin)),
        ("repr", lambda: repr(rd)),
        ("hash", lambda: hash(rd)),
        ("eq", lambda: rd == rd),
    ):
        try:
            fn()
        except Exception as e:  # noqa
            if not isinstance(e, DNSEX):
                bad.append((stage, e))
    return bad


def render_message(m):
    bad = []
    for stage, fn in (
        ("to_text", lambda: m.to_text()),
        ("to_wire", lambda: m.to_wire(max_size=65535)),
        ("repr", lambda: repr(m)),
        ("sections", lambda: [rr.to_text() for s in m.sections for rr in s]),
        ("opt", lambda: (m.opt.to_text() if m.opt is not None else None, [o.to_text() for o in m.options])),
        ("rcode", lambda: (m.rcode(), m.opcode(), m.ednsflags, m.edns, m.payload)),
    ):
        try:
            fn()
        except Exception as e:  # noqa
            if not isinstance(e, DNSEX):
                bad.append((stage, e))
    return bad


def render_zone(z):
    bad = []
    for stage, fn in (
        ("to_text", lambda: z.to_text()),
        ("to_text_abs", lambda: z.to_text(relativize=False)),
        ("iterate", lambda: [rds.to_text() for (_, rds) in z.iterate_rdatasets()]),
        ("to_wire", lambda: [rds.to_wire(n, io.BytesIO(), origin=z.origin) for (n, rds) in z.iterate_rdatasets()] if z.origin is not None else None),
    ):
        try:
            fn()
        except Exception as e:  # noqa
            if not isinstance(e, DNSEX) and type(e) not in (ValueError, KeyError):
                bad.append((stage, e))
    return bad


# ------------------------------------------------------------------------------ entry points

ORIGINS = [None, ["example", ""], ["x", "y", ""], [""]]
_KEYRING = None


def keyring():
    global _KEYRING
    if _KEYRING is None:
        _KEYRING = dns.tsigkeyring.from_text({"keyname.": "NjHwPsMKjdN++dOfE5iAiQ=="})
    return _KEYRING


def mk_origin(i):
    o = ORIGINS[i % len(ORIGINS)]
    return None if o is None else dns.name.Name([x.encode() if isinstance(x, str) else x for x in o])


MSG_OPT_NAMES = ("one_rr_per_rrset", "ignore_trailing", "raise_on_truncation", "continue_on_error", "question_only", "xfr")


def msg_kwargs(bits):
    kw = {n: bool(bits >> i & 1) for i, n in enumerate(MSG_OPT_NAMES)}
    k = (bits >> 6) & 3
    kw["keyring"] = [None, False, True, "ring"][k]
    if kw["keyring"] == "ring":
        kw["keyring"] = keyring()
    if bits >> 8 & 1:
        kw["origin"] = mk_origin(1)
    if bits >> 9 & 1:
        kw["multi"] = True
    return kw


def _p_msg_wire(p):
    wire, bits = p
    kw = msg_kwargs(bits)
    m = dns.message.from_wire(wire, **kw)
    return ("message", m, kw)


def build_multi_envelope(alg, form, have_ctx, mac_mode, err, dt, other_len, now=None):
    """One envelope of a multi-message (zone transfer) exchange signed under the probe key, built
    from a small recipe so that the MAC is computed for the current time.  alg: algorithm name the
    TSIG record carries; form: keyring holds a Key (0) or the bare secret (1); have_ctx: a running
    context from a previous envelope is supplied; mac_mode: 0 the MAC a holder of the key would
    compute, 1 zeros, 2 truncated to 10 octets, 3 empty; err / other_len: error field, other data;
    dt: clock skew in seconds.  -> (wire, keyring, ctx)"""
    import base64
    import struct
    import time as _time

    keyname = dns.name.from_text("keyname.")
    secret = base64.b64decode("NjHwPsMKjdN++dOfE5iAiQ==")
    key = dns.tsig.Key(keyname, secret, "hmac-sha256")
    prev_mac = bytes(range(32))

    def running():
        c = dns.tsig.get_context(key)
        c.update(struct.pack("!H", len(prev_mac)) + prev_mac)
        return c

    algname = dns.name.from_text(alg.decode() if isinstance(alg, (bytes, bytearray)) else alg)
    now = int(_time.time() if now is None else now) + dt
    body = struct.pack("!HHHHHH", 0x1234, 0x8400, 0, 0, 0, 0)
    te = struct.pack("!HIH", (now >> 32) & 0xFFFF, now & 0xFFFFFFFF, 300)
    other = bytes(other_len)
    mac = bytes(32)
    if mac_mode == 0:
        try:
            if have_ctx:
                c = running()
                c.update(struct.pack("!H", 0x1234))
                c.update(body[2:])
                c.update(te)
            else:
                c = dns.tsig.get_context(dns.tsig.Key(keyname, secret, algname))
                c.update(struct.pack("!H", 0x1234))
                c.update(body[2:])
                c.update(keyname.to_digestable())
                c.update(struct.pack("!H", 255))
                c.update(struct.pack("!I", 0))
                c.update(algname.to_digestable() + te)
                c.update(struct.pack("!HH", err, other_len) + other)
            mac = c.sign()
        except Exception:  # noqa - an algorithm the probe itself cannot sign with (unimplemented, GSS)
            mac = bytes(32)
    elif mac_mode == 2:
        mac = bytes(10)
    elif mac_mode == 3:
        mac = b""
    rd = algname.to_wire() + te + struct.pack("!H", len(mac)) + mac + struct.pack("!HHH", 0x1234, err, other_len) + other
    wire = body[:10] + struct.pack("!H", 1) + keyname.to_wire() + struct.pack("!HHIH", 250, 255, 0, len(rd)) + rd
    ring = {keyname: key} if form == 0 else {keyname: secret}
    return wire, ring, (running() if have_ctx else None)


def _p_msg_multi(p):
    alg, form, have_ctx, mac_mode, err, dt, other_len = p
    wire, ring, ctx = build_multi_envelope(alg, form, have_ctx, mac_mode, err, dt, other_len)
    m = dns.message.from_wire(wire, keyring=ring, tsig_ctx=ctx, multi=True)
    return ("message", m, {"multi": True})


def _p_name_wire(p):
    wire, off = p
    n, c = dns.name.from_wire(wire, off)
    return ("name", n)


def _p_rdata_wire(p):
    rdclass, rdtype, wire, cur, rdlen, oi = p
    rd = dns.rdata.from_wire(rdclass, rdtype, wire, cur, rdlen, mk_origin(oi))
    return ("rdata", rd, mk_origin(oi))


def _p_edns_wire(p):
    otype, wire, cur, olen = p
    o = dns.edns.option_from_wire(otype, wire, cur, olen)
    return ("option", o)


def _p_name_text(p):
    text, oi, codec = p[:3]
    codecs = [None, dns.name.IDNA_2003, dns.name.IDNA_2008, dns.name.IDNA_2008_Practical, dns.name.IDNA_2008_UTS_46]
    o = mk_origin(oi) if oi >= 0 else dns.name.root
    n = dns.name.from_text(text, o, codecs[codec % len(codecs)])  # noqa
    return ("name", n)


def _p_rdata_text(p):
    rdclass, rdtype, text, oi, rel = p
    o = mk_origin(oi)
    rd = dns.rdata.from_text(rdclass, rdtype, text, o, bool(rel), None)
    return ("rdata", rd, o)


def _p_zone_text(p):
    text, oi, rel, check = p
    o = mk_origin(oi)
    z = dns.zone.from_text(text, origin=o, relativize=bool(rel), check_origin=bool(check), allow_include=False)
    return ("zone", z)


def _p_read_rrsets(p):
    text, mode, oi, rel = p
    kw = {}
    if mode & 1:
        kw["name"] = "www.example."
    if mode & 2:
        kw["ttl"] = 300
    if mode & 4:
        kw["rdclass"] = None
    if mode & 8:
        kw["default_rdclass"] = "IN"
    if mode & 16:
        kw["rdtype"] = "A"
    if mode & 32:
        kw["default_ttl"] = 60
    o = mk_origin(oi)
    if o is not None:
        kw["origin"] = o
    kw["relativize"] = bool(rel)
    rrs = dns.zonefile.read_rrsets(text, **kw)
    return ("rrsets", rrs)


def _p_msg_text(p):
    text, oi, rel, one = p
    m = dns.message.from_text(text, origin=mk_origin(oi), relativize=bool(rel), one_rr_per_rrset=bool(one))
    return ("message", m, {})


TOK_METHODS = ("get_int", "get_uint8", "get_uint16", "get_uint32", "get_uint48", "get_string", "get_identifier", "get_ttl",
               "concatenate_remaining_identifiers", "get_name", "get_eol", "get_remaining", "get_string_as_bytes")


def _p_tok_api(p):
    """the public Tokenizer helpers called directly on a text (no ExceptionWrapper around them)"""
    text, mi = p
    tok = dns.tokenizer.Tokenizer(text)
    m = TOK_METHODS[mi % len(TOK_METHODS)]
    if m == "get_string_as_bytes" and not hasattr(tok, m):
        m = "get_string"
    v = getattr(tok, m)()
    return ("int", 0 if v is None or not isinstance(v, int) else v)


def _p_ttl_text(p):
    (text,) = p
    return ("int", dns.ttl.from_text(text))


ENTRIES = {
    "msg_wire": _p_msg_wire,
    "msg_multi": _p_msg_multi,
    "name_wire": _p_name_wire,
    "rdata_wire": _p_rdata_wire,
    "edns_wire": _p_edns_wire,
    "name_text": _p_name_text,
    "rdata_text": _p_rdata_text,
    "zone_text": _p_zone_text,
    "read_rrsets": _p_read_rrsets,
    "msg_text": _p_msg_text,
    "ttl_text": _p_ttl_text,
    "tok_api": _p_tok_api,
}


TEXT_POS = {"rdata_text": 2, "zone_text": 0, "read_rrsets": 0, "msg_text": 0, "ttl_text": 0, "tok_api": 0}


def fix_payload(entry, payload):
    """corpus / replay files keep text as UTF-8 octets (surrogatepass); give the entry a str again.
    name_text takes bytes as such unless a 4th element 1 says the text was a str."""
    payload = list(payload)
    if entry in TEXT_POS and isinstance(payload[TEXT_POS[entry]], (bytes, bytearray)):
        payload[TEXT_POS[entry]] = bytes(payload[TEXT_POS[entry]]).decode("utf-8", "surrogatepass")
    if entry == "name_text" and len(payload) > 3 and payload[3] == 1 and isinstance(payload[0], (bytes, bytearray)):
        payload[0] = bytes(payload[0]).decode("utf-8", "surrogatepass")
    return payload


PROBE_SECONDS = float(os.environ.get("VERIF_C04_PROBE_SECONDS", "6"))
_confirmed_hang = [False]


def portable_case(entry, payload):
    """the replayable form of a probe: text as UTF-8 octets (survives lib.normalize / to_obs)"""
    payload = list(payload)
    if entry in TEXT_POS and isinstance(payload[TEXT_POS[entry]], str):
        payload[TEXT_POS[entry]] = payload[TEXT_POS[entry]].encode("utf-8", "surrogatepass")
    if entry == "name_text" and isinstance(payload[0], str):
        payload = [payload[0].encode("utf-8", "surrogatepass")] + payload[1:3] + [1]
    return [entry, payload]


def run_probe(entry, payload, seconds=None):
    """-> (outcome string, failure dict or None)"""
    payload = fix_payload(entry, payload)
    if seconds is None:
        seconds = PROBE_SECONDS
    val, exc, hung = guarded(lambda: ENTRIES[entry](payload), seconds)
    if hung and not _confirmed_hang[0]:
        # confirm with a five times longer period before calling it a hang (loaded machine);
        # once one hang is confirmed in this process the short period is trusted
        val, exc, hung = guarded(lambda: ENTRIES[entry](payload), seconds * 5)
        if hung:
            _confirmed_hang[0] = True
    if hung:
        return "hang", {"kind": "hang", "entry": entry, "what": f"{entry}: no result within {seconds}s, nor within {seconds * 5}s", "probe": [entry, payload]}
    if exc is not None:
        if not allowed(entry, exc):
            return "bad:" + exc_name(exc), {
                "kind": "foreign-exception",
                "entry": entry,
                "exception": exc_name(exc),
                "site": site_of(exc),
                "via": via_of(exc),
                "what": f"{entry} raised {exc_name(exc)}: {str(exc)[:120]} [{site_of(exc)}]",
                "sig": entry + ":" + exc_name(exc) + ":" + site_of(exc),
                "probe": [entry, payload],
            }
        if not in_family(entry, exc):
            return "family:" + exc_name(exc), {
                "kind": "wrong-family",
                "entry": entry,
                "exception": exc_name(exc),
                "what": f"{entry} raised {exc_name(exc)}, a library exception outside the family documented for this entry",
                "sig": entry + ":family:" + exc_name(exc),
                "probe": [entry, payload],
            }
        if entry == "msg_wire" and msg_kwargs(payload[1]).get("continue_on_error"):
            # in continue_on_error mode only ShortHeader (before the header is read) and the
            # requested Truncated may be raised
            ok = isinstance(exc, dns.message.ShortHeader) or (
                isinstance(exc, dns.message.Truncated) and msg_kwargs(payload[1]).get("raise_on_truncation")
            )
            if not ok:
                return "coe-raised:" + exc_name(exc), {
                    "kind": "continue-on-error-raised",
                    "entry": entry,
                    "exception": exc_name(exc),
                    "what": f"continue_on_error=True but {exc_name(exc)} was raised instead of recorded",
                    "sig": "coe:" + exc_name(exc),
                    "probe": [entry, payload],
                }
        if entry in ZONE_ENTRIES and isinstance(exc, dns.exception.SyntaxError):
            # zone files add file and line
            if not re.match(r"^.+:\d+: ", str(exc)):
                return "noline", {
                    "kind": "no-file-line",
                    "entry": entry,
                    "exception": exc_name(exc),
                    "what": f"zone SyntaxError without file:line prefix: {str(exc)[:80]!r}",
                    "sig": "noline",
                    "probe": [entry, payload],
                }
        return "exc:" + family(entry, exc), None
    # a value was returned: render it
    tag = val[0]
    bad = []
    hung2 = False

    def rend():
        if tag == "rdata":
            return render_rdata(val[1], val[2])
        if tag == "message":
            b = render_message(val[1])
            if val[2].get("continue_on_error"):
                errs = getattr(val[1], "errors", None)
                if errs is None:
                    b.append(("errors-missing", AttributeError("errors")))
                else:
                    for er in errs:
                        if not (isinstance(er, dns.message.MessageError) and isinstance(er.offset, int) and isinstance(er.exception, Exception)):
                            b.append(("errors-shape", TypeError(repr(er))))
                        elif not (12 <= er.offset <= len(payload[0])):
                            b.append(("errors-offset", ValueError(str(er.offset))))
                        elif not isinstance(er.exception, DNSEX):
                            b.append(("errors-foreign", er.exception))
            return b
        if tag == "zone":
            return render_zone(val[1])
        if tag == "rrsets":
            b = []
            for rr in val[1]:
                try:
                    rr.to_text()
                    rr.to_wire(io.BytesIO(), origin=dns.name.root)
                    for rd in rr:
                        rd.to_wire(origin=dns.name.root)
                except Exception as e:  # noqa
                    if not isinstance(e, DNSEX):
                        b.append(("to_text", e))
            return b
        if tag == "name":
            n = val[1]
            b = []
            for st, fn in (("to_text", n.to_text), ("to_unicode", n.to_unicode), ("to_wire", lambda: n.to_wire(origin=dns.name.root)),
                           ("to_digestable", lambda: n.to_digestable(dns.name.root))):
                try:
                    fn()
                except Exception as e:  # noqa
                    if not isinstance(e, DNSEX):
                        b.append((st, e))
            return b
        if tag == "option":
            o = val[1]
            b = []
            for st, fn in (("to_text", o.to_text), ("to_wire", o.to_wire), ("repr", lambda: repr(o))):
                try:
                    fn()
                except Exception as e:  # noqa
                    if not isinstance(e, DNSEX):
                        b.append((st, e))
            return b
        return []

    bad, exc2, hung2 = guarded(rend, seconds)
    if hung2:
        return "hang-render", {"kind": "hang", "entry": entry, "what": f"{entry}: rendering the returned value did not finish", "probe": [entry, payload]}
    if exc2 is not None:
        bad = [("render", exc2)]
    if bad:
        st, e = bad[0]
        return "render-bad:" + exc_name(e), {
            "kind": "render-exception",
            "entry": entry,
            "stage": st,
            "exception": exc_name(e),
            "site": site_of(e),
            "via": via_of(e),
            "what": f"value returned by {entry} raised {exc_name(e)} in {st}: {str(e)[:100]} [{site_of(e)}]",
            "sig": entry + ":" + st + ":" + exc_name(e) + ":" + site_of(e),
            "probe": [entry, payload],
        }
    return "ok", None


# ------------------------------------------------------------------------------ seeds


class Seeds:
    pass


_seeds = None


def all_rdtypes():
    out = []
    for t in dns.rdatatype.RdataType:
        out.append(int(t))
    return sorted(set(out))


def _seed_call(fn):
    """the code under test is also used to sort the seeds; it may hang or fail (that is for the
    probes to report, not for seed loading to die of)"""
    val, exc, hung = guarded(fn, 3.0)
    if hung:
        raise RuntimeError("hang while preparing a seed")
    if exc is not None:
        raise exc
    return val


def load_seeds():
    """specimens: zone lines of tests/example*, (class,type,text,wire) of every rdata in them,
    str/bytes literals of tests/*.py, hex blobs that decode to messages"""
    global _seeds
    if _seeds is not None:
        return _seeds
    s = Seeds()
    s.zone_texts = []
    s.zone_lines = []
    s.rdatas = []  # (rdclass, rdtype, text, wire)
    s.texts = []
    s.wires = []
    s.msg_texts = []
    tdir = os.path.join(REPO, "tests")
    for fn in sorted(os.listdir(tdir)):
        path = os.path.join(tdir, fn)
        if fn.startswith("example") and os.path.isfile(path):
            try:
                txt = open(path, encoding="utf-8").read()
            except Exception:  # noqa
                continue
            s.zone_texts.append(txt)
            for ln in txt.split("\n"):
                if ln.strip() and not ln.lstrip().startswith(";"):
                    s.zone_lines.append(ln)
    s.zone_lines = sorted(set(s.zone_lines))
    seen = set()
    for txt in s.zone_texts[:2]:
        try:
            z = _seed_call(lambda: dns.zone.from_text(txt, origin="example.", relativize=False, check_origin=False))
        except Exception:  # noqa
            continue
        for name, rds in z.iterate_rdatasets():
            for rd in rds:
                try:
                    key = (int(rd.rdclass), int(rd.rdtype), rd.to_text())
                    if key in seen:
                        continue
                    seen.add(key)
                    s.rdatas.append((int(rd.rdclass), int(rd.rdtype), rd.to_text(), rd.to_wire()))
                except Exception:  # noqa
                    pass
    # types without a line in tests/example*: written here, text form where the type has one
    extra_text = [
        (1, "KEY", "256 3 5 AQPSKmynfzW4kyBv015MUG2DeIQ3Cbl+BBZH4b/0PY1kxkmvHjcZc8nokfzj31GajIQKY+5CptLr3buXA10hWqTkF7H6RfoRqXQeogmMHfpftf6zMv1LyBUgia7za6ZEzOJBOztyvhjL742iU/TpPSEDhm2SNKLijfUppn1UaNvv4w=="),
        (1, "SIG", "NSEC 1 3 3600 20200101000000 20030101000000 2143 foo. MxFcby9k/yvedMfQgKzhH5er0Mu/vILz45IkskceFGgiWCn/GxHhai6VAuHAoNUz4YoU1tVfSCSqQYn6//11U6Nld80jEeC8aTrO+KKmCaY="),
        (1, "NINFO", '"foo" "bar baz"'),
        (1, "TKEY", "gss-tsig. 1594203795 1594206664 3 0 KEYKEYKEYKEYKEYKEYKEYKEYKEYKEYKEYKEY OTHEROTHEROTHEROTHEROTHEROTHEROT"),
        (3, "A", "vaxa.example. 0123"),
        (255, "TSIG", "hmac-sha256. 1594203795 300 4 bWFjbQ== 1234 NOERROR 0"),
        (255, "TSIG", "hmac-sha256. 1594203795 300 4 bWFjbQ== 1234 BADTIME 6 AAAAAAAB"),
        (1, "RESINFO", "qnamemin exterr=15,16,17 infourl=https://resolver.example.com/guide"),
        (1, "WALLET", "EXAMPLE 01234567890abcdef"),
        (1, "DSYNC", "CDS NOTIFY 5359 cds-scanner.example.net."),
        (1, "HHIT", "AAAAAAAAAAAAAAAAAAAA"),
        (1, "BRID", "AAAAAAAAAAAAAAAAAAAA"),
        (1, "SVCB", '1 foo.example.com. alpn="h2,h3-19" mandatory=ipv4hint,alpn ipv4hint=192.0.2.1 port=8443 ipv6hint=2001:db8::1 ech=AAAA key65000=abc no-default-alpn dohpath=/dns-query{?dns} ohttp'),
        (1, "HTTPS", "0 svc.example.net."),
        (1, "AMTRELAY", "10 0 2 2001:db8::15"),
        (1, "AMTRELAY", "10 1 3 amtrelays.example.com."),
        (1, "IPSECKEY", "10 1 2 192.0.2.38 AQNRU3mG7TVTO2BkR47usntb102uFJtugbo6BSGvgqt4AQ=="),
        (1, "IPSECKEY", "10 3 2 mygateway.example.com. AQNRU3mG7TVTO2BkR47usntb102uFJtugbo6BSGvgqt4AQ=="),
        (1, "APL", "1:192.168.32.0/21 !1:192.168.38.0/28 2:FF00:0:0:0:0:0:0:0/8"),
        (1, "LOC", "60 9 0.000 N 24 39 0.000 E 10.00m 20.00m 2000.00m 20.00m"),
        (1, "GPOS", "-22.6882 116.8652 250.0"),
        (1, "NSEC3", "1 1 12 aabbccdd 2t7b4g4vsa5smi47k61mv5bv1a22bojr MX DNSKEY NS SOA NSEC3PARAM RRSIG"),
        (1, "CSYNC", "0 1 A MX RRSIG NSEC TYPE1234"),
        (1, "ZONEMD", "2018031900 1 1 c68090d90a7aed716bc459f9340e3d7c1370d4d24b7e2fc3a1ddc0b9a87153b9a9713b3c9ae5cc27777f98b8e730044c"),
        (1, "CERT", "PKIX 65535 RSASHA1 MxFcby9k/yvedMfQgKzhH5er0Mu/vILz45IkskceFGgi"),
        (1, "HIP", "2 200100107B1A74DF365639CC39F1D578 AwEAAbdxyhNuSutc5EMzxTs9LBPCIkOFH8cIvM4p9+LrV4e19WzK00+CI6zBCQTdtWsuxKbWIy87UOoJTwkUs7lBu+Upr1gsNrut79ryra+bSRGQb1slImA8YVJyuIDsj7kwzG7jnERNqnWxZ48AWkskmdHaVDP4BcelrTI3rMXdXF5D rvs1.example.com. rvs2.example.com."),
        (1, "NAPTR", '100 10 "S" "SIP+D2U" "!^.*$!sip:info@example.com!" _sip._udp.example.com.'),
        (1, "URI", '10 1 "ftp://ftp1.example.com/public"'),
        (1, "CAA", '0 issue "ca.example.net; account=230123"'),
        (1, "WKS", "10.0.0.1 6 0 1 2 21 23"),
        (1, "NSAP", "0x47.0005.80.005a00.0000.0001.e133.ffffff000161.00"),
        (1, "X25", '"123456789"'),
        (1, "ISDN", '"isdn-address" "subaddress"'),
        (1, "L32", "10 10.1.2.0"), (1, "L64", "10 2001:0DB8:1140:1000"), (1, "NID", "10 0014:4fff:ff20:ee64"), (1, "LP", "10 l64-subnet1.example.com."),
        (1, "EUI48", "00-00-5e-00-53-2a"), (1, "EUI64", "00-00-5e-ef-10-00-00-2a"),
        (1, "TLSA", "3 1 1 a9cdf989b504fe5dca90c0d2167b6550570734f7c763e09fdf88904e06157065"),
        (1, "SSHFP", "1 1 aa549bfe898489c02d1715d97d79c57ba2fa76ab"),
        (1, "OPENPGPKEY", "mQINBFBHAAAAAAAAAAAAAAAAAAAAAAAAAAAAAAAA"),
        (1, "DHCID", "AAIBY2/AuCccgoJbsaxcQc9TUapptP69lOjxfNuVAA2kjEA="),
        (1, "RP", "mbox-dname. txt-dname."), (1, "PX", "65535 foo. bar."), (1, "KX", "10 kdc"), (1, "RT", "0 intermediate-host"),
        (1, "AFSDB", "0 hostname"), (1, "SRV", "0 0 0 ."), (1, "NSAP-PTR", "foo."), (1, "HINFO", '"Generic PC clone" "NetBSD-1.4"'),
    ]
    for rc, tn, txt in extra_text:
        try:
            rd = _seed_call(lambda: dns.rdata.from_text(rc, tn, txt, origin=dns.name.from_text("example."), relativize=False))
            key = (int(rd.rdclass), int(rd.rdtype), rd.to_text())
            if key not in seen:
                seen.add(key)
                s.rdatas.append((int(rd.rdclass), int(rd.rdtype), rd.to_text(), rd.to_wire()))
        except Exception:  # noqa
            pass
    # wire-only types: OPT with every option code that has a class, TSIG
    import struct as _st

    def _opt(*opts):
        return b"".join(_st.pack("!HH", c, len(v)) + v for c, v in opts)

    optw = [
        _opt(),
        _opt((3, b"nsid")),
        _opt((8, b"\x00\x01\x18\x00\x01\x02\x03")),
        _opt((8, b"\x00\x02\x38\x00\x20\x01\x0d\xb8\x00\x00\x00")),
        _opt((10, b"12345678")),
        _opt((10, b"12345678" + b"s" * 16)),
        _opt((15, b"\x00\x12extra text")),
        _opt((15, b"\x00\x03")),
        _opt((18, b"\x00\x00\x00\x01\x00\x02")),
        _opt((65001, b"xyz"), (12, b"\0" * 9)),
        _opt((3, b""), (8, b"\x00\x01\x00\x00"), (11, b"\x00\x64"), (14, b"\x01\x02"), (13, b"")),
        _opt((22, b"en"), (23, b"mailto:abuse@example.com"), (24, b"Example Org"), (25, b"blocklist-7")),
    ]
    for w in optw:
        s.rdatas.append((1232, 41, "", w))
    tsigw = b"\x0bhmac-sha256\x00" + _st.pack("!HIH", 0, 1700000000, 300) + _st.pack("!H", 4) + b"macm" + _st.pack("!HHH", 7, 0, 0)
    s.rdatas.append((255, 250, "", tsigw))
    s.rdatas.append((255, 250, "", tsigw[:-2] + _st.pack("!H", 6) + b"\0\0\0\0\0\1"))
    # literals of the test-suite
    for fn in sorted(os.listdir(tdir)):
        if not fn.endswith(".py"):
            continue
        try:
            tree = ast.parse(open(os.path.join(tdir, fn), encoding="utf-8").read())
        except Exception:  # noqa
            continue
        for node in ast.walk(tree):
            if isinstance(node, ast.Constant):
                v = node.value
                if isinstance(v, str) and 0 < len(v) <= 3000:
                    s.texts.append(v)
                    hx = re.sub(r"\s+", "", v)
                    if len(hx) >= 24 and len(hx) % 2 == 0 and re.fullmatch(r"[0-9a-fA-F]+", hx):
                        s.wires.append(bytes.fromhex(hx))
                elif isinstance(v, bytes) and 0 < len(v) <= 3000:
                    s.wires.append(v)
    s.texts = sorted(set(s.texts))
    s.wires = sorted(set(s.wires))
    s.msg_texts = [t for t in s.texts if re.search(r"^;(QUESTION|ANSWER|ZONE)", t, re.M) or t.startswith("id ")]
    # messages built from the specimens
    s.msg_wires = []
    for w in s.wires:
        if len(w) >= 12:
            try:
                _seed_call(lambda: dns.message.from_wire(w, keyring=False, ignore_trailing=True))
                s.msg_wires.append(w)
            except Exception:  # noqa
                pass
    for t in s.msg_texts:
        try:
            s.msg_wires.append(_seed_call(lambda: dns.message.from_text(t).to_wire()))
        except Exception:  # noqa
            pass
    # messages built through the library's own API: TSIG-signed, UPDATE, every EDNS option class,
    # an AXFR-style answer (all under the watchdog: the code under test may be broken)
    def _api_messages():
        import dns.update as U
        out = []
        q = dns.message.make_query("www.example.", "A", use_edns=0, payload=1232, options=[
            dns.edns.ECSOption("1.2.3.0", 24), dns.edns.GenericOption(65001, b"abc"), dns.edns.EDEOption(3, "stale"),
            dns.edns.NSIDOption(b"nsid"), dns.edns.CookieOption(b"12345678", b""), dns.edns.ReportChannelOption(dns.name.from_text("agent.example."))])
        q.id = 0x1111
        out.append(q.to_wire())
        q2 = dns.message.make_query("www.example.", "MX")
        q2.id = 0x2222
        q2.use_tsig(keyring(), "keyname.")
        out.append(q2.to_wire())
        r = dns.message.make_response(q2)
        r.answer.append(dns.rrset.from_text("www.example.", 300, "IN", "MX", "10 mail.example.", "20 mail2.example."))
        r.use_tsig(keyring(), "keyname.")
        out.append(r.to_wire())
        u = U.UpdateMessage("example.", id=0x3333)
        u.present("a")
        u.absent("b", "A")
        u.add("c", 300, "A", "10.0.0.1")
        u.delete("d")
        u.delete("e", "A")
        u.delete("f", "A", "10.0.0.2")
        u.replace("g", 300, "TXT", '"x y"')
        out.append(u.to_wire())
        x = dns.message.make_response(dns.message.make_query("example.", "AXFR", id=0x4444))
        soa = dns.rrset.from_text("example.", 300, "IN", "SOA", "ns1.example. hostmaster.example. 1 2 3 4 5")
        x.answer += [soa, dns.rrset.from_text("a.example.", 300, "IN", "A", "10.0.0.1"),
                     dns.rrset.from_text("example.", 300, "IN", "NS", "ns1.example."), soa]
        out.append(x.to_wire())
        big = dns.message.make_response(dns.message.make_query("big.example.", "ANY", id=0x5555))
        for rc, rt, tx, _w in s.rdatas[:60]:
            if tx and rc == 1:
                try:
                    big.answer.append(dns.rrset.from_text("big.example.", 60, "IN", dns.rdatatype.to_text(rt), tx))
                except Exception:  # noqa
                    pass
        out.append(big.to_wire(max_size=65535))
        return out

    try:
        s.msg_wires += _seed_call(_api_messages)
    except Exception:  # noqa
        pass
    _seeds = s
    return s


def build_message(rng, s, nrec=None, opcode=0, tc=False, opt=False, tsig=False, origin_names=True):
    """a valid wire message assembled from specimens: (wire, [(rdata_start, rdlen)])"""
    import struct

    def nm(labels):
        return b"".join(bytes([len(l)]) + l for l in labels) + b"\0"

    q = nm([b"www", b"example"])
    recs = []
    n = rng.randint(0, 6) if nrec is None else nrec
    counts = [0, 0, 0]
    body = b""
    for _ in range(n):
        rdclass, rdtype, _, rw = rng.choice(s.rdatas)
        owner = rng.choice([b"\xc0\x0c", nm([b"a", b"example"]), nm([bytes([rng.randrange(97, 123)])]), b"\0"])
        sec = rng.choice([0, 0, 1, 2])
        counts[sec] += 1
        recs.append((sec, owner + struct.pack("!HHIH", rdtype, rdclass, rng.choice([0, 300, 0x7FFFFFFF, 0x80000000]), len(rw)) + rw, len(owner) + 10, len(rw)))
    recs.sort(key=lambda r: r[0])
    if opt:
        ow = b"\0" + struct.pack("!HHIH", 41, rng.choice([512, 1232, 65535]), rng.choice([0, 0x8000, 0x01000000]), 0)
        od = b""
        for _ in range(rng.randint(0, 3)):
            ot = rng.choice([3, 8, 9, 10, 11, 12, 15, 18, 65001])
            ov = bytes(rng.randrange(256) for _ in range(rng.choice([0, 1, 2, 4, 8, 11])))
            od += struct.pack("!HH", ot, len(ov)) + ov
        ow = ow[:-2] + struct.pack("!H", len(od)) + od
        counts[2] += 1
        recs.append((2, ow, 11, len(od)))
    if tsig:
        alg = nm([b"hmac-sha256"])
        rd = alg + struct.pack("!HIH", 0, rng.choice([0, 1700000000]), 300) + struct.pack("!H", 32) + bytes(32) + struct.pack("!HHH", 1, 0, 0)
        ow = nm([b"keyname"]) + struct.pack("!HHIH", 250, 255, 0, len(rd)) + rd
        counts[2] += 1
        recs.append((2, ow, len(nm([b"keyname"])) + 10, len(rd)))
    flags = (opcode << 11) | (0x0200 if tc else 0) | rng.choice([0, 0x8000, 0x8180, 0x0100])
    hdr = struct.pack("!HHHHHH", rng.randrange(65536), flags, 1, counts[0], counts[1], counts[2])
    qd = q + struct.pack("!HH", 6 if opcode == 5 else rng.choice([1, 28, 255]), 1)
    wire = hdr + qd
    spans = []
    for sec, rw, hl, rl in recs:
        spans.append((len(wire) + hl, rl))
        wire += rw
    return wire, spans


# ------------------------------------------------------------------------------ mutators

INTERESTING_BYTES = [0, 1, 2, 3, 4, 7, 8, 16, 31, 32, 63, 64, 65, 127, 128, 191, 192, 193, 0xC0, 0xFE, 0xFF]
INTERESTING_NUMS = ["0", "1", "-1", "255", "256", "65535", "65536", "2147483647", "2147483648", "4294967295", "4294967296",
                    "281474976710655", "281474976710656", "99999999999999999999", "00", "1e3", "0x10", "+1", "1.5", ""]
INTERESTING_CHARS = ['"', "\\", "(", ")", ";", "\n", "\t", " ", "$", "@", ".", "*", "-", "+", "/", ":", "=", ",", "#", "\\#", "\\000",
                     "\\255", "\\256", "\\25", "\\", "\x00", "\x7f", "\x80", "\xe9", "٣", "１", "​", "\U0001f600",
                     "0", "9", "a", "Z", "\r", "''", '""', "{", "}", "\\\"", "\\(", "~", "%", "|"]


def mutate_bytes(rng, b, spans=None):
    b = bytearray(b)
    n = rng.choice([1, 1, 1, 2, 3, 5])
    for _ in range(n):
        r = rng.random()
        if not b:
            b = bytearray(rng.randrange(256) for _ in range(rng.randint(0, 20)))
            continue
        i = rng.randrange(len(b))
        if spans and rng.random() < 0.6:
            st, ln = rng.choice(spans)
            # aim at the rdata or at its 2-octet length field
            i = min(len(b) - 1, max(0, rng.choice([st - 2, st - 1, st, st + rng.randrange(max(1, ln)), st + ln - 1])))
        if r < 0.3:
            b[i] = rng.choice(INTERESTING_BYTES)
        elif r < 0.45:
            b[i] = rng.randrange(256)
        elif r < 0.55:
            b[i] ^= 1 << rng.randrange(8)
        elif r < 0.65:
            del b[i:i + rng.choice([1, 1, 2, 4, 8])]
        elif r < 0.75:
            b[i:i] = bytes(rng.choice(INTERESTING_BYTES) for _ in range(rng.choice([1, 1, 2, 4])))
        elif r < 0.85:
            b = b[: rng.randrange(len(b) + 1)]
        elif r < 0.9:
            b[i] = (b[i] + rng.choice([1, -1])) % 256
        elif r < 0.95:
            j = rng.randrange(len(b))
            k = rng.choice([1, 2, 4, 8])
            b[i:i + k] = b[j:j + k]
        else:
            # compression pointer
            b[i:i + 2] = bytes([0xC0 | rng.choice([0, 0, 0x3F, 1]), rng.choice([0, 12, i & 0xFF, (i + 1) & 0xFF, 0xFF])])
    return bytes(b[:4096])


_tok_re = re.compile(r'("(?:[^"\\]|\\.)*"|\S+|\s+)')


def mutate_text(rng, t):
    n = rng.choice([1, 1, 1, 2, 3])
    for _ in range(n):
        r = rng.random()
        toks = _tok_re.findall(t)
        if not toks:
            t = rng.choice(INTERESTING_CHARS + INTERESTING_NUMS)
            continue
        i = rng.randrange(len(toks))
        if r < 0.2:
            toks[i] = rng.choice(INTERESTING_NUMS)
        elif r < 0.3:
            del toks[i]
        elif r < 0.4:
            toks.insert(i, toks[rng.randrange(len(toks))])
        elif r < 0.65:
            w = toks[i]
            j = rng.randrange(len(w) + 1)
            toks[i] = w[:j] + rng.choice(INTERESTING_CHARS) + w[j + rng.choice([0, 0, 1]):]
        elif r < 0.72:
            w = toks[i]
            j = rng.randrange(len(w) + 1)
            toks[i] = w[:j]
        elif r < 0.8:
            toks[i] = toks[i] * rng.choice([2, 3, 20, 70])
        elif r < 0.86:
            toks[i] = '"' + toks[i].strip('"') + '"' if rng.random() < 0.5 else toks[i].strip('"')
        elif r < 0.92:
            j = rng.randrange(len(toks))
            toks[i], toks[j] = toks[j], toks[i]
        elif r < 0.96:
            toks = toks[: i + 1]
        else:
            w = toks[i]
            if w.strip():
                j = rng.randrange(len(w))
                toks[i] = w[:j] + chr(rng.choice([rng.randrange(32, 127), rng.randrange(0, 256), rng.randrange(0, 0x3000)])) + w[j + 1:]
        t = "".join(toks)
    return t[:4096]


GENERATE_LINES = [
    "$GENERATE 1-3 host$ A 10.0.0.$",
    "$GENERATE 1-10/3 ${0,3,d} 300 IN A 10.0.${0,2,x}.1",
    "$GENERATE 0-2 $.0.0.10.in-addr.arpa. PTR host-${-1,4,n}.example.",
    "$GENERATE 5-6 a${+2} CNAME b${2,3}.example.",
    "$GENERATE 1-2 @ TXT \"x$\"",
]
DIRECTIVE_LINES = ["$TTL 1h", "$TTL 300", "$ORIGIN sub.example.", "$ORIGIN example.", "$UNICODE 2008", "$UNICODE 2003", "$TTL", "$ORIGIN",
                   "$INCLUDE /nonexistent", "$FOO bar", "$generate 1-2 a A 1.2.3.4"]
_big_range = re.compile(r"(\d{4,})")


def tame_generate(text):
    """keep $GENERATE ranges small: a range of 10^9 steps terminates, but not within the watchdog.
    Only the range token is tamed - numbers inside ${offset,width,base} modifiers are left as they are
    (an unbounded width was the hang repaired by /repo f43464b)"""
    out = []
    for ln in text.split("\n"):
        if re.match(r"\s*\"?\$?\s*gen", ln, re.I) or "$G" in ln.upper():
            parts = re.split(r"(\s+)", ln)
            seen = 0
            for i, tk in enumerate(parts):
                if tk.strip():
                    seen += 1
                    if seen == 2:
                        parts[i] = _big_range.sub(lambda m: m.group(1)[:3], tk)
                        break
            ln = "".join(parts)
        out.append(ln)
    return "\n".join(out)


def gen_probe(rng, s, entry=None):
    """one probe drawn from seeds + mutation; mostly-valid with a malformed tail"""
    if entry is None:
        entry = rng.choice(["msg_wire"] * 4 + ["rdata_wire"] * 4 + ["rdata_text"] * 4 + ["zone_text"] * 3 + ["name_wire", "name_text",
                           "read_rrsets", "msg_text", "ttl_text", "edns_wire"])
    mut = rng.random() < 0.85
    if entry == "msg_wire":
        if rng.random() < 0.7 or not s.msg_wires:
            w, spans = build_message(rng, s, opcode=rng.choice([0, 0, 0, 5, 4, 2]), tc=rng.random() < 0.2, opt=rng.random() < 0.3,
                                     tsig=rng.random() < 0.15)
        else:
            w, spans = rng.choice(s.msg_wires), None
        if mut:
            w = mutate_bytes(rng, w, spans)
        return entry, [w, rng.randrange(1024)]
    if entry == "name_wire" and rng.random() < 0.3:
        # a soup of pointers and short labels: chains, cycles, forward and self references
        cells = []
        n = rng.randint(2, 8)
        for _ in range(n):
            r = rng.random()
            if r < 0.6:
                cells.append(bytes([0xC0, 2 * rng.randrange(n)]))
            elif r < 0.8:
                cells.append(bytes([1, rng.randrange(256)]))
            else:
                cells.append(b"\0" + bytes([rng.randrange(256)]))
        w = b"".join(cells)
        return entry, [w, 2 * rng.randrange(n)]
    if entry == "name_wire":
        w = rng.choice(s.msg_wires) if s.msg_wires and rng.random() < 0.5 else rng.choice(s.rdatas)[3]
        if mut:
            w = mutate_bytes(rng, w)
        return entry, [w, rng.choice([0, 12, rng.randrange(len(w) + 2)])]
    if entry == "rdata_wire":
        rdclass, rdtype, _, w = rng.choice(s.rdatas)
        r = rng.random()
        if r < 0.15:
            rdtype = rng.choice(all_rdtypes())
        elif r < 0.2:
            rdclass = rng.choice([1, 3, 4, 254, 255, 0, 2])
        pre = bytes(rng.randrange(256) for _ in range(rng.choice([0, 0, 3])))
        if mut:
            w = mutate_bytes(rng, w)
        rdlen = len(w) if rng.random() < 0.9 else rng.choice([0, len(w) + 1, max(0, len(w) - 1), 65535])
        suf = bytes(rng.randrange(256) for _ in range(rng.choice([0, 0, 2])))
        return entry, [rdclass, rdtype, pre + w + suf, len(pre), rdlen, rng.randrange(4)]
    if entry == "edns_wire":
        ot = rng.choice([3, 5, 6, 7, 8, 8, 8, 9, 10, 11, 12, 13, 14, 15, 15, 16, 18, 22, 23, 24, 25, 65001, 0])
        w = bytes(rng.choice(INTERESTING_BYTES) if rng.random() < 0.5 else rng.randrange(256) for _ in range(rng.choice([0, 1, 2, 3, 4, 5, 7, 8, 12, 20, 24])))
        if ot == 8 and rng.random() < 0.7:
            fam = rng.choice([1, 2, 0, 3])
            src = rng.choice([0, 8, 24, 32, 33, 56, 128, 129, 255])
            nb = (src + 7) // 8
            w = bytes([0, fam, src, rng.choice([0, src, 255])]) + bytes(rng.randrange(256) for _ in range(rng.choice([nb, nb, nb + 1, max(0, nb - 1)])))
        return entry, [ot, w, 0, len(w) if rng.random() < 0.9 else rng.randrange(len(w) + 2)]
    if entry == "name_text":
        r = rng.random()
        if r < 0.4:
            t = rng.choice(s.rdatas)[2].split(" ")[-1]
        elif r < 0.7:
            t = rng.choice(["www.example.", "a.b.c", "@", ".", "", "xn--caf-dma.example", "caf\xe9.example", "\\065.", "a\\.b", "*." + "a" * 63,
                            ".".join(["a" * 63] * 4), "ß.de", "a..b", "\\", "\\1", "\\12", "\\256"])
        else:
            t = rng.choice(s.texts)[:300]
        if mut:
            t = mutate_text(rng, t)
        if rng.random() < 0.3:
            try:
                t = t.encode("latin-1")
            except Exception:  # noqa
                pass
        return entry, [t, rng.choice([-1, 0, 1, 2, 3]), rng.randrange(5)]
    if entry == "rdata_text":
        rdclass, rdtype, t, w = rng.choice(s.rdatas)
        r = rng.random()
        if r < 0.1:
            rdtype = rng.choice(all_rdtypes())
        elif r < 0.2:
            t = "\\# %d %s" % (len(w), w.hex())
        if mut:
            t = mutate_text(rng, t)
        return entry, [rdclass, rdtype, t, rng.randrange(4), rng.randrange(2)]
    if entry == "read_rrsets" and rng.random() < 0.75:
        # text shaped after the forcing options: forced fields are absent from the lines
        mode = rng.randrange(64)
        lines = []
        for _ in range(rng.choice([1, 1, 2, 4])):
            rc, rt, t, _ = rng.choice(s.rdatas)
            if mode & 16:
                rt, t = 1, rng.choice(["10.0.0.1", "1.2.3.4", "255.255.255.255", "0.0.0.0"])
            if not t:
                continue
            f = []
            if not mode & 1:
                f.append(rng.choice(["www.example.", "a", "@", "*.b", "x.y.example."]))
            if not mode & 2 and (not mode & 32 or rng.random() < 0.5):
                f.append(rng.choice(["300", "1h", "0", "4294967295"]))
            if mode & 4:
                f.append(dns.rdataclass.to_text(rc) if rc in (1, 3) else "IN")
            if not mode & 16:
                f.append(dns.rdatatype.to_text(rt))
            f.append(t)
            ln = " ".join(f)
            if mut and rng.random() < 0.5:
                ln = mutate_text(rng, ln)
            lines.append(ln)
        t = tame_generate("\n".join(lines) + rng.choice(["\n", ""]))
        return entry, [t, mode, rng.randrange(4), rng.randrange(2)]
    if entry in ("zone_text", "read_rrsets"):
        r = rng.random()
        base = ["$ORIGIN example.", "$TTL 300", "@ IN SOA ns1 hostmaster 1 2 3 4 5", "@ NS ns1", "ns1 A 10.0.0.1"] if rng.random() < 0.7 else []
        lines = list(base)
        for _ in range(rng.choice([1, 1, 2, 3, 6])):
            q = rng.random()
            if q < 0.6:
                ln = rng.choice(s.zone_lines)
            elif q < 0.7:
                ln = rng.choice(GENERATE_LINES)
            elif q < 0.8:
                ln = rng.choice(DIRECTIVE_LINES)
            else:
                rc, rt, t, _ = rng.choice(s.rdatas)
                ln = rng.choice(["x", "", "@", "*", "a.b"]) + " " + rng.choice(["", "300 ", "1h ", "IN ", "300 IN ", "IN 300 ", "CH "]) + dns.rdatatype.to_text(rt) + " " + t
            if mut and rng.random() < 0.6:
                ln = mutate_text(rng, ln)
            lines.append(ln)
        if rng.random() < 0.1:
            rng.shuffle(lines)
        t = tame_generate("\n".join(lines) + rng.choice(["\n", "", "\n\n"]))
        if entry == "zone_text":
            return entry, [t, rng.choice([0, 1, 1, 1, 2, 3]), rng.randrange(2), rng.randrange(2)]
        return entry, [t, rng.randrange(64), rng.randrange(4), rng.randrange(2)]
    if entry == "msg_text":
        if s.msg_texts and rng.random() < 0.8:
            t = rng.choice(s.msg_texts)
        else:
            t = "id 1234\nopcode QUERY\nrcode NOERROR\nflags QR RD\n;QUESTION\nwww.example. IN A\n;ANSWER\nwww.example. 300 IN A 1.2.3.4\n"
        if rng.random() < 0.5:
            rc, rt, rt_text, _ = rng.choice(s.rdatas)
            t = t + "\nx.example. 300 " + dns.rdataclass.to_text(rc) + " " + dns.rdatatype.to_text(rt) + " " + rt_text + "\n"
        if mut:
            t = mutate_text(rng, t)
        return entry, [t, rng.randrange(4), rng.randrange(2), rng.randrange(2)]
    if entry == "ttl_text":
        t = rng.choice(["0", "1", "300", "1w2d3h4m5s", "1W", "4294967295", "4294967296", "1h30m", "", "s", "1x", "12", "-1", "1h1", " 1", "1 ",
                        "٣", "１h", "\xb2", "1" * 30, "9" * 25 + "w"])
        if mut:
            t = mutate_text(rng, t)
        return entry, [t[:200]]
    raise KeyError(entry)


# ------------------------------------------------------------------------------ systematic sweeps
# Random mutation can miss a type; these sweeps visit every specimen of every type deterministically.

SWEEP_TOKENS = ["", "0", "-1", "255", "256", "65535", "65536", "4294967295", "4294967296", "281474976710656", '""', '"', "\\", "\\#",
                "\\# 1", "(", ")", ";", ".", "@", "a", "\\000", "\\256", "\xe9", "\u0663", "*" , "x" * 64, "x." * 130, "::", "1.2.3", "1.2.3.4.5",
                "=", "key0=", "AAAA", "A", "0x", "+1", "1e9", "00000000000000000000001"]
SWEEP_BYTES = [0x00, 0x01, 0x3F, 0x40, 0x7F, 0x80, 0xC0, 0xFF]


def sweep_probes(s, what):
    """deterministic probes: what in {"text", "stretch", "wire", "msg"}"""
    import struct

    if what == "text":
        for rdclass, rdtype, text, _ in s.rdatas:
            if not text:
                continue
            toks = _tok_re.findall(text)
            idx = [i for i, t in enumerate(toks) if t.strip()]
            for i in idx:
                for rep in SWEEP_TOKENS:
                    t2 = "".join(toks[:i] + [rep] + toks[i + 1:])
                    yield "rdata_text", [rdclass, rdtype, t2, 1, 1]
                # drop the token, duplicate it, cut the text inside it
                yield "rdata_text", [rdclass, rdtype, "".join(toks[:i] + toks[i + 1:]), 0, 0]
                yield "rdata_text", [rdclass, rdtype, "".join(toks[:i + 1] + [" "] + toks[i:]), 0, 0]
                yield "rdata_text", [rdclass, rdtype, "".join(toks[:i]) + toks[i][: max(1, len(toks[i]) // 2)], 2, 1]
            # the same record as a zone line and as a message line
            tn = dns.rdatatype.to_text(rdtype)
            yield "zone_text", ["$ORIGIN example.\n@ 300 IN SOA ns1 h 1 2 3 4 5\n@ NS ns1\nx 300 " + tn + " " + text + "\n", 1, 1, 1]
            yield "zone_text", ["x " + tn + " " + text, 1, 0, 0]
            yield "read_rrsets", ["x 300 " + tn + " " + text, 0, 1, 0]
            yield "msg_text", ["id 1\nopcode QUERY\nflags QR\n;QUESTION\nx.example. IN " + tn + "\n;ANSWER\nx.example. 300 IN " + tn + " " + text + "\n", 1, 1, 0]
        # message text: every token of three base messages replaced by each boundary token
        mtok = SWEEP_TOKENS + ["TYPE65535", "TYPE65536", "TYPE-1", "CLASS65535", "CLASS65536", "TYPE", "CLASS", "ANY", "NONE", "QR", "BOGUS",
                               "UPDATE", "NOERROR", "BADVERS", "16", "4095", "4096", "id", "flags", "edns", "eflags", "payload", "opcode", "rcode",
                               ";QUESTION", ";ANSWER", ";ZONE", ";PREREQ", ";UPDATE", ";ADDITIONAL", ";HEADER", ";"]
        mbase = [
            "id 1234\nopcode QUERY\nrcode NOERROR\nflags QR AA RD\nedns 0\neflags DO\npayload 1232\n;QUESTION\nwww.example. IN A\n;ANSWER\nwww.example. 300 IN A 1.2.3.4\n 300 IN MX 10 mail.example.\n;AUTHORITY\nexample. 300 IN NS ns.example.\n;ADDITIONAL\nns.example. 300 IN AAAA ::1\n",
            "id 1\nopcode UPDATE\nrcode NOERROR\nflags QR\n;ZONE\nexample. IN SOA\n;PREREQ\nfoo.example. ANY A\nbar.example. NONE A\n;UPDATE\nfoo.example. 300 IN A 1.2.3.4\nfoo.example. ANY A\nfoo.example. 0 NONE A 1.2.3.4\n",
            "id 7\nflags\n;QUESTION\n@ CH TXT\n;ANSWER\n@ 0 CH TXT \"a b\" \"c\"\n",
        ]
        for mt in mbase:
            toks = re.findall(r"\S+|\s+", mt)
            for i, tk in enumerate(toks):
                if not tk.strip():
                    continue
                for rep in mtok:
                    yield "msg_text", ["".join(toks[:i] + [rep] + toks[i + 1:]), 1, 1, 0]
                yield "msg_text", ["".join(toks[:i] + toks[i + 1:]), 0, 0, 1]
        # $GENERATE: every range string over a small alphabet, every token of the directive lines
        import itertools

        zhead = "$ORIGIN example.\n$TTL 300\n@ IN SOA ns h 1 2 3 4 5\n@ NS ns\n"
        for ln in range(0, 6):
            for tup in itertools.product(["0", "1", "3", "-", "/", "\u0660"], repeat=ln):
                r = "".join(tup)
                yield "zone_text", [zhead + "$GENERATE " + r + " host$ A 10.0.1.$\n", 1, 1, 0]
        small = ["", "0", "-1", "1-", "/", "1/2", "1-2/0", "$", "${", "${0,0,z}", "${-1,2,x}", "${99999999999,1,d}", "\\", '"', "(", "1h", "IN", "CH", "A", "BOGUS",
                 "TYPE65536", "CLASS65536", "4294967296", "\u0663", "x" * 64]
        for line in GENERATE_LINES + DIRECTIVE_LINES:
            toks = _tok_re.findall(line)
            for i, tk in enumerate(toks):
                if not tk.strip():
                    continue
                for rep in small:
                    t2 = "".join(toks[:i] + [rep] + toks[i + 1:])
                    yield "zone_text", [zhead + t2 + "\n", 1, 1, 0]
                    yield "zone_text", [t2 + "\nx A 10.0.0.1\n", 0, 0, 0]
                    yield "read_rrsets", [t2, 4, 1, 0]
        # $GENERATE modifiers ${offset,width,base}: boundary offsets and widths on both sides (labels of
        # 63 / 64, strings of 255 / 256, the width bound 131070 / 131071, 10^8, more digits than int() takes)
        mods = ["0", "1", "62", "63", "64", "254", "255", "256", "65535", "65536", "131070", "131071", "100000000", "4294967296", "1" * 4300, "1" * 4301]
        heavy = ("65535", "65536", "131070")      # accepted widths that cost a few tenths of a second each
        for wv in mods:
            for base in ("d", "x", "n", "N", "o", "X", "z"):
                if wv in heavy and base != "d":
                    continue
                yield "zone_text", [zhead + "$GENERATE 1-2 x${0," + wv + "," + base + "} A 10.0.0.1\n", 1, 1, 0]
                if wv not in heavy:
                    yield "zone_text", [zhead + "$GENERATE 1-2 x$ TXT ${0," + wv + "," + base + "}\n", 1, 1, 0]
            for ov in ((wv, "-" + wv, "+" + wv + ",2", wv + ",0,x") if wv in heavy else ("0," + wv, wv, "-" + wv, "+" + wv + ",2", wv + ",0,x")):
                yield "zone_text", [zhead + "$GENERATE 1-2 x${" + ov + "} A 10.0.0.1\n", 1, 1, 0]
                yield "read_rrsets", ["$GENERATE 1-2 x$ 300 IN TXT ${" + ov + "}", 4, 1, 0]
        # every line of tests/example*: each of its first six tokens replaced
        for line in s.zone_lines:
            toks = _tok_re.findall(line)
            idx = [i for i, t in enumerate(toks) if t.strip()][:6]
            for i in idx:
                for rep in ("", "0", "4294967296", '"', "\\", "(", "$", "CH", "\u0663", "x" * 64):
                    t2 = "".join(toks[:i] + [rep] + toks[i + 1:])
                    yield "zone_text", ["$ORIGIN example.\n$TTL 300\n" + t2 + "\n", 1, 1, 0]
            yield "read_rrsets", [line, 4, 1, 1]
    elif what == "stretch":
        # boundary family for variable-length fields: every hex / base64 / base32hex / quoted / plain
        # / key=value token of every type's specimen is stretched so that the field it encodes is
        # exactly 254, 255, 256, 257 octets long (one-octet length prefixes and 255 bounds) and, for
        # the encoded forms, 65535 / 65536 octets (two-octet prefixes); each text goes through
        # dns.rdata.from_text, a one-record zone (zone.from_text, read_rrsets) and a message text.
        # Accepted values are rendered (to_wire / to_text / to_digestable / hash / to_generic).
        import base64 as _b64

        b32hex = bytes.maketrans(b"ABCDEFGHIJKLMNOPQRSTUVWXYZ234567", b"0123456789ABCDEFGHIJKLMNOPQRSTUV")

        def enc(kind, n):
            if kind == "hex":
                return "ab" * n
            if kind == "b64":
                return _b64.b64encode(b"k" * n).decode()
            if kind == "b32":
                return _b64.b32encode(b"h" * n).translate(b32hex).decode().rstrip("=").lower()
            if kind == "quoted":
                return '"' + "q" * n + '"'
            if kind == "num":
                return "1." + "0" * (n - 2)
            if kind == "qnum":
                return '"1.' + "0" * (n - 2) + '"'
            return "p" * n

        def classify(tok):
            if len(tok) >= 2 and tok[0] == '"' and tok[-1] == '"':
                return ["quoted", "qnum"] if re.fullmatch(r'"-?[0-9.]+"', tok) else ["quoted"]
            kinds = []
            if re.fullmatch(r"-?[0-9]*\.[0-9]+", tok):
                kinds.append("num")
            if re.fullmatch(r"[0-9a-fA-F]+", tok) and len(tok) % 2 == 0:
                kinds.append("hex")
            if re.fullmatch(r"[0-9a-vA-V]+", tok) and len(tok) >= 8:
                kinds.append("b32")
            if re.fullmatch(r"[A-Za-z0-9+/]+=*", tok) and len(tok) >= 4:
                kinds.append("b64")
            if re.fullmatch(r"[A-Za-z][A-Za-z0-9-]*", tok) or tok == "-":
                kinds.append("plain")
            return kinds

        small_l = (254, 255, 256, 257)
        big_l = (65535, 65536)
        zhead = "$ORIGIN example.\n$TTL 300\n@ IN SOA ns h 1 2 3 4 5\n@ NS ns\n"
        for rdclass, rdtype, text, _ in s.rdatas:
            if not text:
                continue
            tn = dns.rdatatype.to_text(rdtype)
            cn = dns.rdataclass.to_text(rdclass) if rdclass in (1, 3) else "IN"
            toks = _tok_re.findall(text)
            idx = [i for i, t in enumerate(toks) if t.strip()]
            variants = []
            for i in idx:
                tok = toks[i]
                pre = ""
                body = tok
                if "=" in tok and not tok.startswith('"'):
                    pre, body = tok.split("=", 1)
                    pre += "="
                kinds = classify(body) or (["plain", "quoted", "b64", "hex"] if pre else [])
                for kind in kinds:
                    lens = small_l + (big_l if kind in ("hex", "b64") else ())
                    for n in lens:
                        rep = pre + enc(kind, n)
                        variants.append("".join(toks[:i] + [rep] + toks[i + 1:]))
                        # the field may be written in several chunks: also as the only chunk
                        j = i + 1
                        while j < len(toks) and (not toks[j].strip() or (kind in classify(toks[j]) and not pre)):
                            j += 1
                        if j > i + 1:
                            variants.append("".join(toks[:i] + [rep]))
            for t2 in variants:
                yield "rdata_text", [rdclass, rdtype, t2, 1, 0]
                if len(t2) < 3000 or rdtype in (50, 51, 55, 43, 48, 46, 249, 37):
                    yield "zone_text", [zhead + "x 300 " + cn + " " + tn + " " + t2 + "\n", 1, 1, 0]
                    yield "read_rrsets", ["x.example. 300 " + tn + " " + t2, 0, 1, 0]
                    yield "msg_text", ["id 1\nopcode QUERY\nflags QR\n;QUESTION\nx.example. IN " + tn + "\n;ANSWER\nx.example. 300 " + cn + " " + tn + " " + t2 + "\n", 1, 1, 0]
    elif what == "wire":
        # chains of compression pointers: every arrangement of 2 and 3 pointer / label cells
        cells = [b"\xc0\x00", b"\xc0\x02", b"\xc0\x04", b"\xc0\x06", b"\x01a", b"\x00\x00", b"\xc1\x00"]
        import itertools as _it

        for k in (2, 3, 4):
            for combo in _it.product(cells, repeat=k):
                w = b"".join(combo)
                for off in range(0, len(w), 2):
                    yield "name_wire", [w, off]
        for combo in _it.product(cells[:5], repeat=3):
            # the same cells as the name of an NS record in a message whose header is made of them
            w = b"".join(combo)
            hdr = (w + b"\0" * 12)[:4] + struct.pack("!HHHH", 1, 0, 0, 0)
            for tgt in (0, 2, 12):
                yield "msg_wire", [hdr + bytes([0xC0, tgt]) + b"\x00\x02\x00\x01", 0]
                yield "msg_wire", [hdr + bytes([0xC0, tgt]) + b"\x00\x02\x00\x01", 8]
        for rdclass, rdtype, _, w in s.rdatas:
            for n in range(len(w) + 1):
                yield "rdata_wire", [rdclass, rdtype, w[:n], 0, n, 0]
            for i in range(min(len(w), 48)):
                for b in SWEEP_BYTES + [(w[i] + 1) % 256, (w[i] - 1) % 256]:
                    w2 = w[:i] + bytes([b]) + w[i + 1:]
                    yield "rdata_wire", [rdclass, rdtype, w2, 0, len(w2), 1]
            yield "rdata_wire", [rdclass, rdtype, w + b"\0", 0, len(w) + 1, 0]
            yield "rdata_wire", [rdclass, rdtype, w, 0, len(w) + 1, 0]
            yield "rdata_wire", [rdclass, rdtype, b"\x03www\x00" + w, 5, len(w), 2]
    elif what == "msg":
        # signed envelopes of a multi-message exchange (from_wire(multi=True, tsig_ctx=...)): every
        # algorithm name x keyring form x first/later envelope x MAC quality x error field x skew
        for alg in (b"hmac-sha256.", b"hmac-sha512.", b"hmac-sha256-128.", b"hmac-md5.sig-alg.reg.int.", b"gss-tsig.", b"foo.", b"."):
            for form in (0, 1):
                for have_ctx in (0, 1):
                    for mac_mode in (0, 1, 2, 3):
                        for err in (0, 16, 22, 4095):
                            for dt, other_len in ((0, 0), (0, 6), (400, 0), (-400, 6)):
                                yield "msg_multi", [alg, form, have_ctx, mac_mode, err, dt, other_len]
        q = b"\x03www\x07example\x00" + struct.pack("!HH", 255, 1)
        for rdclass, rdtype, _, w in s.rdatas:
            if rdtype == 41:
                owner, cls_ = b"\0", 1232
                counts = (0, 0, 1)
            elif rdtype == 250:
                owner, cls_ = b"\x07keyname\0", 255
                counts = (0, 0, 1)
            else:
                owner, cls_ = b"\xc0\x0c", rdclass
                counts = (1, 0, 0)
            rr = owner + struct.pack("!HHIH", rdtype, cls_, 0 if rdtype == 250 else 300, len(w)) + w
            good = b"\xc0\x0c" + struct.pack("!HHIH", 1, 1, 300, 4) + b"\x0a\0\0\x01"
            if counts[0]:
                body, cn = rr + good, (2, 0, 0)
            else:
                body, cn = good + rr, (1, 0, 1)
            full = struct.pack("!HHHHHH", 7, 0x8180, 1, *cn) + q + body
            step = 1 if len(full) < 120 else 3
            for n in range(12, len(full) + 1, step):
                for bits in (0, 8, 8 | 1 | 64, 4 | 0x0200):
                    yield "msg_wire", [full[:n], bits]
            # rdlen off by one in both directions, in strict and continue_on_error mode
            pos = full.find(rr) + len(owner) + 8
            for d in (-1, 1, 255):
                ln = (len(w) + d) % 65536
                f2 = full[:pos] + struct.pack("!H", ln) + full[pos + 2:]
                for bits in (0, 8, 2 | 8):
                    yield "msg_wire", [f2, bits]


def small_scope_probes(tier):
    """small scopes swept completely: every octet value at every position of a short message under
    four option combinations; every 2-octet name prefix; every string over an 8-letter alphabet up
    to length 4 (quick) / 5 (thorough) as a name, a TTL, a TXT rdata, an A rdata and a zone line"""
    import itertools
    import struct

    thorough = tier == "thorough"
    base = bytes.fromhex("123401000001000100000001") + b"\x01a\x00" + struct.pack("!HH", 1, 1) + b"\xc0\x0c" + \
        struct.pack("!HHIH", 15, 1, 300, 4) + b"\x00\x0a\xc0\x0c" + b"\0" + struct.pack("!HHIH", 41, 1232, 0, 0)
    vals = range(256) if thorough else list(range(0, 256, 5)) + [0xC0, 0xFF, 0x3F, 0x40]
    for pos in range(2, len(base)):
        for v in vals:
            w = base[:pos] + bytes([v]) + base[pos + 1:]
            for bits in (0, 8, 8 | 2 | 1, 4 | 8):
                yield "msg_wire", [w, bits]
    for a in range(256):
        for b in (range(256) if thorough else (0, 1, 12, 63, 64, 0xC0, 0xFF)):
            yield "name_wire", [bytes([a, b, 0]), 0]
    alpha = ["1", "w", "\\", ".", '"', "(", " ", "9"]
    for ln in range(0, (6 if thorough else 5)):
        for tup in itertools.product(alpha, repeat=ln):
            t = "".join(tup)
            yield "name_text", [t, 1, 0]
            yield "ttl_text", [t]
            yield "rdata_text", [1, 16, t, 1, 1]
            yield "rdata_text", [1, 1, t, 0, 0]
            yield "zone_text", ["$ORIGIN example.\n" + t + " 300 IN A 10.0.0.1\n" + t + "\n", 1, 1, 0]


def sweep_batch(args):
    """worker: (what, shard, nshards) -> (counts, fails)"""
    what, shard, nshards = args
    s = load_seeds()
    counts = {}
    fails = []
    hangs = 0
    gen = small_scope_probes(what.split(":")[1]) if what.startswith("small:") else (escape_probes() if what == "esc" else sweep_probes(s, what))
    what = what.split(":")[0]
    for i, (e, p) in enumerate(gen):
        if i % nshards != shard:
            continue
        out, f = run_probe(e, p)
        k = "sweep-" + what + ":" + out.split(":")[0]
        counts[k] = counts.get(k, 0) + 1
        if f is not None:
            if len(fails) < 200:
                fails.append(f)
            if f["kind"] == "hang":
                hangs += 1
                if hangs >= 3:
                    break
    return counts, fails


# ------------------------------------------------------------------------------ escape family
# backslash escapes followed by 1-3 characters drawn from: an ASCII digit, decimal digits of other
# scripts (Arabic-Indic, Devanagari, fullwidth: str.isdecimal(), int() accepts them), characters that
# are str.isdigit() but not isdecimal() (superscripts, circled digit, Kharosthi: int() raises
# ValueError), a letter
ESC_ATOMS = ["1", "9", "\u0663", "\uff13", "\u00b2", "\u2460", "\U00010a40", "a"]


def escape_tokens():
    import itertools

    out = []
    for n in (1, 2, 3):
        for combo in itertools.product(ESC_ATOMS, repeat=n):
            # at most one ASCII-digit kind and one letter per position class keeps the family small:
            # "9" only in first position, "a" only last
            if "9" in combo[1:] or "a" in combo[:-1]:
                continue
            out.append("\\" + "".join(combo))
    return out


def escape_probes():
    """every escape of the family in every token position of message text (header lines, question
    and RR lines), zone text (owner, ttl, class, type, rdata fields, directives), record text, and
    through the public Tokenizer helpers"""
    escs = escape_tokens()
    msg_templates = ["id {}", "edns {}", "payload {}", "opcode {}", "rcode {}", "flags {}", "eflags {}", "flags QR {}", "{} 1",
                     "id 1\n;QUESTION\n{} IN A", "id 1\n;QUESTION\nexample. {} A", "id 1\n;QUESTION\nexample. IN {}",
                     "id 1\n;ANSWER\n{} 300 IN A 10.0.0.1", "id 1\n;ANSWER\nexample. {} IN A 10.0.0.1", "id 1\n;ANSWER\nexample. 300 {} A 10.0.0.1",
                     "id 1\n;ANSWER\nexample. 300 IN {} 10.0.0.1", "id 1\n;ANSWER\nexample. 300 IN A {}", "id 1\n;ANSWER\nexample. 300 IN MX {} mx.",
                     "id 1\n;ANSWER\nexample. 300 IN MX 10 {}", "id 1\n;ANSWER\nexample. 300 IN TXT {}", "id 1\n;ANSWER\nexample. 300 IN TXT \"{}\"",
                     "id 1\n;{}\n"]
    zone_pre = "$ORIGIN example.\n@ 300 IN SOA ns1 h 1 2 3 4 5\n@ NS ns1\n"
    zone_templates = ["{} 300 IN A 10.0.0.1", "x {} IN A 10.0.0.1", "x 300 {} A 10.0.0.1", "x 300 IN {} 10.0.0.1", "x 300 IN A {}", "x 300 IN MX {} mx",
                      "x 300 IN MX 10 {}", "x 300 IN TXT {}", "x 300 IN TXT \"{}\"", "x 300 IN SOA a b {} 2 3 4 5", "$TTL {}", "$ORIGIN {}", "${}",
                      "$GENERATE {} x$ A 10.0.0.$", "$GENERATE 1-2 {} A 10.0.0.$", "$GENERATE 1-2 x$ {} 10.0.0.$", "$GENERATE 1-2 x$ A {}", "$GENERATE 1-2 x${{{},2,d}} A 10.0.0.$"]
    rd_templates = [(1, 1, "{}"), (1, 15, "{} mx."), (1, 15, "10 {}"), (1, 16, "{}"), (1, 16, "\"{}\""), (1, 6, "a b {} 2 3 4 5"), (1, 13, "{} os"),
                    (1, 46, "A 8 {} 300 20240101000000 20230101000000 1 example. AAAA"), (1, 47, "x. {}"), (1, 43, "{} 8 2 AABB")]
    for e in escs:
        for form in ((e, "1" + e, "a" + e + "b") if len(e) == 2 else (e, "1" + e)):
            for t in msg_templates:
                yield "msg_text", [t.format(form) + "\n", 0, 0, 0]
            for t in zone_templates:
                try:
                    line = t.format(form)
                except (IndexError, KeyError, ValueError):
                    continue
                yield "zone_text", [zone_pre + line + "\n", 1, 1, 1]
                yield "read_rrsets", [line + "\n", 44, 1, 1]
            for c, ty, t in rd_templates:
                yield "rdata_text", [c, ty, t.format(form), 1, 1]
            for mi in range(len(TOK_METHODS)):
                yield "tok_api", [form + " x", mi]
            yield "name_text", [form + ".example.", 0, 0]
            yield "ttl_text", [form]


# ------------------------------------------------------------------------------ hypothesis check
def check_api_discipline(limit=None):
    """The reader theorems assume that a per-type wire parser, whatever it returns or raises,
    leaves the Parser inside the message, with its end as it found it and furthest not lower
    (`api_disciplined`).  Run every specimen / truncation / octet substitution of the wire sweep
    through cls.from_wire_parser on a real Parser and look at the object afterwards."""
    s = load_seeds()
    bad = []
    n = 0
    for e, p in sweep_probes(s, "wire"):
        if e != "rdata_wire":
            continue
        if limit is not None and n >= limit:
            break
        rdclass, rdtype, wire, cur, rdlen, oi = p
        n += 1

        def one():
            parser = dns.wire.Parser(wire, cur)
            cls = dns.rdata.get_rdata_class(dns.rdataclass.RdataClass.make(rdclass), dns.rdatatype.RdataType.make(rdtype))
            with parser.restrict_to(rdlen):
                before = (parser.current, parser.end, parser.furthest)
                try:
                    cls.from_wire_parser(rdclass, rdtype, parser, mk_origin(oi))
                except Exception:  # noqa
                    pass
                after = (parser.current, parser.end, parser.furthest)
                # wfl lo preserved for every lo: neither current nor furthest ends below min(current, furthest)
                low = min(before[0], before[2])
                ok = (low <= after[0] <= len(wire) and after[1] == before[1] and before[2] <= after[2] <= len(wire))
                parser.current = parser.end  # leave restrict_to quietly
                return ok, before, after

        try:
            val, exc, hung = guarded(one, PROBE_SECONDS)
        except Exception:  # noqa
            continue
        if hung or exc is not None or val is None:
            continue
        ok, before, after = val
        if not ok:
            bad.append({"rdclass": rdclass, "rdtype": rdtype, "wire": wire.hex(), "before": before, "after": after})
            if len(bad) >= 5:
                break
    return n, bad


# ------------------------------------------------------------------------------ batch worker


def fuzz_batch(args):
    """worker: (seed, n, entries or None) -> (outcome counts, failures)"""
    seed, n, entry = args
    rng = random.Random(seed)
    s = load_seeds()
    counts = {}
    fails = []
    hangs = 0
    for _ in range(n):
        e, p = gen_probe(rng, s, entry)
        out, f = run_probe(e, p, seconds=PROBE_SECONDS)
        k = e + ":" + out.split(":")[0]
        counts[k] = counts.get(k, 0) + 1
        if f is not None:
            if len(fails) < 200:
                fails.append(f)
            if f["kind"] == "hang":
                hangs += 1
                if hangs >= 3:
                    # every further hang costs a full watchdog period; three replayable ones are enough
                    break
    return counts, fails


if __name__ == "__main__":
    import collections
    import multiprocessing as mp
    import time

    n = int(sys.argv[1]) if len(sys.argv) > 1 else 2000
    procs = int(sys.argv[2]) if len(sys.argv) > 2 else 6
    entry = sys.argv[3] if len(sys.argv) > 3 else None
    t0 = time.time()
    load_seeds()
    with mp.Pool(procs) as pool:
        res = pool.map(fuzz_batch, [(1000 + i, n // procs, entry) for i in range(procs)])
    tot = collections.Counter()
    sigs = {}
    for c, fs in res:
        tot.update(c)
        for f in fs:
            sigs.setdefault(f.get("sig", f["kind"]), []).append(f)
    for k, v in sorted(tot.items()):
        print(k, v)
    print("---- failures by signature", time.time() - t0)
    for k, v in sorted(sigs.items()):
        v.sort(key=lambda f: len(repr(f["probe"])))
        print(len(v), k, "|", v[0]["what"])
        print("     ", repr(v[0]["probe"])[:400])
