"""C13 - inbound AXFR/IXFR converges to the server's zone or leaves the zone untouched.

Cases are abstract (names / rdata are small integers, see coq/Model/XfrM.v); the implementation
side turns them into real wire messages, pushes them through dns.query._inbound_xfr (fake TCP
socket / AF_UNIX datagram socket pair) on dns.zone.Zone, dns.versioned.Zone or dns.btreezone.Zone
and dumps the zone afterwards."""
import asyncio
import base64
import itertools
import socket
import struct
import threading
import time

import dns.asyncquery
import dns.btreezone
import dns.exception
import dns.flags
import dns.message
import dns.name
import dns.query
import dns.rdata
import dns.rdataclass
import dns.rdataset
import dns.rdatatype
import dns.rrset
import dns.serial
import dns.transaction
import dns.tsig
import dns.tsigkeyring
import dns.versioned
import dns.xfr
import dns.zone

from lib import Err

ID = "C13"
COQ_IMPORTS = "From DV Require Import Model.XfrM."
COQ_RUN = "XfrM.run"
CASE_TIMEOUT = 20.0
TRUSTED = [
    "model: coq/Model/XfrM.v (Inbound.__init__/process_message/__exit__, Transaction._add/_delete(exact) on a finite map, "
    "Serial.__lt__, the xfr answer-section grouping of dns.message._WireReader._get_section, the _inbound_xfr loop, "
    "make_query/extract_serial_from_query serial decision)",
    "abstraction done by harness/pC13.py: names and RDATA values are integers (0 = origin, >0 in zone, <0 out of zone; "
    "SOA rdata = serial + 2^32*variant); wire encoding/decoding of the messages is dnspython's own (C02/C03 territory)",
]
ASSUMPTIONS = [
    "record types used: A NS SOA MX TXT AAAA RRSIG DNAME NSEC CNAME (CNAME-and-other-data exclusion of dns/node.py modelled)",
    "no TSIG on the transfer (C14)",
]

SOA, AXFR, IXFR = 6, 252, 251
A, NS, MX, TXT, AAAA, RRSIG = 1, 2, 15, 16, 28, 46
DNAME, NSEC, CNAME = 39, 47, 5
SINGLETONS = (6, 30, 39, 47, 5)      # dns.rdatatype._singletons: adding a record replaces the RRset
IN, CH = 1, 3
T32 = 1 << 32
ORIGIN = dns.name.from_text("example.")
IN_NAMES = {1: "a", 2: "b", 3: "ns1", 4: "ns2", 5: "a.b", 6: "*", 7: "mail", 8: "x.y.z",
            9: "z", 10: "y.z", 11: "c.a.b", 12: "d.c.a.b"}      # 9..12: only used by deleg_cases
OUT_NAMES = {-1: "other.", -2: "ns.example.net.", -3: "notexample."}
SOAKEY = (0, SOA, 0)

_names = {0: ORIGIN}
for _i, _t in IN_NAMES.items():
    _names[_i] = dns.name.from_text(_t, ORIGIN)
for _i, _t in OUT_NAMES.items():
    _names[_i] = dns.name.from_text(_t)
_name_id = {v: k for k, v in _names.items()}
# the same names spelled in upper case (DNS names compare case-insensitively)
_names_upper = {k: dns.name.Name([l.upper() for l in v.labels]) for k, v in _names.items()}


def zname(n, rel):
    nm = _names[n]
    return nm.relativize(ORIGIN) if rel else nm


def rdata_text(t, cv, d):
    if t == SOA:
        v, s = d >> 32, d & 0xFFFFFFFF
        return f"ns{v}.example. hostmaster.example. {s} 7200 900 1209600 {300 + v}"
    if t == A:
        return f"10.0.{(d >> 8) & 255}.{d & 255}"
    if t == AAAA:
        return f"2001:db8::{d & 0xFFFF:x}"
    if t == NS:
        return f"ns{d}.example." if d < 16 else f"ns{d}.example.net."
    if t == MX:
        return f"{10 + (d & 0x7FFF)} mail.example."
    if t == DNAME or t == CNAME:
        return f"target{d}.example."
    if t == NSEC:
        return f"next{d}.example. A NS RRSIG"
    if t == TXT:
        return f'"t{d}"'
    if t == RRSIG:
        sig = base64.b64encode(bytes([d & 255]) * 4).decode()
        return f"{dns.rdatatype.to_text(cv)} 8 2 3600 20300101000000 20200101000000 {1000 + (d & 0xFFF)} example. {sig}"
    raise ValueError(f"no rdata text for type {t}")


_rd_cache = {}


def mk_rdata(c, t, cv, d, rel):
    k = (c, t, cv, d, rel)
    r = _rd_cache.get(k)
    if r is None:
        r = dns.rdata.from_text(c, t, rdata_text(t, cv, d), origin=ORIGIN, relativize=bool(rel))
        _rd_cache[k] = r
    return r


_rev = {}


def rd_id(t, cv, rd, rel):
    if t == SOA:
        return ((rd.minimum - 300) << 32) | rd.serial
    if t == TXT:
        return int(rd.strings[0][1:])
    c = int(rd.rdclass)
    k = (c, t, cv, rel)
    tab = _rev.get(k)
    if tab is None:
        tab = {mk_rdata(c, t, cv, d, rel): d for d in range(40)}
        _rev[k] = tab
    return tab[rd]


ZONE_CLASSES = [dns.zone.Zone, dns.versioned.Zone, dns.btreezone.Zone]


def build_zone(zk, rel, z0, maxver=-1):
    z = ZONE_CLASSES[zk](ORIGIN, relativize=bool(rel))
    if zk != 0 and maxver != -1:
        # retained history: 0 = unlimited, k = keep up to k versions (set before anything is committed)
        z.set_max_versions(None if maxver == 0 else maxver)
    if z0:
        with z.writer() as txn:
            for n, t, cv, ttl, ds in z0:
                rds = dns.rdataset.Rdataset(IN, t, cv)
                for d in ds:
                    rds.add(mk_rdata(IN, t, cv, d, rel), ttl)
                txn.add(zname(n, rel), rds)
    return z


def dump_zone(z, rel):
    out = []
    with z.reader() as txn:
        for name, rds in txn.iterate_rdatasets():
            n = _name_id[name.derelativize(ORIGIN)]
            out.append([n, int(rds.rdtype), int(rds.covers), int(rds.ttl),
                        sorted(rd_id(int(rds.rdtype), int(rds.covers), rd, rel) for rd in rds)])
    out.sort(key=lambda e: (e[0], e[1], e[2]))
    return out


def build_wire(w):
    return build_msg(w).to_wire(max_size=65535)


def build_msg(w):
    rc, qs, recs = w[:3]
    m = dns.message.Message(id=4711)
    m.flags = dns.flags.QR | dns.flags.AA
    m.set_rcode(rc)
    for qn, qt in qs:
        m.question.append(dns.rrset.RRset(_names[qn], IN, qt))
    for n, c, t, cv, ttl, d in recs:
        # every third record (by content) carries its owner name in upper case on the wire
        owner = _names_upper[n] if (ttl + d + t) % 3 == 0 else _names[n]
        rs = dns.rrset.RRset(owner, c, t, cv)
        rs.add(mk_rdata(c, t, cv, d, False))
        rs.ttl = ttl
        m.answer.append(rs)
    return m


_wire_cache = {}


def wire_of(w):
    k = repr(w)
    r = _wire_cache.get(k)
    if r is None:
        if len(_wire_cache) > 20000:
            _wire_cache.clear()
        r = build_wire(w)
        _wire_cache[k] = r
    return r


TSIG_KEYRING = dns.tsigkeyring.from_text({"xfr-key.": "NjHwPsMKjdN++dOfE5iAiQ=="})

FORM_TEXT = {
    "missing TSIG": 23,
    "wrong question name": 10,
    "wrong question rdatatype": 11,
    "No answer or RRset not for zone origin": 12,
    "first RRset is not an SOA": 13,
    "answers after final SOA": 14,
    "empty IXFR sequence": 15,
    "unexpected end of IXFR sequence": 16,
    "IXFR base serial mismatch": 17,
    "unexpected origin SOA in AXFR": 18,
    "unexpected end of UDP IXFR": 19,
}


def exc_code(e):
    if isinstance(e, dns.xfr.TransferError):
        return Err(1, "TransferError")
    if isinstance(e, dns.xfr.SerialWentBackwards):
        return Err(20, "SerialWentBackwards")
    if isinstance(e, dns.xfr.UseTCP):
        return Err(21, "UseTCP")
    if isinstance(e, dns.transaction.DeleteNotExact):
        return Err(22, "DeleteNotExact")
    if type(e) is dns.exception.FormError:
        return Err(FORM_TEXT.get(str(e), 800), "FormError:" + str(e))
    if type(e) is ValueError:
        s = str(e)
        if "wrong RdataClass" in s:
            return Err(30, s)
        if "non-origin SOA" in s:
            return Err(31, s)
        if "rdata list must not be empty" in s:
            return Err(33, s)
        return Err(32, s)
    if isinstance(e, EOFError):
        return Err(40, "EOFError")
    if isinstance(e, (IndexError, StopIteration)):
        # rdataset[0] on an RRset without rdata: dns.set.Set.__getitem__ does next(islice(...))
        return Err(50, type(e).__name__)
    if isinstance(e, AssertionError):
        return Err(51, "AssertionError")
    if isinstance(e, KeyError):
        return Err(52, "KeyError")
    if isinstance(e, dns.exception.DNSException):
        return Err(801, type(e).__name__ + ":" + str(e))
    return Err(900, type(e).__name__ + ":" + str(e))


class FakeTCP:
    """just enough of a stream socket for dns.query._net_read/_net_write"""

    def __init__(self, wires):
        self.buf = b"".join(struct.pack("!H", len(w)) + w for w in wires)
        self.pos = 0
        self.sent = b""

    def recv(self, n):
        n = min(n, 4096)
        d = self.buf[self.pos:self.pos + n]
        self.pos += len(d)
        return d

    def send(self, data):
        self.sent += data
        return len(data)


class FakeAsyncTCP:
    """a dns.asyncbackend.StreamSocket look-alike for dns.asyncquery._inbound_xfr"""
    type = socket.SOCK_STREAM

    def __init__(self, wires):
        self.buf = b"".join(struct.pack("!H", len(w)) + w for w in wires)
        self.pos = 0

    async def sendall(self, what, timeout):
        return None

    async def recv(self, size, timeout):
        d = self.buf[self.pos:self.pos + size]
        self.pos += len(d)
        return d


class FakeAsyncUDP:
    type = socket.SOCK_DGRAM

    def __init__(self, wires):
        self.wires = list(wires)

    async def sendto(self, what, destination, timeout):
        return len(what)

    async def recvfrom(self, size, timeout):
        if not self.wires:
            raise dns.exception.Timeout
        return self.wires.pop(0), None


def run_driver_async(z, q, ser, udp, wires):
    box = [0]

    async def wrap():
        # count the yielded messages even when the generator raises
        sock = FakeAsyncUDP(wires) if udp else FakeAsyncTCP(wires)
        agen = dns.asyncquery._inbound_xfr(z, sock, q, ser, None, time.time() + 5)
        try:
            async for _ in agen:
                box[0] += 1
        finally:
            await agen.aclose()
    try:
        asyncio.run(wrap())
    except Exception as e:  # noqa
        return exc_code(e), box[0]
    return Err(0), box[0]


def dump_checked(z, rel):
    """the zone content, read by iteration and cross-checked against point lookups"""
    out = dump_zone(z, rel)
    with z.reader() as txn:
        names = set()
        for n, t, cv, ttl, ds in out:
            rds = txn.get(zname(n, rel), t, cv)
            if rds is None or int(rds.ttl) != ttl or sorted(rd_id(t, cv, rd, rel) for rd in rds) != ds:
                raise AssertionError(f"iteration and get() disagree at {n},{t},{cv}")
            names.add(n)
        if sorted(names) != sorted(_name_id[x.derelativize(ORIGIN)] for x in txn.iterate_names()):
            raise AssertionError("iterate_names and iterate_rdatasets disagree")
    return out


def run_driver(case):
    _, zk, rel, rdt, ser, udp, z0, ws = case[:8]
    use_async = zk >= 3
    z = build_zone(zk % 3, rel, z0)
    wires = [wire_of(w) for w in ws]
    q = dns.message.make_query(ORIGIN, rdt)
    n = 0
    code = 0
    a = b = None
    if udp and not use_async:
        try:
            a, b = socket.socketpair(socket.AF_UNIX, socket.SOCK_DGRAM)
        except OSError:
            use_async = True      # no local datagram sockets here: use the asyncio driver with its fake socket
    if use_async:
        c, n = run_driver_async(z, q, ser, udp, wires)
        if c.code >= 800:
            return c
        return [c.code, n, dump_checked(z, rel)]
    try:
        if udp:
            a.setblocking(False)
            for w in wires:
                b.send(w)
            sock = a
            expiration = time.time() + 0.4
        else:
            sock = FakeTCP(wires)
            expiration = None
        try:
            for _ in dns.query._inbound_xfr(z, sock, q, ser, None, expiration):
                n += 1
        except Exception as e:  # noqa
            code = exc_code(e).code
            text = exc_code(e).text
            if code >= 800:
                return Err(code, text)
    finally:
        if a is not None:
            a.close()
            b.close()
    return [code, n, dump_checked(z, rel)]


def rrset_of_case(rs, rel):
    n, c, t, cv, ttl, ds = rs
    r = dns.rrset.RRset(zname(n, rel), c, t, cv)
    for d in ds:
        r.add(mk_rdata(c, t, cv, d, rel))
    r.ttl = ttl
    return r


def run_feed(case):
    """process_message called by hand inside `with dns.xfr.Inbound(...)`.  How the block is left (case[9], default 0):
    0 = an exception from process_message propagates through the with statement; the messages may also run out
        before the transfer is done, then the block is left normally;
    1 = the exception is caught INSIDE the block, which is then left normally;
    2 = the caller stops reading with an explicit break (one more message would have been available)."""
    _, zk, rel, rdt, ser, udp, z0, ms = case[:8]
    shape = case[9] if len(case) > 9 else 0
    z = build_zone(zk % 3, rel, z0)
    res = []

    def parsed(rc, qs, rrsets):
        m = dns.message.QueryMessage(id=1)
        m.flags = dns.flags.QR
        m.set_rcode(rc)
        for qn, qt in qs:
            m.question.append(dns.rrset.RRset(zname(qn, rel), IN, qt))
        for rs in rrsets:
            m.answer.append(rrset_of_case(rs, rel))
        return m

    try:
        with dns.xfr.Inbound(z, rdt, ser, bool(udp)) as inbound:
            if shape == 1:
                try:
                    for rc, qs, rrsets in ms:
                        done = inbound.process_message(parsed(rc, qs, rrsets))
                        res.append(1000 if done else 0)
                except Exception as e:  # noqa
                    c = exc_code(e)
                    if c.code >= 800:
                        return c
                    res.append(c.code)
            elif shape == 2:
                todo = list(ms) + [None]
                i = 0
                while True:
                    if todo[i] is None:
                        break
                    done = inbound.process_message(parsed(*todo[i]))
                    res.append(1000 if done else 0)
                    i += 1
            else:
                for rc, qs, rrsets in ms:
                    done = inbound.process_message(parsed(rc, qs, rrsets))
                    res.append(1000 if done else 0)
    except Exception as e:  # noqa
        c = exc_code(e)
        if c.code >= 800:
            return c
        res.append(c.code)
    return [res, dump_checked(z, rel)]


def drive_tcp(z, q, ser, wires):
    """dns.query._inbound_xfr over a fake TCP socket -> (code, messages yielded)"""
    n = 0
    try:
        for _ in dns.query._inbound_xfr(z, FakeTCP(wires), q, ser, None, None):
            n += 1
    except Exception as e:  # noqa
        return exc_code(e), n
    return Err(0), n


def run_refresh(case):
    """a secondary that refreshes its zone again and again: make_query on the zone as it is now,
    extract_serial_from_query, the server's answer for that serial, _inbound_xfr"""
    _, zk, rel, maxver, pin, z0, refreshes = case
    z = build_zone(zk, rel, z0, maxver)
    pinned = z.reader() if (pin and zk != 0) else None   # a reader held open across the commits
    out = []
    try:
        for _target, table in refreshes:
            try:
                q, s = dns.xfr.make_query(z)
                s2 = dns.xfr.extract_serial_from_query(q)
            except Exception as e:  # noqa
                out.append(exc_code(e))
                break
            msgs = None
            for k, ms in table:
                if k == s2:
                    msgs = ms
                    break
            if msgs is None:
                msgs = next((ms for k, ms in table if k is None), [])
            c, _n = drive_tcp(z, q, s2, [wire_of(w) for w in msgs])
            if c.code >= 800:
                return c
            out.append([int(q.question[0].rdtype), s, s2, c.code, dump_zone(z, rel)])
    finally:
        snap = None
        if pinned is not None:
            # the snapshot a reader holds must not be affected by the transfers applied meanwhile
            snap = []
            for name, rds in pinned.iterate_rdatasets():
                t_, cv_ = int(rds.rdtype), int(rds.covers)
                snap.append([_name_id[name.derelativize(ORIGIN)], t_, cv_, int(rds.ttl),
                             sorted(rd_id(t_, cv_, rd, rel) for rd in rds)])
            snap.sort(key=lambda e: (e[0], e[1], e[2]))
            pinned.rollback()
    if snap is not None and snap != z0:
        return Err(961, "the content seen by a reader opened before the transfers changed")
    return out


class MiniServer:
    """a loopback name server for dns.query.inbound_xfr: answers a transfer query over TCP / UDP with
    the scripted messages for the serial found in the query (row None: any other serial / AXFR)"""

    def __init__(self):
        for _ in range(20):
            self.tcp = socket.socket(socket.AF_INET, socket.SOCK_STREAM)
            self.tcp.setsockopt(socket.SOL_SOCKET, socket.SO_REUSEADDR, 1)
            self.tcp.bind(("127.0.0.1", 0))
            self.port = self.tcp.getsockname()[1]
            self.udp = socket.socket(socket.AF_INET, socket.SOCK_DGRAM)
            try:
                self.udp.bind(("127.0.0.1", self.port))
                break
            except OSError:
                self.tcp.close()
                self.udp.close()
        self.tcp.listen(8)
        self.script = {"udp": [], "tcp": []}
        self.seen = []
        threading.Thread(target=self.tcp_loop, daemon=True).start()
        threading.Thread(target=self.udp_loop, daemon=True).start()

    @staticmethod
    def serial_of(q):
        if q.question[0].rdtype == dns.rdatatype.AXFR:
            return None
        return q.authority[0][0].serial

    @staticmethod
    def rows(table, ser):
        for k, ms in table:
            if k == ser:
                return ms
        return next((ms for k, ms in table if k is None), [])

    @staticmethod
    def recvn(c, n):
        d = b""
        while len(d) < n:
            x = c.recv(n - len(d))
            if not x:
                raise EOFError
            d += x
        return d

    @staticmethod
    def render(q, msgs, multi):
        """the wires of the scripted messages; TSIG-signed (per message flag, default signed) iff the query was"""
        if not q.had_tsig:
            return [wire_of(w[:3]) for w in msgs]
        out, ctx, first = [], None, True
        for w in msgs:
            m = build_msg(w)
            m.id = q.id
            if len(w) < 4 or w[3]:
                m.use_tsig(TSIG_KEYRING)
                if first:
                    m.request_mac = q.mac
                if multi:
                    wire = m.to_wire(multi=True, tsig_ctx=ctx) if ctx is not None else m.to_wire(multi=True)
                    ctx = m.tsig_ctx
                else:
                    wire = m.to_wire()
            else:
                wire = m.to_wire()
                if ctx is not None:
                    ctx.update(wire)
            first = False
            out.append(wire)
        return out

    def tcp_loop(self):
        while True:
            c, _ = self.tcp.accept()
            try:
                (l,) = struct.unpack("!H", self.recvn(c, 2))
                q = dns.message.from_wire(self.recvn(c, l), keyring=TSIG_KEYRING)
                ser = self.serial_of(q)
                self.seen.append(("tcp", ser))
                for wire in self.render(q, self.rows(self.script["tcp"], ser), True):
                    c.sendall(struct.pack("!H", len(wire)) + wire)
            except Exception:  # noqa
                pass
            finally:
                c.close()

    def udp_loop(self):
        while True:
            data, addr = self.udp.recvfrom(65535)
            try:
                q = dns.message.from_wire(data, keyring=TSIG_KEYRING)
                ser = self.serial_of(q)
                self.seen.append(("udp", ser))
                ms = self.rows(self.script["udp"], ser)
                # one datagram (an empty one when nothing is scripted, so that the client never waits)
                self.udp.sendto(self.render(q, ms[:1], False)[0] if ms else b"", addr)
            except Exception:  # noqa
                pass


_server = None


def get_server():
    """the loopback server, or None when the environment does not allow local sockets"""
    global _server
    if _server is None:
        try:
            _server = MiniServer()
        except OSError:
            _server = False
    return _server or None


def run_top(case):
    """dns.query.inbound_xfr / dns.asyncquery.inbound_xfr (zk >= 3) over real loopback sockets (default query from
    the zone, UDP modes)"""
    _, zk, rel, mode, z0, tu, tt = case[:7]
    _server = get_server()
    _server.script = {"udp": tu, "tcp": tt}
    _server.seen = []
    z = build_zone(zk % 3, rel, z0)
    code = 0
    try:
        if zk >= 3:
            # the asyncio twin (its own copy of the UDP / TCP mode selection)
            asyncio.run(dns.asyncquery.inbound_xfr("127.0.0.1", z, port=_server.port, timeout=5, lifetime=5,
                                                   udp_mode=dns.query.UDPMode(mode)))
        else:
            dns.query.inbound_xfr("127.0.0.1", z, port=_server.port, timeout=5, lifetime=5,
                                  udp_mode=dns.query.UDPMode(mode))
    except Exception as e:  # noqa
        c = exc_code(e)
        if c.code >= 800:
            return c
        code = c.code
    return [code, dump_checked(z, rel)]


def run_top_query(case):
    """dns.query.inbound_xfr with a query made by dns.xfr.make_query(zone, serial=..., keyring=...)"""
    _, zk, rel, mode, z0, tu, tt, qser, kr = case[:9]
    _server = get_server()
    _server.script = {"udp": tu, "tcp": tt}
    _server.seen = []
    z = build_zone(zk % 3, rel, z0)
    code = 0
    try:
        if kr:
            q, _s = dns.xfr.make_query(z, serial=qser, keyring=TSIG_KEYRING, keyname=dns.name.from_text("xfr-key."))
        else:
            q, _s = dns.xfr.make_query(z, serial=qser)
        if zk >= 3:
            asyncio.run(dns.asyncquery.inbound_xfr("127.0.0.1", z, query=q, port=_server.port, timeout=5, lifetime=5,
                                                   udp_mode=dns.query.UDPMode(mode)))
        else:
            dns.query.inbound_xfr("127.0.0.1", z, query=q, port=_server.port, timeout=5, lifetime=5,
                                  udp_mode=dns.query.UDPMode(mode))
    except Exception as e:  # noqa
        c = exc_code(e)
        if c.code >= 800:
            return c
        code = c.code
    return [code, dump_checked(z, rel)]


def run_legacy(case):
    """the older API: dns.zone.from_xfr(dns.query.xfr(...)) against the loopback server (AXFR)"""
    _, rel, msgs = case[:3]
    _server = get_server()
    _server.script = {"udp": [], "tcp": [[None, msgs]]}
    try:
        gen = dns.query.xfr("127.0.0.1", ORIGIN, port=_server.port, relativize=bool(rel), timeout=5, lifetime=5)
        z = dns.zone.from_xfr(gen, relativize=bool(rel))
    except Exception as e:  # noqa
        return exc_code(e)
    # owner names + 10: the zone built by from_xfr also holds the out-of-zone (negative) names
    return [[e[0] + 10] + e[1:] for e in dump_zone(z, rel)]


class SigningTCP:
    """a server end that TSIG-signs the scripted messages (RFC 8945 multi-message rules) once it has seen
    the query's MAC; signed[i] says whether message i carries a TSIG"""

    def __init__(self, msgs):
        self.msgs, self.signed = msgs, [m[3] for m in msgs]
        self.buf, self.pos, self.q = b"", 0, b""

    def send(self, data):
        self.q += data
        if len(self.q) >= 2 and len(self.q) >= 2 + struct.unpack("!H", self.q[:2])[0]:
            q = dns.message.from_wire(self.q[2:], keyring=TSIG_KEYRING)
            ctx, first, out = None, True, b""
            for w, sg in zip(self.msgs, self.signed):
                m = build_msg(w)
                m.id = q.id
                if sg:
                    m.use_tsig(TSIG_KEYRING)
                    if first:
                        m.request_mac = q.mac
                    wire = m.to_wire(multi=True, tsig_ctx=ctx) if ctx is not None else m.to_wire(multi=True)
                    ctx = m.tsig_ctx
                else:
                    wire = m.to_wire()
                    if ctx is not None:
                        ctx.update(wire)
                first = False
                out += struct.pack("!H", len(wire)) + wire
            self.buf = out
        return len(data)

    def recv(self, n):
        d = self.buf[self.pos:self.pos + n]
        self.pos += len(d)
        return d


def run_tsig(case):
    _, zk, rel, rdt, ser, z0, msgs = case[:7]
    z = build_zone(zk % 3, rel, z0)
    q = dns.message.make_query(ORIGIN, rdt)
    q.use_tsig(TSIG_KEYRING)
    code = 0
    try:
        for _ in dns.query._inbound_xfr(z, SigningTCP(msgs), q, ser, None, None):
            pass
    except Exception as e:  # noqa
        c = exc_code(e)
        code = c.code if c.code < 900 else 899
    return [code, dump_checked(z, rel)]


def run_make_query(case):
    _, zs, ser = case
    z = dns.versioned.Zone(ORIGIN)
    if zs is not None:
        with z.writer() as txn:
            rds = dns.rdataset.Rdataset(IN, SOA, 0)
            rds.add(mk_rdata(IN, SOA, 0, zs, True), 3600)
            txn.add(dns.name.empty, rds)
    try:
        q, s = dns.xfr.make_query(z, ser)
        out = [int(q.question[0].rdtype), s]
    except Exception as e:  # noqa
        return exc_code(e)
    # the rest of the query (not in the model; a violation is reported as an exception with a code >= 900)
    bad = None
    qq = q.question
    if len(qq) != 1 or qq[0].name != ORIGIN or qq[0].rdclass != IN or len(qq[0]) != 0:
        bad = "question is not <origin, class of the zone, rdtype>"
    elif s is None and (q.authority or int(qq[0].rdtype) != AXFR):
        bad = "AXFR query with an authority section"
    elif s is not None:
        au = q.authority
        if int(qq[0].rdtype) != IXFR or len(au) != 1 or au[0].name != ORIGIN or au[0].rdclass != IN or \
                int(au[0].rdtype) != SOA or len(au[0]) != 1 or au[0][0].serial != s:
            bad = "IXFR query whose authority section is not one SOA with the serial"
    if bad is None and (q.edns != -1 or q.keyring is not None):
        bad = "EDNS or TSIG although none was asked for"
    if bad is None:
        try:
            kr = {dns.name.from_text("k1."): b"abcd", dns.name.from_text("k2."): b"efgh"}
            q2, s2 = dns.xfr.make_query(z, ser, use_edns=0, ednsflags=dns.flags.DO, payload=1400, request_payload=1300,
                                        options=[dns.edns.GenericOption(65001, b"x")], keyring=kr,
                                        keyname=dns.name.from_text("k2."), keyalgorithm=dns.tsig.HMAC_SHA512)
            if s2 != s or q2.question != q.question or [r.to_text() for r in q2.authority] != [r.to_text() for r in q.authority]:
                bad = "EDNS / TSIG parameters change the question, the authority section or the serial"
            elif (q2.edns, q2.ednsflags & dns.flags.DO, q2.payload, q2.request_payload) != (0, dns.flags.DO, 1400, 1300) or \
                    len(q2.options) != 1 or q2.options[0].otype != 65001:
                bad = "EDNS parameters are not passed through"
            elif q2.keyring is None or q2.keyring.name != dns.name.from_text("k2.") or q2.keyring.secret != b"efgh" or \
                    q2.keyring.algorithm != dns.tsig.HMAC_SHA512:
                bad = "TSIG key name / algorithm are not passed through"
            elif len(q2.to_wire()) <= len(q.to_wire()):
                bad = "the signed query with EDNS renders no longer than the plain one"
        except Exception as e:  # noqa
            bad = "make_query with EDNS and TSIG parameters raised " + type(e).__name__
    if bad is not None:
        return Err(950, "make_query: " + bad)
    try:
        out.append(dns.xfr.extract_serial_from_query(q))
    except Exception as e:  # noqa
        out.append(exc_code(e))
    return out


def run_group(case):
    _, f, recs = case
    wire = build_wire([0, [], recs])
    m = dns.message.from_wire(wire, xfr=True, origin=None, one_rr_per_rrset=bool(f))
    out = []
    for rs in m.answer:
        t, cv = int(rs.rdtype), int(rs.covers)
        out.append([_name_id[rs.name], int(rs.rdclass), t, cv, int(rs.ttl),
                    sorted(rd_id(t, cv, rd, False) for rd in rs)])
    return out


def impl(case):
    op = case[0]
    try:
        if op == 1:
            return run_driver(case)
        if op == 2:
            return run_feed(case)
        if op == 3:
            return run_make_query(case)
        if op == 4:
            a, b = dns.serial.Serial(case[1]), case[2]
            return [int(a < b), int(a <= b), int(a > b), int(a >= b), int(a == b)]
        if op == 7:
            try:
                return (dns.serial.Serial(case[1]) + case[2]).value
            except ValueError as e:
                return Err(32, "ValueError")
        if op == 5:
            return run_group(case)
        if op == 6:
            return run_refresh(case)
        if op == 8:
            return run_top(case)
        if op == 9:
            return run_legacy(case)
        if op == 11:
            return run_tsig(case)
        if op == 12:
            return run_top_query(case)
        if op == 10:
            q = dns.message.make_query(ORIGIN, case[1])
            if case[2] is not None:
                rrset = q.find_rrset(q.authority, ORIGIN, IN, SOA, create=True)
                rrset.add(mk_rdata(IN, SOA, 0, case[2], False), 0)
            try:
                return dns.xfr.extract_serial_from_query(q)
            except Exception as e:  # noqa
                return exc_code(e)
    except Exception as e:  # noqa  (harness-level failure: build_zone, rendering ...)
        return Err(950, "harness:" + type(e).__name__ + ":" + str(e))
    raise ValueError("bad op")


# ------------------------------------------------------------------ abstract zones / streams


def zdump(z):
    return [[k[0], k[1], k[2], v[0], sorted(v[1])] for k, v in sorted(z.items())]


def soa_id(z):
    return next(iter(z[SOAKEY][1]))


def soa_rec(z):
    return [0, IN, SOA, 0, z[SOAKEY][0], soa_id(z)]


def body_recs(z):
    return [[k[0], IN, k[1], k[2], v[0], d] for k, v in sorted(z.items()) if k != SOAKEY for d in sorted(v[1])]


TTLS = [0, 1, 60, 300, 3600, 86400, 2147483647]
REC_TYPES = [A, A, A, AAAA, AAAA, TXT, TXT, MX, MX, NS, NS, DNAME, NSEC, CNAME]


def kind_of(t, cv):
    """dns/node.py NodeKind: 2 = CNAME (CNAME, RRSIG(CNAME)), 1 = neutral (NSEC, NSEC3, KEY and their RRSIGs), 0 = regular"""
    if t == CNAME or (t == RRSIG and cv == CNAME):
        return 2
    if t in (NSEC, 50, 25) or (t == RRSIG and cv in (NSEC, 50, 25)):
        return 1
    return 0


def conflicting(k, k2):
    return k[0] == k2[0] and {kind_of(k[1], k[2]), kind_of(k2[1], k2[2])} == {0, 2}


def zput(z, k, v):
    """store an RRset in a zone dict; a CNAME(-kind) RRset and regular RRsets do not share a node (RFC 1034 3.6.2):
    the most recent one wins"""
    for k2 in [k2 for k2 in z if conflicting(k, k2)]:
        del z[k2]
    z[k] = v


def gen_key(rng, names):
    n = rng.choice(names)
    r = rng.random()
    if r < 0.12:
        cv = rng.choice([A, NS, TXT, SOA, NSEC, CNAME])
        if cv == CNAME and n == 0:
            cv = A
        return (n, RRSIG, cv)
    t = rng.choice(REC_TYPES)
    if t == NS and n == 0:
        t = TXT
    if t == CNAME and n == 0:
        t = A
    return (n, t, 0)


def gen_zone(rng, serial, size=None, names=None, ids=8):
    names = names or [0, 1, 2, 3, 4, 5, 6, 7, 8]
    z = {SOAKEY: (rng.choice(TTLS[2:6]), {(rng.randrange(3) << 32) | serial})}
    z[(0, NS, 0)] = (rng.choice(TTLS[2:6]), set(rng.sample(range(4), rng.randint(1, 2))))
    size = rng.choice([0, 1, 2, 4, 8, 14]) if size is None else size
    for _ in range(size):
        k = gen_key(rng, names)
        if k in z and k[1] not in SINGLETONS:
            z[k][1].add(rng.randrange(ids))
        else:
            zput(z, k, (z[k][0] if k in z else rng.choice(TTLS), {rng.randrange(ids)}))
    return z


def copyz(z):
    return {k: (v[0], set(v[1])) for k, v in z.items()}


def mutate(rng, z, serial, nops=None, names=None, ids=8):
    names = names or [0, 1, 2, 3, 4, 5, 6, 7, 8]
    z = copyz(z)
    nops = rng.choice([0, 1, 1, 2, 3, 6]) if nops is None else nops
    for _ in range(nops):
        r = rng.random()
        keys = [k for k in z if k != SOAKEY and k != (0, NS, 0)]
        if r < 0.35 or not keys:
            k = gen_key(rng, names)
            if k in z and k[1] not in SINGLETONS:
                z[k][1].add(rng.randrange(ids))
            else:
                zput(z, k, (z[k][0] if k in z else rng.choice(TTLS), {rng.randrange(ids)}))
        elif r < 0.6:
            k = rng.choice(keys)
            ds = z[k][1]
            ds.discard(rng.choice(sorted(ds)))
            if not ds:
                del z[k]
        elif r < 0.75:
            del z[rng.choice(keys)]
        elif r < 0.9:
            k = rng.choice(keys)
            z[k] = (rng.choice(TTLS), z[k][1])
        else:
            k = rng.choice(keys)
            z[k] = (z[k][0], {rng.randrange(ids) for _ in range(1 if k[1] in SINGLETONS else rng.randint(1, 3))})
    v = soa_id(z) >> 32
    if rng.random() < 0.3:
        v = rng.randrange(3)
    z[SOAKEY] = (z[SOAKEY][0] if rng.random() < 0.8 else rng.choice(TTLS[2:6]), {(v << 32) | serial})
    return z


def zdiff(z1, z2):
    """RFC 1995: RRs (with their TTL) of z1 that are not in z2, and the other way round; SOA excluded"""
    def rrs(z):
        return {(k, v[0], d) for k, v in z.items() if k != SOAKEY for d in v[1]}
    r1, r2 = rrs(z1), rrs(z2)
    mk = lambda s: [[k[0], IN, k[1], k[2], ttl, d] for k, ttl, d in sorted(s)]
    return mk(r1 - r2), mk(r2 - r1)


def ixfr_stream(rng, chain, shuffle=False):
    out = [soa_rec(chain[-1])]
    for a, b in zip(chain, chain[1:]):
        dels, adds = zdiff(a, b)
        if shuffle:
            rng.shuffle(dels)
            rng.shuffle(adds)
        out += [soa_rec(a)] + dels + [soa_rec(b)] + adds
    out.append(soa_rec(chain[-1]))
    return out


def axfr_stream(rng, z, shuffle=False, glue=False):
    body = body_recs(z)
    if shuffle:
        rng.shuffle(body)
    if glue:
        for _ in range(rng.randint(1, 3)):
            body.insert(rng.randint(0, len(body)), [rng.choice([-1, -2, -3]), IN, rng.choice([A, AAAA]), 0, 300, rng.randrange(8)])
    s = soa_rec(z)
    return [s] + body + [list(s)]


def py_serial_lt(a, b):
    """RFC 1982 3.2: a < b"""
    a, b = a % T32, b % T32
    return a != b and 0 < (b - a) % T32 < 2 ** 31


def gen_serials(rng, n):
    """n+1 serials, each step an RFC 1982 increase, total increase < 2^31"""
    s0 = rng.choice([1, 2, 1000, 2 ** 31 - 2, 2 ** 31, 2 ** 32 - 3, 2 ** 32 - 1, rng.randrange(T32)])
    out = [s0]
    total = 0
    for i in range(n):
        inc = rng.choice([1, 1, 2, 7, 1000, 2 ** 31 - 1, rng.randrange(1, 2 ** 31)])
        inc = max(1, min(inc, 2 ** 31 - 1 - total - (n - 1 - i)))
        total += inc
        out.append((out[-1] + inc) % T32)
    return out


def gen_chain(rng, n, **kw):
    ser = gen_serials(rng, n)
    chain = [gen_zone(rng, ser[0], **{k: v for k, v in kw.items() if k in ("size", "names", "ids")})]
    for s in ser[1:]:
        chain.append(mutate(rng, chain[-1], s, **{k: v for k, v in kw.items() if k in ("nops", "names", "ids")}))
    return chain


def split(recs, cuts):
    """cut the record list after the given positions (sorted, may repeat -> empty messages)"""
    out, prev = [], 0
    for c in cuts:
        out.append(recs[prev:c])
        prev = c
    out.append(recs[prev:])
    return out


def all_cuts(n):
    """every way to cut n records into non-empty consecutive messages"""
    for k in range(n):
        for cs in itertools.combinations(range(1, n), k):
            yield list(cs)


def rand_cuts(rng, n, allow_empty=True):
    r = rng.random()
    if n <= 1 or r < 0.2:
        return []
    if r < 0.35:
        return list(range(1, n))
    k = rng.randint(1, min(6, n - 1))
    cs = sorted(rng.choice(range(1, n)) for _ in range(k))
    if not allow_empty:
        cs = sorted(set(cs))
    return cs


def msgs_of(chunks, rdt, qmode=0, rcodes=None):
    out = []
    for i, c in enumerate(chunks):
        qs = []
        if qmode == 1 and i == 0 or qmode == 2:
            qs = [[0, rdt]]
        out.append([rcodes[i] if rcodes else 0, qs, c])
    return out


def mk_case(zk, rel, rdt, ser, udp, z0, msgs, tag, target):
    return [1, zk, rel, rdt, ser, int(udp), zdump(z0), msgs, [tag, zdump(target) if target is not None else None]]


VALID, FAULT, MUSTERR, ANY = 1, 0, 2, 3


def zk_rel(rng):
    # 0..2: dns.zone.Zone / dns.versioned.Zone / dns.btreezone.Zone through dns.query._inbound_xfr;
    # 3..5: the same zone classes through dns.asyncquery._inbound_xfr (asyncio)
    zk = rng.randrange(3)
    if rng.random() < 0.25:
        zk += 3
    return zk, rng.randrange(2)


# ------------------------------------------------------------------ faults

FAULTS = ["drop", "dup", "swap", "trunc", "serial", "owner", "type", "rcode", "surplus", "question"]


def apply_fault(rng, chunks, rdt, fault, pos):
    """chunks: list of record lists.  pos: index into the flattened record list.  Returns (msgs, tag) or None"""
    flat = [(i, j) for i, c in enumerate(chunks) for j in range(len(c))]
    chunks = [[list(r) for r in c] for c in chunks]
    rcodes = [0] * len(chunks)
    qs = None
    tag = FAULT
    if pos >= len(flat):
        return None
    i, j = flat[pos]
    if fault == "drop":
        del chunks[i][j]
    elif fault == "dup":
        chunks[i].insert(j, list(chunks[i][j]))
    elif fault == "swap":
        if pos + 1 >= len(flat):
            return None
        i2, j2 = flat[pos + 1]
        chunks[i][j], chunks[i2][j2] = chunks[i2][j2], chunks[i][j]
    elif fault == "trunc":
        # the stream stops before record pos (pos >= 1: something was sent)
        chunks = chunks[:i] + ([chunks[i][:j]] if j > 0 else [])
        rcodes = rcodes[:len(chunks)]
        tag = MUSTERR
        if not chunks:
            return None
    elif fault == "serial":
        r = chunks[i][j]
        if r[2] != SOA:
            return None
        s = r[5] & 0xFFFFFFFF
        s2 = (s + rng.choice([1, -1, 2, 2 ** 31, 12345])) % T32
        r[5] = (r[5] >> 32 << 32) | s2
    elif fault == "owner":
        r = chunks[i][j]
        r[0] = rng.choice([x for x in [0, 1, 2, 3, 5, 8, -1, -2] if x != r[0]])
    elif fault == "type":
        r = chunks[i][j]
        if r[2] == SOA:
            r[2] = TXT
        elif r[2] == RRSIG:
            return None
        else:
            r[2] = rng.choice([x for x in [A, TXT, MX, AAAA, SOA, DNAME, CNAME] if x != r[2]])
    elif fault == "rcode":
        rcodes[i] = rng.choice([1, 2, 5, 9])
        tag = MUSTERR
    elif fault == "surplus":
        # extra record right after the final SOA, in the same message
        chunks[-1].append([rng.choice([1, 2, 3]), IN, A, 0, 300, rng.randrange(8)])
        tag = MUSTERR
    elif fault == "question":
        qs = [[rng.choice([0, 1, -1]), rng.choice([rdt, AXFR, IXFR, SOA])]]
        if qs[0] == [0, rdt]:
            return None
        tag = MUSTERR
    msgs = [[rcodes[k], (qs if (qs and k == i) else []), c] for k, c in enumerate(chunks)]
    return msgs, tag


# ------------------------------------------------------------------ reference reading of a stream (RFC 5936 / RFC 1995)


def reference(z0, rdt, ser, udp, msgs):
    """What the response stream denotes, written from the RFCs (not from dns/xfr.py):
    ('ok', zone dict) or ('reject', why).  Out-of-zone records are ignored (as documented by the library)."""
    if rdt not in (AXFR, IXFR):
        return ("reject", "rdtype")
    zone = {tuple(e[:3]): (e[3], set(e[4])) for e in z0}
    flat = []
    for mi, (rc, qs, recs) in enumerate(msgs):
        for ri, r in enumerate(recs):
            flat.append((mi, ri == len(recs) - 1, r))
    if not msgs or not msgs[0][2]:
        return ("reject", "no answer")

    def is_apex_soa(r):
        return r[0] == 0 and r[2] == SOA

    def same_soa(r, f):
        return r[1] == f[1] and r[5] == f[5]

    def clamp(t):
        return 0 if t > 2147483647 else t

    def add(r):
        if r[0] < 0:
            return None
        if r[1] != IN:
            return "class"
        if r[2] == SOA:
            return "soa not at apex"
        k = (r[0], r[2], r[3])
        if k in zone:
            zput(zone, k, (min(zone[k][0], clamp(r[4])), {r[5]} if r[2] in SINGLETONS else zone[k][1] | {r[5]}))
        else:
            zput(zone, k, (clamp(r[4]), {r[5]}))
        return None

    def delete(r):
        if r[0] < 0:
            return None
        if r[1] != IN:
            return "class"
        k = (r[0], r[2], r[3])
        if k not in zone or r[5] not in zone[k][1]:
            return "delete of a record that is not there"
        zone[k][1].discard(r[5])
        if not zone[k][1]:
            del zone[k]
        else:
            zput(zone, k, zone[k])
        return None

    def put_soa(r):
        if r[1] != IN:
            return "class"
        zput(zone, SOAKEY, (clamp(r[4]), {r[5]}))
        return None

    first = flat[0][2]
    if not is_apex_soa(first):
        return ("reject", "first record is not the zone's SOA")
    end = None  # index in flat of the record that completes the transfer
    pos = 1
    axfr_style = rdt == AXFR
    if rdt == IXFR:
        fs = first[5] & 0xFFFFFFFF
        if fs == ser:
            end = 0
        elif 0 < (ser - fs) % T32 < 2 ** 31:
            return ("reject", "serial went backwards")
        elif udp and len(msgs[0][2]) == 1:
            return ("reject", "use tcp")
        elif len(flat) > 1 and not is_apex_soa(flat[1][2]):
            axfr_style = True
    if end is None and axfr_style:
        zone.clear()
        while pos < len(flat):
            r = flat[pos][2]
            if is_apex_soa(r):
                if not same_soa(r, first):
                    return ("reject", "unexpected SOA in AXFR")
                e = put_soa(r)
                if e:
                    return ("reject", e)
                end = pos
                break
            e = add(r)
            if e:
                return ("reject", e)
            pos += 1
    elif end is None:
        cur = ser
        while pos < len(flat):
            r = flat[pos][2]
            # here: the start of a difference sequence, or the final SOA
            if not is_apex_soa(r):
                return ("reject", "expected SOA")
            if same_soa(r, first) and pos > 1:
                if cur != (first[5] & 0xFFFFFFFF):
                    return ("reject", "ends at the wrong serial")
                e = put_soa(r)
                if e:
                    return ("reject", e)
                end = pos
                break
            if (r[5] & 0xFFFFFFFF) != cur:
                return ("reject", "difference sequence starts at a different serial")
            pos += 1
            while pos < len(flat) and not is_apex_soa(flat[pos][2]):
                e = delete(flat[pos][2])
                if e:
                    return ("reject", e)
                pos += 1
            if pos >= len(flat):
                break
            r = flat[pos][2]
            cur = r[5] & 0xFFFFFFFF
            e = put_soa(r)
            if e:
                return ("reject", e)
            pos += 1
            while pos < len(flat) and not is_apex_soa(flat[pos][2]):
                e = add(flat[pos][2])
                if e:
                    return ("reject", e)
                pos += 1
    if end is None:
        return ("reject", "stream ends early")
    mi, last_in_msg, _ = flat[end]
    if not last_in_msg:
        return ("reject", "records after the final SOA")
    if udp and mi != 0:
        return ("reject", "udp answer must be one message")
    for k in range(mi + 1):
        rc, qs, _ = msgs[k]
        if rc != 0:
            return ("reject", "rcode")
        if qs and (qs[0][0] != 0 or qs[0][1] != rdt):
            return ("reject", "question")
    if end == 0:
        return ("ok", {tuple(e[:3]): (e[3], set(e[4])) for e in z0})
    return ("ok", zone)


# ------------------------------------------------------------------ cases


def valid_cases(ctx, rng, n):
    for _ in range(n):
        zk, rel = zk_rel(rng)
        r = rng.random()
        qmode = rng.choice([0, 0, 1, 2])
        if r < 0.4:
            k = rng.choice([1, 1, 2, 3, 4])
            chain = gen_chain(rng, k)
            condensed = rng.random() < 0.15 and k > 1
            recs = ixfr_stream(rng, [chain[0], chain[-1]] if condensed else chain, shuffle=rng.random() < 0.5)
            msgs = msgs_of(split(recs, rand_cuts(rng, len(recs))), IXFR, qmode)
            yield "ixfr", mk_case(zk, rel, IXFR, soa_id(chain[0]) & 0xFFFFFFFF, 0, chain[0], msgs, VALID, chain[-1])
        elif r < 0.6:
            z = gen_zone(rng, rng.randrange(T32))
            z0 = rng.choice([{}, z, gen_zone(rng, rng.randrange(T32))])
            recs = axfr_stream(rng, z, shuffle=rng.random() < 0.6, glue=rng.random() < 0.3)
            msgs = msgs_of(split(recs, rand_cuts(rng, len(recs))), AXFR, qmode)
            yield "axfr", mk_case(zk, rel, AXFR, None if rng.random() < 0.8 else 5, 0, z0, msgs, VALID, z)
        elif r < 0.75:
            chain = gen_chain(rng, 1)
            z0 = rng.choice([chain[0], chain[0], gen_zone(rng, soa_id(chain[0]) & 0xFFFFFFFF)])
            recs = axfr_stream(rng, chain[1], shuffle=rng.random() < 0.6, glue=rng.random() < 0.3)
            msgs = msgs_of(split(recs, rand_cuts(rng, len(recs))), IXFR, qmode)
            yield "axfr-style-ixfr", mk_case(zk, rel, IXFR, soa_id(z0) & 0xFFFFFFFF, 0, z0, msgs, VALID, chain[1])
        elif r < 0.83:
            z = gen_zone(rng, rng.randrange(T32))
            udp = rng.random() < 0.5
            msgs = msgs_of([[soa_rec(z)]], IXFR, qmode)
            yield "uptodate", mk_case(zk, rel, IXFR, soa_id(z) & 0xFFFFFFFF, udp, z, msgs, VALID, z)
        elif r < 0.93:
            chain = gen_chain(rng, rng.choice([1, 1, 2]))
            recs = ixfr_stream(rng, chain, shuffle=rng.random() < 0.5)
            msgs = msgs_of([recs], IXFR, qmode)
            yield "udp-ixfr", mk_case(zk, rel, IXFR, soa_id(chain[0]) & 0xFFFFFFFF, 1, chain[0], msgs, VALID, chain[-1])
        else:
            chain = gen_chain(rng, 1)
            recs = axfr_stream(rng, chain[1])
            msgs = msgs_of([recs], IXFR, qmode)
            yield "udp-axfr-style", mk_case(zk, rel, IXFR, soa_id(chain[0]) & 0xFFFFFFFF, 1, chain[0], msgs, VALID, chain[1])


def must_error_cases(ctx, rng, n):
    for _ in range(n):
        zk, rel = zk_rel(rng)
        r = rng.random()
        chain = gen_chain(rng, rng.choice([1, 2, 3]))
        s0 = soa_id(chain[0]) & 0xFFFFFFFF
        if r < 0.2:
            # the server's serial is older than ours (RFC 1982)
            back = rng.choice([1, 2, 1000, 2 ** 31 - 1, rng.randrange(1, 2 ** 31)])
            ours = (soa_id(chain[-1]) + back) % T32
            z0 = copyz(chain[0])
            z0[SOAKEY] = (z0[SOAKEY][0], {ours})
            recs = ixfr_stream(rng, chain)
            msgs = msgs_of(split(recs, rand_cuts(rng, len(recs))), IXFR)
            yield "backwards", mk_case(zk, rel, IXFR, ours, rng.random() < 0.3, z0, msgs, MUSTERR, None)
        elif r < 0.45:
            # the difference sequences are based on another serial than the one we have
            sn = soa_id(chain[-1]) & 0xFFFFFFFF
            cands = [o % T32 for o in (s0 - 1, s0 + 1, s0 - 5, s0 + 2) if o % T32 != sn and o % T32 != s0 and not py_serial_lt(sn, o % T32)]
            if not cands:
                continue
            other = rng.choice(cands)
            recs = ixfr_stream(rng, chain)
            msgs = msgs_of(split(recs, rand_cuts(rng, len(recs))), IXFR)
            yield "wrong-base", mk_case(zk, rel, IXFR, other, 0, chain[0], msgs, MUSTERR, None)
        elif r < 0.55:
            msgs = msgs_of([[soa_rec(chain[-1])]], IXFR)
            yield "use-tcp", mk_case(zk, rel, IXFR, s0, 1, chain[0], msgs, MUSTERR, None)
        elif r < 0.6:
            # UDP: the datagram holds only a proper prefix (>= 2 records) of the response
            recs = ixfr_stream(rng, chain)
            recs = recs[:rng.randint(2, len(recs) - 1)]
            yield "udp-incomplete", mk_case(zk, rel, IXFR, s0, 1, chain[0], msgs_of([recs], IXFR), MUSTERR, None)
        elif r < 0.66:
            # a deleted record sent twice, at the start of a later message (a parser that merged the two
            # into one RRset would hide the inexact deletion)
            recs = ixfr_stream(rng, chain)
            soas = [i for i, x in enumerate(recs) if x[2] == SOA]
            dpos = [i for a_, b_ in zip(soas[1::2], soas[2::2]) for i in range(a_ + 1, b_)]
            if not dpos:
                continue
            p_ = rng.choice(dpos)
            recs.insert(p_, list(recs[p_]))
            cuts = sorted(set([p_] + [c for c in rand_cuts(rng, len(recs)) if c < p_ or c > p_ + 1]))
            msgs = msgs_of(split(recs, cuts), IXFR)
            yield "dup-delete-split", mk_case(zk, rel, IXFR, s0, 0, chain[0], msgs, MUSTERR, None)
        elif r < 0.8:
            rdt = IXFR if rng.random() < 0.7 else AXFR
            recs = ixfr_stream(rng, chain) if (rdt == IXFR and rng.random() < 0.8) else axfr_stream(rng, chain[-1])
            cut = rng.randint(1, len(recs) - 1)
            recs = recs[:cut]
            msgs = msgs_of(split(recs, rand_cuts(rng, len(recs))), rdt)
            yield "early-end", mk_case(zk, rel, rdt, s0 if rdt == IXFR else None, 0, chain[0], msgs, MUSTERR, None)
        else:
            rdt = rng.choice([IXFR, AXFR])
            recs = ixfr_stream(rng, chain) if rdt == IXFR else axfr_stream(rng, chain[-1])
            extra = [[rng.choice([1, 2, 0]), IN, rng.choice([A, TXT]), 0, 300, rng.randrange(8)] for _ in range(rng.randint(1, 2))]
            if rng.random() < 0.3 and rdt == AXFR:
                # a surplus record of an RRset that also occurs earlier in the same message
                b = [x for x in recs if x[2] != SOA]
                if b:
                    e = list(rng.choice(b))
                    e[5] = (e[5] + 1) % 8
                    extra = [e]
            cuts = [c for c in rand_cuts(rng, len(recs)) if c < len(recs)]
            chunks = split(recs, cuts)
            chunks[-1] = chunks[-1] + extra
            msgs = msgs_of(chunks, rdt)
            yield "surplus", mk_case(zk, rel, rdt, s0 if rdt == IXFR else None, rng.random() < 0.15 and rdt == IXFR and not cuts,
                                     chain[0], msgs, MUSTERR, None)


def fault_cases(ctx, rng, n):
    for _ in range(n):
        zk, rel = zk_rel(rng)
        r = rng.random()
        chain = gen_chain(rng, rng.choice([1, 1, 2, 3]), size=rng.choice([1, 2, 4]))
        s0 = soa_id(chain[0]) & 0xFFFFFFFF
        if r < 0.65:
            rdt, recs, z0, ser = IXFR, ixfr_stream(rng, chain), chain[0], s0
        elif r < 0.85:
            rdt, recs, z0, ser = AXFR, axfr_stream(rng, chain[-1]), chain[0], None
        else:
            rdt, recs, z0, ser = IXFR, axfr_stream(rng, chain[-1]), chain[0], s0
        chunks = split(recs, sorted(set(rand_cuts(rng, len(recs)))))
        fault = rng.choice(FAULTS)
        pos = rng.randrange(len(recs))
        fm = apply_fault(rng, chunks, rdt, fault, pos)
        if fm is None:
            continue
        msgs, tag = fm
        yield "fault:" + fault, mk_case(zk, rel, rdt, ser, 0, z0, msgs, tag, None)


def singleton_cases(ctx, rng, n):
    """several records of a singleton type (DNAME, NSEC) for one owner: each replaces the previous one, in the
    message parser (records merged into one RRset) and in Transaction.add"""
    for _ in range(n):
        zk, rel = zk_rel(rng)
        chain = gen_chain(rng, 1, size=rng.choice([1, 3]))
        s0 = soa_id(chain[0]) & 0xFFFFFFFF
        t = rng.choice([DNAME, NSEC])
        nm = rng.choice([0, 1, 2, 3])
        ds = rng.sample(range(8), rng.randint(2, 3))
        extra = [[nm, IN, t, 0, rng.choice([60, 300, 3600]), d] for d in ds]
        if rng.random() < 0.5:
            recs = axfr_stream(rng, chain[-1])
            rdt, ser = (AXFR, None) if rng.random() < 0.6 else (IXFR, s0)
            body = recs[1:-1]
            for e in extra:
                body.insert(rng.randint(0, len(body)), e)
            recs = [recs[0]] + body + [recs[-1]]
        else:
            recs = ixfr_stream(rng, chain)
            rdt, ser = IXFR, s0
            # into the (last) addition section
            pos = len(recs) - 1
            for e in extra:
                recs.insert(pos, e)
                pos += 1
        msgs = msgs_of(split(recs, rand_cuts(rng, len(recs))), rdt)
        yield "singleton", mk_case(zk, rel, rdt, ser, 0, chain[0], msgs, FAULT, None)


def cname_cases(ctx, rng, n):
    """CNAME and other data (dns/node.py): names that change between a CNAME and ordinary RRsets from one version
    to the next (valid: the difference deletes the old kind before it adds the new one), and streams that add one
    kind where the other still is (the most recent one wins; NSEC / RRSIG(NSEC) stay)"""
    for _ in range(n):
        zk, rel = zk_rel(rng)
        names = [1, 2, 3, 5]
        nver = rng.choice([1, 1, 2, 3])
        ser = gen_serials(rng, nver)
        z = gen_zone(rng, ser[0], size=rng.choice([2, 4, 8]), names=[0] + names, ids=4)
        chain = [z]
        for i in range(nver):
            z = mutate(rng, z, ser[i + 1], nops=rng.choice([0, 1, 2]), names=[0] + names, ids=4)
            for nm in rng.sample(names, rng.randint(1, 2)):
                r = rng.random()
                if r < 0.45:
                    zput(z, (nm, CNAME, 0), (rng.choice(TTLS), {rng.randrange(4)}))
                    if rng.random() < 0.4:
                        zput(z, (nm, RRSIG, CNAME), (rng.choice(TTLS), {rng.randrange(4)}))
                elif r < 0.9:
                    k = (nm, rng.choice([A, TXT, MX, AAAA]), 0) if rng.random() < 0.8 else (nm, RRSIG, A)
                    zput(z, k, (rng.choice(TTLS), {rng.randrange(4) for _ in range(rng.randint(1, 2))}))
                else:
                    zput(z, rng.choice([(nm, NSEC, 0), (nm, RRSIG, NSEC)]), (rng.choice(TTLS), {rng.randrange(4)}))
            chain.append(z)
        s0 = soa_id(chain[0]) & 0xFFFFFFFF
        q = rng.random()
        if q < 0.3:
            recs = axfr_stream(rng, chain[-1], shuffle=rng.random() < 0.5)
            rdt, sr = (AXFR, None) if rng.random() < 0.6 else (IXFR, s0)
        else:
            recs = ixfr_stream(rng, chain, shuffle=rng.random() < 0.5)
            rdt, sr = IXFR, s0
        if rdt == IXFR and soa_id(chain[-1]) & 0xFFFFFFFF == s0:
            continue
        if rng.random() < 0.5:
            msgs = msgs_of(split(recs, rand_cuts(rng, len(recs), allow_empty=False)), rdt)
            yield "cname-valid", mk_case(zk, rel, rdt, sr, 0, chain[0], msgs, VALID, chain[-1])
            continue
        # a conflicting stream: drop one record (e.g. the deletion of the CNAME), or add a record of the other kind
        recs = [list(r) for r in recs]
        body = [i for i, r in enumerate(recs) if r[2] != SOA]
        f = rng.random()
        if body and f < 0.4:
            del recs[rng.choice(body)]
        else:
            nm = rng.choice(names)
            t, cv = rng.choice([(CNAME, 0), (CNAME, 0), (RRSIG, CNAME), (A, 0), (TXT, 0), (RRSIG, A), (NSEC, 0), (RRSIG, NSEC)])
            pos = rng.randint(1, len(recs) - 1)
            recs.insert(pos, [nm if rng.random() < 0.9 else 0, IN, t, cv, rng.choice(TTLS), rng.randrange(4)])
        msgs = msgs_of(split(recs, rand_cuts(rng, len(recs))), rdt)
        yield "cname-conflict", mk_case(zk, rel, rdt, sr, 0, chain[0], msgs, FAULT, None)


def deleg_cases(ctx):
    """Deterministic (no RNG): transfers whose differences create a delegation (the first NS RRset at a non-apex
    name) ABOVE names that are already in the zone and are not touched by the transfer, remove one, replace the
    only NS record of one, and nest cuts (dns.btreezone keeps DELEGATION / GLUE flags on its nodes and rewrites the
    nodes beneath a cut when they change).  Every ordered pair of the contents below, condensed and step by step,
    as IXFR, as AXFR-style answer and as AXFR, in one message and one record per message, on every zone class:
    afterwards the zone must equal the target version RRset by RRset (iteration and point lookups)."""
    base = {(0, NS, 0): (3600, {1, 2}), (5, A, 0): (300, {1}), (5, TXT, 0): (60, {2}), (11, A, 0): (300, {2}),
            (12, AAAA, 0): (300, {3}), (10, MX, 0): (3600, {1}), (8, A, 0): (60, {4}), (7, A, 0): (300, {5})}
    def with_(*extra):
        z = {k: (v[0], set(v[1])) for k, v in base.items()}
        for k, v in extra:
            z[k] = (v[0], set(v[1]))
        return z
    contents = [
        with_(),                                                                    # no cut below the apex
        with_(((2, NS, 0), (300, {1}))),                                            # cut at b above a.b, c.a.b, d.c.a.b
        with_(((2, NS, 0), (300, {2}))),                                            # its only NS record replaced
        with_(((2, NS, 0), (300, {2})), ((5, NS, 0), (300, {3})), ((9, NS, 0), (60, {1, 2}))),   # nested cut at a.b; cut at z above y.z, x.y.z
        with_(((5, NS, 0), (300, {3})), ((9, NS, 0), (60, {2}))),                   # outer cut removed, inner stays
        with_(((11, NS, 0), (300, {1})), ((2, NS, 0), (300, {1, 3}))),              # cuts at b and c.a.b, none at a.b / z
    ]
    def version(c, serial):
        z = {k: (v[0], set(v[1])) for k, v in c.items()}
        z[SOAKEY] = (3600, {serial})
        return z
    idx = 0
    n = len(contents)
    for i in range(n):
        for j in range(n):
            if i == j:
                continue
            step = 1 if j > i else -1
            path = list(range(i, j + step, step))
            chains = [[version(contents[i], 10), version(contents[j], 11)]]
            if len(path) > 2:
                chains.append([version(contents[k], 10 + m) for m, k in enumerate(path)])
            for chain in chains:
                s0 = soa_id(chain[0]) & 0xFFFFFFFF
                streams = [(IXFR, s0, ixfr_stream(None, chain))]
                if len(chain) == 2:
                    streams.append((IXFR, s0, axfr_stream(None, chain[-1])))
                    if (i + j) % 3 == 0:
                        streams.append((AXFR, None, axfr_stream(None, chain[-1])))
                for rdt, ser, recs in streams:
                    for zk in ((2, 5, 0, 1) if len(chain) == 2 and rdt == IXFR and len(recs) > 2 else (2,)):
                        idx += 1
                        chunks = [recs] if idx % 2 else [[r] for r in recs]
                        yield "deleg", mk_case(zk, idx % 2 if zk == 2 else (idx // 2) % 2, rdt, ser, 0, chain[0],
                                               msgs_of(chunks, rdt), VALID, chain[-1])


def malformed_cases(ctx, rng, n):
    """arbitrary record soup: only 'an error leaves the zone untouched' is demanded"""
    for _ in range(n):
        zk, rel = zk_rel(rng)
        z0 = gen_zone(rng, rng.choice([1, 5, 2 ** 32 - 1]), size=rng.choice([0, 2, 5]), ids=4)
        if rng.random() < 0.15:
            z0 = {}
        rdt = rng.choice([IXFR, IXFR, IXFR, IXFR, AXFR, AXFR, AXFR, 1])
        s0 = (soa_id(z0) & 0xFFFFFFFF) if z0 else 5
        ser = rng.choice([s0, s0, s0, s0, 0, 7]) if rdt == IXFR and rng.random() < 0.95 else rng.choice([None, s0])
        udp = rng.random() < 0.2 and rdt == IXFR
        soas = [[0, rng.choice([IN, IN, IN, CH]), SOA, 0, rng.choice([300, 3600]), (rng.randrange(2) << 32) | rng.choice([s0, s0, 6, 7, (s0 + 1) % T32])]
                for _ in range(3)]
        recs = []
        for _ in range(rng.randint(0, 12)):
            q = rng.random()
            if q < 0.35:
                recs.append(list(rng.choice(soas)))
            elif q < 0.45 and z0:
                k = rng.choice(sorted(z0))
                recs.append([k[0], IN, k[1], k[2], z0[k][0], rng.choice(sorted(z0[k][1]))])
            else:
                k = gen_key(rng, [0, 1, 2, 3, -1])
                c = IN if rng.random() < 0.9 or k[1] in (A, AAAA, RRSIG, DNAME, NSEC, CNAME) else CH
                ttl = rng.choice(TTLS + [2147483648, 4294967295])
                t = k[1] if rng.random() < 0.95 or k[1] == RRSIG else SOA
                recs.append([k[0], c, t, k[2], ttl, rng.randrange(4)])
        if recs and rng.random() < 0.7:
            recs[0] = list(rng.choice(soas))
        if recs and rng.random() < 0.5:
            recs.append(list(recs[0]))
        chunks = split(recs, rand_cuts(rng, len(recs)))
        msgs = []
        for i, c in enumerate(chunks):
            qs = []
            if rng.random() < 0.2:
                qs = [[rng.choice([0, 0, 0, 1, -1]), rng.choice([rdt, rdt, rdt, AXFR, IXFR])]]
                if rng.random() < 0.2:
                    qs.append([1, A])
            msgs.append([0 if rng.random() < 0.93 else rng.choice([1, 5]), qs, c])
        if udp and not msgs:
            continue
        yield "malformed", mk_case(zk, rel, rdt, ser, udp, z0, msgs, ANY, None)


def exhaustive_cases(ctx, rng):
    """small scope, swept completely: every chunking of short streams; every fault at every position"""
    small = dict(size=ctx.n(1, 2), names=[0, 1], ids=3, nops=2)
    nchains = ctx.n(2, 6)
    total = 0
    for ci in range(nchains):
        chain = gen_chain(rng, rng.choice([1, 2]), **small)
        s0 = soa_id(chain[0]) & 0xFFFFFFFF
        streams = [
            ("ixfr", IXFR, s0, ixfr_stream(rng, chain), chain[-1]),
            ("axfr", AXFR, None, axfr_stream(rng, chain[-1]), chain[-1]),
            ("axfr-style-ixfr", IXFR, s0, axfr_stream(rng, chain[-1]), chain[-1]),
        ]
        for name, rdt, ser, recs, target in streams:
            if len(recs) > ctx.n(8, 11):
                continue
            zk, rel = zk_rel(rng)
            for cuts in all_cuts(len(recs)):
                total += 1
                yield "ex-chunk:" + name, mk_case(zk, rel, rdt, ser, 0, chain[0], msgs_of(split(recs, cuts), rdt), VALID, target)
            for fault in FAULTS:
                for pos in range(len(recs)):
                    for cuts in ([], list(range(1, len(recs))), sorted(set(rand_cuts(rng, len(recs))))):
                        fm = apply_fault(rng, split(recs, cuts), rdt, fault, pos)
                        if fm is None:
                            continue
                        total += 1
                        yield "ex-fault:" + fault, mk_case(zk, rel, rdt, ser, 0, chain[0], fm[0], fm[1], None)
                    if fault in ("surplus", "question"):
                        break
    ctx.notes["exhaustive"] = True
    ctx.notes["exhaustive_scope"] = f"{nchains} chains over names {{origin,a}}: all chunkings of streams <= {ctx.n(8, 11)} records; " \
                                    f"every fault kind at every record position x 3 chunkings ({total} cases)"


def feed_cases(ctx, rng, n):
    """process_message called directly with hand-built messages (RRsets with several rdatas, empty RRsets,
    calls after done, questions, rcodes, UDP)"""
    for _ in range(n):
        zk, rel = zk_rel(rng)
        chain = gen_chain(rng, rng.choice([1, 2]), size=rng.choice([1, 3]))
        s0 = soa_id(chain[0]) & 0xFFFFFFFF
        r = rng.random()
        udp = 0
        if r < 0.4:
            rdt, ser, recs = IXFR, s0, ixfr_stream(rng, chain)
        elif r < 0.7:
            rdt, ser, recs = AXFR, None, axfr_stream(rng, chain[-1])
        else:
            rdt, ser, recs = IXFR, s0, axfr_stream(rng, chain[-1])
        if rng.random() < 0.3:
            i = rng.randrange(len(recs))
            recs.insert(i, list(recs[i]))
        chunks = split(recs, rand_cuts(rng, len(recs)))
        if rdt == IXFR and rng.random() < 0.15:
            udp = 1
            if rng.random() < 0.7:
                chunks = [recs]
        if rng.random() < 0.4:
            chunks.append([] if rng.random() < 0.5 else [list(recs[-1])])
        msgs = []
        for c in chunks:
            rrsets = []
            for x in c:
                merged = False
                if rng.random() < 0.5 and x[2] not in SINGLETONS:
                    for rs in rrsets:
                        if rs[:4] == x[:4]:
                            rs[5] = sorted(set(rs[5]) | {x[5]})
                            rs[4] = min(rs[4], x[4])
                            merged = True
                            break
                if not merged:
                    rrsets.append([x[0], x[1], x[2], x[3], x[4], [x[5]]])
            if rng.random() < 0.12 and rrsets:
                # an RRset without rdata (the "delete the whole name" path of delete_exact, rdataset[0] on an SOA)
                j = rng.randrange(len(rrsets))
                e = list(rrsets[j])
                e[5] = []
                if rng.random() < 0.5:
                    rrsets[j] = e
                else:
                    rrsets.insert(j, e)
            qs = []
            if rng.random() < 0.15:
                qs = [[rng.choice([0, 0, 0, 1]), rng.choice([rdt, rdt, rdt, AXFR, IXFR])]]
            msgs.append([0 if rng.random() < 0.96 else 2, qs, rrsets])
        yield "feed", [2, zk, rel, rdt, ser, udp, zdump(chain[0]), msgs, [ANY, None]]


def usage_cases(ctx, rng, n):
    """the ways a caller of dns.xfr.Inbound leaves the with-block before the transfer is done: the messages run out
    (stream ends early), the error of process_message is caught inside the block, an explicit break; on every zone
    kind, IXFR / AXFR / AXFR-style IXFR, with at least one record applied to the transaction before.  The zone must
    be what it was (Inbound.__exit__ rolls the unfinished transaction back)."""
    for _ in range(n):
        zk, rel = zk_rel(rng)
        zk %= 3
        chain = gen_chain(rng, rng.choice([1, 2, 3]), size=rng.choice([2, 4, 8]), nops=rng.choice([2, 3, 6]))
        s0 = soa_id(chain[0]) & 0xFFFFFFFF
        r = rng.random()
        if r < 0.5:
            rdt, ser, recs = IXFR, s0, ixfr_stream(rng, chain)
        elif r < 0.8:
            rdt, ser, recs = AXFR, None, axfr_stream(rng, chain[-1])
        else:
            rdt, ser, recs = IXFR, s0, axfr_stream(rng, chain[-1])
        recs = [list(x) for x in recs]
        if len(recs) < 4:
            continue
        shape = rng.choice([0, 0, 1, 1, 2])
        if shape == 1 or (shape == 0 and rng.random() < 0.4):
            # an error after part of the stream has been applied: a record that cannot be deleted / a foreign SOA /
            # a class that is not the zone's, somewhere after the third record
            pos = rng.randint(3, len(recs) - 1)
            f = rng.random()
            if f < 0.4:
                recs[pos:pos] = [[0, IN, SOA, 0, 300, (5 << 32) | ((s0 + 77) % T32)]]
            elif f < 0.7:
                recs[pos:pos] = [[1, CH, TXT, 0, 300, 1]]
            else:
                recs[pos:pos] = [[0 if rng.random() < 0.5 else 1, IN, SOA, 0, 300, (1 << 32) | 12345]]
            keep = None
        else:
            # the stream stops early: only a proper prefix of the messages is fed (at least three records of it)
            keep = rng.randint(3, len(recs) - 1)
        cuts = rand_cuts(rng, len(recs), allow_empty=False)
        chunks = split(recs, cuts)
        if keep is not None:
            out, cnt = [], 0
            for c in chunks:
                if cnt + len(c) > keep:
                    break
                out.append(c)
                cnt += len(c)
            if cnt < 2:
                out = [recs[:keep]]
            chunks = out
        msgs = [[0, [], [[x[0], x[1], x[2], x[3], x[4], [x[5]]] for x in c]] for c in chunks]
        yield "usage", [2, zk, rel, rdt, ser, 0, zdump(chain[0]), msgs, [ANY, None], shape]


def refresh_cases(ctx, rng, n):
    """end to end: a server with versions V[0..m]; the client (plain / versioned with retained history /
    btree, optionally with a reader pinned across the commits) starts at V[0] (or empty, or unrelated)
    and refreshes repeatedly; the server answers according to the serial found in the client's query"""
    for _ in range(n):
        zk = rng.randrange(3)
        rel = rng.randrange(2)
        maxver = rng.choice([-1, 1, 3, 3, 0, 0]) if zk != 0 else -1
        pin = int(rng.random() < 0.35) if zk != 0 else 0
        m = rng.choice([2, 3, 4])
        W = gen_chain(rng, m + 1, size=rng.choice([1, 2, 4]))
        V = W[1:]
        r = rng.random()
        # the client starts at the server's oldest version, empty, or with an older zone the server has no history for
        z0 = V[0] if r < 0.75 else ({} if r < 0.85 else gen_zone(rng, soa_id(W[0]) & 0xFFFFFFFF, size=2))
        targets = sorted(set(rng.choice(range(1, m + 1)) for _ in range(rng.randint(1, 3))) | {m})
        if rng.random() < 0.3:
            targets.insert(rng.randrange(len(targets) + 1), targets[rng.randrange(len(targets))])
            targets.sort()
        refreshes = []
        for j in targets:
            table = []
            known = [k for k in range(j) if rng.random() < 0.9]     # versions the server still has history for
            for k in known:
                chain = V[k:j + 1] if rng.random() < 0.8 else [V[k], V[j]]
                recs = ixfr_stream(rng, chain, shuffle=rng.random() < 0.5)
                table.append([soa_id(V[k]) & 0xFFFFFFFF, msgs_of(split(recs, rand_cuts(rng, len(recs))), IXFR, rng.choice([0, 1]))])
            table.append([soa_id(V[j]) & 0xFFFFFFFF, msgs_of([[soa_rec(V[j])]], IXFR)])
            recs = axfr_stream(rng, V[j], shuffle=rng.random() < 0.5)
            table.append([None, msgs_of(split(recs, rand_cuts(rng, len(recs))), IXFR, 0)])
            refreshes.append([zdump(V[j]), table])
        yield "refresh", [6, zk, rel, maxver, pin, zdump(z0), refreshes]


def top_cases(ctx, rng, n):
    """dns.query.inbound_xfr end to end over loopback sockets: udp_mode NEVER / TRY_FIRST / ONLY; the UDP
    answer is the complete response, the bare SOA (use TCP), or a broken one"""
    for _ in range(n):
        zk, rel = rng.randrange(3) + (3 if rng.random() < 0.4 else 0), rng.randrange(2)   # 3..5: dns.asyncquery.inbound_xfr
        mode = rng.choice([0, 1, 1, 2])
        chain = gen_chain(rng, rng.choice([1, 2]), size=rng.choice([1, 2, 4]))
        r = rng.random()
        z0 = chain[0] if r < 0.8 else ({} if r < 0.9 else gen_zone(rng, soa_id(chain[0]) & 0xFFFFFFFF, size=2))
        s0 = (soa_id(z0) & 0xFFFFFFFF) if z0 else None
        same = z0 is chain[0]
        recs = ixfr_stream(rng, chain, shuffle=rng.random() < 0.5) if same else axfr_stream(rng, chain[-1])
        tcp_msgs = msgs_of(split(recs, rand_cuts(rng, len(recs))), IXFR if s0 is not None else AXFR, rng.choice([0, 1]))
        u = rng.random()
        if u < 0.4:
            udp_msgs, udp_ok = msgs_of([recs], IXFR), True                       # complete answer in one datagram
        elif u < 0.8:
            udp_msgs, udp_ok = msgs_of([[soa_rec(chain[-1])]], IXFR), None      # "use TCP"
        else:
            udp_msgs, udp_ok = msgs_of([recs[:max(2, len(recs) - 1)]], IXFR), False   # incomplete datagram
        tu = [[s0, udp_msgs], [None, udp_msgs]]
        tt = [[s0, tcp_msgs], [None, msgs_of(split(axfr_stream(rng, chain[-1]), []), AXFR)]]
        # expectation: 1 converge, 2 error
        if s0 is None or mode == 0:
            exp = VALID
        elif udp_ok is True:
            exp = VALID
        elif udp_ok is None:
            exp = VALID if mode == 1 else MUSTERR
        else:
            exp = MUSTERR
        yield "top", [8, zk, rel, mode, zdump(z0), tu, tt, [exp, zdump(chain[-1])]]


def top_query_cases(ctx, rng, n):
    """dns.query.inbound_xfr with an explicit query: serial argument None / 0 / the zone's / an older one the
    server has no history for / out of range; with and without a TSIG keyring; the three UDP modes"""
    for _ in range(n):
        zk, rel = rng.randrange(3) + (3 if rng.random() < 0.4 else 0), rng.randrange(2)   # 3..5: dns.asyncquery.inbound_xfr
        chain = gen_chain(rng, rng.choice([1, 2]), size=rng.choice([1, 2, 4]))
        z0 = chain[0]
        s0 = soa_id(z0) & 0xFFFFFFFF
        kr = rng.randrange(2)
        older = (s0 - 1) % T32
        qser = rng.choice([None, 0, 0, s0, s0, older, older] + ([T32, -1] if rng.random() < 0.15 else []))
        if qser == 0 and s0 == 0:
            continue
        if qser is not None and qser != 0 and not (0 < qser < T32):
            yield "topq-bad-serial", [12, zk, rel, 0, zdump(z0), [], [], qser, kr, [MUSTERR, None]]
            continue
        if older == 0 and qser == older:
            continue
        base = None if qser is None else (s0 if qser in (0, s0) else qser)
        rdt = AXFR if base is None else IXFR
        sg = lambda msgs, flags=None: [m + [1 if flags is None else flags[i]] for i, m in enumerate(msgs)]
        ix = ixfr_stream(rng, chain, shuffle=rng.random() < 0.5)
        ax = axfr_stream(rng, chain[-1])
        tcp_ix = msgs_of(split(ix, rand_cuts(rng, len(ix))), IXFR)
        tcp_ax = msgs_of(split(ax, rand_cuts(rng, len(ax))), rdt)
        last_unsigned = kr and rng.random() < 0.25
        mode = 0 if last_unsigned else rng.choice([0, 1, 1, 2])
        def flags(k):
            return None if not last_unsigned else [1] * (k - 1) + [0]
        tt = [[s0, sg(tcp_ix, flags(len(tcp_ix)))], [None, sg(tcp_ax, flags(len(tcp_ax)))]]
        u = rng.random()
        if u < 0.4:
            udp_ix, udp_ax, udp_ok = sg(msgs_of([ix], IXFR)), sg(msgs_of([ax], IXFR)), True
        elif u < 0.8:
            udp_ix = udp_ax = sg(msgs_of([[soa_rec(chain[-1])]], IXFR))
            udp_ok = None
        else:
            udp_ix, udp_ax, udp_ok = sg(msgs_of([ix[:max(2, len(ix) - 1)]], IXFR)), sg(msgs_of([ax[:max(2, len(ax) - 1)]], IXFR)), False
        tu = [[s0, udp_ix], [None, udp_ax]]
        if last_unsigned:
            exp = MUSTERR
        elif rdt == AXFR or mode == 0 or udp_ok is True:
            exp = VALID
        elif udp_ok is None:
            exp = VALID if mode == 1 else MUSTERR
        else:
            exp = MUSTERR
        yield "topq", [12, zk, rel, mode, zdump(z0), tu, tt, qser, kr, [exp, zdump(chain[-1])]]


def legacy_cases(ctx, rng, n):
    """valid AXFR responses (some with out-of-zone glue, which from_xfr keeps) through dns.query.xfr +
    dns.zone.from_xfr; model: legacy_axfr"""
    for _ in range(n):
        z = gen_zone(rng, rng.randrange(T32))
        recs = axfr_stream(rng, z, shuffle=rng.random() < 0.6, glue=rng.random() < 0.35)
        msgs = msgs_of(split(recs, rand_cuts(rng, len(recs))), AXFR, rng.choice([0, 1, 2]))
        exp = copyz(z)
        for r in recs:
            if r[0] < 0:
                k = (r[0], r[2], r[3])
                exp[k] = (min(exp[k][0], r[4]), exp[k][1] | {r[5]}) if k in exp else (r[4], {r[5]})
        yield "legacy-xfr", [9, rng.randrange(2), msgs, [[e[0] + 10] + e[1:] for e in zdump(exp)]]


def tsig_cases(ctx, rng, n):
    """TSIG-signed transfers (the message carries a had_tsig flag in the model): every message signed; only some signed (first and last always);
    the last message unsigned (RFC 8945 5.3.1: must be rejected)"""
    for _ in range(n):
        zk, rel = rng.randrange(3), rng.randrange(2)
        chain = gen_chain(rng, rng.choice([1, 2]), size=rng.choice([1, 3]))
        s0 = soa_id(chain[0]) & 0xFFFFFFFF
        if rng.random() < 0.6:
            rdt, ser, recs = IXFR, s0, ixfr_stream(rng, chain)
        else:
            rdt, ser, recs = AXFR, None, axfr_stream(rng, chain[-1])
        chunks = split(recs, sorted(set(rand_cuts(rng, len(recs)))))
        msgs = msgs_of(chunks, rdt)
        k = len(msgs)
        r = rng.random()
        if rng.random() < 0.12:
            # the up-to-date answer, signed or not (the check after the message loop)
            sg = rng.randrange(2)
            z = chain[-1]
            m1 = msgs_of([[soa_rec(z)]], IXFR)[0] + [sg]
            yield ("tsig-uptodate-signed" if sg else "tsig-uptodate-unsigned"), \
                [11, zk, rel, IXFR, soa_id(z) & 0xFFFFFFFF, zdump(z), [m1], [VALID if sg else MUSTERR, zdump(z)]]
            continue
        if r < 0.4:
            signed, kind, tag = [1] * k, "tsig-all-signed", VALID
        elif r < 0.7 or k < 2:
            signed = [1] + [rng.randrange(2) for _ in range(k - 2)] + ([1] if k > 1 else [])
            kind, tag = "tsig-some-signed", VALID
        else:
            signed = [1] + [rng.randrange(2) for _ in range(k - 2)] + [0]
            kind, tag = "tsig-last-unsigned", MUSTERR
        msgs = [m + [sg] for m, sg in zip(msgs, signed)]
        yield kind, [11, zk, rel, rdt, ser, zdump(chain[0]), msgs, [tag, zdump(chain[-1])]]


def in_model(kind, case):
    return True


def misc_cases(ctx, rng):
    edge = [0, 1, 2, 2 ** 31 - 1, 2 ** 31, 2 ** 31 + 1, 2 ** 32 - 2, 2 ** 32 - 1]
    for a in edge:
        for b in edge:
            yield "serial", [4, a, b]
    for _ in range(ctx.n(200, 3000)):
        a = rng.randrange(T32)
        b = (a + rng.choice([0, 1, -1, 2 ** 31, 2 ** 31 - 1, 2 ** 31 + 1, rng.randrange(T32)])) % T32
        if rng.random() < 0.1:
            b += T32
        yield "serial", [4, a, b]
    for _ in range(ctx.n(100, 1000)):
        yield "serial-add", [7, rng.choice(edge + [rng.randrange(T32)]),
                             rng.choice([0, 1, -1, 2 ** 31 - 1, 2 ** 31, -(2 ** 31 - 1), -(2 ** 31), rng.randrange(-2 ** 31, 2 ** 31)])]
    for qt in [AXFR, IXFR, SOA, A]:
        for au in [None, 0, 7, 2 ** 32 - 1]:
            yield "extract", [10, qt, au]
    # Inbound.__init__: IXFR needs a serial, AXFR cannot be done over UDP, nothing else is a transfer
    z1 = gen_zone(rng, 5, size=2)
    z2 = mutate(rng, z1, 6, nops=2)
    for zk in range(3):
        for rdt, ser, udp in [(AXFR, None, 1), (AXFR, 5, 1), (IXFR, None, 0), (IXFR, None, 1), (A, None, 0), (SOA, 5, 0),
                              (AXFR, None, 0), (AXFR, 5, 0), (IXFR, 5, 0), (IXFR, 5, 1)]:
            recs = ixfr_stream(rng, [z1, z2]) if rdt == IXFR else axfr_stream(rng, z2)
            msgs = [[0, [], [[x[0], x[1], x[2], x[3], x[4], [x[5]]] for x in recs]]]
            yield "init", [2, zk, rng.randrange(2), rdt, ser, udp, zdump(z1), msgs, [ANY, None]]
    for zs in [None, 1, 77, 2 ** 32 - 1, 5]:
        for ser in [None, 0, 1, 5, 2 ** 32 - 1, 2 ** 32, -1, 2 ** 33]:
            yield "make_query", [3, zs, ser]
    for _ in range(ctx.n(150, 2000)):
        recs = []
        for _ in range(rng.randint(0, 10)):
            k = gen_key(rng, [0, 1, 2, -1])
            if rng.random() < 0.15:
                recs.append([rng.choice([0, 0, 1]), IN, SOA, 0, 300, rng.randrange(3)])
            else:
                c = IN if rng.random() < 0.85 or k[1] in (A, AAAA, RRSIG, DNAME, NSEC, CNAME) else CH
                recs.append([k[0], c, k[1], k[2], rng.choice([0, 5, 300, 300, 2147483647, 2147483648, 4294967295]), rng.randrange(3)])
        yield "group", [5, rng.randrange(2), recs]


def cases(ctx):
    rng = ctx.rng
    yield from misc_cases(ctx, rng)
    yield from exhaustive_cases(ctx, rng)
    yield from deleg_cases(ctx)
    yield from valid_cases(ctx, rng, ctx.n(400, 4500))
    yield from must_error_cases(ctx, rng, ctx.n(350, 3000))
    yield from fault_cases(ctx, rng, ctx.n(400, 4500))
    yield from singleton_cases(ctx, rng, ctx.n(80, 800))
    yield from cname_cases(ctx, rng, ctx.n(150, 1500))
    yield from malformed_cases(ctx, rng, ctx.n(300, 4500))
    yield from feed_cases(ctx, rng, ctx.n(200, 2000))
    yield from usage_cases(ctx, rng, ctx.n(200, 2000))
    yield from refresh_cases(ctx, rng, ctx.n(200, 2500))
    yield from tsig_cases(ctx, rng, ctx.n(60, 600))
    if get_server() is not None:
        yield from top_cases(ctx, rng, ctx.n(100, 800))
        yield from top_query_cases(ctx, rng, ctx.n(120, 1000))
        yield from legacy_cases(ctx, rng, ctx.n(60, 500))
    else:
        ctx.notes["loopback"] = "no local sockets: dns.query.inbound_xfr / dns.query.xfr socket-level cases skipped"


# ------------------------------------------------------------------ oracle


def oracle(ctx, kind, case, out):
    F = []

    def fail(what, **kw):
        F.append({"kind": "C13:" + what, "what": what, "impl": out, "case_kind": kind, **kw})

    op = case[0]
    if isinstance(out, Err):
        if op in (1, 2, 6, 8, 9, 11, 12) or out.code >= 900:
            fail("unexpected exception " + out.text)
        return F
    if op == 4:
        a, b = case[1] % T32, case[2] % T32
        lt = int(a != b and 0 < (b - a) % T32 < 2 ** 31)
        gt = int(a != b and 0 < (a - b) % T32 < 2 ** 31)
        if (b - a) % T32 != 2 ** 31 and out != [lt, int(lt or a == b), gt, int(gt or a == b), int(a == b)]:
            fail("Serial comparison differs from RFC 1982")
        return F
    if op == 7:
        a, d = case[1] % T32, case[2]
        if abs(d) <= 2 ** 31 - 1 and out != (a + d) % T32:
            fail("Serial addition differs from RFC 1982")
        return F
    if op == 3:
        if isinstance(out, list) and len(out) == 3 and not isinstance(out[2], Err) and out[1] != out[2]:
            fail("extract_serial_from_query(make_query(...)) is not the serial make_query returned")
        return F
    if op == 2:
        res, dump = out
        z0 = case[6]
        if 1000 not in res and dump != z0:
            fail("the zone changed although no process_message call returned True", sig="changed-without-done")
        if kind == "init":
            rdt, ser, udp = case[3], case[4], case[5]
            refuse = (rdt == IXFR and ser is None) or (rdt == AXFR and udp) or rdt not in (AXFR, IXFR)
            if refuse != (res == [32]):
                fail("Inbound(...) must refuse exactly: IXFR without a serial, AXFR over UDP, any other rdtype (ValueError)",
                     sig="init-arguments")
        return F
    if op == 6:
        prev = case[5]
        for i, ((target, _table), res) in enumerate(zip(case[6], out)):
            if isinstance(res, Err):
                fail(f"refresh {i}: make_query / extract_serial_from_query raised {res.text}", sig="refresh-query")
                break
            qt, s, s2, code, dump = res
            cur = next((e[4][0] & 0xFFFFFFFF for e in prev if e[:3] == [0, SOA, 0] and e[4]), None)
            if s != cur:
                fail(f"refresh {i}: make_query used serial {s} but the zone's current SOA serial is {cur}", sig="refresh-stale-serial")
            if s2 != s:
                fail(f"refresh {i}: extract_serial_from_query gave {s2}, make_query returned {s}", sig="refresh-extract")
            if qt != (IXFR if cur is not None else AXFR):
                fail(f"refresh {i}: query type {qt}", sig="refresh-qtype")
            if code != 0:
                fail(f"refresh {i}: a valid response for the serial in the query was rejected ({code})", sig="refresh-rejected")
            elif dump != target:
                fail(f"refresh {i}: the zone is not the server's newest version after the refresh", sig="refresh-wrong-zone")
            if F:
                break
            prev = target
        if len(out) != len(case[6]) and not F:
            fail("refresh sequence stopped early", sig="refresh-short")
        return F
    if op == 11:
        code, dump = out
        z0 = case[5]
        tag, target = case[7]
        if code != 0 and dump != z0:
            fail("an error was reported but the zone is not what it was before the transfer", sig="error-after-apply")
        if tag == VALID and (code != 0 or dump != target):
            fail("a correctly signed transfer was rejected or did not converge", sig="tsig-valid-rejected")
        if tag == MUSTERR and code == 0:
            fail("a transfer whose last message is unsigned was accepted", sig="tsig-accepted")
        return F
    if op == 9:
        if out != case[3]:
            fail("dns.zone.from_xfr(dns.query.xfr(...)) of a valid AXFR is not the server's zone", sig="legacy-wrong-zone")
        return F
    if op in (8, 12):
        code, dump = out
        z0 = case[4]
        tag, target = case[7] if op == 8 else case[9]
        if code != 0 and dump != z0:
            fail("inbound_xfr raised but the zone is not what it was", sig="top-error-after-apply")
        if tag == VALID and (code != 0 or dump != target):
            fail("inbound_xfr did not bring the zone to the server's version", sig="top-not-converged")
        if tag == MUSTERR and code == 0:
            fail("inbound_xfr accepted an answer that must be rejected", sig="top-accepted")
        return F
    if op != 1:
        return F
    code, n, dump = out
    _, zk, rel, rdt, ser, udp, z0, msgs, (tag, target) = case
    if code != 0 and dump != z0:
        fail("an error was reported but the zone is not what it was before the transfer", sig="error-after-apply")
    if tag == VALID:
        if code != 0:
            fail("a valid response stream was rejected", sig="valid-rejected")
        elif dump != target:
            fail("transfer completed but the zone is not the server's target version", sig="wrong-zone")
    elif tag == MUSTERR:
        if code == 0:
            fail("a stream that must be rejected was accepted", sig="accepted")
    elif tag == FAULT and code == 0:
        ref = reference(z0, rdt, ser, udp, msgs)
        if ref[0] != "ok":
            fail("a malformed stream was accepted and applied: " + ref[1], sig="accepted-malformed", why=ref[1])
        elif zdump(ref[1]) != dump:
            fail("transfer completed but the zone is not what the stream denotes", sig="wrong-zone-fault")
    return F
