"""records.py - abstract record values for every implemented rdata type (shared generator).

The table of types comes from tools/translate_rdtypes.py (run once per process on $VERIF_REPO):
for the "schema" types it gives the wire fields, the constructor parameter each field belongs
to and the parameter kinds; the "hand" types (HIP, IPSECKEY, AMTRELAY, APL, LOC, GPOS, OPT,
SVCB, HTTPS) have generators written here.  Values are built into rdata objects through the
CLASS CONSTRUCTOR (never through from_wire/from_text), so they are independent of either codec.

API
    T = table()                      -> Table (cached).  T.ok / T.errors: translator status
    T.types                          -> list of type dicts  (name, module, rdclass, rdtype, kind, ...)
    T.by_name("MX") / T.lookup(rdclass, rdtype)  (lookup mirrors get_rdata_class; None = GenericRdata)
    implemented()                    -> [(rdclass, rdtype, name)] for every implemented type
    gen_values(rng, t, names="abs"|"rel"|"mixed", origin=None, profile=None) -> abstract values
    make_rdata(t, rdclass, values)   -> dns.rdata.Rdata   (raises what the constructor raises)
    values_of(t, rd)                 -> abstract values read back from the object's attributes
    is_schema(t)                     -> bool (values are one entry per wire field, wire order)
    corners(t)                       -> [(values, origin)] deterministic boundary records (every field at
                                        0 / max / high bit / carry boundaries / empty / maximal / zero rows ...)
    dec_corners(t)                   -> [octets] accepted-but-not-canonical RDATA (where a codec normalises)
    names_in(t, values)              -> the name values inside an abstract value
    impl_class(t)                    -> the implementing class, imported by module path

Abstract values (JSON-able through lib.jsonable, and directly convertible to Coq `obs`):
    integer field -> int          octet field -> bytes        name -> list of labels (bytes);
    absolute iff the last label is b""       repeated rows -> list of rows (each a list)
    ipv4/ipv6/hex64 parameters are carried as their 4/16/8 octets.
Hand types: HIP [hit, alg, key, [[name]...]]; IPSECKEY [prec, gwtype, alg, gw, key] with gw None |
    4 octets | 16 octets | name; AMTRELAY [prec, D, type, relay]; APL [[[family, neg, addr, prefix]...]];
    GPOS [lat, lon, alt] (ASCII); LOC [[d,m,s,ms,sign],[d,m,s,ms,sign], alt_cm, size_cm, hp_cm, vp_cm];
    OPT [[[otype, payload]...]]; SVCB/HTTPS [priority, target, [[key, value octets]...]].
"""
import importlib
import os
import socket
import sys

sys.path.insert(0, os.path.join(os.path.dirname(os.path.dirname(os.path.abspath(__file__))), "tools"))

import dns.edns
import dns.name
import dns.rdata
import dns.rdataclass
import dns.rdatatype
import dns.rdtypes.svcbbase as svcb

import namelib as nl
import translate_rdtypes as TR

REPO = os.environ.get("VERIF_REPO", "/repo")

_TABLE = None


SNAPSHOT = os.path.join(os.path.dirname(os.path.dirname(os.path.abspath(__file__))), "meta", "C02.schema_snapshot.json")


class Table:
    def __init__(self, tr):
        self.tr = tr          # the translation of the tree under test, untouched (model side)
        self.ok = tr["ok"]
        self.errors = tr["errors"]
        # generator side: a type whose translation fails NOW (construct outside the idiom set) is
        # still exercised by the oracle, with the field description of the committed snapshot
        # (meta/C02.schema_snapshot.json, written by `tools/translate_rdtypes.py --snapshot`)
        self.types = list(tr["types"])
        if any(t["kind"] == "error" for t in self.types) and os.path.exists(SNAPSHOT):
            import json

            snap = {t["module"]: t for t in json.load(open(SNAPSHOT))["types"]}
            for i, t in enumerate(self.types):
                if t["kind"] == "error" and t["module"] in snap and snap[t["module"]]["kind"] == "schema":
                    self.types[i] = dict(snap[t["module"]], from_snapshot=True, error=t.get("error"))
        self._by = {(t["rdclass"], t["rdtype"]): t for t in self.types}
        self._name = {}
        for t in self.types:
            self._name.setdefault(t["name"], t)
            self._name[t["module"]] = t

    def by_name(self, name):
        return self._name[name]

    def lookup(self, rdclass, rdtype):
        return self._by.get((rdclass, rdtype)) or self._by.get((255, rdtype))


def table():
    global _TABLE
    if _TABLE is None:
        _TABLE = Table(TR.translate(REPO))
    return _TABLE


def is_schema(t):
    return t is not None and t["kind"] == "schema"


def implemented():
    """every (rdclass, rdtype) with a non-generic implementation, found through the library's
    own dispatch (dns.rdatatype members x {IN, CH}); rdclass IN stands for the ANY modules"""
    out = []
    for rdtype in dns.rdatatype.RdataType:
        for rdclass in (dns.rdataclass.IN, dns.rdataclass.CH):
            cls = dns.rdata.get_rdata_class(rdclass, rdtype)
            if cls is not dns.rdata.GenericRdata:
                if rdclass == dns.rdataclass.CH and cls is dns.rdata.get_rdata_class(dns.rdataclass.IN, rdtype):
                    continue
                out.append((int(rdclass), int(rdtype), dns.rdatatype.to_text(rdtype)))
    return out


# ----------------------------------------------------------------------------- conversions


def name_obj(labels):
    return dns.name.Name(labels)


def labels_of(n):
    return [bytes(l) for l in n.labels]


def hex64_text(b):
    h = bytes(b).hex()
    return ":".join(h[i : i + 4] for i in range(0, 16, 4))


def to_ctor(kind, v):
    if kind == "int":
        return v
    if kind == "bytes":
        return bytes(v)
    if kind == "name":
        return name_obj(v)
    if kind == "ipv4":
        return socket.inet_ntop(socket.AF_INET, bytes(v)) if len(v) == 4 else bytes(v)
    if kind == "ipv6":
        return socket.inet_ntop(socket.AF_INET6, bytes(v)) if len(v) == 16 else bytes(v)
    if kind == "hex64":
        return hex64_text(v) if len(v) == 8 else bytes(v)
    if kind == "bytes_list":
        return tuple(bytes(r[0]) for r in v)
    if kind == "name_list":
        return tuple(name_obj(r[0]) for r in v)
    if kind == "rows":
        return tuple((r[0], bytes(r[1])) for r in v)
    raise ValueError(kind)


def from_attr(kind, a):
    if kind == "int":
        return int(a)
    if kind == "bytes":
        return bytes(a)
    if kind == "name":
        return labels_of(a)
    if kind == "ipv4":
        return socket.inet_pton(socket.AF_INET, a)
    if kind == "ipv6":
        return socket.inet_pton(socket.AF_INET6, a)
    if kind == "hex64":
        return bytes.fromhex(a.replace(":", ""))
    if kind == "bytes_list":
        return [[bytes(x)] for x in a]
    if kind == "name_list":
        return [[labels_of(x)] for x in a]
    if kind == "rows":
        return [[int(w), bytes(b)] for w, b in a]
    raise ValueError(kind)


# ----------------------------------------------------------------------------- construction


def impl_class(t):
    """the implementation class, imported by module path (independent of get_rdata_class)"""
    mod = importlib.import_module("dns.rdtypes." + t["module"].replace("/", "."))
    return getattr(mod, t["name"])


def make_rdata(t, rdclass, values):
    cls = impl_class(t)
    if t["kind"] == "schema":
        args = [None] * len(t["params"])
        for fl, v in zip(t["writer"], values):
            args[fl["p"]] = to_ctor(t["pkinds"][fl["p"]], v)
        return cls(rdclass, t["rdtype"], *args)
    return HAND_MAKE[t["hand"]](cls, rdclass, t["rdtype"], values)


def values_of(t, rd):
    if t["kind"] == "schema":
        attr_of = {p: a for a, p in t["attrs"].items()}
        return [from_attr(t["pkinds"][fl["p"]], getattr(rd, attr_of[fl["p"]])) for fl in t["writer"]]
    return HAND_VALUES[t["hand"]](rd)


# ----------------------------------------------------------------------------- generators

BOUND = [0, 1, 0x7F, 0x80, 0xFF]


def gen_bytes(rng, n):
    r = rng.random()
    if r < 0.15:
        return bytes([rng.choice([0, 0xFF, 0x80, 0x41])]) * n
    if r < 0.3:
        return bytes(rng.choice(nl.INTERESTING) for _ in range(n))
    return bytes(rng.randrange(256) for _ in range(n))


def gen_len(rng, lo, hi, profile, big=300):
    hi_eff = hi
    if profile == "min":
        return lo
    if profile == "max":
        return min(hi_eff, big if hi > 255 else hi)
    r = rng.random()
    if r < 0.2:
        return lo
    if r < 0.3:
        return min(hi, lo + 1)
    if r < 0.42 and hi <= 255:
        return hi
    if r < 0.5:
        return min(hi, rng.choice([127, 128, 254, 255, 256, big]))
    return rng.randint(lo, min(hi, 24))


def gen_uint(rng, w, mx, profile):
    top = 256 ** w - 1
    if profile == "min" or profile == "zero":
        return 0
    if profile == "max":
        return mx
    if profile == "high":
        return min(mx, 1 << (8 * w - 1))
    r = rng.random()
    if r < 0.45:
        return min(mx, rng.choice([0, 1, 1 << (8 * w - 1), (1 << (8 * w - 1)) - 1, top, top - 1, mx, 0x0102030405 & top, 255, 256 & top]))
    return rng.randint(0, mx)


def gen_name(rng, names, origin):
    """names: 'abs' | 'rel' | 'mixed'.  With an origin, relative names must fit together with it."""
    rel = names == "rel" or (names == "mixed" and rng.random() < 0.5)
    if rel:
        room = 255 - (sum(len(l) + 1 for l in origin) if origin else 1)
        for _ in range(50):
            ls = nl.gen_labels(rng, absolute=False, budget=rng.choice([10, 30, max(1, room)]))
            if sum(len(l) + 1 for l in ls) <= room:
                return ls
        return []
    r = rng.random()
    if origin and r < 0.25:
        # absolute name below the origin (decoding with the origin relativizes it)
        ls = nl.gen_labels(rng, absolute=False, budget=20) + list(origin)
        if nl.fits(ls):
            return ls
    return nl.gen_labels(rng, absolute=True)


def gen_sfield(rng, fl, names, origin, profile):
    k = fl["k"]
    if k == "U":
        return gen_uint(rng, fl["w"], fl["max"], profile)
    if k == "Fixed":
        return gen_bytes(rng, fl["n"])
    if k == "Counted":
        return gen_bytes(rng, gen_len(rng, fl["lo"], fl.get("gen_hi", fl["hi"]), profile))
    if k == "Name":
        return gen_name(rng, names, origin)
    raise ValueError(k)


def gen_field(rng, fl, names, origin, profile):
    k = fl["k"]
    if k in ("U", "Fixed", "Counted", "Name"):
        return gen_sfield(rng, fl, names, origin, profile)
    if k == "Remaining":
        return gen_bytes(rng, gen_len(rng, fl.get("lo", 0), 65535, profile))
    if k == "RemN":
        return gen_bytes(rng, fl["n"])
    if k == "OptC8":
        return gen_bytes(rng, gen_len(rng, 0, fl["hi"], profile))
    if k == "Repeat":
        lo = 1 if fl["min1"] else 0
        if profile in ("min", "zero"):
            n = lo
        elif profile == "max":
            n = 6
        else:
            n = rng.choice([lo, lo, 1, 1, 2, 3, 5, 9])
        if fl.get("asc"):
            n = min(n, 256)
            wins = sorted(rng.sample(range(256), n))
            if n and rng.random() < 0.3:
                wins[0] = 0
            if n and rng.random() < 0.3:
                wins[-1] = 255
            wins = sorted(set(wins))
            return [[w, gen_bytes(rng, gen_len(rng, 1, 32, profile))] for w in wins]
        rows = []
        for _ in range(n):
            rows.append([gen_sfield(rng, r, names, origin, profile) for r in fl["row"]])
        return rows
    raise ValueError(k)


def repair(rng, t, vals):
    """make the record-level constructor checks hold"""
    ck = t["check"]["id"]
    if ck == "ds":
        tbl = {int(k): v for k, v in t["check"]["table"].items()}
        if rng.random() < 0.75:
            dt = rng.choice(sorted(tbl))
            vals[2] = dt
            vals[3] = gen_bytes(rng, tbl[dt])
        else:
            while vals[2] in tbl or vals[2] == 0:
                vals[2] = rng.randrange(1, 256)
    elif ck == "caa":
        n = max(1, len(vals[1]))
        vals[1] = bytes(rng.choice(b"abcxyzABCXYZ0189") for _ in range(n))
    elif ck == "gpos":
        vals[0], vals[1], vals[2] = g_float_text(rng, 90), g_float_text(rng, 180), g_float_text(rng, 100000)
    elif ck == "zonemd":
        if vals[1] == 0:
            vals[1] = rng.choice([1, 2, 255])
        if vals[2] == 0:
            vals[2] = rng.choice([1, 2, 3, 255])
        if vals[2] == 1:
            vals[3] = gen_bytes(rng, 48)
        elif vals[2] == 2:
            vals[3] = gen_bytes(rng, 64)
    return vals


PROFILES = [None, None, None, None, "min", "max", "high", "zero"]


def gen_values(rng, t, names="abs", origin=None, profile=None):
    if profile is None:
        profile = rng.choice(PROFILES)
    if t["kind"] == "schema":
        vals = [gen_field(rng, fl, names, origin, profile) for fl in t["writer"]]
        return repair(rng, t, vals)
    return HAND_GEN[t["hand"]](rng, names, origin, profile)


# ----------------------------------------------------------------------------- hand types


def g_hip(rng, names, origin, profile):
    hit = gen_bytes(rng, gen_len(rng, 0, 255, profile))
    key = gen_bytes(rng, gen_len(rng, 0, 65535, profile))
    n = 0 if profile in ("min", "zero") else rng.choice([0, 1, 2, 4])
    return [hit, gen_uint(rng, 1, 255, profile), key, [[gen_name(rng, names, origin)] for _ in range(n)]]


def m_hip(cls, rdclass, rdtype, v):
    return cls(rdclass, rdtype, bytes(v[0]), v[1], bytes(v[2]), [name_obj(r[0]) for r in v[3]])


def v_hip(rd):
    return [bytes(rd.hit), int(rd.algorithm), bytes(rd.key), [[labels_of(s)] for s in rd.servers]]


def g_gateway(rng, gtype, names, origin):
    if gtype == 0:
        return None
    if gtype == 1:
        return gen_bytes(rng, 4)
    if gtype == 2:
        return gen_bytes(rng, 16)
    return gen_name(rng, names, origin)


def c_gateway(gtype, g):
    if gtype == 0:
        return None
    if gtype == 1:
        return socket.inet_ntop(socket.AF_INET, bytes(g))
    if gtype == 2:
        return socket.inet_ntop(socket.AF_INET6, bytes(g))
    return name_obj(g)


def a_gateway(gtype, g):
    if gtype == 0:
        return None
    if gtype == 1:
        return socket.inet_pton(socket.AF_INET, g)
    if gtype == 2:
        return socket.inet_pton(socket.AF_INET6, g)
    return labels_of(g)


def g_ipseckey(rng, names, origin, profile):
    gt = rng.randrange(4)
    return [gen_uint(rng, 1, 255, profile), gt, gen_uint(rng, 1, 255, profile), g_gateway(rng, gt, names, origin),
            gen_bytes(rng, gen_len(rng, 0, 65535, profile))]


def m_ipseckey(cls, rdclass, rdtype, v):
    return cls(rdclass, rdtype, v[0], v[1], v[2], c_gateway(v[1], v[3]), bytes(v[4]))


def v_ipseckey(rd):
    return [int(rd.precedence), int(rd.gateway_type), int(rd.algorithm), a_gateway(rd.gateway_type, rd.gateway), bytes(rd.key)]


def g_amtrelay(rng, names, origin, profile):
    rt = rng.randrange(4)
    return [gen_uint(rng, 1, 255, profile), rng.randrange(2), rt, g_gateway(rng, rt, names, origin)]


def m_amtrelay(cls, rdclass, rdtype, v):
    return cls(rdclass, rdtype, v[0], bool(v[1]), v[2], c_gateway(v[2], v[3]))


def v_amtrelay(rd):
    return [int(rd.precedence), int(rd.discovery_optional), int(rd.relay_type), a_gateway(rd.relay_type, rd.relay)]


def g_apl(rng, names, origin, profile):
    n = 0 if profile in ("min", "zero") else rng.choice([0, 1, 1, 2, 4])
    items = []
    for _ in range(n):
        fam = rng.choice([1, 1, 2, 2, 3, 0, 65535])
        neg = rng.randrange(2)
        if fam == 1:
            addr = gen_bytes(rng, 4)
            if rng.random() < 0.5:
                k = rng.randrange(5)
                addr = addr[:k] + b"\0" * (4 - k)
            prefix = rng.choice([0, 8, 24, 32, rng.randrange(33)])
        elif fam == 2:
            addr = gen_bytes(rng, 16)
            if rng.random() < 0.5:
                k = rng.randrange(17)
                addr = addr[:k] + b"\0" * (16 - k)
            prefix = rng.choice([0, 64, 128, rng.randrange(129)])
        else:
            addr = gen_bytes(rng, rng.choice([0, 1, 5, 63]))  # stored as hex text of at most 127 characters
            prefix = rng.randrange(256)
        items.append([fam, neg, addr, prefix])
    return [items]


def m_apl(cls, rdclass, rdtype, v):
    import dns.rdtypes.IN.APL as APL

    items = []
    for fam, neg, addr, prefix in v[0]:
        if fam == 1:
            a = socket.inet_ntop(socket.AF_INET, bytes(addr))
        elif fam == 2:
            a = socket.inet_ntop(socket.AF_INET6, bytes(addr))
        else:
            a = bytes(addr).hex().encode()
        items.append(APL.APLItem(fam, bool(neg), a, prefix))
    return cls(rdclass, rdtype, items)


def v_apl(rd):
    out = []
    for it in rd.items:
        if it.family == 1:
            a = socket.inet_pton(socket.AF_INET, it.address)
        elif it.family == 2:
            a = socket.inet_pton(socket.AF_INET6, it.address)
        else:
            a = bytes.fromhex(bytes(it.address).decode())
        out.append([int(it.family), int(it.negation), a, int(it.prefix)])
    return [out]


def g_float_text(rng, lim):
    sign = rng.choice(["", "", "-", "+"])
    whole = rng.randint(0, lim)
    r = rng.random()
    if r < 0.3:
        s = f"{whole}"
    elif r < 0.6:
        s = f"{whole}.{rng.randint(0, 999)}" if whole < lim else f"{whole}.0"
    elif r < 0.8:
        s = f"{whole}."
    else:
        s = f".{rng.randint(0, 99999)}"
    return (sign + s).encode()


def g_gpos(rng, names, origin, profile):
    return [g_float_text(rng, 90), g_float_text(rng, 180), g_float_text(rng, 100000)]


def m_gpos(cls, rdclass, rdtype, v):
    return cls(rdclass, rdtype, bytes(v[0]), bytes(v[1]), bytes(v[2]))


def v_gpos(rd):
    return [bytes(rd.latitude), bytes(rd.longitude), bytes(rd.altitude)]


def g_coord(rng, lim):
    r = rng.random()
    if r < 0.15:
        return [lim, 0, 0, 0, rng.choice([1, -1])]
    if r < 0.25:
        return [0, 0, 0, 0, 1]
    d = rng.randint(0, lim - 1)
    c = [d, rng.choice([0, 59, rng.randrange(60)]), rng.choice([0, 59, rng.randrange(60)]), rng.choice([0, 999, rng.randrange(1000)]), rng.choice([1, -1])]
    if c[:4] == [0, 0, 0, 0]:
        c[4] = 1      # the wire form cannot tell -0 from +0: the reader always answers +0
    return c


def g_size(rng):
    return rng.choice([0, rng.randint(0, 9) * 10 ** rng.randint(0, 9)])


def g_loc(rng, names, origin, profile):
    alt = rng.choice([0, -10000000, 4284967295, rng.randint(-10000000, 4284967295), rng.randint(-100000, 1000000)])
    return [g_coord(rng, 90), g_coord(rng, 180), alt, g_size(rng), g_size(rng), g_size(rng)]


def m_loc(cls, rdclass, rdtype, v):
    return cls(rdclass, rdtype, tuple(v[0]), tuple(v[1]), float(v[2]), float(v[3]), float(v[4]), float(v[5]))


def v_loc(rd):
    return [list(rd.latitude), list(rd.longitude), int(rd.altitude), int(rd.size), int(rd.horizontal_precision), int(rd.vertical_precision)]


def _ecs_payload(rng, fam=None, src=None):
    fam = fam or rng.choice([1, 2])
    full = 4 if fam == 1 else 16
    if src is None:
        src = rng.choice([0, 1, 7, 8, 9, 24, 8 * full - 1, 8 * full, rng.randint(0, 8 * full)])
    scope = rng.choice([0, src, rng.randint(0, 8 * full)])
    n = (src + 7) // 8
    addr = bytearray(gen_bytes(rng, n))
    if src % 8 and n:
        addr[-1] &= (0xFF << (8 - src % 8)) & 0xFF
    return bytes([0, fam, src, scope]) + bytes(addr)


def _utf8_text(rng, lo=0):
    n = rng.choice([lo, 1, 5, 40])
    s = "".join(rng.choice(["a", "Z", " ", "\u00e9", "\u4e2d", "\U0001f600", "0", "-"]) for _ in range(n))
    return s.encode("utf8")


def g_opt_payload(rng, ot, names="abs"):
    if ot == 10:
        return gen_bytes(rng, 8) + (gen_bytes(rng, rng.choice([8, 9, 31, 32])) if rng.random() < 0.6 else b"")
    if ot == 8:
        return _ecs_payload(rng)
    if ot == 15:
        return bytes([rng.randrange(256), rng.randrange(256)]) + _utf8_text(rng)
    if ot == 18:
        n = nl.gen_labels(rng, absolute=True)
        return b"".join(bytes([len(l)]) + l for l in n)
    if ot in (22, 23, 24, 25):
        return _utf8_text(rng)
    return gen_bytes(rng, gen_len(rng, 0, 65535, None))


def g_opt(rng, names, origin, profile):
    n = 0 if profile in ("min", "zero") else rng.choice([0, 1, 1, 2, 4])
    out = []
    for _ in range(n):
        ot = rng.choice([3, 10, 8, 8, 15, 15, 18, 22, 23, 24, 25, 65001, 4, 11, 12, 65535, 0, 9, 13, rng.randrange(26, 65536)])
        out.append([ot, g_opt_payload(rng, ot)])
    return [out]


def _name_from_wire_plain(b):
    labels, i = [], 0
    while True:
        n = b[i]
        labels.append(bytes(b[i + 1 : i + 1 + n]))
        i += 1 + n
        if n == 0:
            return labels


def m_opt(cls, rdclass, rdtype, v):
    opts = []
    for ot, data in v[0]:
        data = bytes(data)
        if ot == 3:
            opts.append(dns.edns.NSIDOption(data))
        elif ot == 10:
            opts.append(dns.edns.CookieOption(data[:8], data[8:]))
        elif ot == 8:
            fam, src, scope = data[1], data[2], data[3]
            full = 4 if fam == 1 else 16
            addr = data[4:] + bytes(full - len(data[4:]))
            text = socket.inet_ntop(socket.AF_INET if fam == 1 else socket.AF_INET6, addr)
            opts.append(dns.edns.ECSOption(text, src, scope))
        elif ot == 15:
            opts.append(dns.edns.EDEOption(int.from_bytes(data[:2], "big"), data[2:].decode("utf8") if len(data) > 2 else None))
        elif ot == 18:
            opts.append(dns.edns.ReportChannelOption(name_obj(_name_from_wire_plain(data))))
        elif ot == 22:
            opts.append(dns.edns.EDEExtraTextLanguageOption(data.decode("utf8")))
        elif ot == 23:
            opts.append(dns.edns.FilteringContactOption(data.decode("utf8")))
        elif ot == 24:
            opts.append(dns.edns.FilteringOrganizationOption(data.decode("utf8")))
        elif ot == 25:
            opts.append(dns.edns.FilteringDBOption(data.decode("utf8")))
        else:
            opts.append(dns.edns.GenericOption(ot, data))
    return cls(rdclass, rdtype, opts)


def v_opt(rd):
    return [[[int(o.otype), o.to_wire()] for o in rd.options]]


def g_svcb(rng, names, origin, profile):
    prio = rng.choice([0, 1, 1, 2, 65535, rng.randrange(65536)])
    target = gen_name(rng, names, origin)
    params = []
    if prio != 0 and profile not in ("min", "zero"):
        keys = sorted(set(rng.choice([1, 3, 4, 5, 6, 7, 8, 10, 11, 65280, 65534, rng.randrange(9, 65535)]) for _ in range(rng.choice([0, 1, 2, 3, 5]))))
        for k in keys:
            if k == 1:
                params.append([1, [[gen_bytes(rng, rng.choice([1, 2, 255, rng.randint(1, 10)]))] for _ in range(rng.randint(1, 3))]])
            elif k == 3:
                params.append([3, gen_uint(rng, 2, 65535, None)])
            elif k == 4:
                params.append([4, [[gen_bytes(rng, 4)] for _ in range(rng.randint(1, 3))]])
            elif k == 6:
                params.append([6, [[gen_bytes(rng, 16)] for _ in range(rng.randint(1, 3))]])
            elif k == 5:
                params.append([5, gen_bytes(rng, rng.randint(1, 40))])
            elif k == 8:
                params.append([8, None])
            elif k == 10:
                params.append([10, [[gen_bytes(rng, rng.randint(1, 10))] for _ in range(rng.randint(1, 3))]])
            else:
                params.append([k, gen_bytes(rng, rng.randint(1, 20))])
        ks = [p[0] for p in params]
        if 1 in ks and rng.random() < 0.4:
            params.append([2, None])
        if ks and rng.random() < 0.4:
            params.append([0, sorted(rng.sample(ks, rng.randint(1, len(ks))))])
        params.sort(key=lambda p: p[0])
    return [prio, target, [[k, _svcb_raw(k, p)] for k, p in params]]


def _svcb_raw(k, p):
    """wire form of one parameter value from its structured description"""
    if p is None:
        return b""
    if k == 0:
        return b"".join(int(x).to_bytes(2, "big") for x in p)
    if k in (1, 10):
        return b"".join(bytes([len(r[0])]) + bytes(r[0]) for r in p)
    if k == 3:
        return int(p).to_bytes(2, "big")
    if k in (4, 6):
        return b"".join(bytes(r[0]) for r in p)
    return bytes(p)


def _svcb_strlist(raw):
    out, i = [], 0
    while i < len(raw):
        n = raw[i]
        if n == 0 or i + 1 + n > len(raw):
            raise ValueError("bad string list")
        out.append(raw[i + 1 : i + 1 + n])
        i += 1 + n
    return out


def m_svcb(cls, rdclass, rdtype, v):
    params = {}
    # the constructor takes a dict in ANY insertion order (to_wire has to sort): insert in
    # descending key order so that a writer relying on insertion order is exposed
    for k, raw in reversed(list(v[2])):
        raw = bytes(raw)
        if k == 0:
            if len(raw) % 2:
                raise ValueError("odd mandatory list")
            val = svcb.MandatoryParam([int.from_bytes(raw[i : i + 2], "big") for i in range(0, len(raw), 2)])
            if [int(x) for x in val.keys] != [int.from_bytes(raw[i : i + 2], "big") for i in range(0, len(raw), 2)]:
                raise ValueError("mandatory keys not ascending")
        elif k == 1:
            val = svcb.ALPNParam(_svcb_strlist(raw)) if raw else None
        elif k == 10:
            val = svcb.DoCPathParam(_svcb_strlist(raw)) if raw else None
        elif k in (2, 8):
            if raw:
                raise ValueError("value for a valueless key")
            val = None
        elif k == 3:
            if len(raw) != 2:
                raise ValueError("port")
            val = svcb.PortParam(int.from_bytes(raw, "big"))
        elif k == 4:
            if len(raw) % 4:
                raise ValueError("ipv4hint")
            val = svcb.IPv4HintParam([socket.inet_ntop(socket.AF_INET, raw[i : i + 4]) for i in range(0, len(raw), 4)])
        elif k == 6:
            if len(raw) % 16:
                raise ValueError("ipv6hint")
            val = svcb.IPv6HintParam([socket.inet_ntop(socket.AF_INET6, raw[i : i + 16]) for i in range(0, len(raw), 16)])
        elif k == 5:
            val = svcb.ECHParam(raw)
        else:
            val = svcb.GenericParam(raw) if raw else None
        if svcb.ParamKey.make(k) in params:
            raise ValueError("duplicate key")
        params[svcb.ParamKey.make(k)] = val
    if [k for k, _ in v[2]] != sorted(k for k, _ in v[2]):
        raise ValueError("keys not sorted")
    return cls(rdclass, rdtype, v[0], name_obj(v[1]), params)


def v_svcb(rd):
    out = []
    for k in sorted(rd.params):
        p = rd.params[k]
        k = int(k)
        if p is None:
            raw = b""
        elif k == 0:
            raw = b"".join(int(x).to_bytes(2, "big") for x in p.keys)
        elif k in (1, 10):
            raw = b"".join(bytes([len(x)]) + bytes(x) for x in p.ids)
        elif k == 3:
            raw = int(p.port).to_bytes(2, "big")
        elif k == 4:
            raw = b"".join(socket.inet_pton(socket.AF_INET, a) for a in p.addresses)
        elif k == 6:
            raw = b"".join(socket.inet_pton(socket.AF_INET6, a) for a in p.addresses)
        elif k == 5:
            raw = bytes(p.ech)
        else:
            raw = bytes(p.value)
        out.append([k, raw])
    return [int(rd.priority), labels_of(rd.target), out]


HAND_GEN = {"hip": g_hip, "ipseckey": g_ipseckey, "amtrelay": g_amtrelay, "apl": g_apl, "gpos": g_gpos, "loc": g_loc, "opt": g_opt, "svcb": g_svcb}
HAND_MAKE = {"hip": m_hip, "ipseckey": m_ipseckey, "amtrelay": m_amtrelay, "apl": m_apl, "gpos": m_gpos, "loc": m_loc, "opt": m_opt, "svcb": m_svcb}
HAND_VALUES = {"hip": v_hip, "ipseckey": v_ipseckey, "amtrelay": v_amtrelay, "apl": v_apl, "gpos": v_gpos, "loc": v_loc, "opt": v_opt, "svcb": v_svcb}


def names_in(t, values):
    """all name values (label lists) inside an abstract value"""
    out = []
    if t["kind"] == "schema":
        for fl, v in zip(t["writer"], values):
            if fl["k"] == "Name":
                out.append(v)
            elif fl["k"] == "Repeat":
                for row in v:
                    for r, x in zip(fl["row"], row):
                        if r["k"] == "Name":
                            out.append(x)
        return out
    h = t["hand"]
    if h == "hip":
        return [r[0] for r in values[3]]
    if h == "ipseckey":
        return [values[3]] if values[1] == 3 else []
    if h == "amtrelay":
        return [values[3]] if values[2] == 3 else []
    if h == "svcb":
        return [values[1]]
    return []


# ----------------------------------------------------------------------------- systematic corners
# corners(t) -> list of (values, origin): deterministic boundary records, one field at its
# extreme at a time (empty / maximal / high bit / zero count / carry boundaries), the same in
# both tiers.  Used in addition to the random values.

ORIGIN = [b"Example", b"ORG", b""]


def _typical(fl):
    k = fl["k"]
    if k == "U":
        return min(fl["max"], 3)
    if k == "Fixed":
        return bytes(range(1, fl["n"] + 1))
    if k == "Counted":
        return b"ab"[: max(fl["lo"], min(2, fl["hi"]))] if fl["lo"] <= 2 else b"a" * fl["lo"]
    if k == "Name":
        return [b"Host", b"example", b""]
    if k == "Remaining":
        return b"\x01\x02\x03"
    if k == "RemN":
        return bytes(range(1, fl["n"] + 1))
    if k == "OptC8":
        return b"x"
    if k == "Repeat":
        if fl.get("asc"):
            return [[0, b"\x40\x01"], [1, b"\x80"]]
        return [[_typical(r) for r in fl["row"]]]
    raise ValueError(k)


def _field_corners(fl):
    k = fl["k"]
    if k == "U":
        w, mx = fl["w"], fl["max"]
        c = {0, 1, mx, min(mx, 1 << (8 * w - 1)), min(mx, (1 << (8 * w - 1)) - 1), min(mx, 255), min(mx, 256), min(mx, 65535), min(mx, 65536), min(mx, 128)}
        return sorted(c)
    if k in ("Fixed", "RemN"):
        n = fl["n"]
        out = [bytes(n), b"\xff" * n, b"\x80" + bytes(n - 1)]
        if n == 16:
            # IPv6 text forms: zero runs at the start / end / middle / twice, embedded IPv4
            for t in ("::1", "1::", "::ffff:1.2.3.4", "2001:db8::", "0:0:1::", "a:0:0:b:0:0:0:c", "a:0:0:0:b:0:0:c", "64:ff9b::c000:201",
                      "1:2:3:4:5:6:7:8", "1:0:3:4:5:6:7:8", "::1.2.3.4", "fe80::1:0:0:1", "0:1::", "1:2:3:4:5:6:7::", "::2:3:4:5:6:7:8"):
                out.append(socket.inet_pton(socket.AF_INET6, t))
        if n == 4:
            out += [bytes([1, 2, 3, 4]), bytes([10, 0, 0, 255]), bytes([0, 0, 0, 1]), bytes([255, 0, 255, 0])]
        return out
    if k == "Counted":
        lo, hi = fl["lo"], fl.get("gen_hi", fl["hi"])
        lens = sorted({lo, min(hi, lo + 1), min(hi, 127), min(hi, 128), min(hi, 255), min(hi, 256), min(hi, 1024)})
        out = [b"\xff" * n for n in lens] + [bytes(min(hi, max(lo, 3)))]
        return out
    if k == "Name":
        return [[b""], [b"a" * 63, b"b" * 63, b"c" * 63, b"d" * 61, b""], [b"\x00\xff.@", b"\\", b""], [b"x" * 63, b""], [b"rel"], [], [b"Sub", b"Example", b"ORG", b""]]
    if k == "Remaining":
        lo = fl.get("lo", 0)
        return [bytes(lo), b"\xff" * (lo + 1), b"\x00" * 17, bytes(range(256)) + b"tail"]
    if k == "OptC8":
        return [b"", b"\x00", b"\xff" * fl["hi"]]
    if k == "Repeat":
        out = []
        if not fl["min1"]:
            out.append([])
        if fl.get("asc"):
            out += [[[0, b"\x01"]], [[255, b"\xff" * 32]], [[0, b"\x00"], [128, b"\x80" + bytes(31)], [255, b"\x01"]],
                    [[w, b"\x55"] for w in range(0, 256, 5)]]
        else:
            row = fl["row"]
            base = [_typical(r) for r in row]
            out.append([base])
            for j, r in enumerate(row):
                for c in _field_corners(r):
                    rr = list(base)
                    rr[j] = c
                    out.append([rr])
            out.append([base] * 40)
        return out
    raise ValueError(k)


def _has_rel(v):
    return isinstance(v, list) and (len(v) == 0 or (all(isinstance(l, (bytes, bytearray)) for l in v) and v[-1] != b""))


def corners(t):
    out = []
    if t["kind"] == "schema" and t["check"]["id"] == "gpos":
        return [(v, None) for v in _c_gpos()]
    if t["kind"] == "schema":
        base = [_typical(fl) for fl in t["writer"]]
        import random

        rng = random.Random(1)
        cand = [base]
        for i, fl in enumerate(t["writer"]):
            for c in _field_corners(fl):
                v = list(base)
                v[i] = c
                cand.append(v)
        for v in cand:
            v = repair(rng, t, list(v)) if t["check"]["id"] != "none" else v
            rel = any(_has_rel(n) for n in names_in(t, v))
            out.append((v, ORIGIN if rel else None))
        # the base record once with an origin it is NOT below, once with one it is below (decoding
        # then relativizes; same letter case, so that the re-encoding is still identical)
        base = repair(rng, t, list(base)) if t["check"]["id"] != "none" else base
        out.append((base, [b"other", b""]))
        out.append((base, [b"example", b""]))
        return out
    return [(v, ORIGIN if any(_has_rel(n) for n in names_in(t, v)) else None) for v in HAND_CORNERS[t["hand"]]()]


def _c_hip():
    n1, n2 = [b"rvs", b"example", b""], [b""]
    return [[b"", 0, b"", []], [b"\xff" * 255, 255, b"\x00" * 300, [[n1]]], [b"\x01", 2, b"k", [[n1], [n2], [[b"rel"]]]],
            [b"h" * 16, 1, b"\xff" * 256, []], [b"", 128, b"\x80", [[n2]]], [b"\x00", 1, b"", [[[b"a" * 63, b""]]]]]


def _c_gw_types():
    return [(0, None), (1, b"\x00\x00\x00\x00"), (1, b"\xff\xff\xff\xff"), (1, b"\xc0\x00\x02\x01"), (2, bytes(16)), (2, b"\xff" * 16),
            (2, b"\x20\x01\x0d\xb8" + bytes(11) + b"\x01"), (3, [b""]), (3, [b"gw", b"Example", b""]), (3, [b"rel"])]


def _c_ipseckey():
    out = []
    for gt, gw in _c_gw_types():
        out.append([10, gt, 2, gw, b"\x01\x02key"])
        out.append([255, gt, 0, gw, b""])
    out.append([0, 0, 255, None, b"\xff" * 300])
    return out


def _c_amtrelay():
    out = []
    for gt, gw in _c_gw_types():
        for d in (0, 1):
            out.append([rngless(gt, d), d, gt, gw])
    return out


def rngless(a, b):
    return [0, 255, 128, 1][(a + 2 * b) % 4]


def _c_apl():
    items = []
    for fam, full in ((1, 4), (2, 16)):
        for neg in (0, 1):
            for keep in (0, 1, full - 1, full):
                addr = (b"\xc0\xa8\x01\x7f\x20\x01\x0d\xb8\x00\x01\x02\x03\x04\x05\x06\x07"[:keep] + bytes(full))[:full]
                for prefix in (0, 8 * full):
                    items.append([fam, neg, addr, prefix])
    for fam in (0, 3, 65535):
        for neg in (0, 1):
            for addr in (b"", b"\x00", b"\xab", b"\xab\x00", b"\xff" * 63):
                items.append([fam, neg, addr, 255 if addr else 0])
    out = [[]] + [[it] for it in items]
    out.append(items[:12])
    out.append(items[-6:] + items[:3])
    return [[o] for o in out]


def _c_gpos():
    return [[b"0", b"0", b"0"], [b"-90", b"+180", b"-100.5"], [b"90.0", b"-180.0", b"8848."], [b".5", b"+.25", b"-.0"], [b"12.345678", b"123.456789", b"0.0"],
            [b"0" * 255, b"0", b"1" * 255], [b"90." + b"0" * 252, b"180.00000000000001", b"9" * 255],
            [b"90.00000000000000710542735760100185871124267578125", b"-180.0000000000000142108547152020037174224853515625", b"5."],
            [b"089.999999999999999999999999", b"+0179.9", b"+.0"]]


def _c_loc():
    out = []
    for lat in ([0, 0, 0, 0, 1], [90, 0, 0, 0, 1], [90, 0, 0, 0, -1], [89, 59, 59, 999, -1], [0, 0, 0, 1, -1], [42, 21, 54, 0, 1]):
        for lon in ([0, 0, 0, 0, 1], [180, 0, 0, 0, -1], [179, 59, 59, 999, 1], [71, 6, 18, 0, -1]):
            out.append([lat, lon, 0, 100, 1000000, 1000])
    for alt in (-10000000, -1, 0, 1, 4284967295, 4284967294, 2147483647 - 10000000, 2147483648 - 10000000):
        out.append([[1, 2, 3, 4, 1], [5, 6, 7, 8, -1], alt, 0, 0, 0])
    for size in (0, 1, 9, 10, 90, 100, 9000000000, 5 * 10 ** 9, 10 ** 9):
        out.append([[1, 0, 0, 0, 1], [2, 0, 0, 0, 1], 12345, size, size, size])
    return out


def _c_opt():
    cookie8, cookie40 = b"\x01" * 8, b"\x02" * 40
    ecs = []
    for fam, full in ((1, 4), (2, 16)):
        for src in (0, 1, 7, 8, 9, 8 * full - 1, 8 * full):
            n = (src + 7) // 8
            addr = bytearray(b"\xff" * n)
            if src % 8 and n:
                addr[-1] &= (0xFF << (8 - src % 8)) & 0xFF
            for scope in (0, 8 * full):
                ecs.append([[8, bytes([0, fam, src, scope]) + bytes(addr)]])
    out = [[], [[3, b""]], [[3, b"nsid\xff"]], [[10, cookie8]], [[10, cookie8 + cookie40[:8]]], [[10, cookie8 + cookie40[:32]]],
            [[65001, b""], [65001, b"\x00"], [0, b"\xff" * 300]], [[65535, b"x"], [4, b"abc"], [3, b"z"]], [[12, bytes(468)]], [[11, b"\x00\x10"]],
            [[15, b"\x00\x00"]], [[15, b"\xff\xffsigned by \xc3\xa9"]], [[15, b"\x00\x12x"]],
            [[18, b"\x05agent\x07example\x00"]], [[18, b"\x00"]],
            [[22, b"en-US"]], [[22, b""]], [[23, b"mailto:x@example"]], [[24, b"Org \xe4\xb8\xad"]], [[25, b"db"]],
            [[8, b"\x00\x01\x18\x00\xc0\x00\x02"], [15, b"\x00\x04t"], [10, cookie8]]] + ecs
    return [[o] for o in out]


def _c_svcb():
    t1, t2 = [b"svc", b"Example", b""], [b""]
    specs = [
        [0, t1, []], [0, t2, []], [1, t2, []], [65535, [b"rel"], []],
        [1, t1, [[1, [[b"h2"], [b"h3"]]]]], [1, t2, [[1, [[b"\xff" * 255]]], [2, None]]],
        [2, t1, [[3, 0]]], [2, t1, [[3, 65535]]], [1, t1, [[4, [[b"\x00\x00\x00\x00"]]]]], [1, t1, [[4, [[b"\xc0\x00\x02\x01"], [b"\xff\xff\xff\xff"]]]]],
        [1, t1, [[6, [[bytes(16)]]]]], [1, t1, [[6, [[b"\x20\x01" + bytes(13) + b"\x01"], [b"\xff" * 16]]]]],
        [1, t1, [[5, b"\x00"]]], [1, t1, [[5, b"ech\xff" * 20]]], [1, t1, [[8, None]]], [1, t1, [[7, b"/dns-query{?dns}"]]], [1, t1, [[10, [[b"a"], [b"bc"]]]]],
        [1, t1, [[0, [1, 3]], [1, [[b"h2"]]], [3, 443]]], [1, t1, [[0, [65280]], [65280, b"x"]]],
        [1, t1, [[9, b"\x00"]]], [1, t1, [[11, b"v"]]], [1, t1, [[65534, b"\xff" * 40]]], [1, t1, [[65280, b"\x01"], [65281, b"\x02"], [65534, b"\x03"]]],
        [16, t2, [[1, [[b"h2"]]], [2, None], [3, 8443], [4, [[b"\x01\x02\x03\x04"]]], [5, b"e"], [6, [[bytes(15) + b"\x01"]]], [8, None]]],
        [1, t1, [[1, None]]], [1, t1, [[4, []]]], [1, t1, [[5, b""]]], [1, t1, [[0, []]]], [1, t1, [[65535, b""]]], [1, t1, [[7, None]]],
    ]
    return [[p, t, [[k, _svcb_raw(k, x)] for k, x in ps]] for p, t, ps in specs]


HAND_CORNERS = {"hip": _c_hip, "ipseckey": _c_ipseckey, "amtrelay": _c_amtrelay, "apl": _c_apl, "gpos": _c_gpos, "loc": _c_loc, "opt": _c_opt, "svcb": _c_svcb}


# ----------------------------------------------------------------------------- non-canonical octets
# dec_corners(t) -> list of RDATA octet strings that are accepted (or nearly) but are NOT what
# to_wire would emit: the places where a codec normalises.  Used for the "fixed point of
# decode-then-encode" half of C02.


def dec_corners(t):
    n = t["name"]
    if n == "OPT":
        def opt(ot, data):
            return ot.to_bytes(2, "big") + len(data).to_bytes(2, "big") + data
        out = []
        for k in (1, 2, 3):
            out.append(opt(15, b"\x00\x12" + b"a" + b"\x00" * k))      # EDE text with trailing NULs
            out.append(opt(15, b"\x00\x12" + b"\x00" * k))
        out.append(opt(15, b"\x00\x12"))
        out.append(opt(15, b"\x00\x12\xff"))                               # invalid UTF-8
        out.append(opt(15, b"\x00\x12\xed\xa0\x80"))                       # surrogate
        out.append(opt(15, b"\x00\x12\xc0\x80"))                           # overlong
        out.append(opt(15, b"\x00\x12\xf4\x90\x80\x80"))                   # > U+10FFFF
        out.append(opt(15, b"\x00\x12\xf0\x9f\x98\x80\x00"))
        for fam, full in ((1, 4), (2, 16)):
            for src in (1, 7, 9, 8 * full - 1):
                out.append(opt(8, bytes([0, fam, src, 0]) + b"\xff" * ((src + 7) // 8)))   # host bits set
            out.append(opt(8, bytes([0, fam, 8 * full + 1, 0]) + b"\xff" * (full + 1)))
            out.append(opt(8, bytes([0, fam, 8, 8 * full + 1]) + b"\x01"))
            out.append(opt(8, bytes([0, fam, 16, 0]) + b"\x01"))                           # short address
            out.append(opt(8, bytes([0, fam, 8, 0]) + b"\x01\x02"))                        # long address
        out.append(opt(8, b"\x00\x03\x08\x00\x01"))
        out.append(opt(10, b"\x01" * 7)); out.append(opt(10, b"\x01" * 9)); out.append(opt(10, b"\x01" * 41))
        out.append(opt(18, b"\xc0\x00"))                                   # pointer to the option header itself
        out.append(opt(18, b"\x01a\x00\x00"))
        out.append(opt(22, b"\xe4\xb8")); out.append(opt(23, b"ok\x00")); out.append(opt(25, b"\x80"))
        out.append(opt(3, b"x") + opt(3, b"y"))
        out.append(opt(65001, b"") + b"\x00")
        return out
    if n in ("SVCB", "HTTPS"):
        def par(k, v):
            return k.to_bytes(2, "big") + len(v).to_bytes(2, "big") + v
        head = b"\x00\x01\x03svc\x00"
        return [head + par(3, b"\x00\x50") + par(3, b"\x01\xbb"),           # duplicate key: last wins
                head + par(1, b""), head + par(1, b"\x00"), head + par(1, b"\x02h2\x00"), head + par(1, b"\x03h2"),
                head + par(2, b""), head + par(2, b"x"), head + par(1, b"\x02h2") + par(2, b""),
                head + par(0, b"\x00\x01") + par(1, b"\x02h2"), head + par(0, b"\x00\x03"), head + par(0, b"\x00\x00") ,
                head + par(0, b"\x00\x03\x00\x01") + par(1, b"\x02h2") + par(3, b"\x00\x50"), head + par(0, b"\x00"),
                head + par(3, b"\x00"), head + par(3, b"\x00\x00\x00"), head + par(4, b"\x01\x02\x03"), head + par(4, b""),
                head + par(6, b"\x00" * 15), head + par(5, b""), head + par(8, b""), head + par(8, b"\x00"),
                head + par(7, b""), head + par(65280, b""), head + par(3, b"\x00\x50") + par(1, b"\x02h2"),
                b"\x00\x00\x03svc\x00" + par(3, b"\x00\x50"), b"\x00\x00\x00", head + b"\x00\x03\x00\x09\x00\x50"]
    if n == "APL":
        def item(fam, prefix, n, addr):
            return fam.to_bytes(2, "big") + bytes([prefix, n]) + addr
        return [item(1, 8, 2, b"\x0a\x00"), item(1, 8, 4, b"\x0a\x00\x00\x00"), item(1, 0, 0x80, b""), item(1, 33, 1, b"\x01"),
                item(1, 8, 5, b"\x01\x02\x03\x04\x05"), item(2, 128, 16, b"\x20\x01" + bytes(14)), item(2, 129, 0, b""),
                item(2, 0, 17, bytes(17)), item(3, 8, 2, b"\xab\x00"), item(3, 8, 0x82, b"\xab\x00"), item(0, 255, 63, b"\x01" * 63),
                item(0, 0, 64, b"\x01" * 64), item(1, 8, 1, b"\x0a") + item(1, 8, 1, b"\x0a"), item(1, 8, 0x7f, b"\x00" * 127)]
    if n == "LOC":
        base = bytes([0, 0x12, 0x16, 0x13]) + (0x80000000).to_bytes(4, "big") + (0x80000000).to_bytes(4, "big") + (10000000).to_bytes(4, "big")
        out = [base]
        for b in (0x00, 0x05, 0x0a, 0x90, 0x99, 0xa0, 0x1a, 0x09):
            out.append(bytes([0, b, b, b]) + base[4:])
        out.append(bytes([1]) + base[1:])
        for v in (0x80000000 + 90 * 3600000, 0x80000000 + 90 * 3600000 + 1, 0x80000000 - 90 * 3600000, 0x80000000 - 90 * 3600000 - 1, 0x80000001, 0x7FFFFFFF, 0, 0xFFFFFFFF):
            out.append(base[:4] + v.to_bytes(4, "big") + base[8:])
        for v in (0x80000000 + 180 * 3600000, 0x80000000 + 180 * 3600000 + 1, 0x80000000 - 180 * 3600000 - 1, 0x80000000 + 90 * 3600000 + 1):
            out.append(base[:8] + v.to_bytes(4, "big") + base[12:])
        for v in (0, 1, 0xFFFFFFFF, 0x7FFFFFFF, 0x80000000):
            out.append(base[:12] + v.to_bytes(4, "big"))
        return out
    if n == "ISDN":
        return [b"\x01a\x00", b"\x01a\x01b", b"\x00\x00", b"\x00", b"\x01a\x02b"]
    if n == "GPOS":
        def g(a, b, c):
            return bytes([len(a)]) + a + bytes([len(b)]) + b + bytes([len(c)]) + c
        return [g(b"90.00000000000000710542735760100185871124267578125", b"0", b"0"),
                g(b"90.000000000000007105427357601001858711242675781250000001", b"0", b"0"),
                g(b"-90.000000000000008", b"0", b"0"), g(b"0", b"180.00000000000001421085471520200371742248535156250", b"0"),
                g(b"0", b"-180.0000000000000142108547152020037174224853515626", b"0"), g(b"+", b"0", b"0"), g(b"1.2.3", b"0", b"0"),
                g(b"1e1", b"0", b"0"), g(b"", b"0", b"0"), g(b"0", b"0", b"-"), g(b" 1", b"0", b"0"), g(b"0", b"0", b"1_0"), g(b"\xb2", b"0", b"0"),
                g(b"0" * 254 + b"9", b"00180", b"." + b"0" * 254), g(b"91", b"0", b"0"), g(b"0", b"181", b"0"), g(b"-.", b"0", b"0")]
    if n == "AMTRELAY":
        return [b"\x0a\x00", b"\x0a\x80", b"\x0a\x81\x01\x02\x03\x04", b"\x0a\x04", b"\x0a\x7f", b"\x0a\x83\x00", b"\x0a\x03\xc0\x00", b"\x0a\x00\x00"]
    if n == "IPSECKEY":
        return [b"\x0a\x00\x02", b"\x0a\x04\x02", b"\x0a\x01\x02\x01\x02\x03", b"\x0a\x03\x02\x00key", b"\x0a\x03\x02\xc0\x00", b"\x0a\x02\x02" + bytes(16) + b"k"]
    if n == "HIP":
        return [b"\x00\x00\x00\x00", b"\x01\x02\x00\x01hk", b"\x01\x02\x00\x01hk\x00", b"\x01\x02\x00\x01hk\xc0\x00", b"\x02\x02\x00\x01hk", b"\x01\x02\x00\x02hk",
                b"\x01\x02\x00\x01hk\x01a\x00\x01b\x00", b"\x01\x02\x00\x01hk\x01a"]
    return []
