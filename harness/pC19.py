"""C19 - the copy-on-write B-tree is a correct sorted map with isolated clones.

A case is an operation history  [0, op, op, ...]  over a growing list of trees and cursors
(ops are lists of ints, see OPS below).  The implementation runner drives dns.btree through its
public API (BTreeDict / BTreeSet / BTree.insert_element / delete_key / delete_exact /
get_element / cursor() / make_immutable / BTree(original=) / copy.copy) and returns one
observation per step; `dump` steps walk the REAL node structure (root, _Node.elts, children).
The Coq model `BTreeM.run` folds the same history.  The oracle replays the history against an
independent reference (a plain sorted dictionary with cursor anchors) and checks, after every
step, every tree of the history: content, length, node occupancy, uniform leaf depth, ordering,
isolation of clones and rejection of mutations by frozen trees.
"""
import bisect
import copy
import gc
import itertools

import lib
from lib import Err

ID = "C19"
COQ_IMPORTS = "From DV Require Import Model.BTreeM Model.BTreeStoreM."
COQ_RUN = "BTreeStoreM.run"
CASE_TIMEOUT = 30.0
_HANGS = [0]
TRUSTED = [
    "model: coq/Model/BTreeM.v (value-level _Node/BTree/Cursor algorithms) and coq/Model/BTreeStoreM.v (node store with creator tags) if present",
    "harness/pC19.py reference dictionary (oracle) and node walker",
]

# op codes (shared with BTreeM.step)
NEW, INS, DEL, DELX, GET, LEN, ITEMS, FREEZE, CLONE, CUR, SEEK, FIRST, LAST, NEXT, PREV, DUMP, ITER = range(1, 18)
DSET, DGET, DDEL, SADD, SDISC, SIN, NEWSET, COPY = 20, 21, 22, 23, 24, 25, 26, 27
# iterators: [ITOPEN, tree, kind]  kind 0 iter(tree) / 1 keys() / 2 items() / 3 values();  [ITNEXT, iterator, mode]
# mode 0 key / 1 (key, value) / 2 value - one next() on the generator, None once it is exhausted.  Iterators share
# the numbering of the cursors (in the model an iterator IS a registered cursor).
ITOPEN, ITNEXT = 18, 19
NMIN, NMAX = 28, 29  # tree.root.minimum() / maximum()
# MutableMapping / MutableSet mixin methods
DPOP, DPOPITEM, DCLEAR, DSETDEFAULT, DUPDATE, SREMOVE, SPOP, SCLEAR = 40, 41, 42, 43, 44, 45, 46, 47
# [DROP, tree]: the program drops its last reference to the tree handle (the runner forgets it and
# every cursor / iterator on it, then gc.collect()); the nodes the handle built stay alive inside
# its clones.  The model keeps the index (nothing observable happens); histories never use a dropped
# tree again.  What this exercises: the identity of a creator must never be reused while nodes
# tagged with it are alive (the model's creator tags are fresh by construction).
DROP = 48
MIXIN = {DPOP, DPOPITEM, DCLEAR, DSETDEFAULT, DUPDATE, SREMOVE, SPOP, SCLEAR}
MUTATING = {INS, DEL, DELX, DSET, DDEL, SADD, SDISC} | MIXIN

E_INDEX, E_ASSERT, E_MISMATCH, E_NOMATCH, E_KEY, E_NOTIMM, E_BADT, E_IMMUTABLE = 1, 2, 4, 5, 6, 7, 8, 10


def exc_code(e):
    import dns.btree

    if isinstance(e, dns.btree.Immutable):
        return Err(E_IMMUTABLE, "Immutable")
    if isinstance(e, ValueError):
        s = str(e)
        if "did not match" in s:
            return Err(E_MISMATCH, s)
        if "had no match" in s:
            return Err(E_NOMATCH, s)
        if "not immutable" in s:
            return Err(E_NOTIMM, s)
        if "t must be" in s:
            return Err(E_BADT, s)
        return Err(104, "ValueError " + s)
    if isinstance(e, KeyError):
        return Err(E_KEY, "KeyError")
    if isinstance(e, IndexError):
        return Err(E_INDEX, "IndexError " + str(e))
    if isinstance(e, AssertionError):
        return Err(E_ASSERT, "AssertionError")
    return Err(100, type(e).__name__ + " " + str(e))


# ------------------------------------------------------------------ implementation runner


def elt_obs(e):
    if e is None:
        return None
    v = e.value() if hasattr(e, "value") else 0
    return [e.key(), v]


def dump_node(n):
    es = []
    for e in n.elts:
        es.append(e.key())
        es.append(e.value() if hasattr(e, "value") else 0)
    return [int(n.is_leaf), es, [dump_node(c) for c in n.children]]


# serial numbers of the real _Node objects in creation order (monkey-patched __init__; the
# objects are kept alive so that id() is never reused within a history)
_SER = {"n": 0, "map": {}, "keep": []}


def _install_serials():
    import dns.btree as bt

    if getattr(bt._Node, "_verif_patched", False):
        return
    orig = bt._Node.__init__

    def init(self, t, creator, is_leaf):
        orig(self, t, creator, is_leaf)
        _SER["map"][id(self)] = _SER["n"]
        _SER["n"] += 1
        _SER["keep"].append(self)

    bt._Node.__init__ = init
    bt._Node._verif_patched = True


class ImplWorld:
    def __init__(self):
        import dns.btree as bt

        _install_serials()
        _SER["n"] = 0
        _SER["map"] = {}
        _SER["keep"] = []
        self.bt = bt
        self.trees = []
        self.cursors = []
        self.cursor_tree = []  # tree index of every cursor / iterator
        self.creators = []  # the creator token of every tree ever made (not the tree: a dropped handle must be collectable)
        self.table = {}

    def add_tree(self, tr):
        self.trees.append(tr)
        self.creators.append(tr.creator)

    def store_dump(self, tr):
        """preorder [serial, creator's tree index, leaf, flat elts, kid serials] of the real nodes"""
        cmap = {id(c): i for i, c in enumerate(self.creators)}
        out = []

        def visit(n):
            es = []
            for e in n.elts:
                es.append(e.key())
                es.append(e.value() if hasattr(e, "value") else 0)
            out.append([_SER["map"].get(id(n), -1), cmap.get(id(n.creator), -1), int(n.is_leaf), es,
                        [_SER["map"].get(id(c), -1) for c in n.children]])

        tr._visit_preorder_by_node(visit)  # the library's own preorder walk (the model's sdump order)
        return out

    def elt(self, k, v):
        e = self.table.get(v)
        if e is None:
            e = self.bt.KV(k, v)
            self.table[v] = e
        return e

    def step(self, op):
        bt = self.bt
        c = op[0]
        try:
            if c == NEW:
                self.add_tree(bt.BTreeDict(t=op[1], in_order=bool(op[2])))
                return None
            if c == NEWSET:
                self.add_tree(bt.BTreeSet(t=op[1], in_order=bool(op[2])))
                return None
            if c == ITNEXT:
                if not 0 <= op[1] < len(self.cursors) or self.cursors[op[1]] is None:
                    return Err(999)
                try:
                    x = next(self.cursors[op[1]])
                except StopIteration:
                    return None
                return list(x) if isinstance(x, tuple) else x
            if c in (SEEK, FIRST, LAST, NEXT, PREV):
                if not 0 <= op[1] < len(self.cursors) or self.cursors[op[1]] is None:
                    return Err(999)
                cur = self.cursors[op[1]]
                if c == SEEK:
                    return cur.seek(op[2], bool(op[3]))
                if c == FIRST:
                    return cur.seek_first()
                if c == LAST:
                    return cur.seek_last()
                if c == NEXT:
                    return elt_obs(cur.next())
                return elt_obs(cur.prev())
            if not 0 <= op[1] < len(self.trees) or self.trees[op[1]] is None:
                return Err(999)
            tr = self.trees[op[1]]
            if c == DROP:
                cyc = False
                for j, ti in enumerate(self.cursor_tree):
                    if ti == op[1] and self.cursors[j] is not None:
                        self.cursors[j] = None
                        cyc = True  # registered cursors and their tree reference each other
                self.trees[op[1]] = None
                del tr
                if cyc:
                    gc.collect()
                return None
            if c == INS:
                return elt_obs(tr.insert_element(self.elt(op[2], op[3]), bool(op[4])))
            if c == DEL:
                return elt_obs(tr.delete_key(op[2]))
            if c == DELX:
                return elt_obs(tr.delete_exact(self.elt(op[2], op[3])))
            if c == GET:
                return elt_obs(tr.get_element(op[2]))
            if c == LEN:
                return len(tr)
            if c == ITEMS:
                acc = []
                tr.visit_in_order(lambda e: acc.append(elt_obs(e)))
                return acc
            if c == FREEZE:
                return tr.make_immutable()
            if c == CLONE:
                self.add_tree(tr.__class__(original=tr, in_order=bool(op[2])))
                return None
            if c == COPY:
                self.add_tree(copy.copy(tr))
                return None
            if c == CUR:
                cur = tr.cursor()
                tr.register_cursor(cur)
                self.cursors.append(cur)
                self.cursor_tree.append(op[1])
                return None
            if c == ITOPEN:
                kind = op[2]
                it = iter(tr) if kind == 0 else iter(tr.keys()) if kind == 1 else iter(tr.items()) if kind == 2 else iter(tr.values())
                self.cursors.append(it)
                self.cursor_tree.append(op[1])
                return None
            if c == DUMP:
                return [[dump_node(tr.root), 1], self.store_dump(tr), 1]
            if c == ITER:
                return list(iter(tr))
            if c == NMIN:
                return elt_obs(tr.root.minimum())
            if c == NMAX:
                return elt_obs(tr.root.maximum())
            if c == DSET:
                tr[op[2]] = op[3]
                return None
            if c == DGET:
                return tr[op[2]]
            if c == DDEL:
                del tr[op[2]]
                return None
            if c == SADD:
                return tr.add(op[2])
            if c == SDISC:
                return tr.discard(op[2])
            if c == SIN:
                return int(op[2] in tr)
            if c == DPOP:
                return tr.pop(op[2])
            if c == DPOPITEM:
                return list(tr.popitem())
            if c == DCLEAR:
                return tr.clear()
            if c == DSETDEFAULT:
                return tr.setdefault(op[2], op[3])
            if c == DUPDATE:
                return tr.update({op[2]: op[3]})
            if c == SREMOVE:
                return tr.remove(op[2])
            if c == SPOP:
                return tr.pop()
            if c == SCLEAR:
                return tr.clear()
            return Err(999)
        except lib.Hang:  # the watchdog of the runner, not an exception of the implementation
            raise
        except Exception as e:  # noqa
            return exc_code(e)


def impl(case):
    if case[0] == 30:
        return 1
    if _HANGS[0] >= 5:
        # the implementation loops on ordinary histories: the first ones are reported with their
        # replay files, running thousands more would only burn the time budget
        return Err(-2, "hang (not re-run after repeated hangs)")
    w = ImplWorld()
    return [w.step(op) for op in case[1:]]


# ------------------------------------------------------------------ reference (oracle)


class RefTree:
    def __init__(self, t, in_order, d=None, is_set=False):
        self.t = t
        self.in_order = in_order
        self.d = dict(d or {})  # key -> value id
        self.frozen = False
        self.is_set = is_set
        self.dropped = False

    def keys(self):
        return sorted(self.d)


class RefCursor:
    # anchor: ("L",) left boundary, ("R",) right boundary, ("B", k) just before key k,
    # ("A", k) just after key k -- positions in the sorted key sequence of the tree *now*
    def __init__(self, tree):
        self.tree = tree
        self.anchor = ("L",)

    def pos(self):
        ks = self.tree.keys()
        a = self.anchor
        if a[0] == "L":
            return ks, 0
        if a[0] == "R":
            return ks, len(ks)
        if a[0] == "B":
            return ks, bisect.bisect_left(ks, a[1])
        return ks, bisect.bisect_right(ks, a[1])

    def next(self):
        ks, p = self.pos()
        if p >= len(ks):
            self.anchor = ("R",)
            return None
        self.anchor = ("A", ks[p])
        return [ks[p], self.tree.d[ks[p]]]

    def prev(self):
        ks, p = self.pos()
        if p == 0:
            self.anchor = ("L",)
            return None
        self.anchor = ("B", ks[p - 1])
        return [ks[p - 1], self.tree.d[ks[p - 1]]]


class RefWorld:
    def __init__(self):
        self.trees = []
        self.cursors = []

    def step(self, op):
        c = op[0]
        if c in (NEW, NEWSET):
            if op[1] < 3:
                return Err(E_BADT)
            self.trees.append(RefTree(op[1], bool(op[2]), is_set=(c == NEWSET)))
            return None
        if c == ITNEXT:
            x = self.cursors[op[1]].next()
            if x is None:
                return None
            return x[0] if op[2] == 0 else x if op[2] == 1 else x[1]
        if c in (SEEK, FIRST, LAST, NEXT, PREV):
            cur = self.cursors[op[1]]
            if c == SEEK:
                cur.anchor = ("B" if op[3] else "A", op[2])
                return None
            if c == FIRST:
                cur.anchor = ("L",)
                return None
            if c == LAST:
                cur.anchor = ("R",)
                return None
            return cur.next() if c == NEXT else cur.prev()
        tr = self.trees[op[1]]
        if c == DROP:
            tr.dropped = True
            return None
        if c in MIXIN:
            return self.mixin(tr, op)
        if c in MUTATING and tr.frozen:
            return Err(E_IMMUTABLE)
        if c == INS:
            old = tr.d.get(op[2])
            tr.d[op[2]] = op[3]
            return None if old is None else [op[2], old]
        if c == DEL:
            old = tr.d.pop(op[2], None)
            return None if old is None else [op[2], old]
        if c == DELX:
            if op[2] not in tr.d:
                return Err(E_NOMATCH)
            if tr.d[op[2]] != op[3]:
                return Err(E_MISMATCH)
            del tr.d[op[2]]
            return [op[2], op[3]]
        if c == GET:
            return [op[2], tr.d[op[2]]] if op[2] in tr.d else None
        if c == LEN:
            return len(tr.d)
        if c == ITEMS:
            return [[k, tr.d[k]] for k in tr.keys()]
        if c == FREEZE:
            tr.frozen = True
            return None
        if c in (CLONE, COPY):
            if not tr.frozen:
                return Err(E_NOTIMM)
            self.trees.append(RefTree(tr.t, bool(op[2]) if c == CLONE else False, tr.d, tr.is_set))
            return None
        if c in (CUR, ITOPEN):
            self.cursors.append(RefCursor(tr))
            return None
        if c == DUMP:
            return "dump"
        if c == ITER:
            return tr.keys()
        if c in (NMIN, NMAX):
            if not tr.d:
                return Err(E_INDEX)
            k = min(tr.d) if c == NMIN else max(tr.d)
            return [k, tr.d[k]]
        if c == DSET:
            tr.d[op[2]] = op[3]
            return None
        if c == DGET:
            return tr.d[op[2]] if op[2] in tr.d else Err(E_KEY)
        if c == DDEL:
            if op[2] not in tr.d:
                return Err(E_KEY)
            del tr.d[op[2]]
            return None
        if c == SADD:
            tr.d[op[2]] = 0
            return None
        if c == SDISC:
            tr.d.pop(op[2], None)
            return None
        if c == SIN:
            return int(op[2] in tr.d)
        raise ValueError(op)


def _ref_mixin(self, tr, op):
    # the collections.abc mixins on top of __getitem__/__setitem__/__delitem__/__iter__ (dict) and
    # __contains__/add/discard/__iter__ (set): lookups come first, so a frozen tree answers
    # KeyError for an absent key and Immutable only where a mutation is attempted
    c = op[0]
    d = tr.d
    imm = Err(E_IMMUTABLE)
    if c == DPOP or c == SREMOVE:
        if op[2] not in d:
            return Err(E_KEY)
        if tr.frozen:
            return imm
        v = d.pop(op[2])
        return v if c == DPOP else None
    if c == DPOPITEM or c == SPOP:
        if not d:
            return Err(E_KEY)
        if tr.frozen:
            return imm
        k = min(d)
        v = d.pop(k)
        return [k, v] if c == DPOPITEM else k
    if c == DCLEAR or c == SCLEAR:
        if not d:
            return None
        if tr.frozen:
            return imm
        d.clear()
        return None
    if c == DSETDEFAULT:
        if op[2] in d:
            return d[op[2]]
        if tr.frozen:
            return imm
        d[op[2]] = op[3]
        return op[3]
    if c == DUPDATE:
        if tr.frozen:
            return imm
        d[op[2]] = op[3]
        return None
    raise ValueError(op)


RefWorld.mixin = _ref_mixin


def structure_problems(root, t, creators_ok=None):
    """occupancy t-1..2t-1 except the root, children = elts+1, leaves at one depth, keys sorted"""
    probs = []
    depths = set()

    def walk(n, depth, is_root):
        l = len(n.elts)
        if l > 2 * t - 1:
            probs.append(f"node with {l} > 2t-1 keys")
        if not is_root and l < t - 1:
            probs.append(f"non-root node with {l} < t-1 keys")
        if n.is_leaf:
            depths.add(depth)
            if n.children:
                probs.append("leaf with children")
        else:
            if len(n.children) != l + 1:
                probs.append(f"internal node with {l} keys and {len(n.children)} children")
            for ch in n.children:
                walk(ch, depth + 1, False)

    walk(root, 0, True)
    if len(depths) > 1:
        probs.append(f"leaves at depths {sorted(depths)}")
    return probs


def deep_check(iw, rw, si, op, full):
    c = op[0]
    for ti, (tr, rt) in enumerate(zip(iw.trees, rw.trees)):
        if tr is None:  # dropped handle
            continue
        acc = []
        tr.visit_in_order(lambda e: acc.append(elt_obs(e)))
        want = [[k, rt.d[k]] for k in rt.keys()]
        if acc != want:
            mut = op[1] if c in MUTATING else None
            what = "in-order content differs from the reference"
            if mut is not None and mut != ti:
                what = "mutation of one tree is observable through another tree (clone not isolated)"
            return {"kind": "hist:content", "what": what, "step": si, "op": op, "tree": ti, "impl": acc[:50], "ref": want[:50], "sig": what}
        try:
            ln = len(tr)
        except Exception as e:  # noqa  (e.g. a negative size)
            ln = "len() raised " + type(e).__name__ + ": " + str(e)
        if ln != len(want):
            return {"kind": "hist:len", "what": "len() differs from the number of elements", "step": si, "op": op, "tree": ti, "impl": ln, "sig": "len"}
        probs = structure_problems(tr.root, rt.t)
        if probs:
            return {"kind": "hist:structure", "what": "node structure violates the B-tree invariants: " + probs[0], "step": si, "op": op, "tree": ti, "problems": probs[:5], "sig": "structure"}
        if full and len(want) <= 400:
            for k, v in want:
                g = elt_obs(tr.get_element(k))
                if g != [k, v]:
                    return {"kind": "hist:lookup", "what": "lookup of a stored key differs from the reference", "step": si, "op": op, "tree": ti, "key": k, "impl": g, "sig": "lookup"}
            for k in ([want[0][0] - 1, want[-1][0] + 1] if want else [0]):
                if tr.get_element(k) is not None:
                    return {"kind": "hist:lookup", "what": "lookup of an absent key returned an element", "step": si, "op": op, "tree": ti, "key": k, "sig": "lookup"}
            ks = list(iter(tr))
            if ks != [k for k, _ in want]:
                return {"kind": "hist:iter", "what": "iteration differs from the reference", "step": si, "op": op, "tree": ti, "impl": ks[:50], "sig": "iter"}
            cur = tr.cursor()
            cur.seek_last()
            back = []
            while True:
                e = cur.prev()
                if e is None or len(back) > len(want) + 2:
                    break
                back.append(e.key())
            if back != [k for k, _ in reversed(want)]:
                return {"kind": "hist:cursor", "what": "backward cursor walk differs from the reference", "step": si, "op": op, "tree": ti, "impl": back[:50], "sig": "cursor-walk"}
    return None


def check_history(case, deep_every=1):
    """Replay on the implementation next to the reference; return failure dicts."""
    F = []
    iw, rw = ImplWorld(), RefWorld()
    ops = case[1:]
    for si, op in enumerate(ops):
        got = iw.step(op)
        if isinstance(got, Err) and got.code == 999:
            continue
        exp = rw.step(op)
        c = op[0]
        if c == DUMP:
            pass
        else:
            g = got
            if isinstance(g, tuple):
                g = list(g)
            if g != exp:
                what = "result differs from the reference sorted dictionary"
                if c in MUTATING and rw.trees[op[1]].frozen:
                    what = "frozen tree did not reject a mutation"
                elif c == ITNEXT:
                    what = "iteration interleaved with mutations differs from the reference (a parked cursor resumes after its last key)"
                elif c in (NEXT, PREV):
                    what = "cursor result differs from the reference position"
                elif isinstance(got, Err) and got.code not in (E_MISMATCH, E_NOMATCH, E_KEY, E_NOTIMM, E_BADT, E_IMMUTABLE):
                    what = "internal exception " + got.text
                F.append({"kind": "hist:step", "what": what, "step": si, "op": op, "impl": got, "ref": exp, "sig": what})
                return F
        rejected = c in MUTATING and isinstance(exp, Err) and exp.code == E_IMMUTABLE
        deep = (c in MUTATING or c in (CLONE, COPY, FREEZE, NEW, NEWSET, DROP)) and (si % deep_every == 0 or si == len(ops) - 1)
        if deep or rejected:
            # after a mutation REJECTED by a frozen tree nothing at all may have changed: re-read every
            # tree completely (items, len, lookup of every key, cursor walk, node structure)
            f = deep_check(iw, rw, si, op, full=rejected or len(ops) < 150)
            if f:
                if rejected:
                    f["what"] = "a mutation rejected by a frozen tree changed something: " + f["what"]
                    f["sig"] = "rejected-mutation-side-effect"
                F.append(f)
                return F
    return F


def oracle(ctx, kind, case, out):
    if case[0] == 30:
        return []
    n = len(case)
    if isinstance(out, Err) and out.code == -2:
        global CASE_TIMEOUT
        _HANGS[0] += 1
        if _HANGS[0] >= 3:
            CASE_TIMEOUT = 2.0  # do not spend the budget on more hanging histories
        return []  # lib reports the hang itself
    try:
        return lib.with_watchdog(check_history, case, 1 if n < 400 else 7, seconds=CASE_TIMEOUT)
    except lib.Hang:
        return [{"kind": "hist:hang", "what": "implementation did not terminate while the history was replayed", "sig": "hang"}]
    except Exception as e:  # noqa - the walkers read private structure; a corrupted tree must not stop the check
        return [{"kind": "hist:replay", "what": "replaying the history next to the reference raised " + type(e).__name__ + ": " + str(e)[:200], "sig": "replay-exc"}]


# ------------------------------------------------------------------ generators


class Gen:
    """Builds a history and tracks enough state to keep most operations meaningful."""

    def __init__(self, rng, t, keyspace, set_kind=False):
        self.rng = rng
        self.t = t
        self.K = keyspace
        self.ops = []
        self.trees = []  # dict(keys=dict k->v, frozen, in_order)
        self.cursors = []  # tree index
        self.iters = {}  # cursor number -> mode (the entry is an open iterator, not a Cursor)
        self.vid = 0
        self.ident = set()
        self.set_kind = set_kind

    def key(self):
        return self.rng.randrange(self.K)

    def fresh(self):
        self.vid += 1
        return self.vid

    def new(self, in_order=None):
        io = self.rng.random() < 0.3 if in_order is None else in_order
        self.ops.append([NEWSET if self.set_kind else NEW, self.t, int(io)])
        self.trees.append({"keys": {}, "frozen": False, "io": io})
        return len(self.trees) - 1

    def mutable(self):
        return [i for i, tr in enumerate(self.trees) if not tr["frozen"]]

    def insert(self, ti, k=None, io=None):
        tr = self.trees[ti]
        k = self.key() if k is None else k
        if self.set_kind:
            self.ops.append([SADD, ti, k])
            if not tr["frozen"]:
                tr["keys"][k] = 0
            return
        v = self.fresh()
        r = self.rng.random()
        if r < 0.06:
            # MutableMapping.setdefault / update
            if self.rng.random() < 0.5:
                self.ops.append([DSETDEFAULT, ti, k, v])
                if not tr["frozen"] and k not in tr["keys"]:
                    tr["keys"][k] = v
            else:
                self.ops.append([DUPDATE, ti, k, v])
                if not tr["frozen"]:
                    tr["keys"][k] = v
            return
        if r < 0.75:
            self.ops.append([INS, ti, k, v, int(tr["io"] if io is None else io)])
            self.ident.add(v)  # the element object with this id is known to the runner
        else:
            self.ops.append([DSET, ti, k, v])  # BTreeDict makes its own KV object
        if not tr["frozen"]:
            tr["keys"][k] = v

    def delete(self, ti, k=None, present=0.8):
        tr = self.trees[ti]
        if k is None:
            if tr["keys"] and self.rng.random() < present:
                k = self.rng.choice(sorted(tr["keys"]))
            else:
                k = self.key()
        if self.rng.random() < 0.08:
            # the mixins: pop(k) / remove(k) (KeyError when absent), popitem() / pop(), clear()
            q = self.rng.random()
            if q < 0.6:
                self.ops.append([SREMOVE if self.set_kind else DPOP, ti, k])
                if not tr["frozen"]:
                    tr["keys"].pop(k, None)
            elif q < 0.95 or len(tr["keys"]) > 40:
                self.ops.append([SPOP if self.set_kind else DPOPITEM, ti])
                if not tr["frozen"] and tr["keys"]:
                    tr["keys"].pop(min(tr["keys"]))
            else:
                self.ops.append([SCLEAR if self.set_kind else DCLEAR, ti])
                if not tr["frozen"]:
                    tr["keys"].clear()
            return
        if self.set_kind:
            self.ops.append([SDISC, ti, k])
        else:
            r = self.rng.random()
            if r < 0.6:
                self.ops.append([DEL, ti, k])
            elif r < 0.8:
                self.ops.append([DDEL, ti, k])
            else:
                if k in tr["keys"] and tr["keys"][k] in self.ident and self.rng.random() < 0.8:
                    self.ops.append([DELX, ti, k, tr["keys"][k]])
                else:
                    self.ops.append([DELX, ti, k, self.fresh()])  # never-inserted object
                    return  # mismatch / no match: nothing removed
        if not tr["frozen"]:
            tr["keys"].pop(k, None)

    def read(self, ti):
        r = self.rng.random()
        k = self.key()
        if len(self.trees[ti]["keys"]) > 700:
            r = r * 0.75  # no full listings of big trees (literal size)
            if self.set_kind:
                self.ops.append([SIN, ti, k])
                return
        if self.rng.random() < 0.1:
            self.ops.append([self.rng.choice([NMIN, NMAX]), ti])
        elif self.set_kind:
            self.ops.append(self.rng.choice([[SIN, ti, k], [LEN, ti], [ITER, ti]]))
        elif r < 0.4:
            self.ops.append([GET, ti, k])
        elif r < 0.6:
            self.ops.append([DGET, ti, k])
        elif r < 0.75:
            self.ops.append([LEN, ti])
        elif r < 0.9:
            self.ops.append([ITER, ti])
        else:
            self.ops.append([ITEMS, ti])

    def iter_ops(self, n=2):
        # iteration interleaved with the mutations of the history: open an iterator now and then,
        # advance open ones a few steps
        if not self.iters or self.rng.random() < 0.2:
            ti = self.rng.randrange(len(self.trees))
            kind = 0 if self.set_kind else self.rng.randrange(4)
            self.ops.append([ITOPEN, ti, kind])
            self.cursors.append(ti)
            self.iters[len(self.cursors) - 1] = {0: 0, 1: 0, 2: 1, 3: 2}[kind]
        for _ in range(n):
            ci = self.rng.choice(sorted(self.iters))
            self.ops.append([ITNEXT, ci, self.iters[ci]])

    def cursor_ops(self, n=3):
        plain = [i for i in range(len(self.cursors)) if i not in self.iters]
        if not plain or self.rng.random() < 0.15:
            ti = self.rng.randrange(len(self.trees))
            self.ops.append([CUR, ti])
            self.cursors.append(ti)
            plain.append(len(self.cursors) - 1)
        for _ in range(n):
            ci = self.rng.choice(plain)
            r = self.rng.random()
            if r < 0.2:
                tr = self.trees[self.cursors[ci]]
                k = self.rng.choice(sorted(tr["keys"])) if tr["keys"] and self.rng.random() < 0.6 else self.key() - (self.rng.random() < 0.1)
                self.ops.append([SEEK, ci, k, self.rng.randrange(2)])
            elif r < 0.25:
                self.ops.append([FIRST, ci])
            elif r < 0.3:
                self.ops.append([LAST, ci])
            elif r < 0.7:
                self.ops.append([NEXT, ci])
            else:
                self.ops.append([PREV, ci])

    def freeze_and_clone(self, ti, nclones=None):
        if not self.trees[ti]["frozen"]:
            self.ops.append([FREEZE, ti])
            self.trees[ti]["frozen"] = True
        out = []
        for _ in range(nclones or self.rng.choice([1, 1, 2, 3])):
            if self.rng.random() < 0.3:
                self.ops.append([COPY, ti])
                io = False
            else:
                io = self.rng.random() < 0.3
                self.ops.append([CLONE, ti, int(io)])
            self.trees.append({"keys": dict(self.trees[ti]["keys"]), "frozen": False, "io": io})
            out.append(len(self.trees) - 1)
        return out

    def dump(self, ti):
        if len(self.trees[ti]["keys"]) <= 700:
            self.ops.append([DUMP, ti])

    def case(self):
        return [0] + self.ops


def gen_history(rng, t, nops, keyspace, set_kind=False, cursors=True, clones=True):
    g = Gen(rng, t, keyspace, set_kind)
    g.new()
    phase = "grow"
    target = rng.choice([keyspace // 4, keyspace // 2, keyspace])
    while len(g.ops) < nops:
        mut = g.mutable()
        if not mut:
            g.freeze_and_clone(rng.randrange(len(g.trees)))
            continue
        ti = rng.choice(mut)
        sz = len(g.trees[ti]["keys"])
        if phase == "grow" and sz >= target:
            phase = rng.choice(["shrink", "mixed"])
        elif phase == "shrink" and sz <= rng.choice([0, 0, 2, target // 4]):
            phase = rng.choice(["grow", "mixed"])
        elif phase == "mixed" and rng.random() < 0.02:
            phase = rng.choice(["grow", "shrink"])
        r = rng.random()
        pins = {"grow": 0.75, "shrink": 0.1, "mixed": 0.4}[phase]
        pdel = {"grow": 0.05, "shrink": 0.7, "mixed": 0.4}[phase]
        if r < pins:
            if rng.random() < 0.15:
                # an ascending run (what in_order is for)
                k0 = g.key()
                for j in range(rng.randrange(2, 12)):
                    g.insert(ti, min(k0 + j, keyspace - 1), io=(rng.random() < 0.8) if not set_kind else None)
            else:
                g.insert(ti)
        elif r < pins + pdel:
            g.delete(ti)
        elif r < pins + pdel + 0.08:
            g.read(rng.randrange(len(g.trees)))
        elif r < pins + pdel + 0.16 and cursors:
            if rng.random() < 0.35:
                g.iter_ops(rng.randrange(1, 4))
            else:
                g.cursor_ops(rng.randrange(1, 5))
        elif r < pins + pdel + 0.18 and clones and len(g.trees) < 6:
            src = rng.randrange(len(g.trees))
            new = g.freeze_and_clone(src)
            # touch the clones along the same paths right away, then re-read the original
            for ci in new:
                for _ in range(rng.randrange(1, 6)):
                    (g.insert if rng.random() < 0.5 else g.delete)(ci)
            if len(g.trees[src]["keys"]) <= 700:
                g.ops.append([ITEMS if not set_kind else ITER, src])
            else:
                g.ops.append([LEN, src])
        elif r < pins + pdel + 0.19:
            # malformed / rejected calls
            q = rng.random()
            frozen = [i for i, tr in enumerate(g.trees) if tr["frozen"]]
            if q < 0.5 and frozen:
                fi = rng.choice(frozen)
                (g.insert if rng.random() < 0.5 else g.delete)(fi)
            elif q < 0.7 and len(g.trees) < 6:
                g.ops.append([CLONE, ti, 0])  # original not immutable -> ValueError
            elif q < 0.8:
                g.ops.append([NEWSET if set_kind else NEW, rng.choice([0, 1, 2]), 0])
            else:
                g.ops.append([FREEZE, rng.choice(frozen) if frozen else ti])
                if not frozen:
                    g.trees[ti]["frozen"] = True
        elif r < pins + pdel + 0.2:
            g.dump(ti)
    for ti in range(len(g.trees)):
        g.dump(ti)
        if len(g.trees[ti]["keys"]) <= 700:
            g.ops.append([ITER if set_kind else ITEMS, ti])
        g.ops.append([LEN, ti])
    return g.case()


def bfs_states(t, nkeys, in_order_modes=(0, 1), max_states=None):
    """All node structures reachable from the empty tree with insert/delete of keys 0..nkeys-1.
    Returns {dump-repr: path-of-ops}.  The value id of key k is k+1 (replacements are separate)."""
    import dns.btree as bt

    def replay(path):
        tr = bt.BTreeDict(t=t)
        for op in path:
            if op[0] == INS:
                tr.insert_element(bt.KV(op[2], op[3]), bool(op[4]))
            else:
                tr.delete_key(op[2])
        return tr

    import time

    start = repr(dump_node(replay([]).root))
    states = {start: []}
    frontier = [start]
    t0 = time.time()
    if max_states is None:
        max_states = {6: 150, 7: 330}.get(nkeys, 600)  # the unchanged code reaches 71 / 158 structures with 6 / 7 keys
    while frontier:
        if time.time() - t0 > 60:
            break
        nxt = []
        for s in frontier:
            path = states[s]
            for k in range(nkeys):
                cand = [[INS, 0, k, k + 1, io] for io in in_order_modes] + [[DEL, 0, k]]
                for op in cand:
                    try:
                        tr = lib.with_watchdog(replay, path + [op], seconds=5.0)
                        d = repr(dump_node(tr.root))
                    except lib.Hang:
                        states["crash:" + repr(path + [op])] = path + [op]
                        _HANGS[0] += 1
                        if _HANGS[0] >= 3:  # the implementation loops: a few histories suffice for the report
                            return states
                        continue
                    except Exception:  # noqa - the history is still emitted; the oracle reports it
                        states["crash:" + repr(path + [op])] = path + [op]
                        continue
                    if d not in states:
                        states[d] = path + [op]
                        nxt.append(d)
                        if max_states and len(states) >= max_states:
                            return states
        frontier = nxt
    return states


def exhaustive_cases(ctx, t, nkeys, max_states=None, cursor_walks=True, light=False):
    rng = ctx.rng
    states = bfs_states(t, nkeys, max_states=max_states)
    ctx.notes.setdefault("exhaustive_scopes", []).append(
        {"t": t, "keys": nkeys, "reachable_node_structures": len(states), "capped": bool(max_states and len(states) >= max_states)}
    )
    for s, path in states.items():
        pre = [0, [NEW, t, 0]] + path
        tail = []
        # every single operation from this structure, each on its own clone of the history
        for k in range(-1, nkeys + 1):
            ops = ([INS, 0, k, 100 + k, 0], [INS, 0, k, 100 + k, 1], [DEL, 0, k], [DELX, 0, k, k + 1], [DELX, 0, k, 999], [GET, 0, k])
            if ctx.tier == "quick" and not light:
                ops = ops[:3] + ((ops[3], ops[5]) if k % 2 else (ops[4],))
            if light:
                ops = ([INS, 0, k, 100 + k, rng.randrange(2)], [DEL, 0, k] if rng.random() < 0.7 else [DELX, 0, k, k + 1])
            for op in ops:
                yield "exh", pre + [op, [DUMP, 0], [ITEMS, 0], [LEN, 0]]
        if cursor_walks:
            for k in range(-1, nkeys + 1):
                for before in (0, 1):
                    walk = [rng.choice([NEXT, PREV]) for _ in range(6)]
                    if ctx.tier == "thorough" or (k + before) % 2 == 0:
                        yield "exh-cursor", pre + [[CUR, 0], [SEEK, 0, k, before]] + [[w, 0] for w in walk]
                    # parked across one mutation
                    if ctx.tier == "thorough" or (k + before) % 2 == 1:
                        m = rng.choice([[INS, 0, rng.randrange(nkeys), 200, 0], [DEL, 0, rng.randrange(nkeys)]])
                        yield "exh-cursor", pre + [[CUR, 0], [SEEK, 0, k, before], [rng.choice([NEXT, PREV]), 0], m] + [[w, 0] for w in walk[:4]]
            n = nkeys + 2
            yield "exh-cursor", pre + [[CUR, 0], [FIRST, 0]] + [[NEXT, 0]] * n + [[PREV, 0]] * n
            yield "exh-cursor", pre + [[CUR, 0], [LAST, 0]] + [[PREV, 0]] * n + [[NEXT, 0]] * n
        # clone at this structure, mutate the clone, re-read the original
        k = rng.randrange(nkeys)
        yield "exh-clone", pre + [[FREEZE, 0], [CLONE, 0, 0], [COPY, 0], [INS, 1, k, 300, 0], [DEL, 2, rng.randrange(nkeys)], [INS, 0, k, 301, 0],
                                  [ITEMS, 0], [ITEMS, 1], [ITEMS, 2], [DUMP, 0], [DUMP, 1], [DUMP, 2]]


def short_sequences(ctx, t, nkeys, length):
    """every sequence of `length` insert/delete operations over keys 0..nkeys-1 (prefix-closed)"""
    alphabet = [[INS, 0, k, 0, 0] for k in range(nkeys)] + [[DEL, 0, k] for k in range(nkeys)]
    for seq in itertools.product(range(len(alphabet)), repeat=length):
        ops = []
        for j, a in enumerate(seq):
            op = list(alphabet[a])
            if op[0] == INS:
                op[3] = j + 1
            ops.append(op)
        yield "seq", [0, [NEW, t, 0]] + ops + [[DUMP, 0], [LEN, 0]]


def wfb_cases(ctx, histories):
    """feed the REAL node structure reached by some histories to the model's wf_b"""
    for case in histories:
        w = ImplWorld()
        try:
            lib.with_watchdog(lambda: [w.step(op) for op in case[1:]], seconds=CASE_TIMEOUT)
        except lib.Hang:
            continue
        for tr in w.trees:
            try:
                d = dump_node(tr.root)
            except Exception:  # noqa - a corrupted structure is reported through the histories
                continue
            if len(repr(d)) <= 20000:
                yield "wfb", [30, tr.t, d]


def targeted_cases(ctx):
    """small deterministic families around two easily missed spots: copy-on-write through a FULL
    shared node, and cursors parked on keys that are falsy in Python (0)"""
    v = [1000]

    def fresh():
        v[0] += 1
        return v[0]

    for t in (3, 4, 5):
        mx = 2 * t - 1
        for nkeys in (mx, mx + 1, 2 * mx + 1, 3 * mx + 2, mx * (mx + 1)):
            for io in (0, 1):
                build = [[NEW, t, io]] + [[INS, 0, 10 * k, fresh(), io] for k in range(nkeys)]
                for probe in sorted({5, 10 * (nkeys // 2) + 5, 10 * nkeys + 5, -5, 10 * (mx // 2) + 5}):
                    # insert a NEW key into clones of the frozen tree, then re-read everything
                    yield "cow-full", [0] + build + [[FREEZE, 0], [CLONE, 0, io], [COPY, 0], [INS, 1, probe, fresh(), io], [DSET, 2, probe + 1, fresh()],
                                                 [ITEMS, 0], [LEN, 0], [ITEMS, 1], [ITEMS, 2], [DUMP, 0], [DUMP, 1], [DUMP, 2],
                                                 [DEL, 1, 10 * (nkeys // 2)], [ITEMS, 0], [ITEMS, 2], [DUMP, 0]]
    for t in (3, 4):
        for nkeys in (1, 3, 2 * t - 1, 2 * t, 4 * t):
            build = [[NEW, t, 0]] + [[INS, 0, k, fresh(), 0] for k in range(nkeys)] + [[CUR, 0]]
            for start in ([[SEEK, 0, 0, 1]], [[SEEK, 0, 0, 0]], [[FIRST, 0], [NEXT, 0]], [[SEEK, 0, 1, 1], [PREV, 0]], [[SEEK, 0, 0, 1], [NEXT, 0], [PREV, 0]]):
                for mut in ([[INS, 0, -1, fresh(), 0]], [[INS, 0, -2, fresh(), 0], [INS, 0, -1, fresh(), 0]], [[DEL, 0, 0]], [[DEL, 0, 1]],
                            [[INS, 0, nkeys + k, fresh(), 0] for k in range(2 * t)], [[DEL, 0, k] for k in range(1, nkeys)]):
                    for walk in ([NEXT, NEXT, PREV], [PREV, NEXT, NEXT]):
                        yield "cursor-falsy-key", [0] + build + start + mut + [[w, 0] for w in walk] + [[ITEMS, 0]]


def targeted_cases2(ctx):
    """copy-on-write on every delete path (steal / merge / successor replacement through shared
    nodes), in-order optimisation stealing into a shared left sibling, cursors on a three-level
    tree, the BTreeSet API"""
    v = [5000]

    def fresh():
        v[0] += 1
        return v[0]

    for t in (3, 4):
        for nkeys in (2 * t, 3 * t + 1, 6 * t - 1, 8 * t + 2, (2 * t) * (2 * t) + 1):
            orders = {"asc": list(range(nkeys)), "desc": list(range(nkeys - 1, -1, -1)),
                      "mid": sorted(range(nkeys), key=lambda k: (abs(k - nkeys // 2), k))}
            for oname, order in orders.items():
                # ascending builds leave the big node on the right (right steals), descending ones on
                # the left (left steals), middle-out ones in the middle
                build = [[NEW, t, 0]] + [[INS, 0, 10 * k, fresh(), 0] for k in order]
                step = (1 if nkeys <= 30 else 3) * (1 if oname == "asc" else 2)
                for k in range(0, nkeys, step):
                    # delete one key from a fresh clone (every node on the path is still shared)
                    yield "cow-delete", [0] + build + [[FREEZE, 0], [CLONE, 0, 0], [CLONE, 0, 0], [DEL, 1, 10 * k], [DEL, 1, 10 * k + 5],
                                                       [ITEMS, 0], [ITEMS, 2], [LEN, 0], [DUMP, 0], [DUMP, 1], [DEL, 2, 10 * ((k + 1) % nkeys)], [ITEMS, 0], [DUMP, 0]]
            build = [[NEW, t, 0]] + [[INS, 0, 10 * k, fresh(), 0] for k in range(nkeys)]
            # ascending in_order inserts into a clone of a tree built WITHOUT the optimisation
            yield "cow-inorder", [0] + build + [[FREEZE, 0], [CLONE, 0, 1]] + [[INS, 1, 10 * nkeys + j, fresh(), 1] for j in range(4 * t)] +                 [[INS, 1, 10 * (nkeys // 2) + j, fresh(), 1] for j in range(1, 6)] + [[ITEMS, 0], [DUMP, 0], [DUMP, 1], [LEN, 1]]
    t = 3
    nkeys = 26
    build = [[NEW, t, 0]] + [[INS, 0, 2 * k, fresh(), 0] for k in range(nkeys)] + [[CUR, 0]]
    for k in range(-1, 2 * nkeys + 1):
        for before in (0, 1):
            yield "cursor-3level", [0] + build + [[SEEK, 0, k, before]] + [[NEXT, 0]] * 3 + [[PREV, 0]] * 5 + [[NEXT, 0]] * 2
    for t in (3, 5):
        for io in (0, 1):
            ops = [[NEWSET, t, io]]
            for k in (5, 1, 9, 3, 7, 1, 11, 0, 13, 2, 15, 4, 17, 6):
                ops += [[SADD, 0, k], [SIN, 0, k], [SIN, 0, k + 100]]
            ops += [[NMIN, 0], [NMAX, 0], [SREMOVE, 0, 17], [SREMOVE, 0, 17], [SPOP, 0], [LEN, 0], [ITER, 0]]
            ops += [[LEN, 0], [ITER, 0], [CUR, 0], [SEEK, 0, 4, 1], [NEXT, 0], [SDISC, 0, 5], [NEXT, 0], [SDISC, 0, 99], [LEN, 0],
                    [FREEZE, 0], [SADD, 0, 50], [SDISC, 0, 1], [COPY, 0], [SADD, 1, 50], [SDISC, 1, 0], [ITER, 0], [ITER, 1], [DUMP, 0], [DUMP, 1],
                    [SPOP, 1], [SREMOVE, 1, 50], [ITER, 1], [SCLEAR, 1], [LEN, 1], [SPOP, 1], [SCLEAR, 1], [SADD, 1, 3], [DUMP, 1], [ITER, 0]]
            yield "set-api", [0] + ops
    for t in (3, 4, 5, 127):
        for io in (0, 1):
            # BTreeDict mapping API incl. KeyError, replacement, len, iteration, frozen / clone rules
            ops = [[NEW, t, io]]
            for k in (5, 1, 9, 3, 7, 1, 11, 0, 13, 2, 15, 4, 17, 6, 5):
                ops += [[DSET, 0, k, fresh()], [DGET, 0, k], [DGET, 0, k + 100], [LEN, 0]]
            ops = [[NEW, t, io], [NMIN, 0], [NMAX, 0], [DPOPITEM, 0], [DCLEAR, 0], [DPOP, 0, 1]] + ops[1:] + [[NMIN, 0], [NMAX, 0]]
            ops += [[DPOP, 0, 9], [DPOP, 0, 9], [DSETDEFAULT, 0, 9, fresh()], [DSETDEFAULT, 0, 9, fresh()], [DUPDATE, 0, 21, fresh()], [DUPDATE, 0, 21, fresh()], [DPOPITEM, 0], [NMIN, 0]]
            ops += [[DDEL, 0, 99], [DDEL, 0, 5], [DDEL, 0, 5], [DGET, 0, 5], [ITER, 0], [ITEMS, 0], [LEN, 0],
                    [CLONE, 0, 0], [COPY, 0], [NEW, 2, 0], [NEW, 0, 0], [FREEZE, 0], [FREEZE, 0], [DSET, 0, 1, fresh()], [DDEL, 0, 1], [DEL, 0, 1],
                    [DELX, 0, 1, 1], [INS, 0, 77, fresh(), 0], [DGET, 0, 1], [CLONE, 0, io], [DSET, 1, 1, fresh()], [DDEL, 1, 3], [DGET, 0, 1],
                    [DGET, 0, 3], [DGET, 1, 3], [CLONE, 1, 0], [FREEZE, 1], [CLONE, 1, 0], [ITEMS, 0], [ITEMS, 1], [ITEMS, 2], [LEN, 2],
                    [CUR, 2], [SEEK, 0, 7, 1], [NEXT, 0], [DCLEAR, 2], [NEXT, 0], [LEN, 2], [NMAX, 2], [DUMP, 2], [DSET, 2, 4, fresh()], [PREV, 0], [DUMP, 2], [ITEMS, 0]]
            yield "dict-api", [0] + ops
    for t in (3, 4, 5):
        for n in (2 * t - 1, 2 * t, 6 * t, 30 * t):
            # ascending insertion with the in-order optimisation: left siblings are filled up
            ops = [[NEW, t, 1]]
            for k in range(n):
                ops.append([INS, 0, k, fresh(), 1])
                if k % max(1, n // 6) == 0:
                    ops.append([DUMP, 0])
            ops += [[INS, 0, k + 0, fresh(), 1] for k in range(0, n, 3)]  # replacements
            ops += [[DUMP, 0], [ITEMS, 0] if n <= 100 else [LEN, 0], [LEN, 0]] + [[DEL, 0, k] for k in range(0, n, 2)] + [[DUMP, 0], [LEN, 0]]
            yield "inorder-asc", [0] + ops


def widen(ctx, disagreements):
    """model and implementation differ (or a proof broke) but no history of this run violates the
    property: look further - every prefix of the disagreeing histories, then more random ones"""
    import random

    found = []
    for d in disagreements[:20]:
        case = d.get("case")
        if not isinstance(case, list) or not case or case[0] != 0:
            continue
        for n in range(2, len(case)):
            f = oracle(ctx, "widen-prefix", case[: n + 1], None)
            if f:
                f[0]["case"] = case[: n + 1]
                found.append(f[0])
                break
        if found:
            return found
    rng = random.Random(ctx.seed * 7919 + 13)
    for i in range(ctx.n(300, 1500)):
        t = rng.choice([3, 3, 4, 5, 7])
        c = gen_history(rng, t, rng.choice([60, 200, 500]), rng.choice([10, 30, 80, 300]), set_kind=rng.random() < 0.15)
        f = oracle(ctx, "widen-random", c, None)
        if f:
            f[0]["case"] = c
            found.append(f[0])
            if len(found) >= 3:
                break
    return found


def frozen_cases(ctx):
    """trees frozen while the root / a node on the path holds exactly 2t-1 keys, clones taken before
    and after the rejected calls; every kind of mutation is attempted on the frozen tree and must be
    rejected WITHOUT any effect on the frozen tree or on any clone (the oracle re-reads everything
    after each rejected call)"""
    v = [9000]

    def fresh():
        v[0] += 1
        return v[0]

    plans = [(3, list(range(1, 41))), (4, list(range(6, 62, 2))), (5, list(range(8, 75, 3))), (127, [253, 254, 400])]
    if ctx.tier == "quick":
        plans = [(3, list(range(1, 41, 1))), (4, [7, 8, 15, 31, 32, 49]), (5, [9, 10, 50]), (127, [253])]
    for t, sizes in plans:
        for nkeys in sizes:
            for variant in (0, 1):
                keys = [10 * k for k in range(nkeys)]
                build = [[NEW, t, variant]] + [[INS, 0, k, fresh(), variant] for k in keys]
                mid = 10 * (nkeys // 2)
                ins = [[INS, 0, -5, fresh(), 0], [INS, 0, mid + 5, fresh(), 1], [INS, 0, 10 * nkeys + 5, fresh(), 0], [DSET, 0, mid + 7, fresh()],
                       [INS, 0, mid, fresh(), 0], [DSET, 0, 0, fresh()]]
                dels = [[DEL, 0, mid], [DEL, 0, mid + 5], [DDEL, 0, 0], [DDEL, 0, 3], [DELX, 0, mid, 1], [DELX, 0, mid + 5, 1], [DEL, 0, keys[-1]]]
                rejected = ins + dels if variant == 0 else dels + ins
                tail = [[ITEMS, 0] if nkeys <= 80 else [LEN, 0], [LEN, 0], [LEN, 1], [DUMP, 0] if nkeys <= 80 else [LEN, 0]]
                hist = [0] + build + [[FREEZE, 0], [CLONE, 0, 0], [CUR, 1], [SEEK, 0, mid, 1]] + rejected + \
                    [[COPY, 0], [NEXT, 0], [NEXT, 0]] + tail + \
                    [[INS, 1, mid + 5, fresh(), 0], [DEL, 2, mid], [INS, 0, 1, fresh(), 0], [LEN, 0], [LEN, 1], [LEN, 2]] + \
                    ([[ITEMS, 0], [ITEMS, 1], [ITEMS, 2], [DUMP, 1], [DUMP, 2]] if nkeys <= 80 else [])
                yield "frozen-full", hist
                if variant == 0 and (ctx.tier == "thorough" or nkeys % 4 == 1):
                    # the same through the mapping mixins (oracle only)
                    mix = [[DPOP, 0, mid], [DPOP, 0, mid + 5], [DPOPITEM, 0], [DSETDEFAULT, 0, mid, 1], [DSETDEFAULT, 0, mid + 5, fresh()],
                           [DUPDATE, 0, mid + 6, fresh()], [DUPDATE, 0, mid, fresh()], [DCLEAR, 0]]
                    yield "frozen-mixin", [0] + build + [[FREEZE, 0], [CLONE, 0, 0]] + mix + [[COPY, 0], [LEN, 0], [LEN, 1], [LEN, 2],
                                                                                             [DPOP, 1, mid], [DPOPITEM, 2], [DSETDEFAULT, 1, mid + 5, fresh()], [DCLEAR, 2], [LEN, 0], [LEN, 1], [LEN, 2]]
                    sbuild = [[NEWSET, t, 0]] + [[SADD, 0, k] for k in keys]
                    smix = [[SADD, 0, mid + 5], [SADD, 0, mid], [SDISC, 0, mid], [SDISC, 0, mid + 5], [SREMOVE, 0, mid], [SREMOVE, 0, mid + 5], [SPOP, 0], [SCLEAR, 0]]
                    yield "frozen-mixin", [0] + sbuild + [[FREEZE, 0], [CLONE, 0, 0]] + smix + [[COPY, 0], [LEN, 0], [LEN, 1], [LEN, 2], [SIN, 1, mid],
                                                                                              [SREMOVE, 1, mid], [SPOP, 2], [SADD, 1, mid + 5], [SCLEAR, 2], [LEN, 0], [LEN, 1], [LEN, 2]]


def iter_cases(ctx):
    """`for k in tree` / keys() / items() / values() / iter(set) with mutations BETWEEN two steps of the
    iterator: delete the key just yielded, delete ahead / behind, inserts that split the current leaf,
    deletes that merge it, replacements, mutation of a clone while the original is iterated and the
    other way round.  The yielded sequence must be the one of a cursor parked on its last key."""
    rng = ctx.rng
    v = [20000]

    def fresh():
        v[0] += 1
        return v[0]

    mode_of = {0: 0, 1: 0, 2: 1, 3: 2}
    for t in (3, 4) if ctx.tier == "quick" else (3, 4, 5):
        mx = 2 * t - 1
        for nkeys in (1, mx, mx + 1, 3 * t, 6 * t + 1, mx * (t + 1)):
            keys = [10 * k for k in range(nkeys)]
            build = [[NEW, t, 0]] + [[INS, 0, k, fresh(), 0] for k in keys]
            for kind in (0, 1, 2, 3):
                m = mode_of[kind]
                nx = [ITNEXT, 0, m]
                # for k in d: del d[k]
                yield "iter-mutate", [0] + build + [[ITOPEN, 0, kind]] + sum(([nx, [DDEL, 0, k]] for k in keys), []) + [nx, nx, [LEN, 0], [ITEMS, 0]]
                if kind >= 2 and ctx.tier == "quick":
                    continue
                # delete ahead of / behind the iterator, every other key
                yield "iter-mutate", [0] + build + [[ITOPEN, 0, kind], nx] + sum(([[DEL, 0, k + 10], nx, [DEL, 0, k - 10]] for k in keys[::2]), []) + [nx, nx, [ITEMS, 0]]
                # inserts around the position that split the leaf the iterator is in
                yield "iter-mutate", [0] + build + [[ITOPEN, 0, kind], nx, nx] + \
                    sum(([[INS, 0, 10 * j + 1 + i, fresh(), 0] for i in range(4)] + [nx] for j in range(min(nkeys, 8))), []) + [nx] * 6 + [[LEN, 0]]
                # inserts BEFORE the position (must not be seen), replacements of the key just yielded
                yield "iter-mutate", [0] + build + [[ITOPEN, 0, kind], nx, nx, [INS, 0, -5, fresh(), 0], [INS, 0, 5, fresh(), 0], [DSET, 0, 10, fresh()], nx, [DSET, 0, 20, fresh()], nx, nx] + \
                    [[DEL, 0, k] for k in keys[3:]] + [nx, nx, [ITEMS, 0]]
                # deletes that merge the leaf the iterator is in (all but the first keys), then refill
                yield "iter-mutate", [0] + build + [[ITOPEN, 0, kind]] + [nx] * min(3, nkeys) + [[DEL, 0, k] for k in keys[1:]] + [nx] + \
                    [[INS, 0, k + 3, fresh(), 0] for k in keys] + [nx] * 4 + [[ITEMS, 0]]
                # a clone mutated while the frozen original is iterated, and the other way round
                yield "iter-mutate", [0] + build + [[FREEZE, 0], [CLONE, 0, 0], [ITOPEN, 0, kind], [ITOPEN, 1, kind], nx, [ITNEXT, 1, m]] + \
                    sum(([[DDEL, 1, k], [INS, 1, k + 5, fresh(), 0], nx, [ITNEXT, 1, m]] for k in keys), []) + [nx, [ITNEXT, 1, m], [ITEMS, 0], [ITEMS, 1]]
            # random interleavings
            for _ in range(ctx.n(4, 12)):
                kind = rng.randrange(4)
                m = mode_of[kind]
                ops = [[ITOPEN, 0, kind]]
                present = set(keys)
                for _ in range(rng.randrange(10, 40)):
                    r = rng.random()
                    if r < 0.4:
                        ops.append([ITNEXT, 0, m])
                    elif r < 0.7:
                        k = rng.choice([rng.randrange(-10, 10 * nkeys + 10), rng.choice(keys)])
                        ops.append([INS, 0, k, fresh(), rng.randrange(2)])
                        present.add(k)
                    else:
                        k = rng.choice(sorted(present)) if present and rng.random() < 0.8 else rng.randrange(10 * nkeys + 1)
                        ops.append([DEL, 0, k])
                        present.discard(k)
                yield "iter-mutate", [0] + build + ops + [[ITNEXT, 0, m]] * 3 + [[ITEMS, 0]]
        # iter(set)
        sbuild = [[NEWSET, t, 0]] + [[SADD, 0, 10 * k] for k in range(3 * t)]
        nx = [ITNEXT, 0, 0]
        yield "iter-mutate", [0] + sbuild + [[ITOPEN, 0, 0]] + sum(([nx, [SDISC, 0, 10 * k], [SADD, 0, 10 * k + 15]] for k in range(3 * t)), []) + [nx] * 5 + [[ITER, 0]]


def drop_cases(ctx):
    """the life cycle of pruned versions: A is built and frozen, B = clone(A), the handle A is DROPPED
    (its nodes live on inside B), B is frozen, several clones C_i of B are made right after the drop and
    each is mutated along its own path (replace / insert / delete through the shared nodes); B and every
    C_j are re-read after every mutation.  Many rounds per history: whatever the allocator does with the
    freed handle (a later clone may get its address), a clone must never mistake nodes of the dropped
    tree for its own."""
    rng = ctx.rng
    v = [50000]

    def fresh():
        v[0] += 1
        return v[0]

    plans = [(3, 14, 10, 4), (3, 5, 14, 4), (4, 20, 8, 4), (5, 9, 10, 3), (3, 40, 5, 5), (127, 300, 2, 3)]
    reps = ctx.n(2, 8)
    for t, nkeys, rounds, nclones in plans:
        for rep in range(reps):
            for set_kind in ((False, True) if rep == 0 else (False,)):
                ops = []
                nt = 0  # next tree index
                for rd in range(rounds):
                    keys = [10 * k for k in range(nkeys)]
                    a = nt
                    nt += 1
                    ops.append([NEWSET if set_kind else NEW, t, rd % 2])
                    order = keys if rd % 3 else list(reversed(keys))
                    for k in order:
                        ops.append([SADD, a, k] if set_kind else [INS, a, k, fresh(), rd % 2])
                    ops.append([FREEZE, a])
                    b = nt
                    nt += 1
                    ops.append([CLONE, a, 0] if rd % 2 else [COPY, a])
                    # optionally grow B a little before it is frozen (its own nodes + A's nodes)
                    if rep % 2:
                        for k in rng.sample(keys, min(3, len(keys))):
                            ops.append([SADD, b, k + 5] if set_kind else [INS, b, k + 5, fresh(), 0])
                    ops.append([DROP, a])
                    ops.append([FREEZE, b])
                    cs = []
                    for i in range(nclones):
                        cs.append(nt)
                        nt += 1
                        ops.append([CLONE, b, i % 2] if (i + rd) % 2 else [COPY, b])
                    for i, ci in enumerate(cs):
                        ks = rng.sample(keys, min(len(keys), 4))
                        for j, k in enumerate(ks):
                            m = (i + j + rep) % 4
                            if set_kind:
                                ops.append([SDISC, ci, k] if m % 2 else [SADD, ci, k + 1 + i])
                            elif m == 0:
                                ops.append([INS, ci, k, fresh(), 0])  # replace in a shared node
                            elif m == 1:
                                ops.append([DEL, ci, k])
                            elif m == 2:
                                ops.append([DSET, ci, k + 1 + i, fresh()])
                            else:
                                ops.append([DDEL, ci, k])
                        ops.append([LEN, b])
                    if nkeys <= 40:
                        ops.append([ITEMS, b])
                        ops.append([ITEMS, cs[0]])
                    if rd == rounds - 1 and nkeys <= 40:
                        ops.append([DUMP, b])
                        ops.append([DUMP, cs[-1]])
                    # the clones of this round and B are dropped too: the next round starts from a clean slate
                    for ci in cs[1:]:
                        ops.append([DROP, ci])
                    ops.append([DROP, b])
                ctx.count("drop-chain")
                yield "drop-chain", [0] + ops
    for t, ks, n in ((3, 30, 300), (3, 120, 600), (4, 60, 400), (5, 100, 400), (127, 500, 900)):
        for j in range(ctx.n(3, 12)):
            ctx.count("drop-random")
            yield "drop-random", drop_random(rng, t, ks, n, set_kind=(j % 4 == 3))


def drop_random(rng, t, keyspace, nops, set_kind=False):
    """random generations of versions: live mutable clones are mutated at random; every now and then one
    of them is frozen and becomes the base of new clones while older handles (bases and clones) are
    dropped - nodes of many dropped generations stay shared between the live trees"""
    ops = [[NEWSET if set_kind else NEW, t, 0]]
    keys = {0: {}}  # live tree index -> {key: value id}
    frozen = set()
    nt = 1
    vid = [70000]

    def put(ti, k):
        vid[0] += 1
        if set_kind:
            ops.append([SADD, ti, k])
            keys[ti][k] = 0
        else:
            ops.append([INS, ti, k, vid[0], int(rng.random() < 0.3)] if rng.random() < 0.7 else [DSET, ti, k, vid[0]])
            keys[ti][k] = vid[0]

    for k in rng.sample(range(keyspace), min(keyspace, 3 * t + rng.randrange(4 * t))):
        put(0, k)
    while len(ops) < nops:
        live = [i for i in keys if i not in frozen]
        r = rng.random()
        if live and r < 0.8:
            ti = rng.choice(live)
            d = keys[ti]
            if d and rng.random() < 0.45:
                k = rng.choice(sorted(d)) if rng.random() < 0.85 else rng.randrange(keyspace)
                ops.append([SDISC, ti, k] if set_kind else ([DEL, ti, k] if rng.random() < 0.6 else [DPOP, ti, k] if k in d else [DEL, ti, k]))
                d.pop(k, None)
            else:
                put(ti, rng.choice(sorted(d)) if d and rng.random() < 0.3 else rng.randrange(keyspace))
        elif live:
            # a new generation: freeze one live tree, drop some older handles, clone right away
            base = rng.choice(live)
            ops.append([FREEZE, base])
            frozen.add(base)
            victims = [i for i in keys if i != base and rng.random() < 0.7]
            for i in victims:
                ops.append([DROP, i])
                del keys[i]
                frozen.discard(i)
            for _ in range(rng.choice([1, 2, 3, 4])):
                ops.append([COPY, base] if rng.random() < 0.4 else [CLONE, base, int(rng.random() < 0.3)])
                keys[nt] = dict(keys[base])
                nt += 1
        else:
            base = rng.choice(sorted(keys))
            ops.append([CLONE, base, 0])
            keys[nt] = dict(keys[base])
            nt += 1
        if rng.random() < 0.03:
            ti = rng.choice(sorted(keys))
            ops.append([LEN, ti] if len(keys[ti]) > 300 else [ITER if set_kind else ITEMS, ti])
    for ti in sorted(keys):
        if len(keys[ti]) <= 300:
            ops.append([DUMP, ti])
        ops.append([LEN, ti])
    return [0] + ops


def cases(ctx):
    rng = ctx.rng
    hist = []
    yield from drop_cases(ctx)
    yield from iter_cases(ctx)
    yield from frozen_cases(ctx)
    yield from targeted_cases(ctx)
    yield from targeted_cases2(ctx)
    # exhaustive small scopes at t = 3
    yield from exhaustive_cases(ctx, 3, ctx.n(6, 7))
    if ctx.tier == "thorough":
        yield from short_sequences(ctx, 3, 6, 3)
        yield from exhaustive_cases(ctx, 3, 18, max_states=300, cursor_walks=False, light=True)
        ctx.notes["exhaustive_sequences"] = "all insert/delete sequences of length 3 over keys 0..5 at t=3; all reachable structures (any history length) over keys 0..6 x every operation; first 300 structures over keys 0..17 (three levels)"
    else:
        yield from short_sequences(ctx, 3, 6, 2)
    ctx.notes["exhaustive"] = True
    # random histories
    plan = []
    for t, ks, n in ((3, 24, 120), (3, 60, 300), (3, 200, 500), (4, 40, 200), (4, 120, 400), (5, 60, 250), (5, 200, 500), (127, 600, 700)):
        plan += [(t, ks, n)] * ctx.n(6 if t != 127 else 2, 60 if t != 127 else 12)
    for t, ks, n in plan:
        set_kind = rng.random() < 0.15
        c = gen_history(rng, t, n, ks, set_kind=set_kind)
        hist.append(c)
        ctx.count(f"t:{t}")
        yield "hist-set" if set_kind else "hist", c
    # long histories (deep trees)
    for t, ks, n in ((3, 3000, ctx.n(3000, 12000)), (4, 2000, ctx.n(2000, 8000)), (127, 6000, ctx.n(0, 9000))):
        if n:
            c = gen_history(rng, t, n, ks, cursors=True, clones=True)
            ctx.count(f"long:t{t}")
            yield "hist-long", c
    yield from wfb_cases(ctx, hist[:: max(1, len(hist) // ctx.n(20, 100))])
