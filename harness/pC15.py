"""C15 - key-free DNSSEC computations equal an independent RFC 4034/4035/5155/6840/8976 reference.

Correspondence: every case goes through the implementation under $VERIF_REPO and through the Coq model
(coq/Model/DnssecM.v, `run_with table` where `table` is regenerated from dns/rdtypes/** on every
run by tools/translate_canon.py).  Hash functions are never trusted to the model: the model emits
the octets that are hashed; the implementation side records what dns.dnssec / dns.zone feed to
hashlib (monkey-patched recorder) and checks the library's digest against hashlib on that input.

Oracle: the `ref_*` functions below are an independent implementation written from the RFC text;
they never call dnspython.
"""
import hashlib
import os
import struct
import sys

import namelib as nl
from lib import Err
import lib

ID = "C15"
COQ_IMPORTS = "From DV Require Import Model.NameM Model.DnssecM.\nFrom Scratch Require Import GenCanon."
COQ_RUN = "GenCanon.run"
CASE_TIMEOUT = 30.0
TRUSTED = [
    "model: coq/Model/DnssecM.v (key_id, to_digestable driven by the generated per-type table, _make_rrsig_signature_data, make_ds input, nsec3_hash with the hash as a parameter, Bitmap.from_rdtypes, _sign_zone_nsec, Zone._compute_digest input)",
    "tools/translate_canon.py (fail-closed AST reader of dns/rdtypes/**, dns/rdata.py, dns/name.py; its table is re-proved against RFC 4034 6.2 by vm_compute and exercised per type by the correspondence cases)",
    "hashlib (SHA-1/256/384/512) as the hash oracle; the harness' recorder around hashlib inside dns.dnssec / dns.zonetypes",
    "independent reference ref_* in harness/pC15.py (RFC 4034 3.1.8.1, 5.1.4, 6.1-6.3, app. B; RFC 4035 2.3, 5.3.2; RFC 5155 5; RFC 6840 5.1; RFC 8976 3.3)",
]
RULE = ("cases are drawn from structured generators (one PRNG seeded by VERIF_SEED): per-type rdata with mixed-case names for every "
        "rdtypes class that embeds a name, RRsets with all label-count relations, DNSKEYs of both key-tag branches, NSEC3 parameters, "
        "type sets across bitmap windows, zones with delegations/glue/empty non-terminals (relativized and absolute); distinct = distinct "
        "canonical case; non-trivial = the implementation returned a value or a new error class for that case kind")
ASSUMPTIONS = [
    "SHA-1/SHA-2 are taken from hashlib on both sides; the model proves statements about the hashed octet strings and about the NSEC3 iteration for an arbitrary hash function",
    "obsolete types of RFC 4034 6.2 without an rdata class in dnspython (MD MF MB MG MR MINFO NXT A6) are opaque GenericRdata: reported as a known finding, not modelled",
]

# ------------------------------------------------------------------ generated table


_GEN = {}


def _ensure_gen(ctx):
    """run the translator on the tree under test and compile its output in the scratch dir"""
    key = ctx.scratch
    if key in _GEN:
        return _GEN[key]
    sys.path.insert(0, os.path.join(lib.VERIF, "tools"))
    import translate_canon as tc

    d = os.path.join(ctx.scratch, "cases")
    os.makedirs(d, exist_ok=True)
    out = os.path.join(d, "GenCanon.v")
    res = {"ok": False, "obligations": 2, "discharged": 0,
           "theorems": ["canon_flags_match_rfc4034", "canonical_rdata_eq_rfc4034"], "log": "", "info": {}}
    sem = os.path.exists(os.path.join(lib.COQ, "Proofs", "DnssecCanon.v"))
    if not sem:
        res["obligations"] = 1
        res["theorems"] = res["theorems"][:1]
    entries = None
    try:
        entries, info = tc.translate(lib.REPO)
        res["info"] = {"classes_scanned": info["classes"], "types_with_names": info["types"]}
        text = tc.emit(entries, lib.REPO, with_semantics=sem)
    except tc.Unsupported as e:
        res["log"] = f"translate_canon failed closed: {e}"
        res["info"] = {"translator_error": str(e)}
        text = None
    lib.coq_make(["Model/DnssecM.vo"] + (["Proofs/DnssecCanon.vo"] if sem else []))
    if text is not None:
        open(out, "w").write(text)
        rc, log, _ = lib.run_cmd(["coqc", "-Q", lib.COQ, "DV", "-Q", d, "Scratch", out], timeout=900)
        if rc == 0 and log.count("Closed under the global context") >= res["obligations"]:
            res["ok"] = True
            res["discharged"] = res["obligations"]
        else:
            res["log"] = "generated obligations do not check:\n" + log[-3000:]
            text = None
    if text is None:
        # keep the correspondence running (it will disagree wherever the table matters): the table
        # without the theorems, or an empty table when the translator failed closed
        body = "From DV Require Import Base.Prelude Model.NameM Model.DnssecM.\nOpen Scope Z_scope.\n"
        if entries is not None:
            t = tc.emit(entries, lib.REPO, with_semantics=False)
            t = t.split("Theorem canon_flags_match_rfc4034")[0]
            body = t
        else:
            body += "Definition table : list entry := [].\n"
        body += "\nDefinition run : obs -> obs := run_with table.\n"
        open(out, "w").write(body)
        rc, log, _ = lib.run_cmd(["coqc", "-Q", lib.COQ, "DV", "-Q", d, "Scratch", out], timeout=900)
        if rc != 0:
            res["log"] += "\nfallback table does not compile:\n" + log[-2000:]
    _GEN[key] = res
    return res


def generated_obligations(ctx):
    res = _ensure_gen(ctx)
    ctx.notes["translator"] = res.get("info")
    return res


# ------------------------------------------------------------------ independent reference (RFCs)

T = dict(A=1, NS=2, MD=3, MF=4, CNAME=5, SOA=6, MB=7, MG=8, MR=9, PTR=12, HINFO=13, MINFO=14, MX=15, TXT=16, RP=17,
         AFSDB=18, RT=21, NSAP_PTR=23, SIG=24, PX=26, AAAA=28, NXT=30, SRV=33, NAPTR=35, KX=36, A6=38, DNAME=39,
         DS=43, IPSECKEY=45, RRSIG=46, NSEC=47, DNSKEY=48, NSEC3PARAM=51, HIP=55, CDS=59, CDNSKEY=60, ZONEMD=63,
         SVCB=64, HTTPS=65, DSYNC=66, LP=107, TKEY=249, TSIG=250, AMTRELAY=260)
TNAME = {v: k for k, v in T.items()}

# RFC 4034 6.2 item 3; HINFO carries no name; NSEC removed by RFC 6840 5.1
RFC4034_DOWNCASE = {T[x] for x in ("NS MD MF CNAME SOA MB MG MR PTR MINFO MX RP AFSDB RT SIG PX NXT NAPTR KX SRV "
                                   "DNAME A6 RRSIG").split()}
OBSOLETE_NO_CLASS = {T[x]: n for x, n in (("MD", 1), ("MF", 1), ("MB", 1), ("MG", 1), ("MR", 1), ("MINFO", 2))}


def r_lower(b):
    return bytes(c + 32 if 0x41 <= c <= 0x5A else c for c in b)


def r_abs(n):
    return len(n) > 0 and n[-1] == b""


def r_expand(n, origin):
    if r_abs(n):
        return list(n)
    if origin is None or not r_abs(origin):
        return None
    return list(n) + list(origin)


def r_wire(n, low):
    return b"".join(bytes([len(l)]) + (r_lower(l) if low else l) for l in n)


def r_valid(n):
    return all(len(l) <= 63 for l in n) and sum(len(l) + 1 for l in n) <= 255 and b"" not in n[:-1]


def r_key(n):
    """RFC 4034 6.1 sort key of an absolute name"""
    return [r_lower(l) for l in reversed(n)]


def ref_canon_rdata(ty, fields, origin):
    """RFC 4034 6.2: names fully expanded, uncompressed, lower-cased only for the listed types"""
    out = b""
    for f in fields:
        if isinstance(f, (bytes, bytearray)):
            out += bytes(f)
        else:
            n = r_expand(f, origin)
            if n is None or not r_valid(n):
                return None
            out += r_wire(n, ty in RFC4034_DOWNCASE)
    return out


def ref_keytag(rdata, alg):
    """RFC 4034 appendix B (and B.1 with erratum 2681 for algorithm 1)"""
    if alg == 1:
        if len(rdata) < 3:
            return None
        return (int.from_bytes(rdata, "big") % (1 << 24)) >> 8
    ac = 0
    for i, b in enumerate(rdata):
        ac += b if (i & 1) else b << 8
    ac += (ac >> 16) & 0xFFFF
    return ac & 0xFFFF


def ref_rrsig_input(sig, owner, rdclass, rdtype, rdatas, origin):
    """RFC 4034 3.1.8.1 + RFC 4035 5.3.2.  -> bytes | 'reject' | None (no demand)"""
    cov, alg, labels, ottl, exp, inc, tag, signer, _sigbytes = sig
    s = r_expand(signer, origin)
    o = r_expand(owner, origin)
    if s is None or o is None or not r_valid(s) or not r_valid(o):
        return None
    nlab = len(o) - 1  # without root
    wild = len(o) > 0 and o[0] == b"*"
    if labels > nlab:
        return "reject"
    if wild and labels != nlab - 1:
        return None
    if labels < nlab:
        o = [b"*"] + o[len(o) - 1 - labels:]
    canon = []
    for fs in rdatas:
        c = ref_canon_rdata(rdtype, fs, origin)
        if c is None:
            return None
        if len(c) > 65535:
            return None
        canon.append(c)
    canon = sorted(set(canon))
    out = struct.pack("!HBBIIIH", cov, alg, labels, ottl, exp, inc, tag) + r_wire(s, True)
    ow = r_wire(o, True)
    for c in canon:
        out += ow + struct.pack("!HHIH", rdtype, rdclass, ottl, len(c)) + c
    return out


def ref_ds_input(owner, dnskey_rdata):
    """RFC 4034 5.1.4: digest(DNSKEY owner name | DNSKEY RDATA), owner canonical"""
    if not r_abs(owner) or not r_valid(owner):
        return None
    return r_wire(owner, True) + dnskey_rdata


B32HEX = b"0123456789ABCDEFGHIJKLMNOPQRSTUV"


def ref_base32hex(data):
    """RFC 4648 section 7, with padding"""
    out = bytearray()
    bits = 0
    acc = 0
    for b in data:
        acc = (acc << 8) | b
        bits += 8
        while bits >= 5:
            bits -= 5
            out.append(B32HEX[(acc >> bits) & 31])
    if bits:
        out.append(B32HEX[(acc << (5 - bits)) & 31])
    while len(out) % 8:
        out.append(0x3D)
    return bytes(out)


def ref_nsec3(name, salt, iterations):
    """RFC 5155 section 5: IH(salt, x, k)"""
    if not r_abs(name) or not r_valid(name):
        return None

    def IH(x, k):
        if k == 0:
            return hashlib.sha1(x + salt).digest()
        return hashlib.sha1(IH(x, k - 1) + salt).digest()

    x = r_wire(name, True)
    # iterative evaluation of the same recursion (Python's stack is shallow)
    d = hashlib.sha1(x + salt).digest()
    for _ in range(max(0, iterations)):
        d = hashlib.sha1(d + salt).digest()
    if iterations <= 50:
        assert d == IH(x, max(0, iterations))
    return ref_base32hex(d)


def ref_bitmap(types):
    """RFC 4034 4.1.2"""
    out = []
    for w in range(256):
        members = sorted({t for t in types if t // 256 == w and t != 0})
        if not members:
            continue
        nbytes = (members[-1] % 256) // 8 + 1
        bm = bytearray(nbytes)
        for t in members:
            lo = t % 256
            bm[lo // 8] |= 0x80 >> (lo % 8)
        out.append([w, bytes(bm)])
    return out


def r_strict_sub(n, d):
    """n is a proper subdomain of d (both absolute)"""
    return len(n) > len(d) and [r_lower(x) for x in n[len(n) - len(d):]] == [r_lower(x) for x in d]


def ref_nsec_chain(origin, nodes):
    """RFC 4035 2.3 / RFC 4034 4: nodes = [(stored name, [types])]; returns
    (chain [(owner_abs, next_abs, bitmap)], signed set {(owner_abs_key, type)})"""
    absn = []
    for n, ts in nodes:
        a = r_expand(n, origin)
        absn.append((a, ts))
    okey = r_key(origin)
    cuts = [a for a, ts in absn if T["NS"] in ts and r_key(a) != okey]
    secure = [(a, ts) for a, ts in absn if not any(r_strict_sub(a, c) for c in cuts) and ts]
    secure.sort(key=lambda x: r_key(x[0]))
    chain = []
    signed = set()
    for i, (a, ts) in enumerate(secure):
        nxt = secure[(i + 1) % len(secure)][0]
        is_cut = any(r_key(a) == r_key(c) for c in cuts)
        if is_cut:
            present = {t for t in ts if t in (T["NS"], T["DS"])}
            tosign = {t for t in ts if t == T["DS"]}
        else:
            present = set(ts)
            tosign = {t for t in ts if t != T["RRSIG"]}
        present |= {T["NSEC"], T["RRSIG"]}
        chain.append((a, nxt, ref_bitmap(present)))
        for t in tosign | {T["NSEC"]}:
            signed.add((tuple(r_key(a)), t))
    return chain, signed


def ref_zonemd_input(origin, nodes):
    """RFC 8976 3.3.1 / 3.4: every RR except the apex ZONEMD RRset and the RRSIG covering it,
    sorted by canonical owner, type, canonical RDATA; duplicates once"""
    rrs = set()
    for n, rdss in nodes:
        a = r_expand(n, origin)
        apex = r_key(a) == r_key(origin)
        for ty, cov, cls, ttl, rdatas in rdss:
            if apex and (ty == T["ZONEMD"] or (ty == T["RRSIG"] and cov == T["ZONEMD"])):
                continue
            for fs, _args in rdatas:
                c = ref_canon_rdata(ty, fs, origin)
                if c is None:
                    return None
                rrs.add((tuple(r_key(a)), ty, c, cls, ttl, r_wire(a, True)))
    out = b""
    for key, ty, c, cls, ttl, ow in sorted(rrs, key=lambda r: (list(r[0]), r[1], r[2])):
        out += ow + struct.pack("!HHIH", ty, cls, ttl, len(c)) + c
    return out


# ------------------------------------------------------------------ generators

LABEL_POOL = [b"a", b"A", b"b", b"B", b"Z", b"z", b"*", b"ab", b"Ab", b"a-b", b"a\x00", b"\x00", b"[", b"@", b"\xff", b"_x",
              b"www", b"WWW", b"ns", b"Ns1", b"mail", b"x" * 63, b"X" * 20]


def g_label(rng):
    r = rng.random()
    if r < 0.7:
        return rng.choice(LABEL_POOL)
    return nl.case_variant(rng, [nl.gen_label(rng, rng.choice([3, 8, 63]))])[0]


def g_name(rng, absolute=True, maxlabels=4, budget=120):
    n = []
    total = 1
    for _ in range(rng.choice([0, 1, 1, 2, 2, 3, maxlabels])):
        l = g_label(rng)
        if total + len(l) + 1 > budget:
            break
        n.append(l)
        total += len(l) + 1
    if absolute:
        n.append(b"")
    return n


def g_origin(rng):
    r = rng.random()
    if r < 0.5:
        return [b"example", b""]
    if r < 0.6:
        return [b""]
    if r < 0.95:
        return g_name(rng, True, 3, 60)
    return g_name(rng, False, 2, 40)  # malformed: relative origin


def g_rname(rng, origin):
    """a name as it may appear inside rdata: absolute, or relative when an origin exists"""
    if origin is not None and rng.random() < 0.3:
        return g_name(rng, False, 3, 100)
    if rng.random() < 0.03:
        return g_name(rng, False, 2, 60)  # relative without origin: NeedAbsoluteNameOrOrigin
    return g_name(rng, True, 4, 150)


def a_name(n):
    return [0] + list(n)


def rb(rng, lo, hi):
    return bytes(rng.randrange(256) for _ in range(rng.randint(lo, hi)))


def cstr(b):
    return bytes([len(b)]) + b


def u(rng, bits):
    r = rng.random()
    if r < 0.2:
        return rng.choice([0, 1, (1 << bits) - 1, 1 << (bits - 1)])
    return rng.randrange(1 << bits)


def gen_rdata(rng, cls, ty, origin):
    """-> (fields, args): fields = what an RFC-conformant encoder writes (raw octets / names),
    args = constructor arguments for the dnspython class (names as [0, labels...])"""
    N = lambda: g_rname(rng, origin)  # noqa: E731
    tn = TNAME.get(ty)
    if tn in ("NS", "CNAME", "PTR", "DNAME", "NSAP_PTR"):
        n = N()
        return [n], [a_name(n)]
    if tn in ("MX", "AFSDB", "RT", "KX", "LP"):
        p, n = u(rng, 16), N()
        return [struct.pack("!H", p), n], [p, a_name(n)]
    if tn == "RP":
        a, b = N(), N()
        return [a, b], [a_name(a), a_name(b)]
    if tn == "PX":
        p, a, b = u(rng, 16), N(), N()
        return [struct.pack("!H", p), a, b], [p, a_name(a), a_name(b)]
    if tn == "SOA":
        a, b = N(), N()
        v = [u(rng, 32)] + [u(rng, 31) for _ in range(4)]
        return [a, b, struct.pack("!IIIII", *v)], [a_name(a), a_name(b)] + v
    if tn == "NAPTR":
        o, p = u(rng, 16), u(rng, 16)
        fl, sv, rx = rb(rng, 0, 3), rb(rng, 0, 8), rb(rng, 0, 12)
        n = N()
        return [struct.pack("!HH", o, p) + cstr(fl) + cstr(sv) + cstr(rx), n], [o, p, fl, sv, rx, a_name(n)]
    if tn == "SRV":
        a, b, c, n = u(rng, 16), u(rng, 16), u(rng, 16), N()
        return [struct.pack("!HHH", a, b, c), n], [a, b, c, a_name(n)]
    if tn in ("RRSIG", "SIG"):
        cov, alg, lab = rng.choice([1, 2, 6, 15, 48, 63, 1234]), u(rng, 8), u(rng, 8)
        ottl, exp, inc, tag = u(rng, 32), u(rng, 32), u(rng, 32), u(rng, 16)
        n, sg = N(), rb(rng, 0, 24)
        return ([struct.pack("!HBBIIIH", cov, alg, lab, ottl, exp, inc, tag), n, sg],
                [cov, alg, lab, ottl, exp, inc, tag, a_name(n), sg])
    if tn == "NSEC":
        n = N()
        ts = [rng.choice([1, 2, 6, 15, 16, 28, 46, 47, 48, 255, 256, 257, 1234, 65280, 65535]) for _ in range(rng.randint(1, 6))]
        ws = ref_bitmap(ts)
        wire = b"".join(bytes([w, len(b)]) + b for w, b in ws)
        return [n, wire], [a_name(n), [3] + [[w, b] for w, b in ws]]
    if tn == "A" and cls == 3:
        n, a = N(), u(rng, 16)
        return [n, struct.pack("!H", a)], [a_name(n), a]
    if tn == "TKEY":
        n = N()
        i, e, m, er = u(rng, 32), u(rng, 32), u(rng, 16), u(rng, 16)
        k, o = rb(rng, 0, 10), rb(rng, 0, 4)
        return ([n, struct.pack("!IIHH", i, e, m, er) + struct.pack("!H", len(k)) + k + struct.pack("!H", len(o)) + o],
                [a_name(n), i, e, m, er, k, o])
    if tn == "TSIG":
        n = N()
        ts, fu, mac, oid, er, ot = u(rng, 48), u(rng, 16), rb(rng, 0, 20), u(rng, 16), rng.randrange(24), rb(rng, 0, 6)
        raw = (struct.pack("!HIHH", ts >> 32, ts & 0xFFFFFFFF, fu, len(mac)) + mac
               + struct.pack("!HHH", oid, er, len(ot)) + ot)
        return [n, raw], [a_name(n), ts, fu, mac, oid, er, ot]
    if tn == "HIP":
        hit, alg, key = rb(rng, 1, 16), u(rng, 8), rb(rng, 1, 20)
        servers = [N() for _ in range(rng.choice([0, 1, 2, 3]))]
        return ([struct.pack("!BBH", len(hit), alg, len(key)) + hit + key] + servers,
                [hit, alg, key, [1] + [a_name(s) for s in servers]])
    if tn == "DSYNC":
        rt, sc, po, n = rng.choice([59, 60, 6]), rng.choice([1, 2, 200]), u(rng, 16), N()
        return [struct.pack("!HBH", rt, sc, po), n], [rt, sc, po, a_name(n)]
    if tn in ("SVCB", "HTTPS"):
        p, n = u(rng, 16), N()
        return [struct.pack("!H", p), n], [p, a_name(n), [4]]
    if tn == "IPSECKEY":
        prec, alg, key = u(rng, 8), u(rng, 8), rb(rng, 0, 12)
        gt = rng.choice([0, 1, 2, 3, 3, 3])
        if gt == 3:
            n = N()
            return [struct.pack("!BBB", prec, gt, alg), n, key], [prec, gt, alg, a_name(n), key]
        if gt == 0:
            return [struct.pack("!BBB", prec, gt, alg) + key], [prec, gt, alg, None, key]
        if gt == 1:
            a = bytes(rng.randrange(256) for _ in range(4))
            return [struct.pack("!BBB", prec, gt, alg) + a + key], [prec, gt, alg, [2, ".".join(map(str, a)).encode()], key]
        a = bytes(rng.randrange(256) for _ in range(16))
        txt = ":".join("%x" % int.from_bytes(a[i:i + 2], "big") for i in range(0, 16, 2)).encode()
        return [struct.pack("!BBB", prec, gt, alg) + a + key], [prec, gt, alg, [2, txt], key]
    if tn == "AMTRELAY":
        prec, d = u(rng, 8), rng.randrange(2)
        rt = rng.choice([0, 1, 3, 3, 3])
        hdr = struct.pack("!BB", prec, rt | (d << 7))
        if rt == 3:
            n = N()
            return [hdr, n], [prec, [6, d], rt, a_name(n)]
        if rt == 0:
            return [hdr], [prec, [6, d], rt, None]
        a = bytes(rng.randrange(256) for _ in range(4))
        return [hdr + a], [prec, [6, d], rt, [2, ".".join(map(str, a)).encode()]]
    # types without names: built from wire
    if tn == "A":
        w = rb(rng, 4, 4)
    elif tn == "AAAA":
        w = rb(rng, 16, 16)
    elif tn == "TXT":
        w = b"".join(cstr(rb(rng, 0, 9)) for _ in range(rng.randint(1, 3)))
    elif tn == "HINFO":
        w = cstr(rb(rng, 0, 6)) + cstr(rb(rng, 0, 6))
    elif tn in ("DNSKEY", "CDNSKEY"):
        w = struct.pack("!HBB", u(rng, 16), u(rng, 8), rng.choice([1, 5, 8, 13, 15])) + rb(rng, 0, 40)
    elif tn == "DS":
        w = struct.pack("!HBB", u(rng, 16), u(rng, 8), 2) + rb(rng, 32, 32)
    elif tn == "NSEC3PARAM":
        s = rb(rng, 0, 8)
        w = struct.pack("!BBHB", 1, 0, u(rng, 16), len(s)) + s
    elif tn == "ZONEMD":
        w = struct.pack("!IBB", u(rng, 32), 1, 1) + rb(rng, 48, 48)
    elif ty == 257:  # CAA: flags, tag (mixed case letters/digits), value
        tag = bytes(rng.choice(b"issueISSUEwild09") for _ in range(rng.randint(1, 8)))
        w = bytes([u(rng, 8), len(tag)]) + tag + rb(rng, 0, 12)
    elif ty == 52:  # TLSA
        w = bytes([rng.randrange(4), rng.randrange(2), rng.randrange(3)]) + rb(rng, 1, 32)
    elif ty == 44:  # SSHFP
        w = bytes([rng.randrange(5), rng.randrange(3)]) + rb(rng, 1, 32)
    elif ty == 50:  # NSEC3
        salt, nxt = rb(rng, 0, 8), rb(rng, 20, 20)
        ws = ref_bitmap([rng.choice([1, 2, 6, 46, 47, 257, 1234]) for _ in range(rng.randint(0, 4))])
        w = struct.pack("!BBHB", 1, rng.randrange(2), u(rng, 16), len(salt)) + salt + bytes([len(nxt)]) + nxt + b"".join(bytes([a, len(b)]) + b for a, b in ws)
    elif ty == 62:  # CSYNC
        ws = ref_bitmap([rng.choice([1, 2, 28]) for _ in range(rng.randint(1, 3))])
        w = struct.pack("!IH", u(rng, 32), rng.randrange(4)) + b"".join(bytes([a, len(b)]) + b for a, b in ws)
    elif ty == 256:  # URI
        w = struct.pack("!HH", u(rng, 16), u(rng, 16)) + bytes(rng.choice(b"HTTPhttp:/Aa.") for _ in range(rng.randint(1, 20)))
    elif ty == 99:  # SPF
        w = b"".join(cstr(bytes(rng.choice(b"V=SPFv1 aA") for _ in range(rng.randint(0, 9)))) for _ in range(rng.randint(1, 3)))
    elif ty == 108:  # EUI48
        w = rb(rng, 6, 6)
    elif ty == 61:  # OPENPGPKEY
        w = rb(rng, 1, 30)
    else:
        w = rb(rng, 0, 20)
    return [w], [[5, w]]


NAME_TYPES = [(1, T[x]) for x in ("NS CNAME PTR DNAME NSAP_PTR MX AFSDB RT KX LP RP PX SOA NAPTR SRV RRSIG SIG NSEC TKEY "
                                  "TSIG HIP DSYNC SVCB HTTPS IPSECKEY AMTRELAY").split()] + [(3, T["A"])]
PLAIN_TYPES = [(1, T[x]) for x in "A AAAA TXT HINFO DNSKEY DS NSEC3PARAM ZONEMD".split()] + [(1, 65280), (1, 4660)] + \
    [(1, t) for t in (257, 52, 44, 50, 62, 256, 99, 108, 61)]


SINGLETONS = {T["SOA"], T["NXT"], T["DNAME"], T["NSEC"], T["CNAME"]}


def distinct_rdatas(rng, cls, ty, origin, k):
    """k rdatas, pairwise distinct in canonical form under the origin and under the root (the
    rdataset's own notion of equality)"""
    out = []
    seen = set()
    if ty in SINGLETONS:
        k = 1
    cov = None
    for _ in range(k * 3):
        if len(out) >= k:
            break
        fs, args = gen_rdata(rng, cls, ty, origin)
        if ty in (T["RRSIG"], T["SIG"]):  # one rdataset = one covered type
            cov = args[0] if cov is None else cov
            fs[0] = struct.pack("!H", cov) + fs[0][2:]
            args[0] = cov
        keys = []
        for o in (origin, [b""]):
            c = ref_canon_rdata(ty, fs, o)
            keys.append((0, c) if c is not None else (1, repr(fs)))
        lowkey = tuple(r_lower(f) if isinstance(f, bytes) else tuple(r_lower(l) for l in f) for f in fs)
        if any(k_ in seen for k_ in keys) or lowkey in seen:
            continue
        seen.update(keys)
        seen.add(lowkey)
        out.append([fs, args])
    return out


def gen_digestable(ctx, rng):
    per = ctx.n(14, 450)
    for cls, ty in NAME_TYPES:
        for _ in range(per):
            origin = g_origin(rng) if rng.random() < 0.6 else None
            fs, args = gen_rdata(rng, cls, ty, origin)
            yield "digestable", [2, cls, ty, fs, origin, args]
    # expansions that do not fit in 255 octets (NameTooLong), and ones that just fit
    for _ in range(ctx.n(40, 400)):
        cls, ty = rng.choice(NAME_TYPES)
        olen = rng.choice([100, 150, 200])
        origin = [bytes([rng.choice(b"oO")]) * 49 for _ in range(olen // 50)] + [b""]
        rel = [bytes([rng.choice(b"rR")]) * rng.choice([1, 4, 49, 49]) for _ in range(rng.choice([1, 2, 3, 3]))]
        fs, args = gen_rdata(rng, cls, ty, origin)
        k = 0
        for i, f in enumerate(fs):
            if isinstance(f, list):
                fs[i] = rel
                k += 1
        if k != 1:
            continue

        def sub(a):
            if isinstance(a, list) and a and a[0] == 0:
                return [0] + rel
            if isinstance(a, list) and a and a[0] == 1:
                return [1] + [sub(x) for x in a[1:]]
            return a
        yield "digestable", [2, cls, ty, fs, origin, [sub(a) for a in args]]
    for cls, ty in PLAIN_TYPES:
        for _ in range(ctx.n(3, 40)):
            fs, args = gen_rdata(rng, cls, ty, None)
            yield "digestable", [2, cls, ty, fs, None, args]
    for ty, nn in OBSOLETE_NO_CLASS.items():
        for _ in range(ctx.n(1, 3)):
            names = [g_name(rng, True, 3, 60) for _ in range(nn)]
            yield "obsolete", [9, 1, ty, names]


def gen_keyid(ctx, rng):
    for _ in range(ctx.n(250, 6000)):
        alg = rng.choice([1, 1, 3, 5, 7, 8, 10, 13, 14, 15, 16, rng.randrange(256)])
        r = rng.random()
        if r < 0.2:
            key = bytes([rng.choice([0, 0xFF])]) * rng.randint(0, 70)
        elif r < 0.3:
            key = b"\xff" * rng.choice([255, 256, 257, 258, 300])  # carries beyond 16 bits
        else:
            key = rb(rng, 0, rng.choice([0, 1, 2, 3, 4, 33, 64, 65, 130, 260]))
        flags = rng.choice([0, 256, 257, 0x8000, 0xFFFF, rng.randrange(65536)])
        yield "keyid", [1, flags, rng.choice([3, 0, 255, rng.randrange(256)]), alg, key, rng.randrange(2)]
    for bad in ([1, 65536, 3, 8, b"\x01", 0], [1, 256, 256, 8, b"\x01", 0], [1, 256, 3, 256, b"\x01", 0], [1, -1, 3, 8, b"", 0]):
        yield "keyid", bad


def gen_candidates(ctx, rng):
    """RFC 4035 5.3.1: which DNSKEYs may have made an RRSIG (algorithm, key tag, Zone flag, protocol 3)"""
    for _ in range(ctx.n(60, 1500)):
        base = rb(rng, 4, 40)
        keys = []
        for _k in range(rng.randint(1, 5)):
            flags = rng.choice([256, 257, 0, 1, 384, 0x8100, rng.randrange(65536)])
            proto = rng.choice([3, 3, 3, 0, 2, 255])
            alg = rng.choice([8, 8, 13, 1, 5])
            key = base if rng.random() < 0.6 else rb(rng, 4, 40)
            keys.append([flags, proto, alg, key])
        pick = rng.choice(keys)
        tag = ref_keytag(struct.pack("!HBB", pick[0], pick[1], pick[2]) + pick[3], pick[2])
        if rng.random() < 0.15:
            tag = (tag + 1) % 65536
        alg = pick[2] if rng.random() < 0.85 else rng.choice([8, 13, 1])
        yield "candidates", [10, keys, alg, tag]


def gen_rrsig(ctx, rng):
    for _ in range(ctx.n(500, 12000)):
        origin = g_origin(rng) if rng.random() < 0.6 else None
        cls, ty = rng.choice(NAME_TYPES + PLAIN_TYPES[:4]) if rng.random() < 0.85 else rng.choice(PLAIN_TYPES)
        rdatas = distinct_rdatas(rng, cls, ty, origin, rng.choice([1, 1, 2, 3, 5]))
        owner = g_rname(rng, origin) if rng.random() < 0.8 else [b"*"] + g_rname(rng, origin)
        if not nl.fits(owner):
            continue
        oabs = r_expand(owner, origin)
        n = (len(oabs) - 1) if oabs else len(owner)
        r = rng.random()
        if r < 0.45:
            labels = n - (1 if owner and owner[0] == b"*" else 0)
        elif r < 0.8:
            labels = rng.randint(0, max(0, n))
        elif r < 0.9:
            labels = n + rng.choice([1, 2])
        else:
            labels = rng.randrange(256)
        labels = max(0, min(255, labels))
        rs = rng.random()
        if origin is not None and rs < 0.35:
            signer = rng.choice([[], g_name(rng, False, 2, 40)])
        elif oabs and rs < 0.8:
            k = rng.randrange(len(oabs))
            signer = nl.case_variant(rng, oabs[k:])
        else:
            signer = g_rname(rng, origin)
        sig = [rng.choice([ty, ty, 1, 46]), u(rng, 8), labels, u(rng, 32), u(rng, 32), u(rng, 32), u(rng, 16), signer, rb(rng, 0, 8)]
        yield "rrsig", [3, sig, owner, cls, ty, rdatas, origin]
    lo = [b"o" * 40, b"O" * 40, b"o" * 30, b""]
    ls = [b"s" * 40, b"S" * 40]
    for owner, labels in (([b"w"] + lo, 4), ([b"w"], 4), ([b"*", b"x"], 4)):
        yield "rrsig", [3, [1, 8, labels, 300, 2, 1, 7, ls, b""], owner, 1, 1, [[[b"\x01\x02\x03\x04"], [[5, b"\x01\x02\x03\x04"]]]], lo]
    # out-of-range constructor arguments
    yield "rrsig", [3, [1, 8, 256, 0, 0, 0, 0, [b""], b""], [b"a", b""], 1, 1, [[[b"\x01\x02\x03\x04"], [[5, b"\x01\x02\x03\x04"]]]], None]
    yield "rrsig", [3, [65536, 8, 1, 0, 0, 0, 0, [b""], b""], [b"a", b""], 1, 1, [[[b"\x01\x02\x03\x04"], [[5, b"\x01\x02\x03\x04"]]]], None]


def r_text(labels):
    """master-file text of a name (RFC 1035 5.1 escapes), written independently of dns.name"""
    if labels == [b""]:
        return b"."
    out = []
    for l in labels:
        t = b""
        for c in l:
            if c in b'.\\"();@$':
                t += b"\\" + bytes([c])
            elif c < 0x21 or c > 0x7E:
                t += b"\\%03d" % c
            else:
                t += bytes([c])
        out.append(t)
    return b".".join(out)


def gen_ds(ctx, rng):
    for _ in range(ctx.n(150, 4000)):
        owner = g_name(rng, rng.random() < 0.8, 4, 200)
        alg = rng.choice([1, 5, 8, 13, 15, rng.randrange(256)])
        key = rb(rng, 0, rng.choice([0, 3, 32, 64, 130]))
        dt = rng.choice([1, 2, 2, 4, 4, 0, 3, 5, 200])
        origin = g_origin(rng) if rng.random() < 0.6 else None
        # owner as a Name object (absolute, or relative with/without an origin: only text is completed)
        yield "ds", [4, owner, rng.choice([256, 257, rng.randrange(65536)]), rng.choice([3, rng.randrange(256)]), alg, key, dt, origin]
    for _ in range(ctx.n(200, 4000)):
        # owner as text: absolute text, relative text (+ origin), "@" (+ origin)
        origin = g_origin(rng) if rng.random() < 0.85 else None
        r = rng.random()
        if r < 0.2:
            labels, text = [], b"@"
        else:
            labels = g_name(rng, r < 0.45, 3, 100)
            if not labels:
                labels, text = [], b"@"
            else:
                text = r_text(labels)
        alg = rng.choice([1, 8, 13, 15])
        key = rb(rng, 0, rng.choice([0, 3, 32, 64]))
        dt = rng.choice([1, 2, 2, 4, 4, 4, 3, 0])
        yield "ds-text", [11, text, origin, rng.choice([256, 257]), 3, alg, key, dt, labels]
    ex = [b"example", b"ORG", b""]
    for dt in (1, 2, 4):
        for text, labels in ((b"child", [b"child"]), (b"@", []), (b"Child.example.org.", [b"Child", b"example", b"org", b""]), (b"a.b", [b"a", b"b"])):
            yield "ds-text", [11, text, ex, 257, 3, 8, b"\x01\x02\x03", dt, labels]


def nsec3_table(name, salt, iterations):
    """the graph of SHA-1 on the points an RFC 5155 evaluation needs (hashlib is the hash oracle)"""
    tbl = []
    if not r_valid(name) or not r_abs(name):
        return tbl
    x = r_wire(name, True) + salt
    d = hashlib.sha1(x).digest()
    tbl.append([x, d])
    for _ in range(max(0, iterations)):
        x = d + salt
        d = hashlib.sha1(x).digest()
        tbl.append([x, d])
    return tbl


def gen_nsec3(ctx, rng):
    for _ in range(ctx.n(120, 3000)):
        name = g_name(rng, rng.random() < 0.95, 4, 200)
        salt = rb(rng, 0, rng.choice([0, 0, 4, 8, 20]))
        it = rng.choice([0, 0, 1, 2, 3, 5, 10, 17])
        alg = 1 if rng.random() < 0.95 else rng.choice([0, 2, 255])
        yield "nsec3", [5, name, salt, it, alg, nsec3_table(name, salt, it)]
    yield "nsec3", [5, [b"example", b""], b"\xaa\xbb\xcc\xdd", 12, 1, nsec3_table([b"example", b""], b"\xaa\xbb\xcc\xdd", 12)]
    yield "nsec3", [5, [b"a", b"example", b""], b"", -1, 1, nsec3_table([b"a", b"example", b""], b"", 0)]


TYPE_POOL = [1, 2, 5, 6, 15, 16, 28, 43, 46, 47, 48, 50, 51, 255, 256, 257, 263, 511, 512, 1234, 32768, 32769, 65280, 65534, 65535, 7, 8, 9, 31, 32, 63, 64, 127, 128, 248, 249]


def gen_bitmap(ctx, rng):
    for _ in range(ctx.n(300, 8000)):
        k = rng.choice([0, 1, 1, 2, 3, 5, 8, 20])
        ts = [rng.choice(TYPE_POOL) if rng.random() < 0.7 else rng.randrange(1, 65536) for _ in range(k)]
        if rng.random() < 0.1:
            ts.append(0)
        if rng.random() < 0.3 and ts:
            ts += rng.sample(ts, min(len(ts), 2))
        yield "bitmap", [6, ts]
    yield "bitmap", [6, [65536]]
    yield "bitmap", [6, [65536 + 255, 1]]
    yield "bitmap", [6, [70000]]


ZTYPES = [1, 2, 15, 16, 28, 43, 46, 46, 48, 51, 99, 257, 1234, 65280]


def gen_zone_names(rng, origin, rel):
    """a tree of names under the origin with delegations, glue, occluded data and empty non-terminals"""
    pool = [b"a", b"A", b"b", b"c", b"sub", b"SUB", b"ns", b"*", b"z", b"Z", b"\x00", b"a-b", b"ab", b"[", b"x" * 5]
    stems = [[]]
    for _ in range(rng.choice([0, 1, 2, 3, 5, 8, 12])):
        parent = rng.choice(stems)
        if len(parent) >= 4:
            continue
        # names are dictionary keys compared case-insensitively: the shared suffix may be spelled
        # with a different letter case than the parent's own name
        child = [rng.choice(pool)] + (nl.case_variant(rng, parent) if rng.random() < 0.4 else list(parent))
        if rng.random() < 0.25:
            child = [rng.choice(pool)] + child  # skip a level: empty non-terminal
        key = [r_lower(l) for l in child]
        if any([r_lower(l) for l in s] == key for s in stems):
            continue
        stems.append(child)
    return stems


def gen_zone_types(rng, stem, is_apex):
    if is_apex:
        ts = [6] + ([2] if rng.random() < 0.9 else [])
        ts += rng.sample([1, 15, 16, 28, 48, 51, 46, 63, 257], rng.choice([0, 1, 2, 3]))
        rng.shuffle(ts)
        return ts
    r = rng.random()
    if r < 0.3:  # delegation
        ts = [2] + ([43] if rng.random() < 0.5 else []) + rng.sample([1, 28, 16, 46, 47], rng.choice([0, 0, 1, 2]))
    else:
        ts = rng.sample([t for t in ZTYPES if t != 2 and t != 43], rng.choice([1, 1, 2, 3, 5]))
        if rng.random() < 0.08:
            ts.append(43)
    rng.shuffle(ts)
    return ts


def gen_signzone(ctx, rng):
    for _ in range(ctx.n(250, 5000)):
        origin = [b"example", b""] if rng.random() < 0.6 else (g_name(rng, True, 2, 40) if rng.random() < 0.8 else [b""])
        rel = rng.random() < 0.5
        nodes = []
        for stem in gen_zone_names(rng, origin, rel):
            ts = gen_zone_types(rng, stem, stem == [])
            nm = list(stem) if rel else list(stem) + (nl.case_variant(rng, origin) if rng.random() < 0.3 else origin)
            nodes.append([nm, ts])
        rng.shuffle(nodes)
        if not all(nl.fits(r_expand(n, origin)) for n, _ in nodes):
            continue
        yield "signzone", [8, origin, int(rel), nodes]
    # hand-written layouts
    ex = [b"example", b""]
    for rel in (0, 1):
        def nm(*ls):
            return list(ls) if rel else list(ls) + ex
        yield "signzone", [8, ex, rel, [[nm(), [6, 2]]]]
        yield "signzone", [8, ex, rel, [[nm(), [6, 2]], [nm(b"sub"), [2, 1, 43]], [nm(b"ns", b"sub"), [1]], [nm(b"a", b"b", b"c"), [16]], [nm(b"ns"), [1]]]]
        yield "signzone", [8, ex, rel, [[nm(), [6]], [nm(b"sub"), [2]], [nm(b"x", b"sub"), [2]], [nm(b"y", b"x", b"sub"), [1]], [nm(b"subx"), [1]], [nm(b"SUB2"), [2, 43]], [nm(b"a", b"SUB2"), [28]]]]
        yield "signzone", [8, ex, rel, [[nm(b"z"), [1]], [nm(), [2, 6]], [nm(b"Z", b"a"), [1]], [nm(b"a"), [16, 46, 46]]]]
        yield "signzone", [8, ex, rel, [[nm(b"a"), [1]]]]  # no SOA
        yield "signzone", [8, ex, rel, [[nm(), [6, 2]], [nm(b"Sub"), [2, 43]], [nm(b"ns1", b"sub"), [1]], [nm(b"NS2", b"SUB"), [28]],
                                        [nm(b"deep", b"ns1", b"sub"), [16]], [nm(b"www"), [1]]]]


def gen_zonemd(ctx, rng):
    for _ in range(ctx.n(120, 2500)):
        origin = [b"example", b""] if rng.random() < 0.5 else g_name(rng, True, 2, 40)
        rel = rng.random() < 0.5
        nodes = []
        serial = u(rng, 32)
        for stem in gen_zone_names(rng, origin, rel)[: rng.choice([1, 2, 4, 8])]:
            apex = stem == []
            nm = list(stem) if rel else list(stem) + (nl.case_variant(rng, origin) if rng.random() < 0.3 else origin)
            rdss = []
            used = set()
            cands = [(1, t) for _, t in NAME_TYPES if _ == 1 and t not in (T["CNAME"], T["TKEY"], T["TSIG"], T["SOA"])] + PLAIN_TYPES
            if apex:
                soa_f, soa_a = gen_rdata(rng, 1, T["SOA"], origin)
                rdss.append([T["SOA"], 0, 1, u(rng, 31), [[soa_f, soa_a]]])
                used.add((T["SOA"], 0))
            for _ in range(rng.choice([0, 1, 2, 3, 5])):
                cls, ty = rng.choice(cands)
                if ty == T["ZONEMD"] and rng.random() < 0.5 and not apex:
                    continue
                k = rng.choice([1, 1, 2, 3])
                if ty in (T["RRSIG"], T["SIG"]):
                    rds = distinct_rdatas(rng, cls, ty, origin, k)
                    if not rds:
                        continue
                    cov = rng.choice([1, 6, 63, 63, 15]) if ty == T["RRSIG"] else rng.choice([1, 6, 15])
                    for fs, args in rds:
                        fs[0] = struct.pack("!H", cov) + fs[0][2:]
                        args[0] = cov
                    rds = [rds[0]] + [x for x in rds[1:] if x[0] != rds[0][0]]
                    covers = cov if ty == T["RRSIG"] else 0
                    if ty == T["SIG"]:
                        covers = cov
                else:
                    rds = distinct_rdatas(rng, cls, ty, origin, k)
                    covers = 0
                if not rds or (ty, covers) in used:
                    continue
                used.add((ty, covers))
                rdss.append([ty, covers, 1, u(rng, 31), rds])
            # a signed zone: every RRset is followed by the RRSIG rdataset that covers it (dnspython
            # files the RRSIGs of one name as one rdataset per covered type), so the covered types
            # appear in insertion order, e.g. SOA(6) before NS(2) at the apex
            if rng.random() < 0.6:
                signed = []
                for rds in rdss:
                    signed.append(rds)
                    ty = rds[0]
                    if ty in (T["RRSIG"], T["SIG"]) or (T["RRSIG"], ty) in used or rng.random() < 0.15:
                        continue
                    sigs = distinct_rdatas(rng, 1, T["RRSIG"], origin, rng.choice([1, 1, 2]))
                    for fs, args in sigs:
                        fs[0] = struct.pack("!H", ty) + fs[0][2:]
                        args[0] = ty
                    if sigs:
                        used.add((T["RRSIG"], ty))
                        signed.append([T["RRSIG"], ty, 1, u(rng, 31), sigs])
                rdss = signed
                if rng.random() < 0.4:
                    rng.shuffle(rdss)
            else:
                rng.shuffle(rdss)
            if rdss:
                nodes.append([nm, rdss])
        rng.shuffle(nodes)
        if not all(nl.fits(r_expand(n, origin)) for n, _ in nodes):
            continue
        halg = rng.choice([1, 1, 1, 2, 2, 2, 2, 1, 3, 0]) if rng.random() < 0.95 else 240
        scheme = 1 if rng.random() < 0.93 else rng.choice([2, 0, 240])
        yield "zonemd", [7, origin, int(rel), nodes, halg, scheme]


def gen_sweeps(ctx):
    """complete small scopes (no randomness): every layout of a fixed name tree where each name is
    absent / plain / a delegation (with or without DS), relativized and absolute; every single type
    of the first windows; every one-octet key for both key-tag branches"""
    ex = [b"example", b""]
    tree = [[b"a"], [b"b", b"A"], [b"c", b"b", b"a"], [b"d"], [b"e", b"D"]] if ctx.tier == "thorough" else [[b"a"], [b"b", b"A"], [b"d"]]
    states = [None, [1], [2, 1], [2, 43]]
    n = 0

    def layouts(i):
        if i == len(tree):
            yield []
            return
        for rest in layouts(i + 1):
            for st in states:
                yield ([[tree[i], st]] if st is not None else []) + rest

    for lay in layouts(0):
        for rel in (0, 1):
            nodes = [[[] if rel else ex, [6, 2]]] + [[stem if rel else stem + ex, ts] for stem, ts in lay]
            n += 1
            yield "signzone", [8, ex, rel, nodes]
    for t in range(0, 1024 if ctx.tier == "thorough" else 300):
        n += 1
        yield "bitmap", [6, [t]]
    for b in range(256):
        for alg in (1, 8):
            n += 1
            yield "keyid", [1, 256, 3, alg, bytes([b]), 0]
    ctx.notes["exhaustive_subscopes"] = ("sign_zone: all %d-name layouts x {absent, plain, delegation, delegation+DS} x {relativized, absolute}; "
                                         "from_rdtypes: every single type below %d; key_id: every one-octet key for algorithm 1 and 8 (%d cases)"
                                         % (len(tree), 1024 if ctx.tier == "thorough" else 300, n))


def fixed_zonemd():
    """a small signed zone in zone-file order: each RRset followed by its RRSIG (covers 6, 2, 1 / 16, 1)"""
    ex = [b"Example", b""]

    def sig(cov, n):
        hdr = struct.pack("!HBBIIIH", cov, 8, 1, 300, 2, 1, 7)
        return [[hdr, ex, bytes([n])], [cov, 8, 1, 300, 2, 1, 7, a_name(ex), bytes([n])]]

    def raw(w):
        return [[w], [[5, w]]]

    for rel in (0, 1):
        for halg in (1, 2):
            def nm(*ls):
                return list(ls) if rel else list(ls) + ex
            soa = [[[b"ns"] + ex, [b"h"] + ex, struct.pack("!IIIII", 7, 1, 2, 3, 4)], [a_name([b"ns"] + ex), a_name([b"h"] + ex), 7, 1, 2, 3, 4]]
            ns = [[[b"NS"] + ex], [a_name([b"NS"] + ex)]]
            apex = [[6, 0, 1, 300, [soa]], [46, 6, 1, 300, [sig(6, 1)]], [2, 0, 1, 300, [ns]], [46, 2, 1, 300, [sig(2, 2)]],
                    [1, 0, 1, 300, [raw(b"\x01\x02\x03\x04")]], [46, 1, 1, 300, [sig(1, 3), sig(1, 4)]]]
            www = [[16, 0, 1, 60, [raw(b"\x02hi")]], [46, 16, 1, 60, [sig(16, 5)]], [1, 0, 1, 60, [raw(b"\x0a\x00\x00\x01")]], [46, 1, 1, 60, [sig(1, 6)]]]
            yield "zonemd", [7, ex, rel, [[nm(b"WWW"), www], [nm(), apex]], halg, 1]


def cases(ctx):
    _ensure_gen(ctx)
    rng = ctx.rng
    yield from gen_sweeps(ctx)
    yield from gen_keyid(ctx, rng)
    yield from gen_digestable(ctx, rng)
    yield from gen_rrsig(ctx, rng)
    yield from gen_candidates(ctx, rng)
    yield from gen_ds(ctx, rng)
    yield from gen_nsec3(ctx, rng)
    yield from gen_bitmap(ctx, rng)
    yield from gen_signzone(ctx, rng)
    yield from fixed_zonemd()
    yield from gen_zonemd(ctx, rng)


def in_model(kind, case):
    return case[0] not in (9, 10)


# ------------------------------------------------------------------ implementation runner


def exc_code(e):
    import dns.exception
    import dns.zone

    if type(e) is dns.exception.ValidationFailure:
        return Err(20, "ValidationFailure")
    if type(e) is dns.exception.UnsupportedAlgorithm:
        return Err(21, "UnsupportedAlgorithm")
    if type(e) is dns.exception.DeniedByPolicy:
        return Err(23, "DeniedByPolicy")
    if type(e) is dns.zone.NoSOA:
        return Err(24, "NoSOA")
    if type(e) in (dns.zone.UnsupportedDigestHashAlgorithm, dns.zone.UnsupportedDigestScheme):
        return Err(25, type(e).__name__)
    if isinstance(e, AssertionError):
        return Err(103, "AssertionError")
    if isinstance(e, KeyError):
        return Err(104, "KeyError")
    if isinstance(e, TypeError):
        return Err(105, "TypeError " + str(e)[:80])
    if isinstance(e, AttributeError):
        return Err(106, "AttributeError " + str(e)[:80])
    return nl.exc_code(e)


def d_arg(a):
    import dns.name

    if isinstance(a, list):
        tag = a[0] if a else None
        if tag == 0:
            return dns.name.Name(a[1:])
        if tag == 1:
            return tuple(d_arg(x) for x in a[1:])
        if tag == 2:
            return bytes(a[1]).decode()
        if tag == 3:
            return tuple((w, bytes(b)) for w, b in a[1:])
        if tag == 4:
            return {}
        if tag == 6:
            return bool(a[1])
        raise ValueError("bad arg")
    return a


def build_rdata(cls, ty, args):
    import dns.rdata

    if len(args) == 1 and isinstance(args[0], list) and args[0] and args[0][0] == 5:
        w = bytes(args[0][1])
        return dns.rdata.from_wire(cls, ty, w, 0, len(w))
    c = dns.rdata.get_rdata_class(cls, ty)
    return c(cls, ty, *[d_arg(a) for a in args])


class Rec:
    """hashlib look-alike that records what is fed to it"""

    log = None

    def __init__(self, real, data=b""):
        self.h = real()
        self.buf = b""
        self.digest_size = self.h.digest_size
        if data:
            self.update(data)

    def update(self, d):
        self.buf += bytes(d)
        self.h.update(d)

    def digest(self):
        if Rec.log is not None:
            Rec.log.append(self.buf)
        return self.h.digest()


class FakeHashlib:
    def __getattr__(self, name):
        real = getattr(hashlib, name)
        return lambda data=b"": Rec(real, data)


def impl(case):
    import dns.dnssec
    import dns.name
    import dns.node
    import dns.rdata
    import dns.rdataclass
    import dns.rdataset
    import dns.rdatatype
    import dns.rdtypes.util
    import dns.rrset
    import dns.zone
    import dns.zonetypes

    op = case[0]
    N = nl.N
    try:
        if op == 1:
            _, flags, protocol, alg, key, which = case
            ty = 48 if not which else 60
            k = dns.rdata.get_rdata_class(1, ty)(1, ty, flags, protocol, alg, bytes(key))
            a, b = dns.dnssec.key_id(k), k.key_id()
            if a != b:
                return Err(901, "dns.dnssec.key_id != key.key_id()")
            return a
        if op == 2:
            _, cls, ty, fs, origin, args = case
            rd = build_rdata(cls, ty, args)
            return rd.to_digestable(nl.oname(origin))
        if op == 9:
            _, cls, ty, names = case
            w = b"".join(r_wire(n, False) for n in names)
            rd = dns.rdata.from_wire(cls, ty, w, 0, len(w))
            return rd.to_digestable()
        if op == 3:
            _, sig, owner, cls, ty, rdatas, origin = case
            rrsig = dns.rdata.get_rdata_class(1, 46)(1, 46, *sig[:7], N(sig[7]), bytes(sig[8]))
            rds = dns.rdataset.Rdataset(cls, ty)
            for fs, args in rdatas:
                rds.add(build_rdata(cls, ty, args), 300)
            if len(rds) != len(rdatas):
                return Err(902, "generator produced rdatas the rdataset considers equal")
            a = dns.dnssec._make_rrsig_signature_data((N(owner), rds), rrsig, nl.oname(origin))
            # the same RRset given as an RRset object
            rrset = dns.rrset.RRset(N(owner), cls, ty)
            for rd in rds:
                rrset.add(rd, 300)
            try:
                b = dns.dnssec._make_rrsig_signature_data(rrset, rrsig, nl.oname(origin))
            except Exception as e2:  # noqa
                b = e2
            if a != b:
                return Err(906, "signing data differs between the (name, rdataset) and the RRset form")
            return a
        if op == 11:
            _, text, origin, flags, protocol, alg, key, dt, _labels = case
            o = nl.oname(origin)
            name = bytes(text).decode("ascii")
            results = []
            for ty in (48, 60):  # DNSKEY and CDNSKEY
                k = dns.rdata.get_rdata_class(1, ty)(1, ty, flags, protocol, alg, bytes(key))
                Rec.log = []
                saved = dns.dnssec.hashlib
                dns.dnssec.hashlib = FakeHashlib()
                try:
                    ds = dns.dnssec.make_ds(name, k, dt, origin=o, policy=dns.dnssec.allow_all_policy)
                finally:
                    dns.dnssec.hashlib = saved
                    log, Rec.log = Rec.log, None
                if len(log) != 1:
                    return Err(903, "make_ds did not hash exactly once")
                real = {1: hashlib.sha1, 2: hashlib.sha256, 4: hashlib.sha384}[dt](log[0]).digest()
                results.append((log[0], ds.key_tag, int(ds.algorithm), int(ds.digest_type), ds.digest, ds.digest == real))
            ok = results[0] == results[1] and results[0][5]
            inp, tag, a, d, digest, _ = results[0]
            k = dns.rdata.get_rdata_class(1, 48)(1, 48, flags, protocol, alg, bytes(key))
            if dt != 1:  # the other entry points use the default policy (no SHA-1 creation)
                cds = dns.dnssec.make_cds(name, k, dt, o)
                ok = ok and (cds.key_tag, cds.algorithm, cds.digest_type, cds.digest, int(cds.rdtype)) == (tag, a, d, digest, 59)
                rds = dns.rdataset.Rdataset(1, 48)
                rds.add(k, 300)
                c2 = dns.dnssec.dnskey_rdataset_to_cds_rdataset(name, rds, dt, o)
                ok = ok and len(c2) == 1 and c2[0].digest == digest and int(c2[0].rdtype) == 59
                c3 = dns.dnssec.make_ds_rdataset((name, rds), {dt}, o)
                ok = ok and len(c3) == 1 and c3[0].digest == digest and c3[0].key_tag == tag
                c4 = dns.dnssec.make_ds_rdataset((name, rds), {{2: "SHA256", 4: "sha384"}[dt]}, o)
                ok = ok and len(c4) == 1 and c4[0].digest == digest
            return [inp, tag, a, d, int(bool(ok))]
        if op == 4:
            _, owner, flags, protocol, alg, key, dt, origin = case
            k = dns.rdata.get_rdata_class(1, 48)(1, 48, flags, protocol, alg, bytes(key))
            Rec.log = []
            saved = dns.dnssec.hashlib
            dns.dnssec.hashlib = FakeHashlib()
            try:
                ds = dns.dnssec.make_ds(N(owner), k, dt, origin=nl.oname(origin), policy=dns.dnssec.allow_all_policy)
            finally:
                dns.dnssec.hashlib = saved
            log, Rec.log = Rec.log, None
            if len(log) != 1:
                return Err(903, "make_ds did not hash exactly once")
            real = {1: hashlib.sha1, 2: hashlib.sha256, 4: hashlib.sha384}[dt](log[0]).digest()
            ds2 = dns.dnssec.make_ds(N(owner), k, {1: "sha1", 2: "SHA256", 4: "Sha384"}[dt], origin=nl.oname(origin), policy=dns.dnssec.allow_all_policy)
            ok = int(ds.digest == real and ds2 == ds)
            if dt != 1:  # SHA-1 creation is denied by the default policy used by make_cds
                cds = dns.dnssec.make_cds(N(owner), k, dt)
                ok &= int((cds.key_tag, cds.algorithm, cds.digest_type, cds.digest) == (ds.key_tag, ds.algorithm, ds.digest_type, ds.digest)
                          and cds.rdtype == 59)
                rds = dns.rdataset.Rdataset(1, 48)
                rds.add(k, 300)
                dsset = dns.dnssec.make_ds_rdataset((N(owner), rds), {dt})
                ok &= int(len(dsset) == 1 and dsset[0].digest == ds.digest and dsset[0].key_tag == ds.key_tag)
                cdsset = dns.rdataset.Rdataset(1, 59)
                cdsset.add(cds, 300)
                back = dns.dnssec.make_ds_rdataset((N(owner), cdsset), {dt})
                ok &= int(len(back) == 1 and back[0].rdtype == 43 and back[0].to_wire() == ds.to_wire())
            return [log[0], ds.key_tag, int(ds.algorithm), int(ds.digest_type), ok]
        if op == 10:
            _, keys, alg, tag = case
            signer = N([b"example", b""])
            rds = dns.rdataset.Rdataset(1, 48)
            objs = []
            for f, p_, a, k in keys:
                o = dns.rdata.get_rdata_class(1, 48)(1, 48, f, p_, a, bytes(k))
                rds.add(o, 300)
                objs.append(o)
            rrsig = dns.rdata.get_rdata_class(1, 46)(1, 46, 1, alg, 2, 300, 2, 1, tag, signer, b"")
            got = dns.dnssec._find_candidate_keys({signer: rds}, rrsig)
            node = dns.node.Node()
            node.rdatasets.append(rds)
            got2 = dns.dnssec._find_candidate_keys({signer: node}, rrsig)
            if got is None or got2 is None or [g.to_wire() for g in got] != [g.to_wire() for g in got2]:
                return Err(907, "candidate keys differ between rdataset and node form")
            missing = dns.dnssec._find_candidate_keys({N([b"other", b""]): rds}, rrsig)
            return [sorted(g.to_wire() for g in got), int(missing is None)]
        if op == 5:
            _, name, salt, it, alg, _tbl = case
            h = dns.dnssec.nsec3_hash(N(name), bytes(salt), it, alg)
            # the documented spellings of the same arguments
            alts = [dns.dnssec.nsec3_hash(N(name), bytes(salt).hex(), it, alg),
                    dns.dnssec.nsec3_hash(N(name), bytes(salt), it, "SHA1" if alg == 1 else alg)]
            if not salt:
                alts.append(dns.dnssec.nsec3_hash(N(name), None, it, alg))
            if any(a != h for a in alts):
                return Err(905, "nsec3_hash depends on the spelling of salt/algorithm")
            return h.encode()
        if op == 6:
            bm = dns.rdtypes.util.Bitmap.from_rdtypes(list(case[1]))
            return [[w, bytes(b)] for w, b in bm.windows]
        if op == 7:
            _, origin, rel, nodes, halg, scheme = case
            z = build_zone(origin, rel, [[n, [[ty, cov, [a for _, a in rds], ttl] for ty, cov, _cls, ttl, rds in rdss]] for n, rdss in nodes])
            saved = dict(dns.zonetypes._digest_hashers)
            Rec.log = []
            try:
                for k_, v in saved.items():
                    dns.zonetypes._digest_hashers[k_] = (lambda real: (lambda: Rec(real)))(v)
                zmd = z.compute_digest(halg, scheme)
            finally:
                dns.zonetypes._digest_hashers.clear()
                dns.zonetypes._digest_hashers.update(saved)
                log, Rec.log = Rec.log, None
            if len(log) != 1:
                return Err(903, "compute_digest did not finish exactly one hash")
            real = {1: hashlib.sha384, 2: hashlib.sha512}[halg](log[0]).digest()
            ok = zmd.digest == real
            # RFC 8976 2.2: serial = the SOA serial the digest was computed for; scheme / algorithm as requested
            soa_serial = [a[2] for n_, rdss in nodes for ty, cov, _c, _t, rds in rdss if ty == 6 for _f, a in rds]
            ok = ok and soa_serial == [zmd.serial] and int(zmd.scheme) == scheme and int(zmd.hash_algorithm) == halg and zmd.rdtype == 63
            try:
                z.verify_digest(zmd)
            except Exception:
                ok = False
            bad = dns.rdata.get_rdata_class(1, 63)(1, 63, zmd.serial, zmd.scheme, zmd.hash_algorithm, bytes([zmd.digest[0] ^ 1]) + zmd.digest[1:])
            try:
                z.verify_digest(bad)
                ok = False
            except dns.zone.DigestVerificationFailure:
                pass
            # RFC 8976 4: the digest placed in the apex ZONEMD RRset verifies (the RRset is excluded from its own input)
            try:
                z.find_rdataset(dns.name.empty if rel else N(origin), 63, create=True).add(zmd, 300)
                z.verify_digest()
            except Exception:
                ok = False
            return [log[0], int(ok)]
        if op == 8:
            _, origin, rel, nodes = case
            z = build_zone(origin, rel, [[n, [[t, None, None, 300] for t in ts]] for n, ts in nodes])
            calls = []

            def signer(txn, rrset):
                if rrset.rdtype == 47:
                    rd = rrset[0]
                    calls.append([nl.labels_of(rrset.name), 47, [nl.labels_of(rd.next), [[w, bytes(b)] for w, b in rd.windows]]])
                    if len(rrset) != 1:
                        calls.append([nl.labels_of(rrset.name), -1, None])
                else:
                    calls.append([nl.labels_of(rrset.name), int(rrset.rdtype), None])

            dns.dnssec.sign_zone(z, rrset_signer=signer, add_dnskey=False)
            # the NSEC records that are now in the zone must be the ones handed to the signer
            inzone = sorted((tuple(nl.labels_of(n)), tuple(nl.labels_of(rd.next)), tuple((w, bytes(b)) for w, b in rd.windows))
                            for n, node in z.items() for rds in node if rds.rdtype == 47 for rd in rds if type(rd).__name__ == "NSEC")
            given = sorted((tuple(c[0]), tuple(c[2][0]), tuple((w, b) for w, b in c[2][1])) for c in calls if c[1] == 47)
            if inzone != given:
                return Err(904, "NSEC records in the zone differ from the ones passed to the signer")
            return calls
    except Exception as e:  # noqa
        return exc_code(e)
    raise ValueError(f"bad op {op}")


COVERS = [1, 2, 6, 15, 43, 47, 16, 28]


def build_zone(origin, rel, nodes):
    """nodes: [name, [[type, covers|None, [args...]|None, ttl]]]; dummy rdata where args is None"""
    import dns.name
    import dns.rdata
    import dns.zone

    z = dns.zone.Zone(nl.N(origin), 1, relativize=bool(rel))
    for n, rdss in nodes:
        nm = nl.N(n)
        nsig = 0
        for ty, cov, argsl, ttl in rdss:
            if argsl is None:
                if ty == 46:
                    cov = COVERS[nsig % len(COVERS)] + 256 * (nsig // len(COVERS))
                    nsig += 1
                    rds = [dns.rdata.get_rdata_class(1, 46)(1, 46, cov, 8, 1, 300, 0, 0, 1, nl.N(origin), b"\x00")]
                elif ty == 6:
                    rds = [dns.rdata.get_rdata_class(1, 6)(1, 6, nl.N([b"ns"] + origin), nl.N([b"h"] + origin), 1, 2, 3, 4, 5)]
                else:
                    cov = 0
                    rds = [dns.rdata.GenericRdata(1, ty, b"\x00")]
            else:
                rds = [build_rdata(1, ty, a) for a in argsl]
            rdataset = z.find_rdataset(nm, ty, cov or 0, create=True)
            for rd in rds:
                rdataset.add(rd, ttl)
    return z


# ------------------------------------------------------------------ oracle


def oracle(ctx, kind, case, out):
    _ensure_gen(ctx)
    F = []

    def fail(what, **kw):
        F.append({"kind": kind + ":" + what, "what": what, "impl": out, **kw})

    op = case[0]
    err = isinstance(out, Err)
    if err and (out.code >= 100 or out.code < 0) and out.code not in (101,):
        fail("unexpected exception " + out.text, sig="exc" + str(out.code))
        return F
    if op == 1:
        _, flags, protocol, alg, key, _w = case
        if all(0 <= v < lim for v, lim in ((flags, 65536), (protocol, 256), (alg, 256))):
            exp = ref_keytag(struct.pack("!HBB", flags, protocol, alg) + bytes(key), alg)
            if exp is not None and out != exp:
                fail("key tag differs from RFC 4034 appendix B", expected=exp, sig="alg1" if alg == 1 else "sum")
    elif op in (2, 9):
        if op == 2:
            _, cls, ty, fs, origin, _args = case
        else:
            _, cls, ty, fs = case
            origin = None
        exp = ref_canon_rdata(ty, fs, origin)
        if exp is not None and out != exp:
            what = "canonical RDATA differs from RFC 4034 6.2"
            if not err and r_lower(out) == r_lower(exp):
                what = ("name in RDATA lower-cased although the type is not listed in RFC 4034 6.2" if ty not in RFC4034_DOWNCASE
                        else "name in RDATA of a type listed in RFC 4034 6.2 not lower-cased")
            fail(what, expected=exp, rdtype=ty, rdclass=cls, sig=f"canon{cls}/{ty}")
    elif op == 3:
        _, sig, owner, cls, ty, rdatas, origin = case
        lims = (65536, 256, 256, 1 << 32, 1 << 32, 1 << 32, 65536)
        if all(0 <= v < l for v, l in zip(sig[:7], lims)):
            exp = ref_rrsig_input(sig, owner, cls, ty, [fs for fs, _ in rdatas], origin)
            if exp == "reject":
                if not (err and out.code == 20):
                    fail("RRSIG labels field exceeds the owner's label count but no ValidationFailure", sig="labels")
            elif exp is not None:
                if err and out.code == 20 and owner and owner[0] == b"*":
                    pass
                elif out != exp:
                    fail("RRSIG signing input differs from RFC 4034 3.1.8.1 / RFC 4035 5.3.2", expected=exp, rdtype=ty, sig="rrsig")
    elif op == 11:
        _, text, origin, flags, protocol, alg, key, dt, labels = case
        if dt in (1, 2, 4):
            rdata = struct.pack("!HBB", flags, protocol, alg) + bytes(key)
            owner = r_expand(labels, origin) if labels else (list(origin) if origin is not None and r_abs(origin) else None)
            exp = ref_ds_input(owner, rdata) if owner is not None else None
            if exp is not None:
                if err:
                    fail("make_ds raised on a valid textual owner name", sig="dstext-exc")
                else:
                    if out[0] != exp:
                        fail("DS digest input differs from RFC 4034 5.1.4: a textual owner name must be completed with the origin ('@' is the origin)",
                             expected=exp, sig="dstext-input")
                    if out[1] != ref_keytag(rdata, alg) or out[2] != alg or out[3] != dt:
                        fail("DS key tag / algorithm / digest type fields wrong", sig="dstext-fields")
                    if out[4] != 1:
                        fail("make_ds / make_cds / dnskey_rdataset_to_cds_rdataset / make_ds_rdataset disagree, or the digest is not the hash of its input", sig="dstext-digest")
    elif op == 4:
        _, owner, flags, protocol, alg, key, dt, _origin = case
        if dt in (1, 2, 4) and all(0 <= v < lim for v, lim in ((flags, 65536), (protocol, 256), (alg, 256))):
            rdata = struct.pack("!HBB", flags, protocol, alg) + bytes(key)
            exp = ref_ds_input(owner, rdata)
            if exp is not None:
                if err:
                    fail("make_ds raised on a valid key", sig="ds-exc")
                else:
                    if out[0] != exp:
                        fail("DS digest input differs from RFC 4034 5.1.4", expected=exp, sig="ds-input")
                    if out[1] != ref_keytag(rdata, alg) or out[2] != alg or out[3] != dt:
                        fail("DS key tag / algorithm / digest type fields wrong", sig="ds-fields")
                    if out[4] != 1:
                        fail("DS digest is not the hash of the digest input", sig="ds-digest")
    elif op == 10:
        _, keys, alg, tag = case
        exp = set()
        for f, p_, a, k in keys:
            rdata = struct.pack("!HBB", f, p_, a) + bytes(k)
            if a == alg and ref_keytag(rdata, a) == tag and (f & 0x0100) and p_ == 3:
                exp.add(rdata)
        if err:
            fail("candidate key selection raised", sig="cand-exc")
        elif out != [sorted(exp), 1]:
            fail("candidate DNSKEYs for an RRSIG are not exactly the ones with matching algorithm and key tag, Zone flag set and protocol 3",
                 expected=[sorted(exp), 1], sig="candidates")
    elif op == 5:
        _, name, salt, it, alg, _t = case
        if alg == 1:
            exp = ref_nsec3(name, bytes(salt), it)
            if exp is not None and out != exp:
                fail("NSEC3 hash differs from RFC 5155 section 5", expected=exp, sig="nsec3")
    elif op == 6:
        ts = case[1]
        if all(0 <= t <= 65535 for t in ts):
            exp = ref_bitmap(ts)
            if out != exp:
                fail("type bitmap differs from RFC 4034 4.1.2", expected=exp, sig="bitmap")
    elif op == 7:
        _, origin, rel, nodes, halg, scheme = case
        if halg in (1, 2) and scheme == 1:
            exp = ref_zonemd_input(origin, nodes)
            if exp is not None:
                if err:
                    fail("compute_digest raised on a valid zone", sig="zonemd-exc")
                else:
                    if out[0] != exp:
                        fail("ZONEMD digest input differs from RFC 8976 3.3", expected=exp, sig="zonemd-input")
                    if out[1] != 1:
                        fail("ZONEMD digest is not the hash of its input, or verify_digest is inconsistent", sig="zonemd-digest")
        elif not err:
            fail("unsupported ZONEMD scheme / hash algorithm accepted", sig="zonemd-unsupported")
    elif op == 8:
        _, origin, rel, nodes = case
        apex = [ts for n, ts in nodes if r_key(r_expand(n, origin)) == r_key(origin)]
        if apex and 6 in apex[0]:
            chain, signed = ref_nsec_chain(origin, nodes)
            if err:
                fail("sign_zone raised on a valid zone", sig="signzone-exc")
                return F

            def absn(n):
                return r_expand(n, origin)

            got = [(absn(c[0]), absn(c[2][0]), c[2][1]) for c in out if c[1] == 47]
            gk = sorted((r_key(a), r_key(b), w) for a, b, w in got)
            ek = sorted((r_key(a), r_key(b), w) for a, b, w in chain)
            if [x[0] for x in gk] != [x[0] for x in ek]:
                fail("NSEC owners are not exactly the authoritative names (names beneath delegations skipped, every other name once)",
                     expected=[x[0] for x in ek], sig="chain-owners")
            elif [x[:2] for x in gk] != [x[:2] for x in ek]:
                fail("NSEC next names are not the canonical successor / wrap to the origin", expected=[x[:2] for x in ek], sig="chain-next")
            elif gk != ek:
                fail("NSEC type bitmap is not exactly the types at the name", expected=ek, sig="chain-bitmap")
            gs = {(tuple(r_key(absn(c[0]))), c[1]) for c in out}
            if gs != signed:
                fail("set of signed RRsets differs from RFC 4035 2.2 (authoritative data and DS only)",
                     expected=sorted(signed), sig="signed-set")
            if any(c[1] == -1 for c in out):
                fail("NSEC RRset with more than one record", sig="nsec-multi")
    return F


def widen(ctx, disagreements):
    """more seeds of every generator through the implementation and the oracle only"""
    import random

    found = []
    for k in range(4):
        sub = lib.Ctx.__new__(lib.Ctx)
        sub.__dict__.update(ctx.__dict__)
        sub.rng = random.Random(ctx.seed * 7919 + k + 1)
        sub.dist = {}
        for kind, case in cases(sub):
            case = lib.normalize(case)
            out = lib.normalize(lib.safe_impl(sys.modules[__name__], case))
            for f in oracle(ctx, kind, case, out) or []:
                f.setdefault("case_kind", kind)
                f.setdefault("case", case)
                found.append(f)
                if len(found) >= 3:
                    return found
    return found
