#!/bin/bash
# Build the Coq project (full .vo build) under a lock.  Usage: tools/coqbuild.sh [clean] [targets...]
# Every file is compiled under a per-file timeout (VERIF_COQ_FILE_TIMEOUT, default 900 s).
set -u
cd "$(dirname "$0")/../coq" || exit 2
FT=${VERIF_COQ_FILE_TIMEOUT:-900}
# fast path without the lock: requested targets already up to date
if [ "${1:-}" != "clean" ] && [ $# -gt 0 ] && [ -f Makefile ] && [ -f _CoqProject ]; then
  { echo "-Q . DV"; echo "-arg -w -arg -notation-overridden,-deprecated-hint-without-locality,-deprecated-instance-without-locality"; find Base Model Proofs Props -name '*.v' | sort; } > /tmp/.cp.$$
  if cmp -s /tmp/.cp.$$ _CoqProject && make -q "$@" >/dev/null 2>&1; then rm -f /tmp/.cp.$$; exit 0; fi
  rm -f /tmp/.cp.$$
fi
exec 9>/tmp/.verif-coq.lock
flock 9
if [ "${1:-}" = "clean" ]; then
  shift
  find . -name '*.vo' -o -name '*.vok' -o -name '*.vos' -o -name '*.glob' -o -name '.*.aux' | xargs -r rm -f
  rm -f Makefile Makefile.conf .Makefile.d _CoqProject
fi
{ echo "-Q . DV"; echo "-arg -w -arg -notation-overridden,-deprecated-hint-without-locality,-deprecated-instance-without-locality"; find Base Model Proofs Props -name '*.v' | sort; } > _CoqProject.new
if ! cmp -s _CoqProject.new _CoqProject 2>/dev/null; then
  mv _CoqProject.new _CoqProject
  coq_makefile -f _CoqProject -o Makefile >/dev/null || exit 2
else
  rm -f _CoqProject.new
fi
[ -f Makefile ] || coq_makefile -f _CoqProject -o Makefile >/dev/null || exit 2
timeout "${VERIF_COQ_TIMEOUT:-3000}" make -j"${VERIF_JOBS:-16}" COQC="timeout $FT coqc" "$@" 2>&1
