#!/bin/bash
# Build the Coq project (full .vo build) under a lock.  Usage: tools/coqbuild.sh [clean] [targets...]
set -u
cd "$(dirname "$0")/../coq" || exit 2
exec 9>/tmp/.verif-coq.lock
flock 9
if [ "${1:-}" = "clean" ]; then
  shift
  find . -name '*.vo' -o -name '*.vok' -o -name '*.vos' -o -name '*.glob' -o -name '.*.aux' | xargs -r rm -f
  rm -f Makefile Makefile.conf .Makefile.d _CoqProject
fi
{ echo "-Q . DV"; echo "-arg -w -arg -notation-overridden,-deprecated-hint-without-locality,-deprecated-instance-without-locality"; find Base Model Proofs Props -name '*.v' | sort; } > _CoqProject.new
if ! cmp -s _CoqProject.new _CoqProject 2>/dev/null; then
  mv _CoqProject.new _CoqProject
  coq_makefile -f _CoqProject -o Makefile >/dev/null || exit 2
else
  rm -f _CoqProject.new
fi
[ -f Makefile ] || coq_makefile -f _CoqProject -o Makefile >/dev/null || exit 2
timeout "${VERIF_COQ_TIMEOUT:-3000}" make -j"${VERIF_JOBS:-16}" "$@" 2>&1
