#!/bin/bash
# tools/verify_seed.sh Cxx k : confirm a mutation-author result (patch applies, suite unchanged,
# demo PASS pristine / FAIL mutated) in the author's scratch worktree, then store it under seeded/.
id=$1; k=$2
w=${3:-1}; if [ "$w" = 1 ]; then wt=/tmp/mut-$id; out=/tmp/mut-$id-out; else wt=/tmp/mut$w-$id; out=/tmp/mut$w-$id-out; fi; kk=$(( k + 2*(w-1) ))
cd $wt || exit 2
git checkout -q -- . ; git status --short | grep -q . && { echo "worktree dirty"; exit 2; }
p0=$(cd $out && PYTHONPATH=$wt /venv/bin/python demo$k.py >/dev/null 2>&1; echo $?)
git apply $out/patch$k.diff || { echo "patch does not apply"; exit 2; }
suite=$(PYTHONPATH=$wt /venv/bin/python -m pytest -q -p no:cacheprovider --timeout=900 --continue-on-collection-errors 2>&1 | tail -1)
p1=$(cd $out && PYTHONPATH=$wt /venv/bin/python demo$k.py >/dev/null 2>&1; echo $?)
git checkout -q -- .
echo "$id-$kk pristine_demo_rc=$p0 mutated_demo_rc=$p1 suite: $suite"
if [ "$p0" = 0 ] && [ "$p1" != 0 ] && echo "$suite" | grep -q "2 failed, 1234 passed"; then
  d=/verif/seeded/$id-$kk; mkdir -p $d
  cp $out/patch$k.diff $d/patch.diff; cp $out/demo$k.py $d/demo.py
  python3 - "$out/meta$k.json" "$d/meta.json" "$suite" <<'PY'
import json,sys
m=json.load(open(sys.argv[1]))
m["verified_by_integrator"]={"suite_with_change":sys.argv[3],"demo_pristine_rc":0,"demo_mutated_nonzero":True,
  "ran":"tools/verify_seed.sh (apply patch in scratch worktree, full pytest suite, demo both ways)"}
json.dump(m,open(sys.argv[2],"w"),indent=1)
PY
  echo "stored $d"
else
  echo "NOT CONFIRMED"
fi
