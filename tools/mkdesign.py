#!/usr/bin/env python3
"""Assemble /verif/DESIGN.md from docs/DESIGN.head.md (hand-written sections), the per-property
notes meta/Cxx.design.md (summarised; the full notes stay in meta/), evidence/, known_findings/
and seeded/RESULTS.json.  Run by the integrator after the checks have been run."""
import glob
import json
import os
import re

V = os.path.dirname(os.path.dirname(os.path.abspath(__file__)))
props = [json.loads(l) for l in open(os.path.join(V, "properties.jsonl"))]


def load(path, default=None):
    try:
        return json.load(open(path))
    except Exception:
        return default


def ofail(c):
    n = c.get("oracle_failures")
    if not n:
        return "0 oracle failures"
    return f"{n} oracle failures, every one matched by one of the {len(c.get('known_findings_hit', []))} listed known findings hit"


def first_para(text):
    """title + first non-heading paragraph of a design note"""
    lines = text.split("\n")
    title = lines[0].lstrip("# ").strip() if lines else ""
    return title


out = [open(os.path.join(V, "docs", "DESIGN.head.md")).read().rstrip(), ""]

# ---------------------------------------------------------------- section 4
out.append("## 4. Per-property summary (generated; full notes in `meta/Cxx.design.md`)\n")
out.append(
    "Each entry: Coq files in the dependency closure of `coq/Props/Cxx.v`, the theorems that file proves "
    "(names; statements are in the file itself and explained one by one in the note), what the last run of the "
    "check covered, defects handled, and the independent seeded changes tried against it.\n"
)
seeds = load(os.path.join(V, "seeded", "RESULTS.json"), {})
for p in props:
    pid = p["id"]
    ev = load(os.path.join(V, "evidence", pid + ".json"), {})
    cov = ev.get("coverage", {})
    kf = load(os.path.join(V, "known_findings", pid + ".json"), {"findings": [], "fixed": []})
    meta = load(os.path.join(V, "meta", pid + ".json"), {})
    out.append(f"### {pid} — {p['title']}\n")
    out.append(f"*Claimed level:* proof.  *Technique:* {meta.get('technique', '')}\n")
    out.append(f"*What the level means here:* {meta.get('level_text', '')}\n")
    out.append(f"*Trusted / not modelled:* {meta.get('level_note', '')}\n")
    files = [f for f in cov.get("coq_files", []) if not f.startswith("Base/")]
    if files:
        out.append("*Coq files:* " + ", ".join(f"`{f}`" for f in files) + "\n")
    th = cov.get("theorems", [])
    if th:
        out.append(f"*Theorems ({cov.get('discharged')}/{cov.get('obligations')} discharged on the last {ev.get('tier')} run):* " + ", ".join(f"`{t}`" for t in th) + "\n")
    ax = cov.get("assumptions_reported", {})
    if ax:
        out.append(
            f"*Print Assumptions:* {ax.get('closed_under_global_context')} × \"Closed under the global context\"; axioms listed: {ax.get('axioms') or 'none'}.\n"
        )
    out.append(
        f"*Last run:* {cov.get('evaluations')} cases ({cov.get('correspondence_cases')} through the model inside Coq, "
        f"{cov.get('correspondence_disagreements')} differ), {ofail(cov)}, {ev.get('wall_s')} s.\n"
    )
    evt = load(os.path.join(V, "docs", "evidence-thorough", pid + ".json"), {})
    if evt:
        ct = evt.get("coverage", {})
        out.append(
            f"*Last thorough run (copy of its evidence in `docs/evidence-thorough/`):* {ct.get('evaluations')} cases "
            f"({ct.get('correspondence_cases')} through the model inside Coq, {ct.get('correspondence_disagreements')} differ), "
            f"{ofail(ct)}, {evt.get('wall_s')} s.\n"
        )
    if kf.get("fixed"):
        out.append("*Defects repaired in /repo:*\n")
        for f in kf["fixed"]:
            what = re.sub(r"^fixed: property=\S+ \S+ ", "", f.get("what", ""))
            out.append(f"- `{f.get('commit', '?')}` {what}")
        out.append("")
    if kf.get("findings"):
        out.append("*Known findings (recorded, not repaired):*\n")
        for f in kf["findings"]:
            out.append(f"- `{f.get('id')}` {f.get('what')}")
        out.append("")
    mine = {k: v for k, v in seeds.items() if k.startswith(pid + "-")}
    if mine:
        out.append("*Independent seeded changes (see §6b):* " + "; ".join(f"{k}: {v.get('verdict')}" for k, v in sorted(mine.items())) + "\n")

# ---------------------------------------------------------------- section 5: defects
out.append("## 5. Defects found in /repo and how each was handled (generated from `known_findings/`)\n")
out.append("| property | commit / finding | what failed |\n|---|---|---|")
for p in props:
    pid = p["id"]
    kf = load(os.path.join(V, "known_findings", pid + ".json"), {"findings": [], "fixed": []})
    for f in kf.get("fixed", []):
        what = re.sub(r"^fixed: property=\S+ \S+ ", "", f.get("what", "")).replace("|", "\\|").replace("\n", " ")
        out.append(f"| {pid} | fixed `{f.get('commit', '?')}` | {what[:400]} |")
    for f in kf.get("findings", []):
        out.append(f"| {pid} | KNOWN-FINDING `{f.get('id')}` | {str(f.get('what', '')).replace('|', '/')[:400]} |")
out.append("")

# ---------------------------------------------------------------- section 6b: seeds
out.append("## 6b. Independent seeded changes and which check component caught each (generated from `seeded/`)\n")
out.append(
    "Each change was written by a fresh sub-agent that saw only the property text and a scratch worktree, "
    "passes the pinned test-suite unchanged (2 failed / 1234 passed / 200 skipped, as on the pristine tree), and comes with a "
    "demonstration that fails with the change and passes without it (`seeded/<id>/{patch.diff,demo.py,meta.json}`; "
    "confirmed by `tools/verify_seed.sh`).  `tools/try_seed.sh` applies it to a scratch worktree of /repo HEAD and runs "
    "the quick check with `VERIF_REPO`.  'first run' is the verdict of the check as it stood when the change arrived; "
    "'final' after the check was strengthened where it had missed.\n"
)
seeds7 = load(os.path.join(V, "seeded", "RESULTS-seed7.json"), {})
nc = sum(1 for v in seeds.values() if str(v.get("verdict", "")).startswith("caught"))
nr = sum(1 for v in seeds.values() if "concrete" in str(v.get("verdict", "")))
out.append(
    f"Totals of the last full pass (`tools/seed_ledger.py`, VERIF_SEED=1): {len(seeds)} changes, {nc} reported "
    f"({nr} with a concrete failing input as replay, the others as `no-failing-input-found`), "
    f"{len(seeds) - nc} missed.  "
    + (
        f"A second full pass with another random stream (VERIF_SEED=7, column 'seed 7') shows which verdicts depend on "
        f"the random cases: {sum(1 for v in seeds7.values() if str(v.get('verdict', '')).startswith('caught'))} of {len(seeds7)} reported.\n"
        if seeds7
        else "\n"
    )
)
out.append("| seed | files | what it needs to manifest | first run | final | caught by | seed 7 |\n|---|---|---|---|---|---|---|")
for sid in sorted(seeds):
    s = seeds[sid]
    m = load(os.path.join(V, "seeded", sid, "meta.json"), {})
    needs = str(m.get("needs", "")).replace("|", "/").replace("\n", " ")[:260]
    s7 = seeds7.get(sid, {}).get("verdict", "")
    out.append(f"| {sid} | {', '.join(m.get('files', []))[:80]} | {needs} | {s.get('first', '')} | {s.get('verdict', '')} | {s.get('by', '')} | {s7} |")
out.append("")
out.append(open(os.path.join(V, "docs", "DESIGN.tail.md")).read().rstrip())
open(os.path.join(V, "DESIGN.md"), "w").write("\n".join(out) + "\n")
print("DESIGN.md written,", sum(len(x) for x in out), "chars")
