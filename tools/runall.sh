#!/bin/bash
# tools/runall.sh [quick|thorough] [ids...]  - run registered checks one after the other, summarise
cd "$(dirname "$0")/.." || exit 2
tier=${1:-quick}; shift
ids="$@"
[ -z "$ids" ] && ids=$(python3 -c "import json;print(' '.join(c['property_id'] for c in json.load(open('MANIFEST.json'))['checks']))")
mkdir -p build/logs
for id in $ids; do
  s=$(date +%s)
  ./check $id --tier $tier > build/logs/$id.$tier.log 2>&1
  rc=$?
  e=$(( $(date +%s) - s ))
  v=$(grep -c '^VIOLATION' build/logs/$id.$tier.log)
  k=$(grep -c '^KNOWN-FINDING' build/logs/$id.$tier.log)
  echo "$id rc=$rc ${e}s violations=$v known=$k :: $(tail -1 build/logs/$id.$tier.log | cut -c1-200)"
done
