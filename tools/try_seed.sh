#!/bin/bash
# tools/try_seed.sh <seed dir name, e.g. C06-1> [property id] [tier]
# apply a stored seeded change to a fresh scratch worktree of /repo HEAD and run the check on it
seed=$1; prop=${2:-${seed%%-*}}; tier=${3:-quick}
wt=/tmp/seedrun-$seed-$$
git -C /repo worktree add -q --detach $wt HEAD || exit 2
if ! git -C $wt apply --3way /verif/seeded/$seed/patch.diff 2>/dev/null; then
  echo "$seed: patch does not apply to current HEAD"; git -C /repo worktree remove --force $wt; exit 3
fi
cd /verif
out=$(VERIF_REPO=$wt timeout 3000 ./check $prop --tier $tier 2>&1)
rc=$?
echo "$seed on $prop ($tier): rc=$rc :: $(echo "$out" | grep -c '^VIOLATION') violation lines :: $(echo "$out" | grep '^VIOLATION' | head -2 | tr '\n' ' ') :: $(echo "$out" | tail -1 | cut -c1-160)"
git -C /repo worktree remove --force $wt
