#!/usr/bin/env python3
"""Assemble /verif/MANIFEST.json from meta/Cxx.json (one file per property) and validate it.
A property with a meta file containing "not_applicable": "<reason>" is listed there instead."""
import json, os, sys, glob
V = os.path.dirname(os.path.dirname(os.path.abspath(__file__)))
props = [json.loads(l)["id"] for l in open(os.path.join(V, "properties.jsonl"))]
checks, na = [], []
for pid in props:
    p = os.path.join(V, "meta", pid + ".json")
    if not os.path.exists(p):
        na.append({"property_id": pid, "reason": "check not built yet (work in progress; see DESIGN.md section 4)"})
        continue
    m = json.load(open(p))
    if "not_applicable" in m:
        na.append({"property_id": pid, "reason": m["not_applicable"]})
        continue
    checks.append({
        "property_id": pid,
        "quick_cmd": f"./check {pid} --tier quick",
        "thorough_cmd": f"./check {pid} --tier thorough",
        "evidence_file": f"/verif/evidence/{pid}.json",
        "replay_cmd_template": f"./check {pid} --replay {{path}}",
        "engine": "coq-model+correspondence",
        "level_claimed": {"category": "proof", "text": m["level_text"], "design_ref": m.get("design_ref", f"DESIGN.md section 4, {pid}")},
        "level_note": m["level_note"],
        "technique": m.get("technique", "Coq theorems about a Gallina model + vm_compute correspondence against the implementation"),
    })
man = {
    "version": 1,
    "setup_cmd": "tools/setup.sh",
    "hooks": {
        "guard": "DNSPYTHON_VERIF",
        "enable": "no source hooks: all instrumentation is monkey-patching from /verif/harness (scripted sockets, clocks, schedulers); checks import /repo with PYTHONPATH=/repo",
        "baseline_off_cmd": "cd /repo && /venv/bin/python -m pytest -ra -q -p no:cacheprovider --timeout=900 --continue-on-collection-errors",
        "source_commits": [],
        "add_only": True,
    },
    "engines": [{"name": "coq-model+correspondence", "path": "/verif/check", "serves_properties": [c["property_id"] for c in checks],
                 "kind_free_text": "Coq 8.16.1 theorems over hand-written Gallina models (coq/), tied to /repo on every run by evaluating the model inside Coq (vm_compute) on the same cases as the implementation; Python-ast translators regenerate table-like parts"}],
    "checks": checks,
    "not_applicable": na,
    "notes": "See DESIGN.md.  known_findings/Cxx.json (one file per property, never written at run time) lists under \"findings\" the genuine defects recorded rather than repaired (each printed as a KNOWN-FINDING line) and under \"fixed\" the defects repaired by `fix:` commits in /repo (these suppress nothing).",
}
json.dump(man, open(os.path.join(V, "MANIFEST.json"), "w"), indent=1)
print(f"{len(checks)} checks, {len(na)} not_applicable")
