#!/bin/bash
# stranger's audit: forbidden words anywhere in coq/, then coqchk -o over the property files
cd "$(dirname "$0")/../coq" || exit 2
echo "== forbidden words (comments included; expect none outside comments) =="
grep -rn --include='*.v' -E 'Admitted|\badmit\b|\bAxiom\b|\bParameter\b|\bConjecture\b|Unset Guard|bypass_check|Admit Obligations|type-in-type' . || echo none
if [ "${1:-}" = "coqchk" ]; then
  for f in Props/C*.vo; do
    m=DV.Props.$(basename $f .vo)
    echo "== coqchk $m =="
    timeout 1800 coqchk -silent -o -Q . DV $m 2>&1 | tail -25
  done
fi
