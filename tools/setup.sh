#!/bin/bash
# MANIFEST.setup_cmd: clean full build of the Coq development (offline).
cd "$(dirname "$0")/.." || exit 2
tools/coqbuild.sh clean 2>&1 | tail -40
rc=${PIPESTATUS[0]}
mkdir -p evidence replay build
exit $rc
