#!/usr/bin/env python3
"""Fail-closed translator: dns/rdtypes/** (Python `ast`)  ->  per-type wire schemas.

Run on EVERY check (harness/pC02.py: generated_obligations) against $VERIF_REPO.  For each rdata
implementation class (module dns/rdtypes/<CLS>/<T>.py, class <T>) it resolves, through the
class hierarchy,
    * the WRITER  `_to_wire(self, file, compress, origin, canonicalize)`,
    * the READER  `from_wire_parser(cls, rdclass, rdtype, parser, origin)`,
    * the constructor `__init__` (value ranges of the parameters, extra validation),
and turns writer and reader SEPARATELY into a list of fields of the language of
coq/Model/SchemaM.v:

    U w max        big-endian unsigned integer of w octets, value <= max
    Fixed n        exactly n octets
    Counted w lo hi  w-octet length prefix, then that many octets (lo <= length <= hi)
    Remaining lo   the rest of the RDATA (at least lo octets)
    RemN n         the rest of the RDATA, which must be exactly n octets (reader only)
    Name rel       a domain name; rel = reader passes `origin` / writer appends origin
    Repeat min1 [row fields]   `while parser.remaining() > 0` / `for x in self.attr`
    OptC8          optional trailing 1-octet-counted string (empty <-> absent)

Each field carries the index `p` of the constructor parameter it comes from / flows into, so a
swap of two equally wide fields on one side only is a mismatch.  Only a closed set of statement
shapes is understood (see `Writer`, `Reader`, `Ctor`).  A class whose codec uses anything else
must be listed in HAND (hand-written Gallina codec in SchemaM.v, or oracle-only) - otherwise
the translation FAILS and the check reports a broken obligation.

Output: translate(repo) -> dict  (JSON-able; `emit_coq` renders the Coq table).
"""
from __future__ import annotations

import ast
import json
import os
import sys

# Classes whose codec is outside the idiom set.  value = id of the hand model
# (coq/Model/SchemaHand.v, see COQ_HAND below; a class without a Coq model is oracle-only).
HAND = {
    "HIP": "hip",            # lengths packed together, data later
    "IPSECKEY": "ipseckey",  # Gateway helper: branch on an earlier field
    "AMTRELAY": "amtrelay",  # Gateway helper + bit packed into the type octet
    "APL": "apl",            # item loop with trailing-zero trimming
    "LOC": "loc",            # integer/float conversions
    "OPT": "opt",            # EDNS option framing (dns.edns)
    "SVCB": "svcb",          # parameter dictionary
    "HTTPS": "svcb",
}
# Helper (non-rdata) classes that regular types may call; they are translated like a type.
HELPERS = {"Bitmap"}

# Constructor statements that are not plain `self.a = self._as_x(p)`: the class must be named
# here with the id of the check predicate modelled in SchemaM.v.
CTOR_CHECKS = {
    "DSBase": "ds",          # digest length by digest type; type 0 reserved
    "CAA": "caa",            # tag.isalnum()
    "TXTBase": "nonempty",   # at least one string      (-> Repeat min1)
    "URI": "nonempty",       # target must not be empty (-> Remaining 1)
    "ZONEMD": "zonemd",      # scheme / hash algorithm reserved values, digest size
    "EUIBase": "fixedlen",   # len == byte_len          (-> Fixed n)
    "L64": "hex64",          # 8 octets <-> xxxx:xxxx:xxxx:xxxx
    "NID": "hex64",
    "GPOS": "gpos",          # three ASCII decimal strings: _validate_float_string + latitude/longitude range
    "Bitmap": "bitmap",      # windows strictly ascending, 1..32 octets each
    "NSEC": "bitmapwrap",    # `if not isinstance(windows, Bitmap): windows = Bitmap(windows)`
    "NSEC3": "bitmapwrap",
    "CSYNC": "bitmapwrap",
}

# hand models that exist in coq/Model/SchemaHand.v (emitted as `hand_table`; the table itself
# lists hand classes as `mk_hand .. H_none` so that get_rdata_class resolution sees their modules)
COQ_HAND = {"hip": "HHip", "ipseckey": "HIpseckey", "amtrelay": "HAmtrelay", "apl": "HApl", "svcb": "HSvcb", "loc": "HLoc", "opt": "HOpt"}

# RFC 3597 section 4: only the RFC 1035 types with embedded names may compress them (NS, MD, MF,
# CNAME, SOA, MB, MG, MR, PTR, MINFO, MX); dnspython additionally compresses SRV and NAPTR targets
# (both are down-cased in the canonical form, so case-insensitive compression keeps records equal).
MAY_COMPRESS = {"NS": 2, "MD": 3, "MF": 4, "CNAME": 5, "SOA": 6, "MB": 7, "MG": 8, "MR": 9, "PTR": 12, "MINFO": 14, "MX": 15,
                "SRV": 33, "NAPTR": 35}
# classes that may hand the compression table to Name.to_wire (bases of the types above)
COMPRESS_CLASSES = {"MXBase", "NSBase", "SOA", "SRV", "NAPTR"}


def compress_sites(world):
    """every `<name>.to_wire(file, compress, ...)` in dns/rdtypes/** (schema AND hand-modelled classes,
    helpers included): [(module, class, source line)] outside COMPRESS_CLASSES"""
    out = []
    for rel, mod in sorted(world.mods.items()):
        for cname, cdef in mod.classes.items():
            for fn in cdef.body:
                if not (isinstance(fn, ast.FunctionDef) and fn.name in ("_to_wire", "to_wire")):
                    continue
                for node in ast.walk(fn):
                    if (isinstance(node, ast.Call) and isinstance(node.func, ast.Attribute) and node.func.attr == "to_wire"
                            and len(node.args) >= 2 and u(node.args[0]) == "file" and u(node.args[1]) == "compress"):
                        recv = node.func.value
                        # passing the table on to a helper object / the base class is not a name write
                        if isinstance(recv, ast.Call):
                            continue
                        if cname not in COMPRESS_CLASSES:
                            out.append([rel, cname, u(node)[:90]])
    return out


NARROW = []   # filled by finalize(): constructor bounds narrower than the wire format allows

UMAX = {1: 255, 2: 65535, 4: 4294967295, 6: 281474976710655}
FMT = {"B": 1, "H": 2, "I": 4}


class Unsupported(Exception):
    pass


def u(node):
    return ast.unparse(node)


# ----------------------------------------------------------------------------- loading


class Mod:
    def __init__(self, rel, path):
        self.rel = rel
        self.path = path
        self.src = open(path, encoding="utf-8").read()
        self.tree = ast.parse(self.src)
        self.classes = {n.name: n for n in self.tree.body if isinstance(n, ast.ClassDef)}
        self.funcs = {n.name: n for n in self.tree.body if isinstance(n, ast.FunctionDef)}


class World:
    def __init__(self, repo):
        self.repo = repo
        self.mods = {}
        base = os.path.join(repo, "dns", "rdtypes")
        for sub in ("", "ANY", "IN", "CH"):
            d = os.path.join(base, sub)
            for f in sorted(os.listdir(d)):
                if f.endswith(".py") and f != "__init__.py":
                    rel = (sub + "/" if sub else "") + f[:-3]
                    self.mods[rel] = Mod(rel, os.path.join(d, f))
        self.rdatatypes = self._enum_members(os.path.join(repo, "dns", "rdatatype.py"), "RdataType")
        self.enum_max = {}
        for f in ("dnssectypes.py", "rcode.py", "zonetypes.py", "rdatatype.py"):
            self._enum_maxima(os.path.join(repo, "dns", f))
        for m in self.mods.values():
            self._enum_maxima(m.path)

    @staticmethod
    def _enum_members(path, cls):
        tree = ast.parse(open(path).read())
        out = {}
        for n in tree.body:
            if isinstance(n, ast.ClassDef) and n.name == cls:
                for it in n.body:
                    if isinstance(it, ast.Assign) and isinstance(it.value, ast.Constant) and isinstance(it.value.value, int):
                        out[it.targets[0].id] = it.value.value
        return out

    def _enum_maxima(self, path):
        tree = ast.parse(open(path).read())
        for n in tree.body:
            if isinstance(n, ast.ClassDef):
                for it in n.body:
                    if isinstance(it, ast.FunctionDef) and it.name == "_maximum":
                        r = it.body[-1]
                        if isinstance(r, ast.Return) and isinstance(r.value, ast.Constant):
                            self.enum_max[n.name] = r.value.value

    # class resolution -------------------------------------------------------
    def resolve_base(self, mod, expr):
        """-> (Mod, ClassDef) or None for dns.rdata.Rdata / object"""
        s = u(expr)
        if s in ("dns.rdata.Rdata",):
            return None
        if s.startswith("dns.rdtypes."):
            parts = s.split(".")
            rel = "/".join(parts[2:-1])
            m = self.mods.get(rel)
            if m and parts[-1] in m.classes:
                return m, m.classes[parts[-1]]
            raise Unsupported(f"cannot resolve base {s}")
        if s in mod.classes:
            return mod, mod.classes[s]
        raise Unsupported(f"cannot resolve base {s}")

    def chain(self, mod, cdef):
        out = [(mod, cdef)]
        while True:
            if len(cdef.bases) == 0:
                return out
            if len(cdef.bases) != 1:
                raise Unsupported(f"{cdef.name}: multiple inheritance")
            r = self.resolve_base(mod, cdef.bases[0])
            if r is None:
                return out
            mod, cdef = r
            out.append((mod, cdef))

    @staticmethod
    def method(cdef, name):
        for it in cdef.body:
            if isinstance(it, ast.FunctionDef) and it.name == name:
                return it
        return None

    def find(self, chain, name):
        for i, (m, c) in enumerate(chain):
            f = self.method(c, name)
            if f is not None:
                return i, m, c, f
        raise Unsupported(f"{chain[0][1].name}: no {name}")

    def class_const(self, chain, name):
        for m, c in chain:
            for it in c.body:
                if isinstance(it, ast.Assign) and len(it.targets) == 1 and isinstance(it.targets[0], ast.Name) and it.targets[0].id == name:
                    return m, c, it.value
        raise Unsupported(f"class constant {name} not found")


def strip_doc(body):
    if body and isinstance(body[0], ast.Expr) and isinstance(body[0].value, ast.Constant) and isinstance(body[0].value.value, str):
        return body[1:]
    return body


def is_self_attr(n):
    return isinstance(n, ast.Attribute) and isinstance(n.value, ast.Name) and n.value.id == "self"


def call_name(n):
    return u(n.func) if isinstance(n, ast.Call) else None


def parse_fmt(fmt):
    if not isinstance(fmt, ast.Constant) or not isinstance(fmt.value, str):
        raise Unsupported("struct format is not a literal")
    s = fmt.value
    if s.startswith("!"):
        s = s[1:]
    # without "!" native alignment would matter for H/I; only B-only formats are accepted
    elif any(ch != "B" for ch in s):
        raise Unsupported(f"struct format {fmt.value!r} without network byte order")
    out = []
    for ch in s:
        if ch not in FMT:
            raise Unsupported(f"struct format character {ch!r}")
        out.append(FMT[ch])
    return out


# ----------------------------------------------------------------------------- constructor


class Ctor:
    """`__init__`: parameter list, attr <- param mapping, per-parameter kind and range."""

    SIMPLE = {
        "_as_uint8": ("int", 255),
        "_as_uint16": ("int", 65535),
        "_as_uint32": ("int", 4294967295),
        "_as_uint48": ("int", 281474976710655),
        "_as_ttl": ("int", 4294967295),
        "_as_rdatatype": ("int", 65535),
        "_as_name": ("name", None),
        "_as_ipv4_address": ("ipv4", None),
        "_as_ipv6_address": ("ipv6", None),
    }

    def __init__(self, world, chain):
        self.world = world
        i, mod, cdef, f = world.find(chain, "__init__")
        self.owner = cdef.name
        args = [a.arg for a in f.args.args]
        if args[:3] == ["self", "rdclass", "rdtype"]:
            self.params = args[3:]
        elif cdef.name in HELPERS and args[:1] == ["self"]:
            self.params = args[1:]
        else:
            raise Unsupported(f"{cdef.name}.__init__ signature {args}")
        self.attr_of = {}   # attr -> param index
        self.info = {}      # param index -> dict(kind=..., max=..., maxlen=..., ...)
        self.extra = []     # unparsed statements that need a named check
        for st in strip_doc(f.body):
            if not self.stmt(st):
                self.extra.append(u(st).split("\n")[0][:100])
        self.check = CTOR_CHECKS.get(cdef.name)
        if self.extra and self.check is None:
            raise Unsupported(f"{cdef.name}.__init__: validation outside the idiom set and class not in CTOR_CHECKS: {self.extra}")
        if self.check == "gpos":
            # latitude = self._as_bytes(latitude, True, 255) ... self.latitude = latitude
            for i, p in enumerate(self.params):
                conv = [n for n in ast.walk(f) if isinstance(n, ast.Assign) and len(n.targets) == 1 and isinstance(n.targets[0], ast.Name)
                        and n.targets[0].id == p and u(n.value) == f"self._as_bytes({p}, True, 255)"]
                if not conv:
                    raise Unsupported(f"{cdef.name}.__init__: parameter {p} is not converted with _as_bytes(.., True, 255)")
                self.gpos_info = getattr(self, "gpos_info", {})
                self.gpos_info[i] = {"kind": "bytes", "maxlen": 255, "minlen": 0}
        if self.check in ("bitmapwrap", "hex64", "gpos"):
            # the wrapped parameter is stored under its own name (self.<param> = ...): verify that
            assigned = set()
            for node in ast.walk(f):
                if isinstance(node, (ast.Assign, ast.AnnAssign)):
                    for t in (node.targets if isinstance(node, ast.Assign) else [node.target]):
                        if is_self_attr(t):
                            assigned.add(t.attr)
            for i, p in enumerate(self.params):
                if i not in self.info:
                    if p not in assigned:
                        raise Unsupported(f"{cdef.name}.__init__: parameter {p} is not stored as self.{p}")
                    self.attr_of[p] = i
            self.info.update(getattr(self, "gpos_info", {}))

    def pidx(self, node):
        if isinstance(node, ast.Name) and node.id in self.params:
            return self.params.index(node.id)
        return None

    def conv(self, call):
        """self._as_x(param, ...) / Enum.make(param) / Flag(self._as_uint16(p)) -> (pidx, info)"""
        if not isinstance(call, ast.Call):
            return None
        fn = u(call.func)
        if fn.startswith("self._as_") or fn.startswith("dns.rdata.Rdata._as_"):
            name = fn.rsplit(".", 1)[1]
            if not call.args:
                return None
            p = self.pidx(call.args[0])
            if name in self.SIMPLE and len(call.args) == 1 and not call.keywords and p is not None:
                k, mx = self.SIMPLE[name]
                return p, {"kind": k, "max": mx}
            if name == "_as_bytes" and p is not None:
                a = call.args[1:]
                for kw in call.keywords:
                    raise Unsupported(f"_as_bytes keyword {kw.arg}")
                maxlen = None
                empty_ok = True
                if len(a) >= 2:
                    if not isinstance(a[1], ast.Constant):
                        raise Unsupported("_as_bytes max_length not literal")
                    maxlen = a[1].value
                if len(a) >= 3:
                    empty_ok = bool(a[2].value)
                return p, {"kind": "bytes", "maxlen": maxlen, "minlen": 0 if empty_ok else 1}
            if name == "_as_tuple" and p is not None and len(call.args) == 2:
                el = call.args[1]
                if isinstance(el, ast.Lambda) and len(el.args.args) == 1:
                    x = el.args.args[0].arg
                    inner = el.body
                    if isinstance(inner, ast.Call) and u(inner.func) in ("self._as_bytes", "dns.rdata.Rdata._as_bytes") and isinstance(inner.args[0], ast.Name) and inner.args[0].id == x:
                        a = inner.args[1:]
                        maxlen = a[1].value if len(a) >= 2 else None
                        minlen = 0 if (len(a) < 3 or a[2].value) else 1
                        return p, {"kind": "bytes_list", "maxlen": maxlen, "minlen": minlen}
                if u(el) == "self._as_name":
                    return p, {"kind": "name_list"}
            return None
        # enum conversions
        if fn.endswith(".make") and len(call.args) == 1:
            ename = fn.split(".")[-2]
            mx = self.world.enum_max.get(ename)
            if mx is None:
                return None
            inner = call.args[0]
            p = self.pidx(inner)
            if p is not None:
                return p, {"kind": "int", "max": mx}
            r = self.conv(inner)
            if r and r[1]["kind"] == "int":
                return r[0], {"kind": "int", "max": min(mx, r[1]["max"])}
            return None
        if isinstance(call.func, ast.Name) and len(call.args) == 1:  # Flag(self._as_uint16(flags))
            r = self.conv(call.args[0])
            if r and r[1]["kind"] == "int":
                return r
        return None

    def stmt(self, st):
        if isinstance(st, ast.Expr) and u(st.value) == "super().__init__(rdclass, rdtype)":
            return True
        tgt = None
        if isinstance(st, ast.Assign) and len(st.targets) == 1:
            tgt, val = st.targets[0], st.value
        elif isinstance(st, ast.AnnAssign) and st.value is not None:
            tgt, val = st.target, st.value
        if tgt is not None and is_self_attr(tgt):
            r = self.conv(val)
            if r:
                p, info = r
                if p in self.info:
                    return False
                self.attr_of[tgt.attr] = p
                self.info[p] = info
                return True
        return False


# ----------------------------------------------------------------------------- writer


class Writer:
    """Symbolic execution of `_to_wire` over the closed idiom set -> list of field dicts."""

    def __init__(self, world, chain, ctor, depth=0):
        self.world = world
        self.chain = chain
        self.ctor = ctor
        i, self.mod, self.cdef, f = world.find(chain, "_to_wire" if chain[0][1].name not in HELPERS else "to_wire")
        self.fchain = chain[i:]
        self.env = {}
        self.out = []
        self.name_flags = None  # override from a subclass `super()._to_wire(file, None, origin, False)`
        body = strip_doc(f.body)
        # subclass wrapper:  super()._to_wire(file, A, origin, B)
        if len(body) == 1 and isinstance(body[0], ast.Expr) and call_name(body[0].value) == "super()._to_wire":
            a = [u(x) for x in body[0].value.args]
            if len(a) != 4 or a[0] != "file" or a[2] != "origin" or a[1] not in ("compress", "None") or a[3] not in ("canonicalize", "False"):
                raise Unsupported(f"{self.cdef.name}: super()._to_wire args {a}")
            inner = Writer(world, chain[i + 1:], ctor)
            for fl in inner.out:
                self._subst_flags(fl, a[1] == "compress", a[3] == "canonicalize")
            self.out = inner.out
            return
        self.block(body, {})
        self.out = self.merge(self.out)

    @staticmethod
    def _subst_flags(fl, compress, canon):
        if fl["k"] == "Name":
            fl["compress"] = fl["compress"] and compress
            fl["canon"] = fl["canon"] and canon
        for r in fl.get("row", []):
            Writer._subst_flags(r, compress, canon)

    # value expressions ------------------------------------------------------
    def ref(self, n, loc):
        """-> ('attr', name) | ('elem', loopvar path) | None"""
        if is_self_attr(n):
            return ("attr", n.attr)
        if isinstance(n, ast.Name) and n.id in loc:
            return loc[n.id]
        return None

    def src(self, r):
        """source descriptor -> field 'p' (ctor param index) / 'e' (row element index)"""
        if r[0] == "attr":
            if r[1] not in self.ctor.attr_of:
                raise Unsupported(f"{self.cdef.name}: writes self.{r[1]} which the constructor does not set from a parameter")
            return {"p": self.ctor.attr_of[r[1]]}
        if r[0] == "elem":
            return {"e": r[1]}
        raise Unsupported(f"bad source {r}")

    def pack(self, call, loc):
        widths = parse_fmt(call.args[0])
        args = call.args[1:]
        fields = []
        i = 0
        wi = 0
        while i < len(args):
            a = args[i]
            if wi >= len(widths):
                raise Unsupported("more pack arguments than format characters")
            w = widths[wi]
            # 48-bit split:  (self.x >> 32) & 0xFFFF , self.x & 0xFFFFFFFF  with "HI"
            if (w == 2 and i + 1 < len(args) and wi + 1 < len(widths) and widths[wi + 1] == 4
                    and isinstance(a, ast.BinOp) and isinstance(a.op, ast.BitAnd) and u(a.right) in ("65535", "0xFFFF")
                    and isinstance(a.left, ast.BinOp) and isinstance(a.left.op, ast.RShift) and u(a.left.right) == "32"
                    and is_self_attr(a.left.left)):
                b = args[i + 1]
                if (isinstance(b, ast.BinOp) and isinstance(b.op, ast.BitAnd) and u(b.right) in ("4294967295", "0xFFFFFFFF")
                        and is_self_attr(b.left) and b.left.attr == a.left.left.attr):
                    fields.append({"k": "U", "w": 6, **self.src(("attr", b.left.attr))})
                    i += 2
                    wi += 2
                    continue
            if isinstance(a, ast.Constant) and isinstance(a.value, int):
                raise Unsupported("constant in struct.pack")
            if isinstance(a, ast.Name) and a.id in self.env and self.env[a.id][0] == "len":
                fields.append({"k": "LenOf", "w": w, "of": self.env[a.id][1]})
            elif isinstance(a, ast.Call) and call_name(a) == "len" and len(a.args) == 1 and self.ref(a.args[0], loc):
                fields.append({"k": "LenOf", "w": w, "of": self.ref(a.args[0], loc)})
            else:
                r = self.ref(a, loc)
                if r is None:
                    raise Unsupported(f"{self.cdef.name}: pack argument {u(a)}")
                fields.append({"k": "U", "w": w, **self.src(r)})
            i += 1
            wi += 1
        if wi != len(widths):
            raise Unsupported("fewer pack arguments than format characters")
        return fields

    def write_arg(self, a, loc):
        if isinstance(a, ast.Name) and a.id in self.env and self.env[a.id][0] == "pack":
            return list(self.env[a.id][1])
        if isinstance(a, ast.Call) and call_name(a) == "struct.pack":
            return self.pack(a, loc)
        r = self.ref(a, loc)
        if r is not None:
            return [{"k": "Raw", "of": r}]
        if isinstance(a, ast.Call) and len(a.args) >= 1 and self.ref(a.args[0], loc):
            fn = call_name(a)
            r = self.ref(a.args[0], loc)
            if fn == "dns.ipv4.inet_aton" and len(a.args) == 1:
                return [{"k": "Fixed", "n": 4, "conv": "ipv4", **self.src(r)}]
            if fn == "dns.ipv6.inet_aton" and len(a.args) == 1:
                return [{"k": "Fixed", "n": 16, "conv": "ipv6", **self.src(r)}]
            if fn == "dns.rdtypes.util.parse_formatted_hex" and [u(x) for x in a.args[1:]] == ["4", "4", "':'"]:
                return [{"k": "Fixed", "n": 8, "conv": "hex64", **self.src(r)}]
        raise Unsupported(f"{self.cdef.name}: file.write({u(a)})")

    # statements -------------------------------------------------------------
    def block(self, body, loc):
        for st in body:
            self.stmt(st, loc)

    def stmt(self, st, loc):
        cn = self.cdef.name
        if isinstance(st, ast.Assign) and len(st.targets) == 1 and isinstance(st.targets[0], ast.Name):
            v = st.value
            name = st.targets[0].id
            if isinstance(v, ast.Call) and call_name(v) == "struct.pack":
                self.env[name] = ("pack", self.pack(v, loc))
                return
            if isinstance(v, ast.Call) and call_name(v) == "len" and self.ref(v.args[0], loc):
                self.env[name] = ("len", self.ref(v.args[0], loc))
                return
            raise Unsupported(f"{cn}: assignment {u(st)}")
        if isinstance(st, ast.Assert):
            # assert l < 256  (documented invariant of the constructor; no output)
            t = st.test
            if isinstance(t, ast.Compare) and isinstance(t.left, ast.Name) and t.left.id in self.env and self.env[t.left.id][0] == "len":
                return
            raise Unsupported(f"{cn}: assert {u(st)}")
        if isinstance(st, ast.Expr) and isinstance(st.value, ast.Call):
            c = st.value
            fn = call_name(c)
            if fn == "file.write" and len(c.args) == 1:
                self.out += self.write_arg(c.args[0], loc)
                return
            # name:  self.x.to_wire(file, A, origin[, B])   /  loopvar.to_wire(...)
            if isinstance(c.func, ast.Attribute) and c.func.attr == "to_wire" and self.ref(c.func.value, loc):
                r = self.ref(c.func.value, loc)
                a = [u(x) for x in c.args]
                if len(a) in (3, 4) and a[0] == "file" and a[2] == "origin" and a[1] in ("compress", "None") and (len(a) == 3 or a[3] in ("canonicalize", "False")):
                    self.out.append({"k": "Name", "compress": a[1] == "compress", "canon": len(a) == 4 and a[3] == "canonicalize", "rel": True, **self.src(r)})
                    return
                raise Unsupported(f"{cn}: name.to_wire arguments {a}")
            # helper class:  Bitmap(self.windows).to_wire(file)
            if (isinstance(c.func, ast.Attribute) and c.func.attr == "to_wire" and isinstance(c.func.value, ast.Call)
                    and isinstance(c.func.value.func, ast.Name) and [u(x) for x in c.args] == ["file"]):
                hname = c.func.value.func.id
                hargs = c.func.value.args
                if len(hargs) == 1 and is_self_attr(hargs[0]):
                    sub = translate_helper(self.world, self.mod, hname)
                    for fl in sub["writer"]:
                        fl = dict(fl)
                        fl.update(self.src(("attr", hargs[0].attr)))
                        fl["helper"] = sub["name"]
                        self.out.append(fl)
                    return
            # module-level helper function:  _write_string(file, self.x)
            if isinstance(c.func, ast.Name) and c.func.id in self.mod.funcs:
                f = self.mod.funcs[c.func.id]
                params = [a.arg for a in f.args.args]
                if len(params) == len(c.args) and params[0] == "file" and u(c.args[0]) == "file":
                    loc2 = dict(loc)
                    for pn, an in zip(params[1:], c.args[1:]):
                        r = self.ref(an, loc)
                        if r is None:
                            raise Unsupported(f"{cn}: helper argument {u(an)}")
                        loc2[pn] = r
                    saved = dict(self.env)
                    self.block(strip_doc(f.body), loc2)
                    self.env = saved
                    return
            raise Unsupported(f"{cn}: call {u(c)[:80]}")
        if isinstance(st, ast.For) and not st.orelse:
            it = self.ref(st.iter, loc)
            if it is None or it[0] != "attr":
                raise Unsupported(f"{cn}: for over {u(st.iter)}")
            loc2 = dict(loc)
            if isinstance(st.target, ast.Name):
                loc2[st.target.id] = ("elem", 0)
                arity = 1
            elif isinstance(st.target, ast.Tuple) and all(isinstance(e, ast.Name) for e in st.target.elts):
                for j, e in enumerate(st.target.elts):
                    loc2[e.id] = ("elem", j)
                arity = len(st.target.elts)
            else:
                raise Unsupported(f"{cn}: for target {u(st.target)}")
            saved_out, saved_env = self.out, dict(self.env)
            self.out = []
            self.block(st.body, loc2)
            row = self.merge(self.out)
            self.out, self.env = saved_out, saved_env
            for fl in row:
                if "e" not in fl:
                    raise Unsupported(f"{cn}: loop body writes a non-element value")
            if sorted(fl["e"] for fl in row) != list(range(arity)):
                raise Unsupported(f"{cn}: loop body does not write every element exactly once")
            self.out.append({"k": "Repeat", "row": row, **self.src(it)})
            return
        if isinstance(st, ast.With) and len(st.items) == 1 and call_name(st.items[0].context_expr) == "dns.renderer.prefixed_length":
            a = st.items[0].context_expr.args
            if u(a[0]) != "file" or not isinstance(a[1], ast.Constant) or a[1].value not in (1, 2):
                raise Unsupported(f"{cn}: prefixed_length arguments")
            if len(st.body) == 1 and isinstance(st.body[0], ast.Expr) and call_name(st.body[0].value) == "file.write":
                inner = self.write_arg(st.body[0].value.args[0], loc)
                if len(inner) == 1 and inner[0]["k"] == "Raw":
                    self.out.append({"k": "LenOf", "w": a[1].value, "of": inner[0]["of"]})
                    self.out.append(inner[0])
                    return
            raise Unsupported(f"{cn}: prefixed_length body")
        if isinstance(st, ast.If) and not st.orelse:
            # `if l > 0:` / `if len(self.x) > 0:`  guarding writes of that same attribute
            t = st.test
            who = None
            if isinstance(t, ast.Compare) and len(t.ops) == 1 and isinstance(t.ops[0], ast.Gt) and u(t.comparators[0]) == "0":
                if isinstance(t.left, ast.Name) and t.left.id in self.env and self.env[t.left.id][0] == "len":
                    who = self.env[t.left.id][1]
                elif isinstance(t.left, ast.Call) and call_name(t.left) == "len":
                    who = self.ref(t.left.args[0], loc)
            if who is None:
                raise Unsupported(f"{cn}: if {u(t)}")
            saved_out = self.out
            self.out = []
            self.block(st.body, loc)
            inner, self.out = self.out, saved_out
            if len(inner) == 1 and inner[0]["k"] == "Raw" and inner[0]["of"] == who:
                # writing zero octets is a no-op: same as the unguarded write
                self.out.append(inner[0])
                return
            if (len(inner) == 2 and inner[0]["k"] == "LenOf" and inner[0]["w"] == 1 and inner[0]["of"] == who
                    and inner[1]["k"] == "Raw" and inner[1]["of"] == who):
                self.out.append({"k": "OptC8", **self.src(who)})
                return
            raise Unsupported(f"{cn}: guarded writes {inner}")
        if isinstance(st, ast.Pass):
            return
        raise Unsupported(f"{cn}: statement {u(st)[:80]}")

    def merge(self, fields):
        """LenOf a w ; Raw a  ->  Counted w a ;  remaining Raw -> Raw (resolved by finalize)"""
        out = []
        i = 0
        while i < len(fields):
            f = fields[i]
            if f["k"] == "LenOf":
                if i + 1 < len(fields) and fields[i + 1]["k"] == "Raw" and fields[i + 1]["of"] == f["of"]:
                    out.append({"k": "Counted", "w": f["w"], **self.src(f["of"])})
                    i += 2
                    continue
                raise Unsupported(f"{self.cdef.name}: length of {f['of']} is not written directly before the data")
            if f["k"] == "Raw":
                out.append({"k": "Raw", **self.src(f["of"])})
            else:
                out.append(f)
            i += 1
        return out


# ----------------------------------------------------------------------------- reader


class Reader:
    """Symbolic execution of `from_wire_parser` -> list of field dicts in wire order, each with
    the constructor parameter index it is passed to."""

    GETU = {"parser.get_uint8": 1, "parser.get_uint16": 2, "parser.get_uint32": 4, "parser.get_uint48": 6}

    def __init__(self, world, chain, ctor):
        self.world = world
        self.chain = chain
        self.ctor = ctor
        i, self.mod, self.cdef, f = world.find(chain, "from_wire_parser")
        self.fields = []     # wire order; each gets "var"
        self.env = {}        # var -> ('field', idx) | ('tuple', [idx...]) | ('list', [idx..]) | ('repeat', idx) | ('empty_list',)
        self.checks = []
        self.ret = None
        self.block(strip_doc(f.body))
        if self.ret is None:
            raise Unsupported(f"{self.cdef.name}: no return cls(...)")

    def add(self, fl):
        self.fields.append(fl)
        return len(self.fields) - 1

    def read_expr(self, v):
        """parser.<get>(...) -> list of new field indices, or None"""
        if not isinstance(v, ast.Call):
            return None
        fn = call_name(v)
        if fn == "parser.get_struct" and len(v.args) == 1:
            return [self.add({"k": "U", "w": w}) for w in parse_fmt(v.args[0])]
        if fn in self.GETU and not v.args:
            return [self.add({"k": "U", "w": self.GETU[fn]})]
        if fn == "parser.get_counted_bytes":
            w = 1
            if v.args:
                if not isinstance(v.args[0], ast.Constant):
                    raise Unsupported("get_counted_bytes argument")
                w = v.args[0].value
            return [self.add({"k": "Counted", "w": w})]
        if fn == "parser.get_remaining" and not v.args:
            return [self.add({"k": "Remaining"})]
        if fn == "parser.get_bytes" and len(v.args) == 1:
            a = v.args[0]
            if isinstance(a, ast.Constant) and isinstance(a.value, int):
                return [self.add({"k": "Fixed", "n": a.value})]
            if isinstance(a, ast.Attribute) and isinstance(a.value, ast.Name) and a.value.id == "cls":
                _, _, val = self.world.class_const(self.chain, a.attr)
                if isinstance(val, ast.Constant) and isinstance(val.value, int):
                    return [self.add({"k": "Fixed", "n": val.value})]
            raise Unsupported(f"{self.cdef.name}: get_bytes({u(a)})")
        if fn == "parser.get_name":
            a = [u(x) for x in v.args]
            if a == ["origin"]:
                return [self.add({"k": "Name", "rel": True})]
            if a == []:
                return [self.add({"k": "Name", "rel": False})]
            raise Unsupported(f"get_name arguments {a}")
        # helper class reader:  Bitmap.from_wire_parser(parser)
        if (isinstance(v.func, ast.Attribute) and v.func.attr == "from_wire_parser" and isinstance(v.func.value, ast.Name)
                and [u(x) for x in v.args] == ["parser"]):
            sub = translate_helper(self.world, self.mod, v.func.value.id)
            out = []
            for fl in sub["reader"]:
                fl = {k: x for k, x in fl.items() if k != "p"}
                fl["helper"] = sub["name"]
                out.append(self.add(fl))
            if len(out) != 1:
                raise Unsupported("helper reader with more than one field")
            return out
        return None

    def block(self, body):
        i = 0
        while i < len(body):
            st = body[i]
            cn = self.cdef.name
            # xs = []  followed by  while parser.remaining() > 0: ...   or   for _ in range(k): ...
            if isinstance(st, ast.Assign) and isinstance(st.value, ast.List) and not st.value.elts and isinstance(st.targets[0], ast.Name):
                self.env[st.targets[0].id] = ("empty_list",)
                i += 1
                continue
            if isinstance(st, ast.While) and u(st.test) == "parser.remaining() > 0" and not st.orelse:
                self.loop(st.body, repeat=True)
                i += 1
                continue
            if isinstance(st, ast.For) and isinstance(st.iter, ast.Call) and call_name(st.iter) == "range" and len(st.iter.args) == 1 and isinstance(st.iter.args[0], ast.Constant):
                for _ in range(st.iter.args[0].value):
                    self.loop(st.body, repeat=False)
                i += 1
                continue
            if isinstance(st, ast.Assign) and len(st.targets) == 1:
                t = st.targets[0]
                idxs = self.read_expr(st.value)
                if idxs is not None:
                    if isinstance(t, ast.Name):
                        self.env[t.id] = ("field", idxs[0]) if len(idxs) == 1 and call_name(st.value) != "parser.get_struct" else ("tuple", idxs)
                    elif isinstance(t, ast.Tuple) and all(isinstance(e, ast.Name) for e in t.elts) and len(t.elts) == len(idxs):
                        for e, k in zip(t.elts, idxs):
                            self.env[e.id] = ("field", k)
                    else:
                        raise Unsupported(f"{cn}: assignment target {u(t)}")
                    i += 1
                    continue
                raise Unsupported(f"{cn}: statement {u(st)[:80]}")
            if isinstance(st, ast.If):
                # optional tail:  if parser.remaining() > 0: x = parser.get_counted_bytes()  else: x = b""
                if (u(st.test) == "parser.remaining() > 0" and len(st.body) == 1 and len(st.orelse) == 1
                        and isinstance(st.body[0], ast.Assign) and isinstance(st.orelse[0], ast.Assign)
                        and u(st.body[0].targets[0]) == u(st.orelse[0].targets[0])
                        and u(st.body[0].value) == "parser.get_counted_bytes()" and u(st.orelse[0].value) == "b''"):
                    k = self.add({"k": "OptC8"})
                    self.env[st.body[0].targets[0].id] = ("field", k)
                    i += 1
                    continue
                # emptiness check:  if len(x) == 0: raise FormError
                if (not st.orelse and len(st.body) == 1 and isinstance(st.body[0], ast.Raise)
                        and isinstance(st.test, ast.Compare) and call_name(st.test.left) == "len" and u(st.test.comparators[0]) == "0"
                        and isinstance(st.test.ops[0], ast.Eq) and isinstance(st.test.left.args[0], ast.Name)
                        and self.env.get(st.test.left.args[0].id, ("",))[0] == "field"
                        and "FormError" in u(st.body[0])):
                    k = self.env[st.test.left.args[0].id][1]
                    self.fields[k]["min"] = 1
                    i += 1
                    continue
                raise Unsupported(f"{cn}: if {u(st.test)}")
            if isinstance(st, ast.Return):
                self.returns(st.value)
                i += 1
                continue
            raise Unsupported(f"{cn}: statement {u(st)[:80]}")

    def loop(self, body, repeat):
        """body:  v = parser.get...() ;  xs.append(v | (v, w))"""
        cn = self.cdef.name
        start = len(self.fields)
        local = {}
        target = None
        for st in body:
            if isinstance(st, ast.Assign) and len(st.targets) == 1 and isinstance(st.targets[0], ast.Name):
                idxs = self.read_expr(st.value)
                if idxs is None or len(idxs) != 1:
                    raise Unsupported(f"{cn}: loop statement {u(st)[:80]}")
                local[st.targets[0].id] = idxs[0]
                continue
            if isinstance(st, ast.Expr) and isinstance(st.value, ast.Call) and isinstance(st.value.func, ast.Attribute) and st.value.func.attr == "append":
                lst = st.value.func.value
                if not isinstance(lst, ast.Name) or lst.id not in self.env or target is not None:
                    raise Unsupported(f"{cn}: append to {u(lst)}")
                a = st.value.args[0]
                if isinstance(a, ast.Name) and a.id in local:
                    order = [local[a.id]]
                elif isinstance(a, ast.Tuple) and all(isinstance(e, ast.Name) and e.id in local for e in a.elts):
                    order = [local[e.id] for e in a.elts]
                else:
                    raise Unsupported(f"{cn}: append argument {u(a)}")
                target = (lst.id, order)
                continue
            raise Unsupported(f"{cn}: loop statement {u(st)[:80]}")
        if target is None:
            raise Unsupported(f"{cn}: loop without append")
        new = self.fields[start:]
        del self.fields[start:]
        lst, order = target
        if sorted(order) != list(range(start, start + len(new))):
            raise Unsupported(f"{cn}: loop reads values it does not append")
        if repeat:
            if self.env[lst] != ("empty_list",):
                raise Unsupported(f"{cn}: repeated append to {lst}")
            row = []
            for j, fl in enumerate(new):
                fl = dict(fl)
                fl["e"] = order.index(start + j)   # element position inside the appended tuple
                row.append(fl)
            k = self.add({"k": "Repeat", "row": row})
            self.env[lst] = ("field", k)
        else:
            # unrolled `for _ in range(k)`: plain fields collected in a list variable
            prev = self.env[lst]
            items = list(prev[1]) if prev[0] == "list" else []
            for fl in new:
                items.append(self.add(fl))
            self.env[lst] = ("list", items)

    def returns(self, v):
        cn = self.cdef.name
        if not (isinstance(v, ast.Call) and u(v.func) == "cls"):
            raise Unsupported(f"{cn}: return {u(v)[:60]}")
        args = v.args
        if self.cdef.name in HELPERS or self.chain[0][1].name in HELPERS:
            pre = []
        else:
            pre = ["rdclass", "rdtype"]
        if [u(a) for a in args[: len(pre)]] != pre or v.keywords:
            raise Unsupported(f"{cn}: cls(...) arguments")
        pos = 0
        for a in args[len(pre):]:
            idxs = None
            if isinstance(a, ast.Name) and a.id in self.env and self.env[a.id][0] == "field":
                idxs = [self.env[a.id][1]]
            elif isinstance(a, ast.Subscript) and isinstance(a.value, ast.Name) and self.env.get(a.value.id, ("",))[0] in ("tuple", "list") and isinstance(a.slice, ast.Constant):
                idxs = [self.env[a.value.id][1][a.slice.value]]
            elif isinstance(a, ast.Starred):
                if isinstance(a.value, ast.Name) and self.env.get(a.value.id, ("",))[0] == "tuple":
                    idxs = list(self.env[a.value.id][1])
                else:
                    idxs = self.read_expr(a.value)
                    if idxs is None or call_name(a.value) != "parser.get_struct":
                        raise Unsupported(f"{cn}: starred argument {u(a)}")
            if idxs is None:
                raise Unsupported(f"{cn}: constructor argument {u(a)}")
            for k in idxs:
                if "p" in self.fields[k]:
                    raise Unsupported(f"{cn}: value passed twice")
                self.fields[k]["p"] = pos
                pos += 1
        if pos != len(self.ctor.params):
            raise Unsupported(f"{cn}: cls() gets {pos} values for {len(self.ctor.params)} parameters")
        for fl in self.fields:
            if "p" not in fl:
                raise Unsupported(f"{cn}: a value read from the wire is not passed to the constructor")
        self.ret = True


# ----------------------------------------------------------------------------- finalisation

_helper_cache = {}


def translate_helper(world, mod, name):
    """Bitmap-like helper: one constructor parameter holding the rows."""
    if name not in mod.classes:
        raise Unsupported(f"helper class {name} not found in {mod.rel}")
    chain = world.chain(mod, mod.classes[name])
    root = chain[-1][1].name
    if root not in HELPERS:
        raise Unsupported(f"helper class {name} ({root}) is not a known helper")
    key = (mod.rel, name)
    if key in _helper_cache:
        return _helper_cache[key]
    ctor = HelperCtor(world, chain)
    w = Writer(world, chain, ctor)
    r = Reader(world, chain, ctor)
    res = {"name": root, "writer": w.out, "reader": r.fields, "check": CTOR_CHECKS.get(root)}
    _helper_cache[key] = res
    return res


class HelperCtor:
    """constructor of a helper: `__init__(self, windows=None)` with validation named in CTOR_CHECKS"""

    def __init__(self, world, chain):
        i, mod, cdef, f = world.find(chain, "__init__")
        if cdef.name not in CTOR_CHECKS:
            raise Unsupported(f"helper {cdef.name} has no named constructor check")
        self.params = [a.arg for a in f.args.args][1:]
        if len(self.params) != 1:
            raise Unsupported("helper constructor must take one value")
        self.attr_of = {self.params[0]: 0}
        self.info = {0: {"kind": "rows"}}
        self.check = CTOR_CHECKS[cdef.name]


def finalize(name, ctor, wfields, rfields, world, chain):
    """attach kinds/ranges from the constructor, resolve Raw, produce both sides in the final
    field language."""
    n = len(ctor.params)
    info = dict(ctor.info)
    check = ctor.check
    # constructor checks that turn into field constraints / conversions
    if check == "bitmapwrap":
        # windows parameter wrapped by the helper constructor; everything else is plain
        for i, p in enumerate(ctor.params):
            if i not in info:
                if p != "windows":
                    raise Unsupported(f"{name}: parameter {p} has no recognised conversion")
                info[i] = {"kind": "rows", "check": "bitmap"}
        check = None
    if check == "hex64":
        for i, p in enumerate(ctor.params):
            if i not in info:
                info[i] = {"kind": "hex64"}
        check = None
    for i, p in enumerate(ctor.params):
        if i not in info:
            raise Unsupported(f"{name}: constructor parameter {p} has no recognised conversion")

    def fin(fl, side, last):
        k = fl["k"]
        p = fl.get("p")
        inf = info[p] if p is not None and "e" not in fl else None
        out = {"k": k}
        if p is not None:
            out["p"] = p
        if "e" in fl:
            out["e"] = fl["e"]
        if k == "U":
            mx = UMAX[fl["w"]]
            if inf is not None:
                if inf["kind"] != "int":
                    raise Unsupported(f"{name}: integer field for non-integer parameter {ctor.params[p]}")
                mx = min(mx, inf["max"])
            out.update(w=fl["w"], max=mx)
        elif k in ("Counted", "Raw", "Remaining", "OptC8"):
            lo, hi = 0, None
            if inf is not None and side == "r" and k == "Remaining" and inf["kind"] in ("ipv4", "ipv6", "hex64"):
                # `get_remaining()` handed to a fixed-size conversion (inet_ntoa / len(x) != 8)
                return {"k": "RemN", "p": p, "n": {"ipv4": 4, "ipv6": 16, "hex64": 8}[inf["kind"]]}
            if inf is not None:
                if inf["kind"] not in ("bytes",):
                    raise Unsupported(f"{name}: octet field for parameter {ctor.params[p]} of kind {inf['kind']}")
                lo, hi = inf.get("minlen", 0), inf.get("maxlen")
            lo = max(lo, fl.get("min", 0))
            if k == "Counted":
                cap = 256 ** fl["w"] - 1
                out.update(w=fl["w"], lo=lo, hi=cap if hi is None else min(cap, hi))
                if hi is not None and hi < cap and fl["w"] == 1:
                    # a character-string may be as long as its length octet allows (RFC 1035 3.3):
                    # a narrower constructor bound refuses legal values.  The table mirrors the code,
                    # the generators keep the full width ("gen_hi") so that the oracle finds the value.
                    out["gen_hi"] = cap
                    NARROW.append(f"{name}: constructor accepts at most {hi} octets for parameter {ctor.params[p] if p is not None else '?'} although the length prefix allows {cap}")
            elif k == "OptC8":
                if lo != 0:
                    raise Unsupported(f"{name}: optional tail with non-empty constraint")
                out.update(hi=255 if hi is None else min(255, hi))
            else:
                if hi is not None and k != "Raw":
                    raise Unsupported(f"{name}: unbounded read for bounded parameter")
                if k == "Raw":
                    # raw write of an octet string: the rest of the RDATA (must be last), unless the
                    # constructor fixes its length
                    if check == "fixedlen":
                        _, _, val = world.class_const(chain, "byte_len")
                        out = {"k": "Fixed", "n": val.value, "p": p}
                    else:
                        out["k"] = "Remaining"
                        out["lo"] = lo
                else:
                    out["lo"] = lo
        elif k == "Fixed":
            conv = fl.get("conv")
            if inf is not None and inf["kind"] in ("ipv4", "ipv6", "hex64"):
                want = {"ipv4": 4, "ipv6": 16, "hex64": 8}[inf["kind"]]
                if fl["n"] != want or (conv is not None and conv != inf["kind"]):
                    raise Unsupported(f"{name}: {fl['n']}-octet field for {inf['kind']} parameter")
            elif inf is not None and inf["kind"] == "bytes" and check == "fixedlen":
                pass
            elif inf is not None:
                raise Unsupported(f"{name}: fixed field for parameter kind {inf['kind']}")
            out["n"] = fl["n"]
        elif k == "Name":
            if inf is not None and inf["kind"] != "name":
                raise Unsupported(f"{name}: name field for parameter kind {inf['kind']}")
            out["rel"] = fl.get("rel", True)
            if side == "w":
                out["compress"] = fl["compress"]
                out["canon"] = fl["canon"]
        elif k == "Repeat":
            row = [fin(r, side, False) for r in sorted(fl["row"], key=lambda r: r["e"])] if False else [fin(r, side, False) for r in fl["row"]]
            out["row"] = row
            out["min1"] = False
            if inf is not None:
                kind = inf["kind"]
                if kind == "bytes_list":
                    if not (len(row) == 1 and row[0]["k"] == "Counted"):
                        raise Unsupported(f"{name}: list of strings is not a list of counted strings")
                    row[0]["lo"] = max(row[0]["lo"], inf.get("minlen", 0))
                    if inf.get("maxlen") is not None:
                        cap = 256 ** row[0]["w"] - 1
                        if inf["maxlen"] < cap and row[0]["w"] == 1:
                            row[0]["gen_hi"] = cap
                            NARROW.append(f"{name}: constructor accepts at most {inf['maxlen']} octets per string although the length prefix allows {cap}")
                        row[0]["hi"] = min(row[0]["hi"], inf["maxlen"])
                elif kind == "name_list":
                    if not (len(row) == 1 and row[0]["k"] == "Name"):
                        raise Unsupported(f"{name}: list of names")
                elif kind == "rows":
                    if fl.get("helper") != "Bitmap" or [r["k"] for r in row] != ["U", "Counted"]:
                        raise Unsupported(f"{name}: unknown row structure")
                    # Bitmap.__init__: 1..32 octets per window; ascending order is the record check
                    row[1]["lo"], row[1]["hi"] = 1, 32
                    out["asc"] = True
                else:
                    raise Unsupported(f"{name}: repeat for parameter kind {kind}")
        else:
            raise Unsupported(f"{name}: field kind {k}")
        return out

    w = [fin(f, "w", i == len(wfields) - 1) for i, f in enumerate(wfields)]
    r = [fin(f, "r", i == len(rfields) - 1) for i, f in enumerate(rfields)]
    if check == "nonempty":
        # TXT-like: at least one string; URI: reader checks it itself ("min"), writer side gets the
        # same bound from the constructor
        for side in (w, r):
            for fl in side:
                if fl["k"] == "Repeat":
                    fl["min1"] = True
                if fl["k"] == "Remaining":
                    fl["lo"] = max(fl.get("lo", 0), 1)
        check = None
    if check == "fixedlen":
        check = None
    rec_check = {"id": check or "none"}
    if check == "ds":
        _, _, val = world.class_const(chain, "_digest_length_by_type")
        rec_check["table"] = eval_ds_table(world, chain, val)
    kinds = [info[i]["kind"] for i in range(n)]
    return w, r, kinds, rec_check


def eval_ds_table(world, chain, val):
    """{1: 20, ...}  or  {**Base._digest_length_by_type, 0: 1}"""
    out = {}
    if not isinstance(val, ast.Dict):
        raise Unsupported("digest length table is not a dict literal")
    for k, v in zip(val.keys, val.values):
        if k is None:
            # ** of the base class table
            for m, c in chain:
                if u(v).endswith(c.name + "._digest_length_by_type"):
                    _, _, bv = world.class_const([(m, c)], "_digest_length_by_type")
                    out.update(eval_ds_table(world, [(m, c)], bv))
                    break
            else:
                raise Unsupported(f"cannot resolve {u(v)}")
        else:
            if not (isinstance(k, ast.Constant) and isinstance(v, ast.Constant)):
                raise Unsupported("digest length table entries must be literals")
            out[k.value] = v.value
    return out


RDCLASS = {"ANY": 255, "IN": 1, "CH": 3}


def translate(repo):
    _helper_cache.clear()
    del NARROW[:]
    world = World(repo)
    types = []
    errors = []
    for rel, mod in sorted(world.mods.items()):
        if "/" not in rel:
            continue  # base modules are reached through inheritance
        sub, tname = rel.split("/")
        if tname not in mod.classes:
            errors.append(f"{rel}: no class {tname}")
            continue
        pyname = tname.replace("_", "-")
        if pyname not in world.rdatatypes and tname not in world.rdatatypes:
            errors.append(f"{rel}: {tname} is not a member of dns.rdatatype.RdataType")
            continue
        rdtype = world.rdatatypes.get(tname, world.rdatatypes.get(pyname))
        ent = {"name": tname, "module": rel, "rdclass": RDCLASS[sub], "rdtype": rdtype}
        try:
            chain = world.chain(mod, mod.classes[tname])
            ent["chain"] = [c.name for _, c in chain]
            hand = next((HAND[c.name] for _, c in chain if c.name in HAND), None)
            if hand is not None:
                ent["kind"] = "hand"
                ent["hand"] = hand
                # still record the constructor parameters (used by harness/records.py)
                _, _, _, f = world.find(chain, "__init__")
                ent["params"] = [a.arg for a in f.args.args][3:]
            else:
                ctor = Ctor(world, chain)
                w = Writer(world, chain, ctor)
                r = Reader(world, chain, ctor)
                wf, rf, kinds, chk = finalize(tname, ctor, w.out, r.fields, world, chain)
                ent.update(kind="schema", params=ctor.params, pkinds=kinds, writer=wf, reader=rf, check=chk,
                           attrs={a: p for a, p in ctor.attr_of.items()})
        except Unsupported as e:
            ent["kind"] = "error"
            ent["error"] = str(e)
            errors.append(f"{rel}: {e}")
        types.append(ent)
    errors += sorted(set(NARROW))
    stray = compress_sites(world)
    for rel, cname, src in stray:
        errors.append(f"{rel}: class {cname} hands the compression table to a name write ({src}); RFC 3597 section 4 allows that only for {sorted(MAY_COMPRESS)}")
    name_compress = []
    for t in types:
        if t["kind"] == "schema":
            def any_compress(fs):
                return any((f["k"] == "Name" and f.get("compress")) or (f["k"] == "Repeat" and any_compress(f["row"])) for f in fs)
            c = any_compress(t["writer"])
            name_compress.append([t["rdclass"], t["rdtype"], c])
            if c and t["name"] not in MAY_COMPRESS:
                errors.append(f"{t['module']}: compresses an embedded name although the type is not one of {sorted(MAY_COMPRESS)} (RFC 3597 section 4)")
    return {"ok": not errors, "errors": errors, "types": types, "repo": repo, "name_compress": name_compress, "stray_compress_sites": stray,
            "rdatatype_members": sorted(set(world.rdatatypes.values()))}


# ----------------------------------------------------------------------------- Coq output


def coq_sfld(fl):
    k = fl["k"]
    if k == "U":
        return f"FU {fl['w']} {fl['max']}"
    if k == "Fixed":
        return f"FFixed {fl['n']}"
    if k == "Counted":
        return f"FCounted {fl['w']} {fl['lo']} {fl['hi']}"
    if k == "Name":
        return f"FName {'true' if fl['rel'] else 'false'}"
    raise ValueError(k)


def coq_fld(fl):
    k = fl["k"]
    if k in ("U", "Fixed", "Counted", "Name"):
        return f"FS ({coq_sfld(fl)})"
    if k == "Remaining":
        return f"FRemaining {fl.get('lo', 0)}"
    if k == "RemN":
        return f"FRemN {fl['n']}"
    if k == "OptC8":
        return f"FOptC8 {fl['hi']}"
    if k == "Repeat":
        # row fields are emitted in WIRE order; the tuple position `e` goes into the slot
        row = "; ".join(coq_sfld(r) for r in fl["row"])
        return f"FRepeat {'true' if fl['min1'] else 'false'} {'true' if fl.get('asc') else 'false'} [{row}]"
    raise ValueError(k)


def coq_side(fields):
    """[(field, slot)]: slot = constructor parameter index; for rows the tuple positions of the
    row elements are folded in (p*1000 + digits) so that a permutation inside a row is a mismatch"""
    out = []
    for fl in fields:
        slot = fl["p"]
        if fl["k"] == "Repeat":
            slot = slot * 1000 + sum((r["e"] + 1) * 10 ** j for j, r in enumerate(fl["row"]))
        out.append(f"({coq_fld(fl)}, {slot})")
    return "[" + "; ".join(out) + "]"


def coq_check(chk):
    if chk["id"] == "none":
        return "CkNone"
    if chk["id"] == "ds":
        tbl = "; ".join(f"({k}, {v})" for k, v in sorted(chk["table"].items()))
        return f"CkDS [{tbl}]"
    if chk["id"] == "caa":
        return "CkCAA"
    if chk["id"] == "zonemd":
        return "CkZONEMD"
    if chk["id"] == "gpos":
        return "CkGPOS"
    raise ValueError(chk)


def emit_coq(tr, modname="GenRdtypes"):
    lines = [
        "(* GENERATED by tools/translate_rdtypes.py from %s - do not edit *)" % tr["repo"],
        "From DV Require Import Base.Prelude Model.NameM Model.SchemaM.",
        "Open Scope Z_scope.",
        "Definition table : list entry := [",
    ]
    ents = []
    for t in tr["types"]:
        if t["kind"] == "schema":
            ents.append(
                f"  (* {t['module']} *) mk_entry {t['rdclass']} {t['rdtype']}\n"
                f"    {coq_side(t['writer'])}\n    {coq_side(t['reader'])}\n    ({coq_check(t['check'])})"
            )
        elif t["kind"] == "hand" and t["hand"]:
            ents.append(f"  (* {t['module']} *) mk_hand {t['rdclass']} {t['rdtype']} H_none")
    lines.append(";\n".join(ents))
    lines.append("].")
    return "\n".join(lines) + "\n"


if __name__ == "__main__":
    repo = sys.argv[1] if len(sys.argv) > 1 else os.environ.get("VERIF_REPO", "/repo")
    tr = translate(repo)
    if "--snapshot" in sys.argv:
        out = os.path.join(os.path.dirname(os.path.dirname(os.path.abspath(__file__))), "meta", "C02.schema_snapshot.json")
        json.dump({"types": tr["types"]}, open(out, "w"), indent=0, sort_keys=True)
        print("wrote", out)
    elif "--coq" in sys.argv:
        print(emit_coq(tr))
    else:
        json.dump(tr, sys.stdout, indent=1)
    sys.exit(0 if tr["ok"] else 1)
