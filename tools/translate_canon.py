#!/usr/bin/env python3
"""Fail-closed reader of dns/rdtypes/** for property C15.

For every rdata class under dns/rdtypes/{ANY,IN,CH} it finds the effective `_to_wire` method
(following single inheritance through dns/rdtypes/*base.py) and extracts every call that writes an
embedded domain name:

    <name>.to_wire(file, <compress>, origin, <canonicalize>)

recording, for the Rdata.to_digestable path (to_wire(origin=origin, canonicalize=True), compress
left at None), whether the compress argument is None and whether the canonicalize flag reaches the
call.  The result is emitted as the Coq table `GenCanon.table : list DnssecM.entry`, over which
`canon_flags_match_rfc4034` is proved by vm_compute on every run.

Only a closed set of idioms is understood; anything else raises Unsupported and the check reports a
broken obligation (never a silently wrong table).

usage: translate_canon.py <repo> <out.v>      (also importable: translate(repo) -> (entries, info))
"""
from __future__ import annotations

import ast
import os
import sys

CLASS_DIRS = {"ANY": 255, "IN": 1, "CH": 3}

# receivers of a `.to_wire(...)` call inside a _to_wire body that are not domain names
NON_NAME_RECEIVERS = {
    ("dns/rdtypes/IN/APL.py", "item"),          # APLItem.to_wire(file)
    ("dns/rdtypes/ANY/OPT.py", "opt"),          # EDNS option
    ("dns/rdtypes/svcbbase.py", "value"),       # SVCB Param.to_wire(file, origin)
}
# helper classes whose to_wire writes a name held in this attribute
HELPER_NAME_ATTRS = {("dns/rdtypes/util.py", "Gateway"): {"gateway"}}


class Unsupported(Exception):
    pass


def _src(node):
    try:
        return ast.unparse(node)
    except Exception:  # pragma: no cover
        return "<?>"


class Module:
    def __init__(self, repo, rel):
        self.rel = rel
        self.path = os.path.join(repo, rel)
        self.tree = ast.parse(open(self.path, encoding="utf-8").read(), self.path)
        self.classes = {n.name: n for n in self.tree.body if isinstance(n, ast.ClassDef)}
        self.imports = {}  # local name -> dotted
        for n in self.tree.body:
            if isinstance(n, ast.ImportFrom) and n.module:
                for a in n.names:
                    self.imports[a.asname or a.name] = n.module + "." + a.name
            elif isinstance(n, ast.Import):
                for a in n.names:
                    if a.asname:
                        self.imports[a.asname] = a.name


class Repo:
    def __init__(self, repo):
        self.repo = repo
        self.mods = {}

    def mod(self, rel):
        if rel not in self.mods:
            if not os.path.exists(os.path.join(self.repo, rel)):
                raise Unsupported(f"module {rel} not found")
            self.mods[rel] = Module(self.repo, rel)
        return self.mods[rel]

    def resolve_base(self, m: Module, expr):
        """-> (module rel, class name) or ('dns/rdata.py','Rdata') ...; None for `object`-like"""
        if isinstance(expr, ast.Attribute):
            dotted = _src(expr)
        elif isinstance(expr, ast.Name):
            if expr.id in m.classes:
                return (m.rel, expr.id)
            dotted = m.imports.get(expr.id)
            if dotted is None:
                raise Unsupported(f"{m.rel}: cannot resolve base class {expr.id}")
        else:
            raise Unsupported(f"{m.rel}: base class expression {_src(expr)}")
        parts = dotted.split(".")
        if parts[0] != "dns":
            raise Unsupported(f"{m.rel}: base class {dotted} outside dns")
        rel = "/".join(parts[:-1]) + ".py"
        return (rel, parts[-1])

    def chain(self, rel, cname):
        """the class and its ancestors up to (excluding) dns.rdata.Rdata / a helper root"""
        out = []
        seen = set()
        while True:
            if (rel, cname) in seen:
                raise Unsupported("inheritance cycle")
            seen.add((rel, cname))
            if (rel, cname) == ("dns/rdata.py", "Rdata"):
                return out, True
            m = self.mod(rel)
            if cname not in m.classes:
                raise Unsupported(f"{rel}: class {cname} not found")
            c = m.classes[cname]
            out.append((m, c))
            if len(c.bases) == 0:
                return out, False
            if len(c.bases) != 1:
                raise Unsupported(f"{rel}: class {cname} has {len(c.bases)} bases")
            rel, cname = self.resolve_base(m, c.bases[0])


def method(c: ast.ClassDef, name):
    for n in c.body:
        if isinstance(n, ast.FunctionDef) and n.name == name:
            return n
    return None


def name_attrs(chain):
    """attributes assigned from self._as_name(...) (single) or self._as_tuple(x, self._as_name) (many)"""
    single, many = set(), set()
    for m, c in chain:
        init = method(c, "__init__")
        if init is None:
            continue
        for n in ast.walk(init):
            tgt = None
            val = None
            if isinstance(n, ast.Assign) and len(n.targets) == 1:
                tgt, val = n.targets[0], n.value
            elif isinstance(n, ast.AnnAssign) and n.value is not None:
                tgt, val = n.target, n.value
            if tgt is None or not (isinstance(tgt, ast.Attribute) and isinstance(tgt.value, ast.Name) and tgt.value.id == "self"):
                continue
            s = _src(val)
            if s.startswith("self._as_name("):
                single.add(tgt.attr)
            elif s.startswith("self._as_tuple(") and "self._as_name" in s:
                many.add(tgt.attr)
            elif "_as_name" in s:
                raise Unsupported(f"{m.rel}: unrecognised name attribute initialisation {s}")
    return single, many


def check_params(m, fn, want):
    got = [a.arg for a in fn.args.args]
    if got != want:
        raise Unsupported(f"{m.rel}: {fn.name} parameters {got}, expected {want}")


class Analysis:
    """symbolic evaluation of one _to_wire / helper to_wire body"""

    def __init__(self, repo: Repo, used=None):
        self.repo = repo
        self.used = set() if used is None else used

    def to_wire_calls(self, m: Module, chain, fn, single, many, helper_attrs=()):
        """-> list of (loop: bool, compress: 'none'|'param', canon: 'false'|'true'|'param')"""
        check_params(m, fn, ["self", "file", "compress", "origin", "canonicalize"])
        calls = []
        accounted = set()  # id() of Name nodes for compress/canonicalize that are consumed by recognised calls

        def arg_kinds(call, what):
            args = list(call.args)
            kw = {k.arg: k.value for k in call.keywords}
            if None in kw:
                raise Unsupported(f"{m.rel}: **kwargs in {what}")
            names = ["file", "compress", "origin", "canonicalize"]
            if len(args) > 4:
                raise Unsupported(f"{m.rel}: too many arguments in {what}")
            vals = {}
            for i, a in enumerate(args):
                vals[names[i]] = a
            for k, v in kw.items():
                if k not in names or k in vals:
                    raise Unsupported(f"{m.rel}: argument {k} in {what}")
                vals[k] = v
            f = vals.get("file")
            if not (isinstance(f, ast.Name) and f.id == "file"):
                raise Unsupported(f"{m.rel}: first argument of {what} is not `file`")
            o = vals.get("origin")
            if not (isinstance(o, ast.Name) and o.id == "origin"):
                raise Unsupported(f"{m.rel}: origin argument of {what} is {_src(o) if o else 'missing'}")
            c = vals.get("compress")
            if c is None or (isinstance(c, ast.Constant) and c.value is None):
                ck = "none"
            elif isinstance(c, ast.Name) and c.id == "compress":
                ck = "param"
                accounted.add(id(c))
            else:
                raise Unsupported(f"{m.rel}: compress argument {_src(c)} in {what}")
            z = vals.get("canonicalize")
            if z is None or (isinstance(z, ast.Constant) and z.value is False):
                zk = "false"
            elif isinstance(z, ast.Constant) and z.value is True:
                zk = "true"
            elif isinstance(z, ast.Name) and z.id == "canonicalize":
                zk = "param"
                accounted.add(id(z))
            else:
                raise Unsupported(f"{m.rel}: canonicalize argument {_src(z)} in {what}")
            return ck, zk

        def subst(inner, ck, zk):
            out = []
            for loop, c2, z2 in inner:
                out.append((loop, ck if c2 == "param" else c2, zk if z2 == "param" else z2))
            return out

        def visit(stmts, loopvars):
            for st in stmts:
                if isinstance(st, ast.For):
                    lv = dict(loopvars)
                    it = st.iter
                    if isinstance(st.target, ast.Name) and isinstance(it, ast.Attribute) and isinstance(it.value, ast.Name) \
                            and it.value.id == "self" and it.attr in many:
                        lv[st.target.id] = it.attr
                    scan_expr(st.iter, loopvars, False)
                    visit(st.body, lv)
                    visit(st.orelse, lv)
                elif isinstance(st, (ast.If, ast.While)):
                    scan_expr(st.test, loopvars, bool(loopvars))
                    visit(st.body, loopvars)
                    visit(st.orelse, loopvars)
                elif isinstance(st, ast.With):
                    for it in st.items:
                        scan_expr(it.context_expr, loopvars, bool(loopvars))
                    visit(st.body, loopvars)
                elif isinstance(st, (ast.Expr, ast.Assign, ast.AugAssign, ast.AnnAssign, ast.Assert, ast.Return, ast.Raise)):
                    for ch in ast.iter_child_nodes(st):
                        scan_expr(ch, loopvars, bool(loopvars))
                elif isinstance(st, ast.Pass):
                    pass
                else:
                    raise Unsupported(f"{m.rel}: statement {type(st).__name__} in {fn.name}")

        def scan_expr(e, loopvars, inloop):
            if e is None:
                return
            for n in ast.walk(e):
                if isinstance(n, (ast.Lambda, ast.ListComp, ast.GeneratorExp, ast.SetComp, ast.DictComp)):
                    for sub in ast.walk(n):
                        if isinstance(sub, ast.Attribute) and sub.attr in ("to_wire", "_to_wire", "to_digestable"):
                            raise Unsupported(f"{m.rel}: to_wire inside a comprehension/lambda")
                if not isinstance(n, ast.Call) or not isinstance(n.func, ast.Attribute):
                    continue
                attr = n.func.attr
                recv = n.func.value
                if attr in ("to_digestable", "canonicalize", "lower", "upper", "to_text", "to_unicode") and attr != "to_text":
                    raise Unsupported(f"{m.rel}: call of .{attr}() inside {fn.name}")
                if attr not in ("to_wire", "_to_wire"):
                    continue
                what = _src(n)
                # super()._to_wire(...)
                if isinstance(recv, ast.Call) and isinstance(recv.func, ast.Name) and recv.func.id == "super":
                    if attr != "_to_wire":
                        raise Unsupported(f"{m.rel}: {what}")
                    ck, zk = arg_kinds(n, what)
                    inner = self.effective(chain[1:], single, many) if len(chain) > 1 else None
                    if inner is None:
                        raise Unsupported(f"{m.rel}: super()._to_wire without an implementing ancestor")
                    calls.extend(subst(inner, ck, zk))
                    continue
                # self.<attr>.to_wire(...)
                if isinstance(recv, ast.Attribute) and isinstance(recv.value, ast.Name) and recv.value.id == "self" and attr == "to_wire":
                    if recv.attr in single or recv.attr in helper_attrs:
                        ck, zk = arg_kinds(n, what)
                        calls.append((inloop, ck, zk))
                        used.add(recv.attr)
                        continue
                    raise Unsupported(f"{m.rel}: receiver self.{recv.attr} of {what} is not a known name attribute")
                # <loopvar>.to_wire(...) over a tuple of names
                if isinstance(recv, ast.Name) and recv.id in loopvars and attr == "to_wire":
                    ck, zk = arg_kinds(n, what)
                    calls.append((True, ck, zk))
                    used.add(loopvars[recv.id])
                    continue
                # Helper(...).to_wire(file, compress, origin, canonicalize)
                if isinstance(recv, ast.Call) and isinstance(recv.func, ast.Name) and attr == "to_wire":
                    hname = recv.func.id
                    if hname == "Bitmap":
                        if len(n.args) != 1 or n.keywords or not (isinstance(n.args[0], ast.Name) and n.args[0].id == "file"):
                            raise Unsupported(f"{m.rel}: {what}")
                        continue
                    hrel, hcls = self.resolve_helper(m, hname)
                    hchain, _ = self.repo.chain(hrel, hcls)
                    root_m, root_c = hchain[-1]
                    attrs = HELPER_NAME_ATTRS.get((root_m.rel, root_c.name))
                    if attrs is None:
                        raise Unsupported(f"{m.rel}: unknown helper {hname} in {what}")
                    hfn = None
                    for hm, hc in hchain:
                        hfn = method(hc, "to_wire")
                        if hfn is not None:
                            hmod = hm
                            break
                    if hfn is None:
                        raise Unsupported(f"{m.rel}: helper {hname} has no to_wire")
                    ck, zk = arg_kinds(n, what)
                    inner = Analysis(self.repo).to_wire_calls(hmod, hchain, hfn, set(), set(), helper_attrs=attrs)  # helper's own attributes
                    calls.extend(subst(inner, ck, zk))
                    continue
                if isinstance(recv, ast.Name) and (m.rel, recv.id) in NON_NAME_RECEIVERS:
                    continue
                raise Unsupported(f"{m.rel}: unrecognised to_wire call {what}")

        used = self.used
        visit(fn.body, {})
        # every use of the compress / canonicalize parameters must be inside a recognised call
        for n in ast.walk(fn):
            if isinstance(n, ast.Name) and n.id in ("compress", "canonicalize") and id(n) not in accounted:
                if isinstance(n.ctx, ast.Load):
                    raise Unsupported(f"{m.rel}: parameter `{n.id}` used outside a recognised to_wire call in {fn.name}")
        return calls

    def resolve_helper(self, m, hname):
        if hname in m.classes:
            return (m.rel, hname)
        dotted = m.imports.get(hname)
        if dotted is None:
            raise Unsupported(f"{m.rel}: helper {hname} not resolvable")
        parts = dotted.split(".")
        return ("/".join(parts[:-1]) + ".py", parts[-1])

    def effective(self, chain, single, many):
        """calls of the first class in `chain` that defines _to_wire"""
        for i, (m, c) in enumerate(chain):
            fn = method(c, "_to_wire")
            if fn is not None:
                return Analysis(self.repo, self.used).to_wire_calls(m, chain[i:], fn, single, many)
        return None


def rdatatype_numbers(repo):
    path = os.path.join(repo, "dns/rdatatype.py")
    tree = ast.parse(open(path, encoding="utf-8").read(), path)
    for n in tree.body:
        if isinstance(n, ast.ClassDef) and n.name == "RdataType":
            out = {}
            for st in n.body:
                if isinstance(st, ast.Assign) and len(st.targets) == 1 and isinstance(st.targets[0], ast.Name) \
                        and isinstance(st.value, ast.Constant) and isinstance(st.value.value, int):
                    out[st.targets[0].id] = st.value.value
            if len(out) < 50:
                raise Unsupported("dns/rdatatype.py: RdataType enumeration not recognised")
            return out
    raise Unsupported("dns/rdatatype.py: class RdataType not found")


def check_digest_path(repo: Repo):
    """Rdata.to_digestable == to_wire(origin=origin, canonicalize=True); Rdata.to_wire passes its
    own compress (default None) / origin / canonicalize to _to_wire."""
    m = repo.mod("dns/rdata.py")
    rd = m.classes.get("Rdata")
    if rd is None:
        raise Unsupported("dns/rdata.py: class Rdata not found")
    td = method(rd, "to_digestable")
    tw = method(rd, "to_wire")
    if td is None or tw is None:
        raise Unsupported("dns/rdata.py: Rdata.to_digestable/to_wire not found")
    calls = [n for n in ast.walk(td) if isinstance(n, ast.Call)]
    tw_calls = [n for n in calls if isinstance(n.func, ast.Attribute) and n.func.attr == "to_wire"]
    if len(calls) != 1 or len(tw_calls) != 1:
        raise Unsupported("dns/rdata.py: Rdata.to_digestable is not a single to_wire call")
    c = tw_calls[0]
    kw = {k.arg: _src(k.value) for k in c.keywords}
    if c.args or kw != {"origin": "origin", "canonicalize": "True"} or _src(c.func.value) != "self":
        raise Unsupported(f"dns/rdata.py: Rdata.to_digestable calls {_src(c)}")
    rets = [n for n in ast.walk(td) if isinstance(n, ast.Return)]
    if len(rets) != 1 or _src(rets[0].value) != "wire":
        raise Unsupported("dns/rdata.py: Rdata.to_digestable does not return the wire unchanged")
    args = [a.arg for a in tw.args.args]
    defaults = [_src(d) for d in tw.args.defaults]
    if args != ["self", "file", "compress", "origin", "canonicalize"] or defaults != ["None", "None", "None", "False"]:
        raise Unsupported(f"dns/rdata.py: Rdata.to_wire signature {args} {defaults}")
    inner = [n for n in ast.walk(tw) if isinstance(n, ast.Call) and isinstance(n.func, ast.Attribute) and n.func.attr == "_to_wire"]
    if not inner:
        raise Unsupported("dns/rdata.py: Rdata.to_wire does not call _to_wire")
    for c in inner:
        a = [_src(x) for x in c.args]
        if len(a) != 4 or a[1:] != ["compress", "origin", "canonicalize"] or c.keywords:
            raise Unsupported(f"dns/rdata.py: Rdata.to_wire calls {_src(c)}")
    for n in ast.walk(tw):
        if isinstance(n, (ast.Assign, ast.AugAssign)) and any(
            isinstance(t, ast.Name) and t.id in ("compress", "origin", "canonicalize") for t in ast.walk(n) if isinstance(t, ast.Name) and isinstance(t.ctx, ast.Store)
        ):
            raise Unsupported("dns/rdata.py: Rdata.to_wire reassigns a parameter")
    # Name.to_digestable = to_wire(origin=origin, canonicalize=True)
    nm = repo.mod("dns/name.py")
    ncls = nm.classes.get("Name")
    ntd = method(ncls, "to_digestable") if ncls else None
    if ntd is None:
        raise Unsupported("dns/name.py: Name.to_digestable not found")
    ncalls = [n for n in ast.walk(ntd) if isinstance(n, ast.Call)]
    if len(ncalls) != 1 or _src(ncalls[0]) != "self.to_wire(origin=origin, canonicalize=True)":
        raise Unsupported("dns/name.py: Name.to_digestable is not to_wire(origin=origin, canonicalize=True)")


def translate(repo_path):
    repo = Repo(repo_path)
    check_digest_path(repo)
    numbers = rdatatype_numbers(repo_path)
    entries = []
    info = {"classes": 0, "with_names": 0, "types": []}
    for d, clsval in sorted(CLASS_DIRS.items()):
        base = os.path.join(repo_path, "dns/rdtypes", d)
        if not os.path.isdir(base):
            raise Unsupported(f"dns/rdtypes/{d} missing")
        for f in sorted(os.listdir(base)):
            if not f.endswith(".py") or f == "__init__.py":
                continue
            stem = f[:-3]
            rel = f"dns/rdtypes/{d}/{f}"
            m = repo.mod(rel)
            if stem not in m.classes:
                raise Unsupported(f"{rel}: class {stem} not found")
            tname = stem
            if tname not in numbers:
                raise Unsupported(f"{rel}: no RdataType number for {tname}")
            chain, is_rdata = repo.chain(rel, stem)
            if not is_rdata:
                raise Unsupported(f"{rel}: {stem} does not derive from dns.rdata.Rdata")
            for mm, cc in chain:
                for bad in ("to_digestable", "to_wire"):
                    if method(cc, bad) is not None:
                        raise Unsupported(f"{mm.rel}: class {cc.name} overrides {bad}")
            single, many = name_attrs(chain)
            a = Analysis(repo)
            calls = a.effective(chain, single, many)
            if calls is None:
                raise Unsupported(f"{rel}: no _to_wire implementation found")
            missing = (single | many) - a.used
            if missing:
                raise Unsupported(f"{rel}: name attribute(s) {sorted(missing)} are not written by a recognised to_wire call")
            info["classes"] += 1
            if not calls:
                continue
            straight = [c for c in calls if not c[0]]
            loops = [c for c in calls if c[0]]
            if len(loops) > 1 or (loops and calls[-1] is not loops[0]):
                raise Unsupported(f"{rel}: name writes inside a loop are not last / not unique")
            info["with_names"] += 1
            info["types"].append(f"{d}/{stem}")

            def conv(c):
                _, ck, zk = c
                # to_digestable path: compress parameter is None, canonicalize parameter is True
                return (ck in ("none", "param"), zk in ("true", "param"), ck, zk)

            entries.append({
                "class": clsval, "type": numbers[tname], "name": f"{d}/{stem}",
                "calls": [conv(c) for c in straight], "loop": conv(loops[0]) if loops else None,
            })
    return entries, info


def coq_bool(b):
    return "true" if b else "false"


def coq_call(c):
    return "{| c_none := %s; c_canon := %s |}" % (coq_bool(c[0]), coq_bool(c[1]))


def emit(entries, repo_path, with_semantics=True):
    lines = [
        f"(* generated by tools/translate_canon.py from {repo_path}/dns/rdtypes - do not edit *)",
        "From DV Require Import Base.Prelude Model.NameM Model.DnssecM.",
    ]
    if with_semantics:
        lines.append("From DV Require Import Proofs.DnssecCanon.")
    lines += ["Open Scope Z_scope.", "", "Definition table : list entry := ["]
    body = []
    for e in entries:
        body.append(
            "  (* %s *) {| e_class := %d; e_type := %d; e_calls := [%s]; e_loop := %s |}"
            % (e["name"], e["class"], e["type"], "; ".join(coq_call(c) for c in e["calls"]),
               ("Some " + coq_call(e["loop"])) if e["loop"] else "None")
        )
    lines.append(";\n".join(body))
    lines += [
        "].",
        "",
        "(* every embedded name is written uncompressed on the to_digestable path, and is lower-cased",
        "   exactly when the type is listed in RFC 4034 6.2 (minus NSEC, RFC 6840 5.1) *)",
        "Theorem canon_flags_match_rfc4034 : forallb flag_ok table = true.",
        "Proof. vm_compute. reflexivity. Qed.",
        "Print Assumptions canon_flags_match_rfc4034.",
        "",
    ]
    if with_semantics:
        lines += [
            "(* hence Rdata.to_digestable (model, driven by this table) is the RFC 4034 6.2 canonical RDATA *)",
            "Theorem canonical_rdata_eq_rfc4034 : forall cls ty fs origin,",
            "  arity_ok table cls ty fs = true ->",
            "  digestable table cls ty fs origin = rfc4034_canonical_rdata ty fs origin.",
            "Proof. exact (digestable_eq_rfc table canon_flags_match_rfc4034). Qed.",
            "Print Assumptions canonical_rdata_eq_rfc4034.",
            "",
        ]
    lines += ["Definition run : obs -> obs := run_with table.", ""]
    return "\n".join(lines)


def main(argv):
    repo = argv[1] if len(argv) > 1 else "/repo"
    out = argv[2] if len(argv) > 2 else None
    try:
        entries, info = translate(repo)
    except Unsupported as e:
        print("UNSUPPORTED:", e)
        return 3
    text = emit(entries, repo, with_semantics=os.path.exists(os.path.join(os.path.dirname(os.path.abspath(__file__)), "..", "coq", "Proofs", "DnssecCanon.v")))
    if out:
        with open(out, "w") as f:
            f.write(text)
    else:
        print(text)
    print(f"(* {info['classes']} classes scanned, {info['with_names']} with embedded names *)", file=sys.stderr)
    return 0


if __name__ == "__main__":
    sys.exit(main(sys.argv))
