#!/usr/bin/env python3
"""Run the pinned test-suite command of /root/.vp/BASELINE.json on /repo's working tree and report
which of its stable_pass tests do not pass.  usage: tools/suite_check.py [repo-dir]"""
import json
import os
import subprocess
import sys
import tempfile
import xml.etree.ElementTree as ET

repo = sys.argv[1] if len(sys.argv) > 1 else "/repo"
base = json.load(open("/root/.vp/BASELINE.json"))
fd, out = tempfile.mkstemp(suffix=".junit.xml")
os.close(fd)
cmd = base["cmd"].replace("<file>", out).replace("cd /repo", "cd " + repo)
env = dict(os.environ)
env.pop("DNSPYTHON_VERIF", None)
env.pop("PYTHONPATH", None)
p = subprocess.run(cmd, shell=True, stdout=subprocess.PIPE, stderr=subprocess.STDOUT, text=True, env=env)
print(p.stdout.strip().split("\n")[-1])
passed = set()
for tc in ET.parse(out).getroot().iter("testcase"):
    if not any(c.tag in ("failure", "error", "skipped") for c in tc):
        passed.add(tc.get("classname") + "::" + tc.get("name"))
os.unlink(out)
want = set(base["stable_pass"])
missing = sorted(want - passed)
print(f"stable_pass {len(want)}; passing now {len(want & passed)}; not passing: {missing}")
sys.exit(1 if missing else 0)
