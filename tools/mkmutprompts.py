#!/usr/bin/env python3
"""tools/mkmutprompts.py <wave> [n_changes]  - create the scratch worktrees /tmp/mut<wave>-Cxx of /repo HEAD and the
briefs /tmp/mutprompts/Cxx-w<wave>.txt for the independent authors of seeded changes (they see only the property
text and their worktree; nothing of /verif).  Results are confirmed and stored by tools/verify_seed.sh."""
import glob
import json
import os
import subprocess
import sys

wave = int(sys.argv[1])
nch = int(sys.argv[2]) if len(sys.argv) > 2 else 2
os.makedirs("/tmp/mutprompts", exist_ok=True)
for l in open("/verif/properties.jsonl"):
    p = json.loads(l)
    pid = p["id"]
    wt = f"/tmp/mut{wave}-{pid}"
    if not os.path.exists(wt):
        subprocess.run(["git", "-C", "/repo", "worktree", "add", "--detach", wt, "HEAD"], check=True, capture_output=True)
    os.makedirs(f"{wt}-out", exist_ok=True)
    prev = []
    for d in sorted(glob.glob(f"/verif/seeded/{pid}-*")):
        m = json.load(open(d + "/meta.json"))
        prev.append(f"- {m.get('summary', '')} (files: {m.get('files')})")
    ks = ", ".join(str(i + 1) for i in range(nch))
    count = {1: "ONE", 2: "TWO different, independent,"}[nch]
    txt = f"""You are testing how well a verification effort can detect regressions in the Python library dnspython (rthalley/dnspython). You work ONLY inside your own scratch git worktree {wt} (a checkout of the library; package in {wt}/dns, tests in {wt}/tests) and your output directory {wt}-out. Do NOT read or touch /verif or /repo or any other /tmp/mut* directory: your work must be independent of the verification machinery. There is no network.

Here is one semantic property the library is supposed to satisfy (JSON record):

{json.dumps(p, indent=1)}

Your job: produce {count} realistic code change{'s' if nch > 1 else ''} to the library (a small patch, like a plausible bug introduced by a refactoring, an off-by-one, a dropped case, a swapped branch, a lost lock/COW step, a narrowed except, a wrong constant...) which BREAKS this property while the library still imports and the existing test-suite still passes exactly as before. Prefer changes that need something specific to manifest - a particular interleaving, a crash or fault at a particular point, a multi-step sequence of operations, an unusual input, or two cooperating sites that each look fine alone - NOT ones that ordinary use would expose at once.{' The changes must use different mechanisms in different functions (ideally different files among the anchors).' if nch > 1 else ''}

Earlier rounds already produced the following changes for this property; yours must be DIFFERENT in mechanism and location from all of them. Look systematically for what they have NOT touched: other public entry points named in observe_at, other clauses of the statement, rarely used option combinations and argument forms, boundary values of numeric fields, helper modules the anchored code calls, state kept between calls on one object, behaviour that differs between the sync/async or plain/versioned/B-tree variants of the same feature, error paths, and interactions with neighbouring features (EDNS, TSIG, origin/relativize, class != IN):
{chr(10).join(prev)}

For each change k in ({ks}):
 1. Make the edit in {wt}. Run the existing suite: `cd {wt} && PYTHONPATH={wt} /venv/bin/python -m pytest -q -p no:cacheprovider --timeout=900 --continue-on-collection-errors 2>&1 | tail -5` (takes ~90 s, more when the machine is busy). On the pristine tree the result is `2 failed, 1234 passed, 200 skipped` (the two failures are tests/test_name.py testFromUnicodeIDNA2008 and testToUnicode5, pre-existing); with your change the result must be identical. If a test notices your change, pick a different change (do not edit tests).
 2. Write a demonstration `{wt}-out/demo{{k}}.py`: a small standalone program (run as `PYTHONPATH=<tree> /venv/bin/python demo{{k}}.py`) that exits 0 and prints PASS on the pristine tree and exits 1 printing FAIL with the change applied, by exhibiting the property violation through the public API (for schedule-dependent changes make the demo deterministic, e.g. by driving threads with events or by patching the lock/clock). Verify both directions yourself (`git -C {wt} diff > patch; git -C {wt} checkout -- .`; do not use git stash).
 3. Save `git -C {wt} diff > {wt}-out/patch{{k}}.diff` and `{wt}-out/meta{{k}}.json` = {{"property": "{pid}", "summary": one sentence, "mechanism": what was changed and why it breaks the property, "needs": what is needed for it to manifest, "files": [...], "suite_result": the pytest summary line with the change, "demo_pristine": "PASS", "demo_mutated": "FAIL"}}. Then `git -C {wt} checkout -- .`.

`cryptography` is not installed (DNSSEC signing/validation with keys is unavailable). Use `/venv/bin/python` (3.12). Never run python with cwd = the dns/ package directory itself. You have at most 25 minutes: keep it simple. Finish by leaving the worktree clean (`git -C {wt} status --short` empty) and reply with a short description of the change{'s' if nch > 1 else ''} and the exact commands you ran to verify.
"""
    open(f"/tmp/mutprompts/{pid}-w{wave}.txt", "w").write(txt)
print(sorted(os.listdir("/tmp/mutprompts")))
