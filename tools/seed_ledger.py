#!/usr/bin/env python3
"""Run every stored seeded change against the quick check of its property (tools/try_seed.sh, scratch
worktree + VERIF_REPO) and write seeded/RESULTS.json + seeded/RESULTS.md.
usage: tools/seed_ledger.py [-j N] [seed ids...]
With LEDGER_OUT=<name> the results go to seeded/<name>.json/.md instead (used for the second pass with another
VERIF_SEED, which shows which verdicts depend on the random stream)."""
import concurrent.futures
import json
import os
import re
import subprocess
import sys

V = os.path.dirname(os.path.dirname(os.path.abspath(__file__)))
# verdict of the check as it stood when the change first arrived (from the integrator's logs)
FIRST = {
    "C06-2": "missed", "C11-1": "missed", "C11-2": "missed", "C05-1": "missed", "C05-2": "missed",
    "C08-1": "missed", "C03-1": "missed by C03 (later caught by C08)", "C13-2": "missed",
    "C09-1": "no-failing-input-found", "C01-3": "missed", "C04-4": "missed", "C08-4": "missed",
    "C09-4": "missed", "C08-3": "no-failing-input-found", "C09-3": "no-failing-input-found",
    "C19-3": "no-failing-input-found",
    "C10-2": "caught marginally at first, missed by a later version of the generators",
    "C01-5": "missed", "C01-6": "missed by C01 (caught by C08)", "C05-6": "missed", "C06-6": "missed",
    "C09-6": "missed", "C11-5": "missed", "C15-6": "missed", "C18-6": "missed", "C19-5": "missed",
    "C03-6": "no-failing-input-found", "C18-5": "no-failing-input-found",
    "C03-8": "missed", "C09-8": "missed", "C12-8": "missed", "C14-7": "missed", "C15-8": "missed",
    "C16-7": "missed by C16 (caught by C18)",
    "C01-7": "no-failing-input-found", "C01-8": "missed", "C08-7": "missed", "C13-8": "missed", "C19-8": "missed",
    "C02-10": "missed", "C03-10": "missed", "C04-10": "missed", "C06-10": "missed", "C08-10": "missed",
    "C09-9": "missed", "C10-9": "missed by C10 (caught by C19)", "C11-10": "missed", "C12-10": "missed", "C14-10": "missed",
    "C01-11": "no-failing-input-found", "C01-12": "no-failing-input-found", "C03-11": "no-failing-input-found",
    "C08-11": "missed", "C09-12": "missed", "C11-11": "missed", "C12-11": "missed", "C12-12": "missed", "C14-12": "missed",
    "C12-3": "caught through two random histories at first, missed by a later version of the generators (found by the final ledger pass)",
    "C13-12": "caught with VERIF_SEED=1 through two random cases only, missed with VERIF_SEED=7 (found by the second ledger pass)",
    "C16-12": "missed",
    "C05-13": "missed", "C11-13": "missed", "C14-13": "missed", "C20-13": "missed", "C06-13": "no-failing-input-found", "C18-11": "missed", "C20-11": "missed by C20 (same edit as C11-5; caught by C19 and C11)",
}
ALSO = {"C03-1": "C08", "C13-2": "C11", "C01-6": "C08", "C16-7": "C18", "C03-8": "C01", "C10-9": "C19", "C03-11": "C08", "C20-11": "C19"}


def run(seed, prop=None):
    cmd = [os.path.join(V, "tools", "try_seed.sh"), seed] + ([prop] if prop else [])
    p = subprocess.run(cmd, stdout=subprocess.PIPE, stderr=subprocess.STDOUT, text=True)
    out = p.stdout.strip().split("\n")[-1]
    if "patch does not apply" in out:
        return {"verdict": "patch no longer applies to HEAD", "line": out}
    m = re.search(r"rc=(\d+) :: (\d+) violation lines", out)
    rc = int(m.group(1)) if m else -1
    nfi = "no-failing-input-found" in out
    mm = re.search(r"correspondence (\d+) \((\d+) differ\), oracle failures (\d+)", out)
    by = ""
    if mm:
        parts = []
        if int(mm.group(3)) > 0:
            parts.append(f"oracle ({mm.group(3)} failing inputs)")
        if int(mm.group(2)) > 0:
            parts.append(f"correspondence ({mm.group(2)} of {mm.group(1)} differ)")
        t = re.search(r"theorems (\d+)/(\d+)", out)
        if t and t.group(1) != t.group(2):
            parts.append(f"obligations ({t.group(1)}/{t.group(2)})")
        by = " + ".join(parts)
    if rc == 1 and not nfi:
        v = "caught, concrete replay"
    elif rc == 1:
        v = "caught, no-failing-input-found"
    elif rc == 0:
        v = "MISSED"
    else:
        v = f"check error rc={rc}"
    return {"verdict": v, "by": by, "line": out[-300:]}


def main():
    args = sys.argv[1:]
    j = 4
    if args[:1] == ["-j"]:
        j = int(args[1])
        args = args[2:]
    seeds = args or sorted(d for d in os.listdir(os.path.join(V, "seeded")) if os.path.isdir(os.path.join(V, "seeded", d)))
    name = os.environ.get("LEDGER_OUT", "RESULTS")
    path = os.path.join(V, "seeded", name + ".json")
    res = json.load(open(path)) if os.path.exists(path) else {}
    with concurrent.futures.ThreadPoolExecutor(max_workers=j) as ex:
        futs = {s: ex.submit(run, s) for s in seeds}
        for s, f in futs.items():
            r = f.result()
            r["first"] = FIRST.get(s, "caught")
            res[s] = r
            print(s, r["verdict"], "|", r.get("by", ""), flush=True)
        for s, prop in ALSO.items():
            if s in seeds:
                r = run(s, prop)
                res[s]["also"] = {prop: r["verdict"]}
                if res[s]["verdict"] == "MISSED" and r["verdict"].startswith("caught"):
                    res[s]["verdict"] = f"caught by the {prop} check, concrete replay" if "concrete" in r["verdict"] else f"caught by the {prop} check"
                    res[s]["by"] = r.get("by", "")
                print(s, "on", prop, r["verdict"], flush=True)
    json.dump(res, open(path, "w"), indent=1, sort_keys=True)
    with open(os.path.join(V, "seeded", name + ".md"), "w") as f:
        f.write("# Seeded changes: verdict of `./check <property> --tier quick` with the change applied"
                f" (VERIF_SEED={os.environ.get('VERIF_SEED', '1')})\n\n")
        f.write("| seed | first run | final | caught by |\n|---|---|---|---|\n")
        for s in sorted(res):
            f.write(f"| {s} | {res[s].get('first')} | {res[s]['verdict']} | {res[s].get('by', '')} |\n")
    missed = [s for s in res if res[s]["verdict"] == "MISSED"]
    print("missed:", missed)


if __name__ == "__main__":
    main()
