#!/usr/bin/env python3
"""Validate MANIFEST.json and every evidence file against the schemas (run with python3-vt)."""
import json, sys, os, glob
import jsonschema
V = os.path.dirname(os.path.dirname(os.path.abspath(__file__)))
ok = True
man = json.load(open(os.path.join(V, "MANIFEST.json")))
jsonschema.validate(man, json.load(open("/root/.vp/MANIFEST.schema.json")))
es = json.load(open("/root/.vp/EVIDENCE.schema.json"))
for c in man["checks"]:
    p = c["evidence_file"]
    if not os.path.exists(p):
        print("MISSING", p); ok = False; continue
    try:
        e = json.load(open(p)); jsonschema.validate(e, es)
        cov = e["coverage"]
        if e["level"] == "proof" and cov.get("obligations") != cov.get("discharged"):
            print("UNDISCHARGED", p, cov.get("obligations"), cov.get("discharged")); ok = False
    except Exception as ex:
        print("INVALID", p, str(ex)[:300]); ok = False
ids = {json.loads(l)["id"] for l in open(os.path.join(V, "properties.jsonl"))}
claimed = {c["property_id"] for c in man["checks"]} | {n["property_id"] for n in man.get("not_applicable", [])}
if ids != claimed:
    print("UNACCOUNTED", sorted(ids ^ claimed)); ok = False
print("ok" if ok else "PROBLEMS")
sys.exit(0 if ok else 1)
