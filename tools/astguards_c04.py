#!/usr/bin/env python3
"""Fail-closed AST guards for property C04 (run on every check, on the tree under $VERIF_REPO).

Theorem `wrap_closes` (coq/Props/C04.v) says that dns.exception.ExceptionWrapper lets nothing
but the wrapper's own exception class escape, for an ARBITRARY inner per-type parser.  What ties
that theorem to the ~90 per-type parsers of dns/rdtypes/** is structural and is read here from the
source:

  wrapper-shape      ExceptionWrapper.__exit__ is exactly: anything in flight that is not an
                     instance of exception_class (the test is on every BaseException, there is no
                     `except` clause to narrow) is re-raised as exception_class(str(exc_val))
  wire-wrapped       in dns/rdata.py every cls.from_wire_parser(...) call sits inside
                     `with dns.exception.ExceptionWrapper(dns.exception.FormError)`
  text-wrapped       in dns/rdata.py every cls.from_text / GenericRdata.from_text / from_wire call
                     of from_text() sits inside `with ...ExceptionWrapper(dns.exception.SyntaxError)`
  wire-call-sites    outside dns/rdtypes/** nobody calls <something>.from_wire_parser except the
                     known sites (message reader -> dns.rdata.from_wire_parser (wrapped),
                     dns.wire -> dns.name.from_wire_parser, dns.edns option dispatch, rdata.py)
  reader-handlers    _WireReader._get_section / read: `except Exception as e` with the
                     continue_on_error bookkeeping (add_error; seek(rdata_start + rdlen)) else raise;
                     from_wire: `except dns.exception.FormError` -> Truncated only when asked
  zonefile-handlers  Reader._rr_line/_generate_line: rdata errors become SyntaxError; the grange /
                     ttl / class / type conversions of $GENERATE are guarded; Reader.read re-raises
                     SyntaxError with file:line
  parser-bounds      dns/wirebase.py Parser.get_bytes / seek / restrict_to contain the bounds tests
                     the model mirrors (compared structurally)
  rdtypes-api        dns/rdtypes/** and dns/edns.py use the parser only through its reading methods
                     (the `api_disciplined` hypothesis of the reader theorems)

Every guard compares `ast.dump` of the relevant nodes with the dump of the expected snippet; any
other shape fails (a semantics-preserving rewrite has to be re-validated by a human).
"""
from __future__ import annotations

import ast
import os
import sys
import textwrap


def _parse(repo, rel):
    with open(os.path.join(repo, rel), encoding="utf-8") as f:
        return ast.parse(f.read())


def _dump(node):
    if isinstance(node, list):
        return "[" + ", ".join(_dump(n) for n in node) + "]"
    return ast.dump(node, annotate_fields=True, include_attributes=False)


def _snippet(src):
    return ast.parse(textwrap.dedent(src)).body


def _find_class(tree, name):
    for n in ast.walk(tree):
        if isinstance(n, ast.ClassDef) and n.name == name:
            return n
    raise LookupError(f"class {name} not found")


def _find_func(node, name):
    for n in ast.walk(node):
        if isinstance(n, (ast.FunctionDef, ast.AsyncFunctionDef)) and n.name == name:
            return n
    raise LookupError(f"function {name} not found")


def _strip_doc(body):
    if body and isinstance(body[0], ast.Expr) and isinstance(body[0].value, ast.Constant) and isinstance(body[0].value.value, str):
        return body[1:]
    return body


def _is_wrapper_with(node, cls_name):
    """`with dns.exception.ExceptionWrapper(dns.exception.<cls_name>):`"""
    if not isinstance(node, ast.With) or len(node.items) != 1:
        return False
    ce = node.items[0].context_expr
    want = _snippet(f"dns.exception.ExceptionWrapper(dns.exception.{cls_name})")[0].value
    return _dump(ce) == _dump(want)


def _calls_with_parents(func):
    """yield (call, [ancestors]) for every Call inside func"""
    out = []

    def walk(node, anc):
        for ch in ast.iter_child_nodes(node):
            if isinstance(ch, ast.Call):
                out.append((ch, anc + [node]))
            walk(ch, anc + [node])

    walk(func, [])
    return out


# ------------------------------------------------------------------------------ guards


def g_wrapper_shape(repo):
    tree = _parse(repo, "dns/exception.py")
    cls = _find_class(tree, "ExceptionWrapper")
    if [b.id if isinstance(b, ast.Name) else "?" for b in cls.bases] != []:
        return False, "ExceptionWrapper has base classes"
    names = [n.name for n in cls.body if isinstance(n, ast.FunctionDef)]
    if names != ["__init__", "__enter__", "__exit__"]:
        return False, f"unexpected methods {names}"
    want_exit = _snippet(
        """
        if exc_type is not None and not isinstance(exc_val, self.exception_class):
            raise self.exception_class(str(exc_val)) from exc_val
        return False
        """
    )
    ex = _find_func(cls, "__exit__")
    if [a.arg for a in ex.args.args] != ["self", "exc_type", "exc_val", "exc_tb"]:
        return False, "__exit__ signature changed"
    if _dump(_strip_doc(ex.body)) != _dump(want_exit):
        return False, "__exit__ body differs from: convert every non-instance of exception_class"
    want_init = _snippet("self.exception_class = exception_class")
    if _dump(_strip_doc(_find_func(cls, "__init__").body)) != _dump(want_init):
        return False, "__init__ body changed"
    want_enter = _snippet("return self")
    if _dump(_strip_doc(_find_func(cls, "__enter__").body)) != _dump(want_enter):
        return False, "__enter__ body changed"
    return True, "converts every in-flight exception (BaseException included) that is not an instance of the wrapper's class"


def _receiver(call):
    f = call.func
    if isinstance(f, ast.Attribute):
        try:
            return ast.unparse(f.value), f.attr
        except Exception:  # noqa
            return "?", f.attr
    if isinstance(f, ast.Name):
        return "", f.id
    return "?", "?"


def g_wire_wrapped(repo):
    tree = _parse(repo, "dns/rdata.py")
    fn = None
    for n in tree.body:
        if isinstance(n, ast.FunctionDef) and n.name == "from_wire_parser":
            fn = n
    if fn is None:
        return False, "module function from_wire_parser not found"
    hits = 0
    for call, anc in _calls_with_parents(fn):
        recv, attr = _receiver(call)
        if attr == "from_wire_parser":
            if not any(_is_wrapper_with(a, "FormError") for a in anc):
                return False, f"{recv}.from_wire_parser called outside ExceptionWrapper(FormError) at line {call.lineno}"
            hits += 1
    if hits != 1:
        return False, f"expected exactly one cls.from_wire_parser call, found {hits}"
    # from_wire: Parser + restrict_to + from_wire_parser
    fw = [n for n in tree.body if isinstance(n, ast.FunctionDef) and n.name == "from_wire"]
    if len(fw) != 1:
        return False, "from_wire not found"
    want = _snippet(
        """
        parser = dns.wire.Parser(wire, current)
        with parser.restrict_to(rdlen):
            return from_wire_parser(rdclass, rdtype, parser, origin)
        """
    )
    if _dump(_strip_doc(fw[0].body)) != _dump(want):
        return False, "dns.rdata.from_wire body changed"
    return True, "cls.from_wire_parser only under ExceptionWrapper(FormError); from_wire = Parser + restrict_to(rdlen)"


def g_text_wrapped(repo):
    tree = _parse(repo, "dns/rdata.py")
    fn = [n for n in tree.body if isinstance(n, ast.FunctionDef) and n.name == "from_text"]
    if len(fn) != 1:
        return False, "module function from_text not found"
    fn = fn[0]
    hits = 0
    for call, anc in _calls_with_parents(fn):
        recv, attr = _receiver(call)
        inner = (attr == "from_text" and recv in ("cls", "GenericRdata")) or (recv == "" and attr in ("from_wire", "from_wire_parser")) \
            or attr in ("to_wire", "get_eol_as_token", "get", "unget")
        if inner:
            if not any(_is_wrapper_with(a, "SyntaxError") for a in anc):
                return False, f"{recv}.{attr} called outside ExceptionWrapper(SyntaxError) at line {call.lineno}"
            if attr == "from_text":
                hits += 1
    if hits < 2:
        return False, f"expected cls.from_text and GenericRdata.from_text under the wrapper, found {hits}"
    # what runs before the wrapper may only raise the documented ValueError / library errors
    pre = []
    for st in _strip_doc(fn.body):
        if _is_wrapper_with(st, "SyntaxError"):
            break
        pre.append(st)
    else:
        return False, "no top-level ExceptionWrapper(SyntaxError) block"
    if st is not _strip_doc(fn.body)[-1]:
        return False, "statements after the wrapper block"
    return True, "per-type from_text, the generic form, the tokenizer calls and the end-of-line check all run under ExceptionWrapper(SyntaxError)"


ALLOWED_WIRE_SITES = {
    ("dns/message.py", "dns.rdata"),
    ("dns/wire.py", "dns.name"),
    ("dns/edns.py", "cls"),
    ("dns/rdata.py", "cls"),
    ("dns/rdata.py", ""),
    ("dns/name.py", ""),
}


def g_wire_call_sites(repo):
    bad = []
    seen = set()
    for root, _, files in os.walk(os.path.join(repo, "dns")):
        for f in files:
            if not f.endswith(".py"):
                continue
            rel = os.path.relpath(os.path.join(root, f), repo)
            if rel.startswith("dns/rdtypes/"):
                continue
            try:
                tree = _parse(repo, rel)
            except SyntaxError as e:
                return False, f"{rel}: {e}"
            for n in ast.walk(tree):
                if isinstance(n, ast.Call):
                    recv, attr = _receiver(n)
                    if attr == "from_wire_parser":
                        seen.add((rel, recv))
                        if (rel, recv) not in ALLOWED_WIRE_SITES:
                            bad.append(f"{rel}:{n.lineno} {recv}.from_wire_parser")
    if bad:
        return False, "unknown from_wire_parser call sites: " + "; ".join(bad)
    need = {("dns/message.py", "dns.rdata"), ("dns/rdata.py", "cls")}
    if not need <= seen:
        return False, "expected call sites missing: " + repr(need - seen)
    # the OPT rdata reaches the option classes through dns.edns.option_from_wire_parser only
    return True, f"{len(seen)} known call sites outside dns/rdtypes"


def g_reader_handlers(repo):
    tree = _parse(repo, "dns/message.py")
    cls = _find_class(tree, "_WireReader")
    gs = _find_func(cls, "_get_section")
    tries = [n for n in ast.walk(gs) if isinstance(n, ast.Try)]
    if len(tries) != 1:
        return False, f"_get_section: expected one try, found {len(tries)}"
    t = tries[0]
    want_h = _snippet(
        """
        try:
            pass
        except Exception as e:
            if self.continue_on_error:
                self._add_error(e)
                self.parser.seek(rdata_start + rdlen)
            else:
                raise
        """
    )[0].handlers
    if _dump(t.handlers) != _dump(want_h) or t.finalbody or t.orelse:
        return False, "_get_section: handler differs from `except Exception as e: record + seek(rdata_start + rdlen) / raise`"
    # the rdata parse is inside that try, under restrict_to(rdlen)
    ok = False
    for call, anc in _calls_with_parents(t):
        recv, attr = _receiver(call)
        if recv == "dns.rdata" and attr == "from_wire_parser":
            w = [a for a in anc if isinstance(a, ast.With)]
            want_ce = _snippet("self.parser.restrict_to(rdlen)")[0].value
            if any(len(a.items) == 1 and _dump(a.items[0].context_expr) == _dump(want_ce) for a in w):
                ok = True
    if not ok:
        return False, "_get_section: dns.rdata.from_wire_parser is not called under `with self.parser.restrict_to(rdlen)` inside the try"
    rd = _find_func(cls, "read")
    tries = [n for n in ast.walk(rd) if isinstance(n, ast.Try)]
    if len(tries) != 1:
        return False, "read: expected one try"
    want_h = _snippet(
        """
        try:
            pass
        except Exception as e:
            if self.continue_on_error:
                self._add_error(e)
            else:
                raise
        """
    )[0].handlers
    if _dump(tries[0].handlers) != _dump(want_h) or tries[0].finalbody or tries[0].orelse:
        return False, "read: handler differs from `except Exception as e: record / raise`"
    first = _strip_doc(rd.body)[0]
    want_first = _snippet(
        """
        if self.parser.remaining() < 12:
            raise ShortHeader
        """
    )[0]
    if _dump(first) != _dump(want_first):
        return False, "read: the ShortHeader test is not the first statement"
    ae = _find_func(cls, "_add_error")
    if _dump(_strip_doc(ae.body)) != _dump(_snippet("self.errors.append(MessageError(e, self.parser.current))")):
        return False, "_add_error changed"
    fw = [n for n in tree.body if isinstance(n, ast.FunctionDef) and n.name == "from_wire"][0]
    tries = [n for n in ast.walk(fw) if isinstance(n, ast.Try)]
    want_try = _snippet(
        """
        try:
            m = reader.read()
        except dns.exception.FormError:
            if (
                reader.message
                and (reader.message.flags & dns.flags.TC)
                and raise_on_truncation
            ):
                raise Truncated(message=reader.message)
            else:
                raise
        """
    )
    if len(tries) != 1 or _dump(tries[0]) != _dump(want_try[0]):
        return False, "from_wire: the FormError -> Truncated handler changed"
    return True, "continue_on_error: every exception after the header is recorded with parser.current, rdata failures resume at rdata_start + rdlen"


def g_zonefile_handlers(repo):
    tree = _parse(repo, "dns/zonefile.py")
    cls = _find_class(tree, "Reader")
    want_h = _snippet(
        """
        try:
            pass
        except dns.exception.SyntaxError:
            raise
        except Exception:
            ty, va = sys.exc_info()[:2]
            raise dns.exception.SyntaxError(f"caught exception {str(ty)}: {str(va)}")
        """
    )[0].handlers
    for fname in ("_rr_line", "_generate_line"):
        fn = _find_func(cls, fname)
        found = False
        for t in [n for n in ast.walk(fn) if isinstance(n, ast.Try)]:
            calls = [_receiver(c) for c, _ in _calls_with_parents(ast.Module(body=t.body, type_ignores=[]))]
            if ("dns.rdata", "from_text") in calls:
                if _dump(t.handlers) != _dump(want_h):
                    return False, f"{fname}: handlers around dns.rdata.from_text changed"
                found = True
        if not found:
            return False, f"{fname}: dns.rdata.from_text is not inside a try"
        # no dns.rdata.from_text outside a try
        for call, anc in _calls_with_parents(fn):
            if _receiver(call) == ("dns.rdata", "from_text") and not any(isinstance(a, ast.Try) for a in anc):
                return False, f"{fname}: unguarded dns.rdata.from_text"
    gl = _find_func(cls, "_generate_line")
    for call, anc in _calls_with_parents(gl):
        if _receiver(call) in (("dns.grange", "from_text"), ("dns.rdatatype", "from_text"), ("dns.rdataclass", "from_text"), ("dns.ttl", "from_text")):
            tr = [a for a in anc if isinstance(a, ast.Try)]
            if not tr:
                return False, f"_generate_line: {ast.unparse(call.func)} outside try"
            hs = tr[-1].handlers
            last = hs[-1]
            recv = _receiver(call)
            if recv == ("dns.ttl", "from_text"):
                if not (len(hs) == 1 and ast.unparse(hs[0].type) == "dns.ttl.BadTTL"):
                    return False, "_generate_line: ttl handler changed"
            else:
                if not (last.type is not None and ast.unparse(last.type) == "Exception"):
                    return False, f"_generate_line: {ast.unparse(call.func)} is not guarded by `except Exception`"
    rd = _find_func(cls, "read")
    t = [n for n in rd.body if isinstance(n, ast.Try)]
    if len(t) != 1:
        return False, "read: expected one top-level try"
    want = _snippet(
        """
        try:
            pass
        except dns.exception.SyntaxError as detail:
            filename, line_number = self.tok.where()
            if detail is None:
                detail = "syntax error"
            ex = dns.exception.SyntaxError(f"{filename}:{line_number}: {detail}")
            tb = sys.exc_info()[2]
            raise ex.with_traceback(tb) from None
        """
    )[0].handlers
    if _dump(t[0].handlers) != _dump(want):
        return False, "read: the SyntaxError handler that adds file:line changed"
    # the directive test must not index the token value
    for n in ast.walk(rd):
        if isinstance(n, ast.Subscript) and ast.unparse(n.value) == "token.value":
            return False, "read: token.value[...] indexing (IndexError on an empty quoted token)"
    return True, "rdata / $GENERATE conversion errors become SyntaxError; Reader.read adds file:line"


def g_parser_bounds(repo):
    tree = _parse(repo, "dns/wirebase.py")
    cls = _find_class(tree, "Parser")
    want = {
        "remaining": "return self.end - self.current",
        "get_bytes": """
            assert size >= 0
            if size > self.remaining():
                raise dns.exception.FormError
            output = self.wire[self.current : self.current + size]
            self.current += size
            self.furthest = max(self.furthest, self.current)
            return output
            """,
        "get_counted_bytes": """
            length = int.from_bytes(self.get_bytes(length_size), "big")
            return self.get_bytes(length)
            """,
        "get_remaining": "return self.get_bytes(self.remaining())",
        "get_uint8": 'return struct.unpack("!B", self.get_bytes(1))[0]',
        "get_uint16": 'return struct.unpack("!H", self.get_bytes(2))[0]',
        "get_uint32": 'return struct.unpack("!I", self.get_bytes(4))[0]',
        "get_uint48": 'return int.from_bytes(self.get_bytes(6), "big")',
        "get_struct": "return struct.unpack(format, self.get_bytes(struct.calcsize(format)))",
        "seek": """
            if where < 0 or where > self.end:
                raise dns.exception.FormError
            self.current = where
            """,
        "restrict_to": """
            assert size >= 0
            if size > self.remaining():
                raise dns.exception.FormError
            saved_end = self.end
            try:
                self.end = self.current + size
                yield
                if self.current != self.end:
                    raise dns.exception.FormError
            finally:
                self.end = saved_end
            """,
        "restore_furthest": """
            try:
                yield None
            finally:
                self.current = self.furthest
            """,
        "__init__": """
            self.wire = wire
            self.current = 0
            self.end = len(self.wire)
            if current:
                self.seek(current)
            self.furthest = current
            """,
    }
    names = [n.name for n in cls.body if isinstance(n, ast.FunctionDef)]
    if sorted(names) != sorted(want):
        return False, f"Parser methods changed: {sorted(set(names) ^ set(want))}"
    for name, src in want.items():
        fn = _find_func(cls, name)
        if _dump(_strip_doc(fn.body)) != _dump(_snippet(src)):
            return False, f"Parser.{name} differs from the modelled body"
    for name in ("restrict_to", "restore_furthest"):
        fn = _find_func(cls, name)
        if [ast.unparse(d) for d in fn.decorator_list] != ["contextlib.contextmanager"]:
            return False, f"Parser.{name} is not a contextmanager"
    return True, "dns/wirebase.py Parser is statement-for-statement the modelled one"


def g_rdtypes_api(repo):
    """hypothesis `api_disciplined` of the reader theorems: a per-type parser touches the Parser only
    through its reading methods - no seek / restore_furthest, no assignment to current/end/furthest"""
    bad = []
    nfiles = 0
    roots = [os.path.join(repo, "dns", "rdtypes")]
    files = [os.path.join(repo, "dns", "edns.py")]
    for root in roots:
        for r, _, fs in os.walk(root):
            files += [os.path.join(r, f) for f in fs if f.endswith(".py")]
    allowed_methods = {"get_bytes", "get_counted_bytes", "get_remaining", "get_uint8", "get_uint16", "get_uint32", "get_uint48",
                       "get_struct", "get_name", "remaining", "restrict_to"}
    for path in sorted(files):
        rel = os.path.relpath(path, repo)
        tree = _parse(repo, rel)
        nfiles += 1
        for n in ast.walk(tree):
            if isinstance(n, ast.Attribute) and n.attr in ("seek", "restore_furthest"):
                bad.append(f"{rel}:{n.lineno} .{n.attr}")
            if isinstance(n, (ast.Assign, ast.AugAssign, ast.AnnAssign)):
                targets = n.targets if isinstance(n, ast.Assign) else [n.target]
                for t in targets:
                    if isinstance(t, ast.Attribute) and t.attr in ("current", "end", "furthest") and isinstance(t.value, ast.Name) \
                            and t.value.id in ("parser", "p"):
                        bad.append(f"{rel}:{n.lineno} assignment to parser.{t.attr}")
            if isinstance(n, ast.Call) and isinstance(n.func, ast.Attribute) and isinstance(n.func.value, ast.Name) \
                    and n.func.value.id == "parser" and n.func.attr not in allowed_methods:
                bad.append(f"{rel}:{n.lineno} parser.{n.func.attr}(...)")
    if bad:
        return False, "per-type parsers step outside the Parser API: " + "; ".join(bad[:6])
    return True, f"{nfiles} modules use only the reading methods of the parser"


GUARDS = [
    ("wrapper-shape", g_wrapper_shape),
    ("wire-wrapped", g_wire_wrapped),
    ("text-wrapped", g_text_wrapped),
    ("wire-call-sites", g_wire_call_sites),
    ("reader-handlers", g_reader_handlers),
    ("zonefile-handlers", g_zonefile_handlers),
    ("parser-bounds", g_parser_bounds),
    ("rdtypes-api", g_rdtypes_api),
]


def run(repo):
    out = []
    for name, fn in GUARDS:
        try:
            ok, detail = fn(repo)
        except Exception as e:  # fail closed
            ok, detail = False, f"guard could not read the source: {type(e).__name__}: {e}"
        out.append({"name": name, "ok": bool(ok), "detail": detail})
    return out


if __name__ == "__main__":
    repo = sys.argv[1] if len(sys.argv) > 1 else os.environ.get("VERIF_REPO", "/repo")
    res = run(repo)
    for r in res:
        print(("ok   " if r["ok"] else "FAIL ") + r["name"] + ": " + r["detail"])
    sys.exit(0 if all(r["ok"] for r in res) else 1)
