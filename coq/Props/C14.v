(* C14 - TSIG MACs follow RFC 8945; genuine messages verify, altered ones never do.

   Model: coq/Model/TsigM.v (dns/tsig.py, the TSIG rdata codec, the TSIG path of dns/message.py).
   Specification: coq/Proofs/TsigSpec.v (RFC 8945 4.3 / 5.3.1, written independently).
   Every theorem is quantified over the keyed hash  H : hashid -> key -> octets -> digest;
   nothing is assumed about H. *)
From DV Require Import Base.Prelude.
From DV Require Model.NameM.
From DV Require Import Model.TsigM Proofs.TsigSpec Proofs.TsigLemmas Proofs.TsigInj Proofs.TsigReader Proofs.TsigStream Proofs.TsigSender Proofs.TsigTamper Proofs.TsigCodec Proofs.TsigWire Proofs.TsigInjNames Proofs.TsigRender.
From DV Require Import Proofs.NameValid.
Open Scope Z_scope.

(* ---- the octets fed to the MAC are the RFC 8945 input ---- *)

(* request (request_mac empty), response / first envelope bound to a request MAC *)
Theorem digest_is_rfc :
  forall wire k rd time rmac ctx multi c,
    (ctx = None \/ multi = false) ->
    digest wire k rd time rmac ctx multi = Ok c ->
    c_data c = rfc8945_input (omac rmac) (t_oid rd) wire (vars_of k rd (time_of rd time))
    /\ c_key c = ksecret k
    /\ assoc_name hashes (kalg k) = Some (c_hash c, c_size c).
Proof. exact digest_first_is_rfc. Qed.
Print Assumptions digest_is_rfc.

(* subsequent envelope of a multi-message exchange: running context ++ message ++ timers *)
Theorem digest_is_rfc_subsequent :
  forall wire k rd time rmac c0 c,
    digest wire k rd time rmac (Some c0) true = Ok c ->
    c_data c = c_data c0 ++ rfc_dns_message (t_oid rd) wire
               ++ rfc_tsig_timers (time_of rd time) (t_fudge rd)
    /\ c_key c = c_key c0 /\ c_hash c = c_hash c0 /\ c_size c = c_size c0.
Proof. exact digest_subsequent_is_rfc. Qed.
Print Assumptions digest_is_rfc_subsequent.

(* the MAC sign() puts into the record *)
Theorem sign_mac_is_rfc8945 :
  forall H wire k rd t rmac ctx multi rd' c',
    (ctx = None \/ multi = false) ->
    sign H wire k rd (Some t) rmac ctx multi = Ok (rd', c') ->
    exists h sz,
      assoc_name hashes (kalg k) = Some (h, sz)
      /\ t_mac rd' = rfc_truncate (trunc_of sz)
           (H h (ksecret k) (rfc8945_input (omac rmac) (t_oid rd) wire (vars_of k rd t)))
      /\ t_time rd' = t /\ t_alg rd' = t_alg rd /\ t_fudge rd' = t_fudge rd
      /\ t_oid rd' = t_oid rd /\ t_error rd' = t_error rd /\ t_other rd' = t_other rd.
Proof. exact sign_mac_is_rfc. Qed.
Print Assumptions sign_mac_is_rfc8945.

(* ... and for a subsequent envelope, with the context handed to the next one *)
Theorem sign_mac_is_rfc8945_subsequent :
  forall H wire k rd t rmac c0 rd' c',
    sign H wire k rd (Some t) rmac (Some c0) true = Ok (rd', c') ->
    t_mac rd' = rfc_truncate (trunc_of (c_size c0))
        (H (c_hash c0) (c_key c0)
           (c_data c0 ++ rfc_dns_message (t_oid rd) wire ++ rfc_tsig_timers t (t_fudge rd)))
    /\ exists c1, c' = Some c1 /\ c_data c1 = rfc_request_mac (t_mac rd') /\ c_key c1 = ksecret k
                  /\ assoc_name hashes (kalg k) = Some (c_hash c1, c_size c1).
Proof. exact sign_mac_subsequent. Qed.
Print Assumptions sign_mac_is_rfc8945_subsequent.

(* ---- genuine messages verify ---- *)
Theorem sign_then_validate :
  forall H wire k rd t rmac ctx multi rd' c' wire' start adcount now,
    sign H wire k rd (Some t) rmac ctx multi = Ok (rd', c') ->
    get_adcount wire' = Ok adcount -> adcount <> 0 ->
    strip_tsig wire' adcount start = wire ->
    t_error rd = 0 ->
    NameM.name_eqb (kalg k) (t_alg rd) = true ->
    rfc_time_ok now t (t_fudge rd) ->
    validate H wire' k (kname k) rd' now rmac start ctx multi = Ok c'.
Proof. exact sign_then_validate_lemma. Qed.
Print Assumptions sign_then_validate.

(* the TSIG rdata codec: decoding what _to_wire wrote, anywhere inside a message, gives the
   record back and consumes exactly its octets *)
Theorem tsig_rdata_wire_roundtrip :
  forall t rdw (pre post : bytes),
    tsig_ok t -> tsig_to_wire t = Ok rdw ->
    tsig_from_wire (pre ++ rdw ++ post) (length pre + length rdw) (length pre) = Ok t.
Proof. exact tsig_codec_roundtrip. Qed.
Print Assumptions tsig_rdata_wire_roundtrip.

(* wire level: when the reader arrives at the TSIG RR that Message.to_wire / Renderer.add_tsig
   appended, it reads back the same owner and rdata and validate accepts, for every H; the
   resulting context is the one the signer handed on *)
Theorem signed_rr_reads_back_validated :
  forall H wire k rd now rmac ctx multi out rd' c' now2 count st,
    sign_message H wire k (kname k) rd now rmac ctx multi = Ok (out, rd', c') ->
    Valid (kname k) -> Valid (t_alg rd) ->
    all_bytes wire = true -> (12 <= length wire)%nat ->
    t_error rd = 0 -> NameM.name_eqb (kalg k) (t_alg rd) = true ->
    rfc_time_ok now2 now (t_fudge rd) ->
    r_pos st = length wire -> r_ctx st = ctx -> r_origin st = None ->
    get_rr H out (KR_Key k) rmac now2 multi 3 count (count - 1) st
    = Ok {| r_pos := length out; r_tsig := Some (kname k, rd'); r_ctx := c';
            r_recs := (3, TSIG, ANY, length wire) :: r_recs st; r_opt := r_opt st; r_origin := None |}.
Proof. exact signed_rr_reads_back_validated_lemma. Qed.
Print Assumptions signed_rr_reads_back_validated.

(* ... and the whole read: if the part of the signed message before the TSIG RR parses (questions,
   ANSWER, AUTHORITY, the ADDITIONAL records before the TSIG, ending where the TSIG RR starts),
   dns.message.from_wire returns it validated, with the signer's follow-up context *)
Theorem read_signed_message :
  forall H wire k rd now rmac ctx multi out rd' c' now2 fl qd an au ad p s1 s2 s3,
    sign_message H wire k (kname k) rd now rmac ctx multi = Ok (out, rd', c') ->
    Valid (kname k) -> Valid (t_alg rd) ->
    all_bytes wire = true -> (12 <= length wire)%nat ->
    t_error rd = 0 -> NameM.name_eqb (kalg k) (t_alg rd) = true ->
    rfc_time_ok now2 now (t_fudge rd) ->
    get_uint out (length out) 2 2 = Ok fl -> get_uint out (length out) 4 2 = Ok qd ->
    get_uint out (length out) 6 2 = Ok an -> get_uint out (length out) 8 2 = Ok au ->
    get_uint out (length out) 10 2 = Ok ad ->
    ((fst fl / 2048) mod 16 =? 5) = false ->
    get_question out (Z.to_nat (fst qd)) 12 = Ok p ->
    get_section H out (KR_Key k) rmac now2 multi 1 (fst an) (Z.to_nat (fst an))
      {| r_pos := p; r_tsig := None; r_ctx := ctx; r_recs := []; r_opt := false; r_origin := None |} = Ok s1 ->
    get_section H out (KR_Key k) rmac now2 multi 2 (fst au) (Z.to_nat (fst au)) s1 = Ok s2 ->
    1 <= fst ad ->
    get_section_n H out (KR_Key k) rmac now2 multi 3 (fst ad) 0 (Z.to_nat (fst ad - 1)) s2 = Ok s3 ->
    r_pos s3 = length wire ->
    read H out (KR_Key k) rmac ctx multi now2
    = Ok {| m_had_tsig := true; m_tsig := Some (kname k, rd'); m_ctx := c';
            m_recs := rev ((3, TSIG, ANY, length wire) :: r_recs s3) |}.
Proof. exact read_signed_message_lemma. Qed.
Print Assumptions read_signed_message.

(* rendering the same Message object again (Message.to_wire called twice: size probe,
   retransmission, first envelope served twice): after a render stored the signed rdata and, for
   multi, the returned context in the object, every later render is the same function of
   (octets, key, request MAC, tsig_ctx argument, clock) as a render of the original object *)
Theorem rerender_is_render :
  forall H wire k owner rmac ctx multi now1 o w1 o1,
    render H wire k owner rmac ctx multi now1 o = Ok (w1, o1) ->
    forall wire2 rmac2 ctx2 multi2 now2,
      sign_message H wire2 k owner (o_tsig o1) now2 rmac2 ctx2 multi2
      = sign_message H wire2 k owner (o_tsig o) now2 rmac2 ctx2 multi2.
Proof. exact rerender_is_render_lemma. Qed.
Print Assumptions rerender_is_render.

(* ---- what validate accepts ---- *)
Theorem validate_accepts_iff :
  forall H wire k owner rd now rmac start ctx multi r,
    validate H wire k owner rd now rmac start ctx multi = Ok r <->
    exists adcount c,
      pre_ok wire k owner rd now adcount
      /\ digest (strip_tsig wire adcount start) k rd None rmac ctx multi = Ok c
      /\ t_mac rd = ctx_sign H c
      /\ maybe_start_digest k (t_mac rd) multi = Ok r.
Proof. exact validate_accepts_iff_lemma. Qed.
Print Assumptions validate_accepts_iff.

Theorem validate_accepts_only_rfc_mac :
  forall H wire k owner rd now rmac start ctx multi r,
    (ctx = None \/ multi = false) ->
    all_bytes wire = true ->
    validate H wire k owner rd now rmac start ctx multi = Ok r ->
    exists adcount h sz,
      pre_ok wire k owner rd now adcount
      /\ assoc_name hashes (kalg k) = Some (h, sz)
      /\ t_mac rd = rfc_truncate (trunc_of sz)
           (H h (ksecret k)
              (rfc8945_input (omac rmac) (t_oid rd) (rfc_received_message wire adcount start)
                 (vars_of k rd (t_time rd)))).
Proof. exact validate_accepts_mac_is_rfc. Qed.
Print Assumptions validate_accepts_only_rfc_mac.

Theorem validate_accepts_only_rfc_mac_subsequent :
  forall H wire k owner rd now rmac start c0 r,
    all_bytes wire = true ->
    validate H wire k owner rd now rmac start (Some c0) true = Ok r ->
    exists adcount,
      pre_ok wire k owner rd now adcount
      /\ t_mac rd = rfc_truncate (trunc_of (c_size c0))
           (H (c_hash c0) (c_key c0)
              (c_data c0 ++ rfc_dns_message (t_oid rd) (rfc_received_message wire adcount start)
                 ++ rfc_tsig_timers (t_time rd) (t_fudge rd)))
      /\ exists c1, r = Some c1 /\ c_data c1 = rfc_request_mac (t_mac rd) /\ c_key c1 = ksecret k
                    /\ assoc_name hashes (kalg k) = Some (c_hash c1, c_size c1).
Proof. exact validate_accepts_mac_subsequent. Qed.
Print Assumptions validate_accepts_only_rfc_mac_subsequent.

(* ---- altered messages: the input construction is injective ---- *)
Theorem input_injective_same_shape :
  forall rm oid1 oid2 w1 w2 v1 v2,
    canonical_name (v_name v1) = canonical_name (v_name v2) ->
    canonical_name (v_alg v1) = canonical_name (v_alg v2) ->
    (length (skipn 2 w1) = length (skipn 2 w2) \/ length (v_other v1) = length (v_other v2)) ->
    vars_wf oid1 v1 -> vars_wf oid2 v2 ->
    rfc8945_input rm oid1 w1 v1 = rfc8945_input rm oid2 w2 v2 ->
    oid1 = oid2 /\ skipn 2 w1 = skipn 2 w2 /\ v_time v1 = v_time v2 /\ v_fudge v1 = v_fudge v2
    /\ v_error v1 = v_error v2 /\ v_other v1 = v_other v2.
Proof. exact rfc_input_injective. Qed.
Print Assumptions input_injective_same_shape.

(* ... also in the key name and the algorithm name (valid absolute names, compared canonically) *)
Theorem input_injective_names :
  forall rm oid1 oid2 w1 w2 v1 v2,
    good_name (v_name v1) -> good_name (v_name v2) -> good_name (v_alg v1) -> good_name (v_alg v2) ->
    length (skipn 2 w1) = length (skipn 2 w2) ->
    vars_wf oid1 v1 -> vars_wf oid2 v2 ->
    rfc8945_input rm oid1 w1 v1 = rfc8945_input rm oid2 w2 v2 ->
    ci (v_name v1) = ci (v_name v2) /\ ci (v_alg v1) = ci (v_alg v2) /\
    oid1 = oid2 /\ skipn 2 w1 = skipn 2 w2 /\ v_time v1 = v_time v2 /\ v_fudge v1 = v_fudge v2
    /\ v_error v1 = v_error v2 /\ v_other v1 = v_other v2.
Proof. exact rfc_input_injective_names. Qed.
Print Assumptions input_injective_names.

(* signed with a different key (secret, key name or algorithm): the receiver accepts only if its
   own keyed hash of its own input equals the signer's MAC; with a different key name or
   algorithm the two inputs are different *)
Theorem wrong_key :
  forall H wire k1 k2 rd t rmac ctx multi rd' c' wire' start adcount now owner r,
    (ctx = None \/ multi = false) ->
    all_bytes wire' = true ->
    sign H wire k1 rd (Some t) rmac ctx multi = Ok (rd', c') ->
    get_adcount wire' = Ok adcount ->
    rfc_received_message wire' adcount start = wire ->
    validate H wire' k2 owner rd' now rmac start ctx multi = Ok r ->
    exists h1 sz1 h2 sz2,
      assoc_name hashes (kalg k1) = Some (h1, sz1) /\ assoc_name hashes (kalg k2) = Some (h2, sz2) /\
      let d1 := rfc8945_input (omac rmac) (t_oid rd) wire (vars_of k1 rd t) in
      let d2 := rfc8945_input (omac rmac) (t_oid rd) wire (vars_of k2 rd t) in
      rfc_truncate (trunc_of sz2) (H h2 (ksecret k2) d2) = rfc_truncate (trunc_of sz1) (H h1 (ksecret k1) d1)
      /\ (good_name (kname k1) -> good_name (kname k2) -> good_name (kalg k1) -> good_name (kalg k2) ->
          tsig_wf rd' ->
          (ci (kname k1) <> ci (kname k2) \/ ci (kalg k1) <> ci (kalg k2)) -> d1 <> d2).
Proof. exact wrong_key_lemma. Qed.
Print Assumptions wrong_key.

Theorem tamper_needs_collision :
  forall H k rmac ctx multi wire1 owner1 rd1 now1 start1 r1 wire2 owner2 rd2 now2 start2 r2,
    (ctx = None \/ multi = false) ->
    all_bytes wire1 = true -> all_bytes wire2 = true ->
    tsig_wf rd1 -> tsig_wf rd2 ->
    validate H wire1 k owner1 rd1 now1 rmac start1 ctx multi = Ok r1 ->
    validate H wire2 k owner2 rd2 now2 rmac start2 ctx multi = Ok r2 ->
    t_mac rd1 = t_mac rd2 ->
    exists ad1 ad2 h sz,
      get_adcount wire1 = Ok ad1 /\ get_adcount wire2 = Ok ad2 /\
      assoc_name hashes (kalg k) = Some (h, sz) /\
      let d1 := rfc8945_input (omac rmac) (t_oid rd1) (rfc_received_message wire1 ad1 start1) (vars_of k rd1 (t_time rd1)) in
      let d2 := rfc8945_input (omac rmac) (t_oid rd2) (rfc_received_message wire2 ad2 start2) (vars_of k rd2 (t_time rd2)) in
      ((length (skipn 2 (rfc_received_message wire1 ad1 start1)) = length (skipn 2 (rfc_received_message wire2 ad2 start2))
        \/ length (t_other rd1) = length (t_other rd2)) ->
       authenticated wire1 ad1 start1 rd1 = authenticated wire2 ad2 start2 rd2
       \/ (d1 <> d2 /\
           rfc_truncate (trunc_of sz) (H h (ksecret k) d1) = rfc_truncate (trunc_of sz) (H h (ksecret k) d2))).
Proof. exact tamper_needs_collision_lemma. Qed.
Print Assumptions tamper_needs_collision.

Theorem wrong_request_mac :
  forall H wire k rd t rmac1 rmac2 ctx multi rd' c' wire' start adcount now owner r,
    (ctx = None \/ multi = false) ->
    all_bytes wire' = true ->
    zlen rmac1 < 65536 -> zlen rmac2 < 65536 ->
    sign H wire k rd (Some t) rmac1 ctx multi = Ok (rd', c') ->
    get_adcount wire' = Ok adcount ->
    rfc_received_message wire' adcount start = wire ->
    rmac1 <> rmac2 ->
    validate H wire' k owner rd' now rmac2 start ctx multi = Ok r ->
    exists h sz,
      assoc_name hashes (kalg k) = Some (h, sz) /\
      let d1 := rfc8945_input (omac rmac1) (t_oid rd) wire (vars_of k rd t) in
      let d2 := rfc8945_input (omac rmac2) (t_oid rd) wire (vars_of k rd t) in
      d1 <> d2 /\
      rfc_truncate (trunc_of sz) (H h (ksecret k) d1) = rfc_truncate (trunc_of sz) (H h (ksecret k) d2).
Proof. exact wrong_request_mac_lemma. Qed.
Print Assumptions wrong_request_mac.

(* ---- the checks that do not involve the MAC, in the order validate makes them ---- *)
Theorem peer_error :
  forall H wire k owner rd now rmac start ctx multi adcount,
    get_adcount wire = Ok adcount -> adcount <> 0 ->
    t_error rd <> 0 ->
    validate H wire k owner rd now rmac start ctx multi = Lib (TsigM.peer_error (t_error rd)).
Proof. exact peer_error_lemma. Qed.
Print Assumptions peer_error.

Theorem bad_time :
  forall H wire k owner rd now rmac start ctx multi adcount,
    get_adcount wire = Ok adcount -> adcount <> 0 -> t_error rd = 0 ->
    ~ rfc_time_ok now (t_time rd) (t_fudge rd) ->
    validate H wire k owner rd now rmac start ctx multi = Lib eBadTime.
Proof. exact bad_time_lemma. Qed.
Print Assumptions bad_time.

Theorem bad_key :
  forall H wire k owner rd now rmac start ctx multi adcount,
    get_adcount wire = Ok adcount -> adcount <> 0 -> t_error rd = 0 ->
    rfc_time_ok now (t_time rd) (t_fudge rd) ->
    NameM.name_eqb (kname k) owner = false ->
    validate H wire k owner rd now rmac start ctx multi = Lib eBadKey.
Proof. exact bad_key_lemma. Qed.
Print Assumptions bad_key.

Theorem bad_alg :
  forall H wire k owner rd now rmac start ctx multi adcount,
    get_adcount wire = Ok adcount -> adcount <> 0 -> t_error rd = 0 ->
    rfc_time_ok now (t_time rd) (t_fudge rd) ->
    NameM.name_eqb (kname k) owner = true ->
    NameM.name_eqb (kalg k) (t_alg rd) = false ->
    validate H wire k owner rd now rmac start ctx multi = Lib eBadAlgorithm.
Proof. exact bad_alg_lemma. Qed.
Print Assumptions bad_alg.

(* ---- the reader: a TSIG record that is not the last record is a format error ---- *)

(* at the header of a TSIG record outside ADDITIONAL, or not last, or not class ANY, the reader
   raises BadTSIG (a FormError) ... *)
Theorem tsig_not_last_is_formerror :
  forall H w kr rmac now multi section count i st np nrel tp cp lp dp,
    get_name w (length w) (r_pos st) = Ok np ->
    (match r_origin st with Some o => NameM.relativize (fst np) o | None => Ok (fst np) end) = Ok nrel ->
    get_uint w (length w) (snd np) 2 = Ok tp ->
    get_uint w (length w) (snd tp) 2 = Ok cp ->
    get_uint w (length w) (snd cp) 4 = Ok lp ->
    get_uint w (length w) (snd lp) 2 = Ok dp ->
    fst tp = TSIG ->
    (section <> 3 \/ fst cp <> ANY \/ i <> count - 1) ->
    get_rr H w kr rmac now multi section count i st = Lib eBadTSIG /\ is_formerror eBadTSIG = true.
Proof. exact get_rr_misplaced_formerror. Qed.
Print Assumptions tsig_not_last_is_formerror.

(* ... hence in every message that is read without error a TSIG record is the last one *)
Theorem read_ok_tsig_is_last :
  forall H origin w kr rmac ctx multi now m i r,
    read_gen H origin w kr rmac ctx multi now = Ok m ->
    nth_error (m_recs m) i = Some r -> rec_type r = TSIG ->
    i = (length (m_recs m) - 1)%nat /\ rec_section r = 3 /\ rec_class r = ANY.
Proof. exact tsig_only_last. Qed.
Print Assumptions read_ok_tsig_is_last.

(* a message is read successfully only if dns.tsig.validate accepted its TSIG (keyring permitting);
   a message without TSIG extends the running digest of a multi-message exchange by the whole wire *)
Theorem read_accepts_only_validated :
  forall H origin w kr rmac ctx multi now m,
    read_gen H origin w kr rmac ctx multi now = Ok m ->
    exists body,
      Forall not_tsig body /\
      ((m_recs m = body /\ m_tsig m = None /\ m_had_tsig m = false
        /\ m_ctx m = ctx_after_unsigned ctx multi w)
       \/ (exists owner rd start,
             m_recs m = body ++ [(3, TSIG, ANY, start)]
             /\ m_tsig m = Some (owner, rd) /\ m_had_tsig m = true
             /\ decided H w kr rmac now multi owner rd start ctx (m_ctx m))).
Proof. exact read_ok. Qed.
Print Assumptions read_accepts_only_validated.

(* message level: two wire messages read as validated under the same key, request MAC and MAC
   value carry identical authenticated content, or the truncated keyed hash collides on their two
   distinct RFC inputs *)
Theorem read_tamper_needs_collision :
  forall H origin1 origin2 k rmac ctx multi w1 now1 m1 owner1 rd1 w2 now2 m2 owner2 rd2,
    (ctx = None \/ multi = false) ->
    all_bytes w1 = true -> all_bytes w2 = true ->
    read_gen H origin1 w1 (KR_Key k) rmac ctx multi now1 = Ok m1 -> m_tsig m1 = Some (owner1, rd1) ->
    read_gen H origin2 w2 (KR_Key k) rmac ctx multi now2 = Ok m2 -> m_tsig m2 = Some (owner2, rd2) ->
    t_mac rd1 = t_mac rd2 ->
    exists body1 start1 body2 start2 ad1 ad2 h sz,
      m_recs m1 = body1 ++ [(3, TSIG, ANY, start1)] /\ m_recs m2 = body2 ++ [(3, TSIG, ANY, start2)] /\
      get_adcount w1 = Ok ad1 /\ get_adcount w2 = Ok ad2 /\
      assoc_name hashes (kalg k) = Some (h, sz) /\
      let d1 := rfc8945_input (omac rmac) (t_oid rd1) (rfc_received_message w1 ad1 start1) (vars_of k rd1 (t_time rd1)) in
      let d2 := rfc8945_input (omac rmac) (t_oid rd2) (rfc_received_message w2 ad2 start2) (vars_of k rd2 (t_time rd2)) in
      ((length (skipn 2 (rfc_received_message w1 ad1 start1)) = length (skipn 2 (rfc_received_message w2 ad2 start2))
        \/ length (t_other rd1) = length (t_other rd2)) ->
       authenticated w1 ad1 start1 rd1 = authenticated w2 ad2 start2 rd2
       \/ (d1 <> d2 /\
           rfc_truncate (trunc_of sz) (H h (ksecret k) d1) = rfc_truncate (trunc_of sz) (H h (ksecret k) d2))).
Proof. exact read_tamper_needs_collision_lemma. Qed.
Print Assumptions read_tamper_needs_collision.

(* which octets are authenticated: any change of an octet 2..9 or 12..tsig_start-1 of the received
   wire, or of ARCOUNT, changes the authenticated content (octets 0-1, the message id, are
   replaced by the original id of the TSIG record, which is authenticated instead) *)
Theorem altered_octet_changes_authenticated :
  forall (w1 w2 : bytes) ad1 ad2 start rd1 rd2 p,
    (10 <= length w1)%nat -> (10 <= length w2)%nat ->
    ((2 <= p < 10)%nat \/ (12 <= p < start)%nat) ->
    nth_error w1 p <> nth_error w2 p ->
    authenticated w1 ad1 start rd1 <> authenticated w2 ad2 start rd2.
Proof. exact altered_octet_changes_authenticated_lemma. Qed.
Print Assumptions altered_octet_changes_authenticated.

Theorem altered_arcount_changes_authenticated :
  forall (w1 w2 : bytes) ad1 ad2 start1 start2 rd1 rd2,
    (10 <= length w1)%nat -> (10 <= length w2)%nat ->
    0 < ad1 < 65536 -> 0 < ad2 < 65536 -> ad1 <> ad2 ->
    authenticated w1 ad1 start1 rd1 <> authenticated w2 ad2 start2 rd2.
Proof. exact altered_arcount_changes_authenticated_lemma. Qed.
Print Assumptions altered_arcount_changes_authenticated.

(* ---- multi-message exchanges with any subset of envelopes unsigned (RFC 8945 5.3.1) ---- *)
Theorem read_stream_is_rfc :
  forall H k rmac now origin ws ms ctx run,
    ctx_matches k ctx run ->
    Forall (fun w => all_bytes w = true) ws ->
    read_stream_gen H origin ws (KR_Key k) rmac ctx now = map Ok ms ->
    stream_spec H k rmac now run ws ms.
Proof. exact read_stream_is_rfc_lemma. Qed.
Print Assumptions read_stream_is_rfc.

(* the sending side (Message.to_wire(multi=True, tsig_ctx=previous); ctx.update(wire) for envelopes
   sent without TSIG) produces exactly the MACs of the same specification *)
Theorem sign_stream_is_rfc :
  forall H k rmac ms outs ctx run,
    ctx_matches k ctx run ->
    sign_stream H ms k rmac ctx = map Ok outs ->
    sender_spec H k rmac run ms outs.
Proof. exact sign_stream_is_rfc_lemma. Qed.
Print Assumptions sign_stream_is_rfc.

(* ---- non-vacuity: a toy keyed hash, a 12-octet message, key "k." / hmac-sha256-128 ---- *)
Definition exH (h : hashid) (k d : bytes) : bytes :=
  map (fun i => (fold_left Z.add (k ++ d) i * i) mod 256) [1; 2; 3; 4; 5; 6; 7; 8; 9; 10; 11; 12; 13; 14; 15; 16; 17; 18; 19; 20].
Definition exwire : bytes := [18; 52; 1; 0; 0; 0; 0; 0; 0; 0; 0; 0].
Definition exkey : key := {| kname := [[107]; []]; ksecret := [1; 2; 3; 4; 5; 6; 7; 8; 9; 10; 11; 12; 13; 14; 15; 16; 17]; kalg := nHMAC_SHA256_128 |}.
Definition exrd : tsig := {| t_alg := nHMAC_SHA256_128; t_time := 0; t_fudge := 300; t_mac := [];
                             t_oid := 4660; t_error := 0; t_other := [] |}.

Example ex_sign_ok :
  exists rd', sign exH exwire exkey exrd (Some 1000) [9; 9] None false = Ok (rd', None)
              /\ length (t_mac rd') = 16%nat.
Proof. eexists. split; vm_compute; reflexivity. Qed.

Example ex_validate_ok :
  exists rd' w, sign_message exH exwire exkey (kname exkey) exrd 1000 [9; 9] None false = Ok (w, rd', None)
    /\ all_bytes w = true /\ tsig_wf rd'
    /\ validate exH w exkey (kname exkey) rd' 1300 [9; 9] 12 None false = Ok None
    /\ validate exH w exkey (kname exkey) rd' 1301 [9; 9] 12 None false = Lib eBadTime
    /\ validate exH w exkey (kname exkey) rd' 1000 [9; 8] 12 None false = Lib eBadSignature
    /\ read exH w (KR_Key exkey) [9; 9] None false 1000
       = Ok {| m_had_tsig := true; m_tsig := Some (kname exkey, rd'); m_ctx := None;
               m_recs := [(3, 250, 255, 12%nat)] |}.
Proof.
  eexists. eexists. split; [vm_compute; reflexivity|].
  split; [vm_compute; reflexivity|].
  split; [unfold tsig_wf, zlen; cbn; lia|].
  repeat split; vm_compute; reflexivity.
Qed.

Example ex_multi_ok :
  exists rd' c1, sign exH exwire exkey exrd (Some 1000) [9; 9] None true = Ok (rd', Some c1)
    /\ c_data c1 = rfc_request_mac (t_mac rd')
    /\ exists rd'' c2, sign exH exwire exkey exrd (Some 1001) [9; 9] (Some (update c1 exwire)) true = Ok (rd'', Some c2)
         /\ t_mac rd'' = firstn 16 (exH SHA256 (ksecret exkey)
              (rfc8945_input_subsequent (t_mac rd') [exwire] 4660 exwire 1001 300)).
Proof.
  eexists. eexists. split; [vm_compute; reflexivity|]. split; [vm_compute; reflexivity|].
  eexists. eexists. split; vm_compute; reflexivity.
Qed.

(* a TSIG record followed by another record *)
Definition ex_signed : bytes :=
  Eval vm_compute in
    match sign_message exH exwire exkey (kname exkey) exrd 1000 [] None false with
    | Ok (w, _, _) => w | _ => [] end.
Example ex_not_last :
  (exists rd', sign_message exH exwire exkey (kname exkey) exrd 1000 [] None false = Ok (ex_signed, rd', None))
  /\ read exH (firstn 10 ex_signed ++ [0; 2] ++ skipn 12 ex_signed ++ [0; 255; 0; 0; 1; 0; 0; 0; 0; 0; 0])
          (KR_Key exkey) [] None false 1000 = Lib eBadTSIG.
Proof. split; [eexists; vm_compute; reflexivity | vm_compute; reflexivity]. Qed.

(* three envelopes, the middle one sent without TSIG: signed by sign_stream, accepted by read_stream *)
Definition oks {A} (l : list (res A)) : list A :=
  flat_map (fun r => match r with Ok a => [a] | _ => [] end) l.
Definition ex_ws : list bytes :=
  Eval vm_compute in
    oks (sign_stream exH [(exwire, Some (exrd, 1000)); (exwire, None); (exwire, Some (exrd, 1001))] exkey [9; 9] None).
Definition ex_ms : list rmsg :=
  Eval vm_compute in oks (read_stream exH ex_ws (KR_Key exkey) [9; 9] None 1000).

Example ex_stream :
  sign_stream exH [(exwire, Some (exrd, 1000)); (exwire, None); (exwire, Some (exrd, 1001))] exkey [9; 9] None
    = map Ok ex_ws
  /\ read_stream exH ex_ws (KR_Key exkey) [9; 9] None 1000 = map Ok ex_ms
  /\ map m_had_tsig ex_ms = [true; false; true]
  /\ Forall (fun w => all_bytes w = true) ex_ws.
Proof.
  split; [vm_compute; reflexivity|].
  split; [vm_compute; reflexivity|]. split; [vm_compute; reflexivity|].
  repeat constructor.
Qed.

(* the algorithm table: hash and MAC length in octets (None = whole digest), RFC 8945 section 6 *)
Example ex_algorithm_table :
  map (fun e => (fst e, fst (snd e), trunc_of (snd (snd e)))) hashes =
  [ (nHMAC_SHA1, SHA1, None); (nHMAC_SHA224, SHA224, None); (nHMAC_SHA256, SHA256, None);
    (nHMAC_SHA256_128, SHA256, Some 16%nat); (nHMAC_SHA384, SHA384, None);
    (nHMAC_SHA384_192, SHA384, Some 24%nat); (nHMAC_SHA512, SHA512, None);
    (nHMAC_SHA512_256, SHA512, Some 32%nat); (nHMAC_MD5, MD5, None) ].
Proof. reflexivity. Qed.

(* a message with a question and an ADDITIONAL record, signed and read back (the hypotheses of
   read_signed_message hold for it) *)
Definition exwire2 : bytes :=
  [18; 52; 1; 0; 0; 1; 0; 0; 0; 0; 0; 1] ++ [1; 97; 0; 0; 1; 0; 1]
  ++ [1; 98; 0; 255; 0; 0; 1; 0; 0; 0; 0; 0; 2; 120; 121].
Definition ex_signed2 : bytes :=
  Eval vm_compute in
    match sign_message exH exwire2 exkey (kname exkey) exrd 1000 [] None false with
    | Ok (w, _, _) => w | _ => [] end.
Example ex_read_signed :
  (exists rd', sign_message exH exwire2 exkey (kname exkey) exrd 1000 [] None false = Ok (ex_signed2, rd', None))
  /\ (exists m, read exH ex_signed2 (KR_Key exkey) [] None false 1200 = Ok m /\ m_had_tsig m = true
                /\ length (m_recs m) = 2%nat)
  /\ (exists s3, get_section_n exH ex_signed2 (KR_Key exkey) [] 1200 false 3 2 0 1
                   {| r_pos := 19; r_tsig := None; r_ctx := None; r_recs := []; r_opt := false; r_origin := None |} = Ok s3
                 /\ r_pos s3 = length exwire2).
Proof.
  split; [eexists; vm_compute; reflexivity|].
  split; [eexists; split; [vm_compute; reflexivity|split; reflexivity]|].
  eexists; split; [vm_compute; reflexivity|reflexivity].
Qed.

(* from_wire(origin=...): the origin does not enter the key lookup or validation - read with the key
   name itself, an ancestor of it, or an unrelated name as origin, with Key and dict keyrings *)
Example ex_read_with_origin :
  (exists m, read_gen exH (Some (kname exkey)) ex_signed2 (KR_Key exkey) [] None false 1200 = Ok m /\ m_had_tsig m = true)
  /\ (exists m, read_gen exH (Some [[]]) ex_signed2 (KR_Dict [(kname exkey, inl exkey)]) [] None false 1200 = Ok m /\ m_had_tsig m = true)
  /\ (exists m, read_gen exH (Some [[120]; []]) ex_signed2 (KR_Dict [(kname exkey, inr (ksecret exkey))]) [] None false 1200 = Ok m
                /\ m_had_tsig m = true).
Proof. repeat split; eexists; split; vm_compute; reflexivity. Qed.
