(* C14 - TSIG MACs follow RFC 8945; genuine messages verify, altered ones never do. *)
From DV Require Import Base.Prelude.
From DV Require Model.NameM.
From DV Require Import Model.TsigM Proofs.TsigLemmas.
Open Scope Z_scope.

Theorem peer_error :
  forall H wire k owner rd now rmac start ctx multi adcount,
    get_adcount wire = Ok adcount -> adcount <> 0 ->
    t_error rd <> 0 ->
    validate H wire k owner rd now rmac start ctx multi = Lib (TsigM.peer_error (t_error rd)).
Proof. exact peer_error_lemma. Qed.
Print Assumptions peer_error.
