(* C01 - Name text and wire codecs are exact inverses within DNS length limits.
   Model: coq/Model/NameM.v (_validate_labels / Name.__init__, _escapify / to_text, the escape state
   machine of from_text, to_wire with and without a compression table, from_wire_parser over
   dns.wirebase.Parser, concatenate / relativize / derelativize / split / parent /
   successor / predecessor).  Declarative side:
     Valid      Proofs/NameValid.v   every label <= 63, sum(len+1) <= 255, empty label only last
     AllBytes   Proofs/NameText.v    every octet in 0..255
     good       Proofs/NameProducers.v   Ok(valid name) or a library exception; never Internal
     desc       Proofs/NameWire.v    strictly decreasing list of offsets below a bound
     TableSoundW / TableExact / NoCaseAlias / full_name / Dec   Proofs/NameCompress.v *)
From DV Require Import Base.Prelude Model.NameM.
From DV Require Import Proofs.NameOrder Proofs.NameValid Proofs.NameRel Proofs.NameSucc.
From DV Require Import Proofs.NameText Proofs.NameWire Proofs.NameProducers Proofs.NameCompress Proofs.NameTok.
Open Scope Z_scope.

(* ---- _validate_labels decides exactly the DNS limits ---- *)
Theorem validate_iff : forall n : name, validate_labels n = Ok tt <-> Valid n.
Proof. exact NameValid.validate_iff. Qed.
Print Assumptions validate_iff.

Theorem validate_error : forall (n : name) (e : Z),
  validate_labels n = Lib e ->
  (e = eLabelTooLong /\ ~ Forall (fun l => zlen l <= 63) n) \/
  (e = eNameTooLong /\ Forall (fun l => zlen l <= 63) n /\ wire_length n > 255) \/
  (e = eEmptyLabel /\ Forall (fun l => zlen l <= 63) n /\ wire_length n <= 255 /\
     ~ Forall (fun l => l <> []) (removelast n)).
Proof. exact NameValid.validate_error. Qed.
Print Assumptions validate_error.

(* ---- text: to_text then from_text is the identity, for every octet value ---- *)
(* the per-octet fact: the escaped form of any octet 0..255, followed by anything, parses back
   to exactly that octet *)
Theorem escape_octet_roundtrip : forall c t L lab, 0 <= c < 256 ->
  ft_loop (esc_octet c ++ t) L lab false 0%nat 0 = ft_loop t L (c :: lab) false 0%nat 0.
Proof. exact NameText.ft_octet. Qed.
Print Assumptions escape_octet_roundtrip.

Theorem text_roundtrip : forall n : name,
  Valid n -> AllBytes n -> from_text (to_text n) None = Ok n.
Proof. exact NameText.text_roundtrip. Qed.
Print Assumptions text_roundtrip.

(* with an origin: absolute names come back unchanged, relative ones get the origin appended *)
Theorem text_roundtrip_origin : forall (n : name) (origin : option name),
  Valid n -> AllBytes n ->
  from_text (to_text n) origin =
    if is_absolute n then Ok n
    else match origin with Some o => mk_name (n ++ o) | None => Ok n end.
Proof. exact NameText.text_roundtrip_origin. Qed.
Print Assumptions text_roundtrip_origin.

(* omit_final_dot=True output, read back against the root origin *)
Theorem text_roundtrip_omit : forall n : name,
  Valid n -> AllBytes n -> is_absolute n = true ->
  from_text (to_text_omit n) (Some root) = Ok n.
Proof. exact NameText.text_roundtrip_omit. Qed.
Print Assumptions text_roundtrip_omit.

(* any text the library accepts (octets 0..255) gives a name over octets whose printed form
   parses back to that same name: parse / print / parse is stable *)
Theorem text_normal_form : forall (text : list Z) (origin : option name) (n : name),
  byte_l text -> (forall o, origin = Some o -> AllBytes o) ->
  from_text text origin = Ok n ->
  AllBytes n /\ from_text (to_text n) None = Ok n.
Proof. exact NameText.text_normal_form. Qed.
Print Assumptions text_normal_form.

(* ---- the zone-file path: Tokenizer.get() / get_name on the printed name ---- *)
(* the printed form of any name over all 256 octet values is returned by the tokenizer as ONE
   identifier token, whatever follows it (end of input or any delimiter: blank, newline, ';',
   parentheses, quote), and get_name turns it back into the name *)
Theorem tokenizer_identifier : forall (n : name) (rest : list Z),
  AllBytes n -> token_end rest ->
  tok_get_identifier (to_text n ++ rest) = Ok (to_text n, rest).
Proof. exact NameTok.tokenizer_identifier. Qed.
Print Assumptions tokenizer_identifier.

Theorem tokenizer_name_roundtrip : forall (n : name) (rest : list Z),
  Valid n -> AllBytes n -> token_end rest ->
  tok_get_name (to_text n ++ rest) None = Ok n.
Proof. exact NameTok.tokenizer_name_roundtrip. Qed.
Print Assumptions tokenizer_name_roundtrip.

Theorem tokenizer_name_roundtrip_origin : forall (n o : name) (rest : list Z),
  Valid n -> AllBytes n -> token_end rest -> is_absolute o = true ->
  tok_get_name (to_text n ++ rest) (Some o) = if is_absolute n then Ok n else mk_name (n ++ o).
Proof. exact NameTok.tokenizer_name_roundtrip_origin. Qed.
Print Assumptions tokenizer_name_roundtrip_origin.

(* ---- wire, uncompressed: exact inverse at any offset inside any byte string ---- *)
Theorem wire_roundtrip : forall (n : name) (pre post : list Z),
  Valid n -> is_absolute n = true ->
  to_wire n None false = Ok (wire_labels false n) /\
  from_wire (pre ++ wire_labels false n ++ post) (length pre) = Ok (n, length (wire_labels false n)).
Proof. exact NameWire.wire_roundtrip. Qed.
Print Assumptions wire_roundtrip.

(* with an origin (relative names are made absolute): never longer than 255 octets - NameTooLong
   instead - and the result decodes to exactly the labels of the name followed by the origin's *)
Theorem to_wire_spec : forall (n : name) (origin : option name) (canon : bool) (w : list Z),
  Valid n -> (forall o, origin = Some o -> Valid o) ->
  to_wire n origin canon = Ok w ->
  exists labels, full_name n origin = Ok labels /\ w = wire_labels canon labels /\
                 Z.of_nat (length w) <= 255.
Proof. exact NameCompress.to_wire_spec. Qed.
Print Assumptions to_wire_spec.

(* the third call shape, Name.to_wire(file, None, origin): same octets and the same NameTooLong as
   the form without a file (so to_wire_spec / to_wire_roundtrip apply to it as well) *)
Theorem to_wire_file_eq : forall (n : name) (origin : option name) (canon : bool),
  Valid n -> (forall o, origin = Some o -> Valid o) ->
  to_wire_file n origin canon = to_wire n origin canon.
Proof. exact NameCompress.to_wire_file_eq. Qed.
Print Assumptions to_wire_file_eq.

Theorem to_wire_roundtrip : forall (n : name) (origin : option name) (w pre post : list Z),
  Valid n -> (forall o, origin = Some o -> Valid o) ->
  to_wire n origin false = Ok w ->
  exists labels, full_name n origin = Ok labels /\
    from_wire (pre ++ w ++ post) (length pre) = Ok (labels, length w).
Proof. exact NameCompress.to_wire_roundtrip. Qed.
Print Assumptions to_wire_roundtrip.

(* whatever from_wire decodes, from any message (compressed or not), is a valid absolute name
   whose own uncompressed encoding decodes to it again *)
Theorem from_wire_reencode : forall (msg : list Z) (off : nat) (n : name) (c : nat),
  Forall (fun x => 0 <= x) msg ->
  from_wire msg off = Ok (n, c) ->
  Valid n /\ is_absolute n = true /\
  from_wire (wire_labels false n) 0 = Ok (n, length (wire_labels false n)).
Proof. exact NameCompress.from_wire_reencode. Qed.
Print Assumptions from_wire_reencode.

(* ---- decoding terminates on every input; pointers only go strictly backwards ---- *)
(* the model's loop runs on fuel S ((S start) * (S (length wire))); the fuel marker
   (Internal iFuel) and every other non-library exception are unreachable *)
Theorem from_wire_total : forall (wire : list Z) (start : nat) (e : Z),
  from_wire wire start <> Internal e.
Proof. exact NameWire.from_wire_total. Qed.
Print Assumptions from_wire_total.

Theorem from_wire_fuel_measure : forall (wire : list Z) fuel p biggest acc e,
  (cur p <= length wire)%nat -> (meas wire p biggest < fuel)%nat ->
  fw_go wire fuel p biggest acc <> Internal e.
Proof. exact NameWire.fw_go_enough. Qed.
Print Assumptions from_wire_fuel_measure.

Theorem pointers_strictly_decrease : forall (wire : list Z) (start : nat) (n : name) (consumed : nat) (tr : list nat),
  from_wire_tr wire start = Ok (n, consumed, tr) ->
  desc start tr /\ Forall (fun c => (c <= length wire)%nat) tr /\
  from_wire wire start = Ok (n, consumed).
Proof. exact NameWire.pointers_strictly_decrease. Qed.
Print Assumptions pointers_strictly_decrease.

(* the instrumented decoder (which exposes the followed pointers) is the decoder *)
Theorem from_wire_tr_erase : forall (wire : list Z) (start : nat),
  from_wire wire start =
    match from_wire_tr wire start with
    | Ok (n, c, _) => Ok (n, c)
    | Lib e => Lib e
    | Internal e => Internal e
    end.
Proof. exact NameWire.from_wire_tr_erase. Qed.
Print Assumptions from_wire_tr_erase.

(* model note: from_wire_parser masks the first pointer octet with 0x3F, the model subtracts 192 *)
Theorem pointer_mask_equiv : forall c : Z, 192 <= c < 256 -> Z.land c 63 = c - 192.
Proof. exact NameWire.pointer_mask_equiv. Qed.
Print Assumptions pointer_mask_equiv.

(* ---- every producer: a valid name or a library exception, never a Python-level one ---- *)
Theorem producers_valid :
  (forall ls, good (mk_name ls)) /\
  (forall a b, good (concatenate a b)) /\
  (forall n o, Valid n -> good (relativize n o)) /\
  (forall n o, Valid n -> good (derelativize n o)) /\
  (forall n o rel, Valid n -> good (choose_relativity n o rel)) /\
  (forall n, good (parent n)) /\
  (forall n d, Valid n ->
     match split n d with Ok (p, s) => Valid p /\ Valid s | Lib _ => True | Internal _ => False end) /\
  (forall text origin, good (from_text text origin)) /\
  (forall wire start,
     match from_wire wire start with Ok (n, _) => Valid n | Lib _ => True | Internal _ => False end) /\
  (forall n o p, Valid n -> Valid o -> good (successor n o p)) /\
  (forall n o p, Valid n -> Valid o -> good (predecessor n o p)).
Proof.
  exact (conj mk_name_good (conj concatenate_good (conj relativize_good (conj derelativize_good
        (conj choose_relativity_good (conj parent_good (conj split_good (conj from_text_good
        (conj from_wire_good (conj successor_good predecessor_good)))))))))).
Qed.
Print Assumptions producers_valid.

(* dns.wire.Parser.get_name(origin): decode, then relativize *)
Theorem parser_get_name_valid : forall (wire : list Z) (start : nat) (origin : option name),
  match parser_get_name wire start origin with
  | Ok (n, _) => Valid n | Lib _ => True | Internal _ => False end.
Proof. exact NameProducers.parser_get_name_good. Qed.
Print Assumptions parser_get_name_valid.

(* ---- compression: Name.to_wire(file, table, origin, canonicalize) ---- *)
(* For every message prefix `file`, every table that is sound for it (each offset <= 0x3FFF and
   from_wire at that offset yields a name equal to the key), every valid name and origin:
   the output extends the message, the table stays sound (so the invariant carries through a
   whole message), every new offset is <= 0x3FFF, and the independent decoder from_wire, run at
   the offset where the name was written, returns a name equal to the written one under the
   library's (ASCII-case-insensitive) equality and consumes exactly the octets emitted. *)
Theorem compress_sound : forall (n : name) (origin : option name) (canon : bool)
    (file : list Z) (t : ctable) (file' : list Z) (t' : ctable) (labels : name),
  Forall (fun c => 0 <= c) file ->
  (forall k v, In (k, v) t -> Valid k) ->
  TableSoundW file t -> Valid n -> full_name n origin = Ok labels ->
  to_wire_compress n origin canon file t = Ok (file', t') ->
  exists em n',
    file' = file ++ em /\ TableSoundW file' t' /\ (forall k v, In (k, v) t' -> Valid k) /\
    from_wire file' (length file) = Ok (n', length em) /\ ci_equal n' labels /\
    (exists new, t' = t ++ new /\ Forall (fun kv => 0 <= snd kv <= 16383) new).
Proof. exact NameCompress.compress_sound_W. Qed.
Print Assumptions compress_sound.

(* the two "consumed" statements of the design, as corollaries *)
Theorem consumed_plain : forall (n : name) (pre post : list Z),
  Valid n -> is_absolute n = true ->
  exists m, from_wire (pre ++ wire_labels false n ++ post) (length pre) = Ok (m, length (wire_labels false n)).
Proof. exact NameCompress.consumed_plain. Qed.
Print Assumptions consumed_plain.

Theorem consumed_compressed : forall (n : name) (origin : option name) (canon : bool)
    (file : list Z) (t : ctable) (file' : list Z) (t' : ctable) (labels : name),
  Forall (fun c => 0 <= c) file -> (forall k v, In (k, v) t -> Valid k) ->
  TableSoundW file t -> Valid n -> full_name n origin = Ok labels ->
  to_wire_compress n origin canon file t = Ok (file', t') ->
  exists m, from_wire file' (length file) = Ok (m, (length file' - length file)%nat).
Proof. exact NameCompress.consumed_compressed. Qed.
Print Assumptions consumed_compressed.

(* byte-identical when no key of the table is a case variant of a suffix being written
   (and the name is not canonicalized) *)
Theorem compress_exact : forall (n : name) (origin : option name)
    (file : list Z) (t : ctable) (file' : list Z) (t' : ctable) (labels : name),
  TableExact file t -> Valid n -> full_name n origin = Ok labels -> NoCaseAlias t labels ->
  to_wire_compress n origin false file t = Ok (file', t') ->
  exists em,
    file' = file ++ em /\ TableExact file' t' /\
    from_wire file' (length file) = Ok (labels, length em).
Proof. exact NameCompress.compress_exact. Qed.
Print Assumptions compress_exact.

(* a whole sequence of names written through one table (what a message renderer does): the
   table invariant composes and every name is decodable, in the FINAL message, at the offset
   where it was written *)
Theorem write_names_sound : forall (origin : option name) (ns : list name)
    (file : list Z) (t : ctable) (file' : list Z) (t' : ctable),
  TableSound file t -> Forall Valid ns ->
  write_names ns origin file t = Ok (file', t') ->
  exists em offs,
    file' = file ++ em /\ TableSound file' t' /\
    Forall2 (fun n off =>
               exists labels n' c, full_name n origin = Ok labels /\
                 from_wire file' off = Ok (n', c) /\ ci_equal n' labels) ns offs.
Proof. exact NameCompress.write_names_sound. Qed.
Print Assumptions write_names_sound.

(* the relation Dec used by TableExact is exactly the decoder *)
Theorem decode_relation_sound : forall msg off ls h,
  Dec msg off off ls h -> Valid ls -> from_wire msg off = Ok (ls, (h - off)%nat).
Proof. exact NameCompress.Dec_from_wire. Qed.
Print Assumptions decode_relation_sound.

Theorem decode_relation_complete : forall msg off n c, Forall (fun c => 0 <= c) msg ->
  from_wire msg off = Ok (n, c) -> exists h, Dec msg off off n h /\ c = (h - off)%nat /\ Valid n.
Proof. exact NameCompress.from_wire_Dec. Qed.
Print Assumptions decode_relation_complete.

(* ---- non-vacuity ---- *)
Definition ex_name : name := [[119; 46; 64; 0; 255; 92; 34]; [36; 65]; []].   (* labels: w.@ NUL 0xff backslash dquote ; $A ; root *)
Example ex_valid : Valid ex_name /\ AllBytes ex_name /\ is_absolute ex_name = true.
Proof.
  split; [apply validate_iff; reflexivity|]. split; [|reflexivity].
  repeat constructor; lia.
Qed.
Example ex_text : to_text ex_name =
  [119; 92;46; 92;64; 92;48;48;48; 92;50;53;53; 92;92; 92;34; 46; 92;36; 65; 46]
  /\ from_text (to_text ex_name) None = Ok ex_name.
Proof. split; vm_compute; reflexivity. Qed.
Example ex_bad_escape : from_text [92; 50; 53; 54; 46] None = Lib eBadEscape    (* \256. (fixed d203a35) *)
                        /\ from_text [92; 50; 53; 53; 46] None = Ok [[255]; []].
Proof. split; vm_compute; reflexivity. Qed.
Example ex_wire : from_wire ([7; 7] ++ wire_labels false ex_name ++ [9]) 2 = Ok (ex_name, 12%nat).
Proof. vm_compute. reflexivity. Qed.
(* a pointer chain 9 -> 4 -> 0, and the loops / forward pointers that are rejected *)
Example ex_ptr : from_wire_tr [1; 97; 0; 0; 1; 98; 192; 0; 0; 1; 99; 192; 4] 9 = Ok ([[99]; [98]; [97]; []], 4%nat, [4%nat; 0%nat]).
Proof. vm_compute. reflexivity. Qed.
Example ex_ptr_self : from_wire [192; 0] 0 = Lib eBadPointer /\ from_wire [1; 97; 192; 2] 2 = Lib eBadPointer
                      /\ from_wire [192; 2; 0] 0 = Lib eBadPointer /\ from_wire [64; 0] 0 = Lib eBadLabelType.
Proof. repeat split; vm_compute; reflexivity. Qed.
Example ex_limits : mk_name [repeat 97 64] = Lib eLabelTooLong /\ mk_name [[]; [97]] = Lib eEmptyLabel
  /\ mk_name [repeat 97 63; repeat 97 63; repeat 97 63; repeat 97 62; []] = Lib eNameTooLong
  /\ mk_name [repeat 97 63; repeat 97 63; repeat 97 63; repeat 97 61; []]
     = Ok [repeat 97 63; repeat 97 63; repeat 97 63; repeat 97 61; []].
Proof. repeat split; vm_compute; reflexivity. Qed.

(* compression with a case variant: the second name points into the first; decoding yields the
   first spelling of the shared suffix (equal, not byte-identical) *)
Definition ex_com1 : name := [[101; 120]; [67; 79; 77]; []].            (* ex.COM. *)
Definition ex_com2 : name := [[119]; [69; 88]; [99; 111; 109]; []].     (* w.EX.com. *)
Example ex_compress :
  exists f1 t1 f2 t2,
    to_wire_compress ex_com1 None false (repeat 0 12) [] = Ok (f1, t1) /\
    to_wire_compress ex_com2 None false f1 t1 = Ok (f2, t2) /\
    from_wire f2 12 = Ok (ex_com1, 8%nat) /\
    from_wire f2 20 = Ok ([[119]; [101; 120]; [67; 79; 77]; []], 4%nat) /\
    map snd t2 = [12; 15; 20].
Proof. do 4 eexists. repeat split; vm_compute; reflexivity. Qed.
Example ex_table_sound : TableSoundW (repeat 0 12) [] /\ TableExact (repeat 0 12) [] /\ NoCaseAlias [] ex_com1.
Proof. split; [|split]; intros k v []. Qed.
(* offsets above 0x3FFF are not entered into the table *)
Example ex_no_entry_above_3fff :
  exists f1, to_wire_compress ex_com1 None false (repeat 0 16384) [] = Ok (f1, []).
Proof. eexists. vm_compute. reflexivity. Qed.

Example ex_tok : tok_get_name (to_text ex_name ++ [32; 51; 48; 48]) None = Ok ex_name
                 /\ token_end [32; 51; 48; 48] /\ token_end [].
Proof. split; [vm_compute; reflexivity|]. split; [right; exists 32, [51; 48; 48]; auto|left; reflexivity]. Qed.
