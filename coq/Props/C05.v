(* C05 - every record type's master-file text parses back to an equal record.
   Statements only; the proofs are in Proofs/Tok*.v and Proofs/RdText*.v. *)
From DV Require Import Base.Prelude Model.TokM Proofs.TokEsc Proofs.TokTxt.
Open Scope Z_scope.

(* TXT-like records (TXT, SPF, AVC, NINFO, RESINFO, WALLET): the text produced by to_styled_text for
   any non-empty list of octet strings (all 256 octet values, each string <= 255 octets) followed by
   end of line / end of input is read back by dns.rdata.from_text (peek for the generic syntax,
   Tokenizer.get_remaining, Token.unescape_to_bytes, end-of-line check) as the same list. *)
Theorem quoted_bytes_roundtrip : forall strings rest,
  strings <> [] ->
  Forall (fun s => all_bytes s = true /\ zlen s <= 255) strings ->
  (rest = [] \/ exists r, rest = 10 :: r) ->
  rdata_from_text_txt (txt_to_text strings ++ rest) = Ok strings.
Proof. exact txt_roundtrip. Qed.
Print Assumptions quoted_bytes_roundtrip.

Example quoted_bytes_roundtrip_nonvacuous :
  let strings := [[0; 9; 10; 31; 32; 34; 59; 92; 127; 128; 200; 255]; []; [40; 41]] in
  strings <> [] /\ Forall (fun s => all_bytes s = true /\ zlen s <= 255) strings /\
  rdata_from_text_txt (txt_to_text strings ++ [10]) = Ok strings.
Proof.
  split; [discriminate|]. split.
  - repeat (constructor; [split; [reflexivity|vm_compute; discriminate]|]). constructor.
  - vm_compute. reflexivity.
Qed.

(* the per-string core: Token.unescape_to_bytes inverts dns.rdata._escapify on every octet string *)
Theorem unescape_to_bytes_inverts_escapify : forall s,
  all_bytes s = true -> ub_loop (escapify s) [] = Ok s.
Proof. exact unescape_to_bytes_escapify. Qed.
Print Assumptions unescape_to_bytes_inverts_escapify.

(* the code-point path (Tokenizer.get_string = Token.unescape, then str.encode()), still used by
   GPOS/NSEC3/... and, before fix 83744a5, by HINFO/X25/ISDN/CAA/NAPTR: correct for ASCII only *)
Theorem quotedcp_roundtrip_partial : forall s,
  all_ascii s = true -> (do u <- ue_loop (escapify s) []; utf8_encode u) = Ok s.
Proof. exact codepoint_path_ascii. Qed.
Print Assumptions quotedcp_roundtrip_partial.

Theorem quotedcp_refuted :
  exists s, all_bytes s = true /\ (do u <- ue_loop (escapify s) []; utf8_encode u) <> Ok s.
Proof. exact codepoint_path_refuted. Qed.
Print Assumptions quotedcp_refuted.
