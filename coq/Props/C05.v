(* C05 - every record type's master-file text parses back to an equal record.
   Statements only; the proofs are in Proofs/Tok*.v and Proofs/RdText*.v.
   Models: Model/TokM.v (dns/tokenizer.py, text helpers of dns/rdata.py), Model/RdTextM.v (the
   to_styled_text / from_text pairs of the regular rdata types as a field language),
   Model/NameM.v (dns/name.py, shared). *)
From DV Require Import Base.Prelude Model.NameM Model.TokM Model.RdTextM.
From DV Require Import Proofs.NameValid Proofs.NameOrder Proofs.NameText.
From DV Require Import Proofs.TokEsc Proofs.TokTxt Proofs.TokWords Proofs.TokDec Proofs.TokHex
     Proofs.TokShape Proofs.TokGeneric Proofs.TokUtf8 Proofs.RdTextName Proofs.RdTextAddr Proofs.RdTextBitmap Proofs.RdTextTypes Proofs.RdTextB32 Proofs.RdTextSig Proofs.RdTextEui Proofs.RdTextFmtHex Proofs.RdTextLoc Proofs.RdTextLocAlt Proofs.RdText Proofs.RdTextRel Proofs.RdTextWire Proofs.RdTextSchemaTie.
From DV Require Model.SchemaM.
Open Scope Z_scope.

(* ------------------------------------------------------------------ character-strings *)

(* TXT-like records (TXT, SPF, AVC, NINFO, RESINFO, WALLET): the text produced by to_styled_text for
   any non-empty list of octet strings (all 256 octet values, each string <= 255 octets) followed by
   end of line / end of input is read back by dns.rdata.from_text (peek for the generic syntax,
   Tokenizer.get_remaining, Token.unescape_to_bytes, end-of-line check) as the same list. *)
Theorem quoted_bytes_roundtrip : forall strings rest,
  strings <> [] ->
  Forall (fun s => all_bytes s = true /\ zlen s <= 255) strings ->
  (rest = [] \/ exists r, rest = 10 :: r) ->
  rdata_from_text_txt (txt_to_text strings ++ rest) = Ok strings.
Proof. exact txt_roundtrip. Qed.
Print Assumptions quoted_bytes_roundtrip.

Example quoted_bytes_roundtrip_nonvacuous :
  let strings := [[0; 9; 10; 31; 32; 34; 59; 92; 127; 128; 200; 255]; []; [40; 41]] in
  strings <> [] /\ Forall (fun s => all_bytes s = true /\ zlen s <= 255) strings /\
  rdata_from_text_txt (txt_to_text strings ++ [10]) = Ok strings.
Proof.
  split; [discriminate|]. split.
  - repeat (constructor; [split; [reflexivity|vm_compute; discriminate]|]). constructor.
  - vm_compute. reflexivity.
Qed.

(* the per-string core: Token.unescape_to_bytes inverts dns.rdata._escapify on every octet string *)
Theorem unescape_to_bytes_inverts_escapify : forall s,
  all_bytes s = true -> ub_loop (escapify s) [] = Ok s.
Proof. exact unescape_to_bytes_escapify. Qed.
Print Assumptions unescape_to_bytes_inverts_escapify.

(* the code-point path (Tokenizer.get_string = Token.unescape, then str.encode()), still used by
   GPOS/NSEC3/... and, before fix 83744a5, by HINFO/X25/ISDN/CAA/NAPTR: correct for ASCII only *)
Theorem quotedcp_roundtrip_partial : forall s,
  all_ascii s = true -> (do u <- ue_loop (escapify s) []; utf8_encode u) = Ok s.
Proof. exact codepoint_path_ascii. Qed.
Print Assumptions quotedcp_roundtrip_partial.

Theorem quotedcp_refuted :
  exists s, all_bytes s = true /\ (do u <- ue_loop (escapify s) []; utf8_encode u) <> Ok s.
Proof. exact codepoint_path_refuted. Qed.
Print Assumptions quotedcp_refuted.

(* RdataStyle.txt_is_utf8 (documented as lossless): strings that are well-formed UTF-8 are printed as
   characters by _escapify_unicode, the others octet-wise; both settings read back as the octets.
   utf8_decode is the strict decoder (Unicode table 3-7) and is the left inverse of str.encode(). *)
Theorem quoted_bytes_roundtrip_styles : forall utf8 strings rest,
  strings <> [] ->
  Forall (fun s => all_bytes s = true /\ zlen s <= 255) strings ->
  (rest = [] \/ exists r, rest = 10 :: r) ->
  rdata_from_text_txt (txt_to_text_style utf8 strings ++ rest) = Ok strings.
Proof. exact txt_roundtrip_style. Qed.
Print Assumptions quoted_bytes_roundtrip_styles.

Theorem utf8_decode_then_encode : forall s u,
  utf8_decode s = Some u -> utf8_encode u = Ok s /\ Forall (fun c => 0 <= c) u.
Proof. exact utf8_decode_encode. Qed.
Print Assumptions utf8_decode_then_encode.

Example quoted_bytes_roundtrip_styles_nonvacuous :
  (* U+00A0, U+200B, U+3000, a control character, a quote; then an ill-formed sequence *)
  let strings := [[194; 160; 226; 128; 139; 227; 128; 128; 1; 34]; [192; 128; 255]] in
  txt_to_text_style true strings
    = [34; 160; 8203; 12288; 92; 48; 48; 49; 92; 34; 34; 32; 34; 92; 49; 57; 50; 92; 49; 50; 56; 92; 50; 53; 53; 34]
  /\ rdata_from_text_txt (txt_to_text_style true strings ++ [10]) = Ok strings.
Proof. split; vm_compute; reflexivity. Qed.

(* ------------------------------------------------------------------ numbers, hex, base64, chunking *)

(* f"{n}" read back by Tokenizer.as_uintN (int() of the token), any width *)
Theorem decimal_field_roundtrip : forall maxv n,
  0 <= n <= maxv -> as_uint maxv (mkTok tIDENT (dec n) false None) 10 = Ok n.
Proof. exact as_uint_dec. Qed.
Print Assumptions decimal_field_roundtrip.

Theorem ttl_field_roundtrip : forall n, 0 <= n <= MAX_TTL -> ttl_from_text (dec n) = Ok n.
Proof. exact ttl_from_text_dec. Qed.
Print Assumptions ttl_field_roundtrip.

Theorem hex_roundtrip : forall d, all_bytes d = true -> unhexlify (hexlify d) = Ok d.
Proof. exact unhexlify_hexlify. Qed.
Print Assumptions hex_roundtrip.

Theorem base64_roundtrip : forall d, all_bytes d = true -> b64decode (b64encode d) = Ok d.
Proof. exact b64decode_b64encode. Qed.
Print Assumptions base64_roundtrip.

(* NSEC3 next hashed owner: base32hex, lower case, padding stripped on output and restored on input
   (base64.b32encode / b32decode with the two translation tables) *)
Theorem base32hex_roundtrip : forall d, all_bytes d = true -> b32hex_decode (b32hex_encode d) = Ok d.
Proof. exact b32hex_roundtrip. Qed.
Print Assumptions base32hex_roundtrip.

(* _wordbreak with ANY chunk size and any separator made of blanks: the tokenizer's
   concatenate_remaining_identifiers returns the unbroken string (hex and base64 alphabets consist of
   "safe" characters: no delimiter, no backslash) *)
Theorem chunked_text_roundtrip : forall w chunk sep rest allow_empty,
  forallb safe w = true -> forallb is_blank sep = true ->
  (rest = [] \/ exists r, rest = 10 :: r) -> (allow_empty = true \/ w <> []) ->
  exists te st, is_eol_or_eof te = true /\ ungot st = Some te /\
    concatenate_remaining_identifiers (mkSt (wordbreak w chunk sep ++ rest) 0%nat false None) allow_empty
    = Ok (w, st).
Proof. exact chunked_wordbreak_roundtrip. Qed.
Print Assumptions chunked_text_roundtrip.

Theorem hex_and_base64_alphabets_are_safe : forall d, all_bytes d = true ->
  forallb safe (hexlify d) = true /\ forallb safe (b64encode d) = true.
Proof. exact alphabets_safe. Qed.
Print Assumptions hex_and_base64_alphabets_are_safe.

(* ------------------------------------------------------------------ address text (dns/ipv4.py, dns/ipv6.py) *)

(* inet_aton (inet_ntoa a) = a for every 4-octet / 16-octet string: dotted quad; for IPv6 the longest
   zero run written as `::` (anywhere, including the all-zero address), the embedded IPv4 forms
   `::a.b.c.d` and `::ffff:a.b.c.d`, leading zeros of each group stripped.  Used by A, AAAA, L32 (in the
   schema below), APL, IPSECKEY/AMTRELAY gateways, WKS. *)
Theorem ipv4_text_roundtrip : forall a, all_bytes a = true -> length a = 4%nat ->
  exists t, ipv4_ntoa a = Ok t /\ ipv4_aton t = Ok a.
Proof. exact ipv4_roundtrip. Qed.
Print Assumptions ipv4_text_roundtrip.

Theorem ipv6_text_roundtrip : forall a, all_bytes a = true -> length a = 16%nat ->
  exists t, ipv6_ntoa a = Ok t /\ ipv6_aton t = Ok a.
Proof. exact ipv6_roundtrip. Qed.
Print Assumptions ipv6_text_roundtrip.

Example ipv6_text_examples :
  ipv6_ntoa [32; 1; 13; 184; 0; 0; 0; 0; 0; 0; 0; 0; 0; 0; 0; 1]
    = Ok [50; 48; 48; 49; 58; 100; 98; 56; 58; 58; 49]                          (* 2001:db8::1 *)
  /\ ipv6_ntoa [0; 0; 0; 0; 0; 0; 0; 0; 0; 0; 255; 255; 1; 2; 3; 4]
    = Ok [58; 58; 102; 102; 102; 102; 58; 49; 46; 50; 46; 51; 46; 52]            (* ::ffff:1.2.3.4 *)
  /\ ipv6_aton [58; 58] = Ok (repeat 0 16).
Proof. repeat split; vm_compute; reflexivity. Qed.

(* ------------------------------------------------------------------ NSEC / NSEC3 / CSYNC type bitmaps *)

(* dns/rdtypes/util.py Bitmap: the types printed by Bitmap.to_text (in that order), read back by
   Bitmap.from_rdtypes (sort, skip duplicates, open a new window when the window number changes, set the
   bit, remember the highest octet used), give the same windows - for every canonical bitmap (RFC 4034
   4.1.2: window numbers increasing, 1..32 octets, last octet not zero; bit 0 of window 0 clear because
   type 0 cannot be written).  The mnemonic layer (dns.rdatatype.to_text/from_text) is checked by the
   correspondence (op 54 reads the printed mnemonics back). *)
Theorem type_bitmap_roundtrip : forall ws,
  canon_from (-1) ws -> no_type0 ws -> from_rdtypes (bitmap_types ws) = ws.
Proof. exact bitmap_text_roundtrip. Qed.
Print Assumptions type_bitmap_roundtrip.

(* dns/rdatatype.py: RdataType.from_text (RdataType.to_text v) = v for every type value (mnemonic, with
   '_' printed as '-', or TYPEnnn), and the printed form is a non-empty tokenizer word: finite sweep over
   the 65536 values.  With type_bitmap_roundtrip this puts NSEC and CSYNC under text_roundtrip_schema. *)
Theorem type_mnemonic_roundtrip : forall v, 0 <= v < 65536 ->
  exists n, rdtype_to_text v = Ok n /\ n <> [] /\ forallb safe n = true /\ rdtype_from_text n = Ok v.
Proof. exact rdtype_facts. Qed.
Print Assumptions type_mnemonic_roundtrip.

Example type_bitmap_roundtrip_nonvacuous :
  (* A RRSIG NSEC (window 0, 6 octets) and CAA (window 1, 1 octet): the later window is shorter *)
  let ws := [(0, [64; 0; 0; 0; 0; 3]); (1, [64])] in
  canon_from (-1) ws /\ no_type0 ws /\ bitmap_types ws = [1; 46; 47; 257] /\ from_rdtypes [1; 46; 47; 257] = ws.
Proof.
  cbv zeta. split.
  - cbn [canon_from fst]. unfold canon_window. cbn [fst snd]. repeat split; try lia; try discriminate; vm_compute; discriminate.
  - split; [intros _; reflexivity|]. split; vm_compute; reflexivity.
Qed.

(* ------------------------------------------------------------------ RFC 3597 generic form *)

(* unknown type: GenericRdata.to_styled_text / dns.rdata.from_text, any hex chunk size, blank separators *)
Theorem generic_roundtrip : forall d chunk sep rest,
  all_bytes d = true -> forallb is_blank sep = true -> (rest = [] \/ exists r, rest = 10 :: r) ->
  rdata_from_text_generic (generic_to_text d chunk sep ++ rest) = Ok d.
Proof. exact generic_roundtrip_unknown. Qed.
Print Assumptions generic_roundtrip.

(* known type written in generic syntax: for ANY type whose wire codec round-trips on v (fw/tw are
   the type's from_wire / to_wire), dns.rdata.from_text of the generic text of to_wire(v) is v *)
Theorem generic_roundtrip_known_type : forall (V : Type) (ft : tstate -> res (V * tstate))
    (fw : list Z -> res V) (tw : V -> res (list Z)) (v : V) (w : list Z) chunk sep rest,
  tw v = Ok w -> fw w = Ok v -> all_bytes w = true -> forallb is_blank sep = true ->
  (rest = [] \/ exists r, rest = 10 :: r) ->
  rdata_from_text ft fw tw (generic_to_text w chunk sep ++ rest) = Ok v.
Proof. intros V. exact (@generic_roundtrip_known V). Qed.
Print Assumptions generic_roundtrip_known_type.

(* instance with a real wire codec: the TXT-like types *)
Theorem generic_roundtrip_txt : forall strings chunk sep rest,
  strings <> [] -> Forall (fun s => all_bytes s = true /\ zlen s <= 255) strings ->
  forallb is_blank sep = true -> (rest = [] \/ exists r, rest = 10 :: r) ->
  rdata_from_text_txt (generic_to_text (txt_to_wire strings) chunk sep ++ rest) = Ok strings.
Proof. exact txt_generic_roundtrip. Qed.
Print Assumptions generic_roundtrip_txt.

Example generic_roundtrip_nonvacuous :
  rdata_from_text_generic (generic_to_text [0; 255; 16] 2 [32; 9] ++ [10]) = Ok [0; 255; 16]
  /\ generic_to_text [0; 255; 16] 2 [32; 9] = [92; 35; 32; 51; 32; 48; 48; 32; 9; 102; 102; 32; 9; 49; 48].
Proof. split; vm_compute; reflexivity. Qed.

(* ------------------------------------------------------------------ signature times *)

(* RRSIG / SIG inception and expiration (dns/rdtypes/rrsigbase.py): posixtime_to_sigtime prints the
   32-bit time as YYYYMMDDHHMMSS (time.gmtime, modelled by the civil-from-days algorithm) and
   sigtime_to_posixtime reads it back (string slices, int(), the proleptic Gregorian day count of
   calendar.timegm): equal for every value of the field, the text being one tokenizer word. *)
Theorem sigtime_text_roundtrip : forall t, 0 <= t <= 4294967295 ->
  sigtime_to_posixtime (posixtime_to_sigtime t) = Ok t
  /\ forallb safe (posixtime_to_sigtime t) = true /\ posixtime_to_sigtime t <> [].
Proof. exact sigtime_roundtrip. Qed.
Print Assumptions sigtime_text_roundtrip.

Example sigtime_examples :
  posixtime_to_sigtime 0 = [49;57;55;48;48;49;48;49;48;48;48;48;48;48]                   (* 19700101000000 *)
  /\ posixtime_to_sigtime 951782399 = [50;48;48;48;48;50;50;56;50;51;53;57;53;57]        (* 20000228235959 *)
  /\ posixtime_to_sigtime 951782400 = [50;48;48;48;48;50;50;57;48;48;48;48;48;48]        (* 20000229000000 *)
  /\ posixtime_to_sigtime 4294967295 = [50;49;48;54;48;50;48;55;48;54;50;56;49;53]       (* 21060207062815 *)
  /\ sigtime_to_posixtime [50;49;48;54;48;50;48;55;48;54;50;56;49;53] = Ok 4294967295.
Proof. repeat split; vm_compute; reflexivity. Qed.

(* ------------------------------------------------------------------ EUI48 / EUI64 *)

(* dns/rdtypes/euibase.py: the octets printed as hex pairs joined by "-" (one tokenizer word) are read
   back - text length, dash positions, dashes removed, unhexlify, octet count - as the same octets;
   stated for every length n > 0 (the two types use 6 and 8). *)
Theorem eui_text_roundtrip : forall n b, all_bytes b = true -> length b = n -> (0 < n)%nat ->
  eui_from_text n (eui_to_text b) = Ok b /\ forallb safe (eui_to_text b) = true /\ eui_to_text b <> [].
Proof. exact eui_roundtrip. Qed.
Print Assumptions eui_text_roundtrip.

Example eui_examples :
  eui_to_text [0; 1; 35; 171; 205; 255] = [48;48;45;48;49;45;50;51;45;97;98;45;99;100;45;102;102]   (* 00-01-23-ab-cd-ff *)
  /\ eui_from_text 6 [48;48;45;48;49;45;50;51;45;65;66;45;99;100;45;102;102] = Ok [0; 1; 35; 171; 205; 255]
  /\ eui_from_text 6 [48;48;45;48;49;45;50;51;45;97;98;45;99;100;45;102] = Lib eSyntax
  /\ eui_from_text 6 [48;48;58;48;49;45;50;51;45;97;98;45;99;100;45;102;102] = Lib eSyntax
  /\ schema_of 108 = Some [FEui 6] /\ schema_of 109 = Some [FEui 8].
Proof. repeat split; vm_compute; reflexivity. Qed.

(* ------------------------------------------------------------------ A in class CH *)

(* dns/rdtypes/CH/A.py: the 16-bit address printed with f"{address:o}" is one tokenizer word and reads
   back through get_uint16(base=8), for all 65536 addresses (finite sweep) *)
Theorem octal_field_roundtrip : forall v, 0 <= v <= 65535 ->
  print_base 8 v <> [] /\ forallb safe (print_base 8 v) = true /\
  as_uint max16 (mkTok tIDENT (print_base 8 v) false None) 8 = Ok v.
Proof. exact octal_facts. Qed.
Print Assumptions octal_field_roundtrip.

Example octal_examples :
  print_base 8 4660 = [49; 49; 48; 54; 52] /\ print_base 8 0 = [48] /\ print_base 8 65535 = [49; 55; 55; 55; 55; 55]
  /\ as_uint max16 (mkTok tIDENT [49; 56] false None) 8 = Lib eSyntax           (* "18" is not octal *)
  /\ schema_of CH_A = Some [FName; FOct16].
Proof. repeat split; vm_compute; reflexivity. Qed.

(* ------------------------------------------------------------------ NID / L64 *)

(* dns/rdtypes/ANY/NID.py, L64.py keep the 64-bit value as the text xxxx:xxxx:xxxx:xxxx and validate it with
   dns.rdtypes.util.parse_formatted_hex (after fix 18da675: hexadecimal digits only).  A validated text is
   one tokenizer word (so it is printed and read back verbatim by the schema theorem), and the text the
   constructor builds from 8 octets (from_wire) is valid. *)
Theorem formatted_hex_text_is_word : forall t, fmthex_ok t = true -> forallb safe t = true /\ t <> [].
Proof. exact fmthex_word. Qed.
Print Assumptions formatted_hex_text_is_word.

Theorem formatted_hex_of_octets_valid : forall b, all_bytes b = true -> length b = 8%nat ->
  fmthex_ok (fmthex_of_bytes b) = true.
Proof. exact fmthex_of_bytes_ok. Qed.
Print Assumptions formatted_hex_of_octets_valid.

Example formatted_hex_examples :
  fmthex_of_bytes [0; 20; 79; 255; 255; 32; 238; 100]
  = [48;48;49;52;58;52;102;102;102;58;102;102;50;48;58;101;101;54;52]                 (* 0014:4fff:ff20:ee64 *)
  /\ fmthex_ok [50;48;48;49;58;48;68;66;56;58;49;49;52;48;58;49;48;48;48] = true       (* 2001:0DB8:1140:1000 *)
  /\ fmthex_ok [32;49;50;51;58;48;48;48;48;58;48;48;48;48;58;48;48;48;48] = false      (* " 123:..." (before the fix: accepted) *)
  /\ fmthex_ok [48;120;49;50;58;48;48;48;48;58;48;48;48;48;58;48;48;48;48] = false     (* 0x12:... *)
  /\ fmthex_ok [50;48;48;49;58;48;68;66;56;58;49;49;52;48;45;49;48;48;48] = false      (* wrong separator *)
  /\ schema_of 104 = Some [u16; FFmtHex] /\ schema_of 106 = Some [u16; FFmtHex].
Proof. repeat split; vm_compute; reflexivity. Qed.

(* ------------------------------------------------------------------ LOC *)

(* dns/rdtypes/ANY/LOC.py keeps the altitude and the three sizes as floats and prints them with
   format(x / 100.0, "0.2f"); from_text reads float(t) * 100.0.  The model does this in IEEE-754 double arithmetic
   (round_q: correctly rounded, ties to even; compared with CPython on every run).  The record-level theorem
   (FLocRec case of text_roundtrip_schema) reduces the round trip to the per-number map num_reparse; for the
   numbers that records read from wire contain it is settled here:
   - the sizes base * 10^exponent cm (RFC 1876, 100 values): the two-decimal text reads back, through
     float(_decode_size(_encode_size(.))) of fix d18c8f0, to exactly the same float;
   - the altitude (whole cm): round(float(text) * 100.0) is the altitude again for every value of the 32-bit wire
     range, by error bounds on the three correctly rounded operations (no sweep). *)
Theorem loc_sizes_from_wire_roundtrip : forall b e, 0 <= b <= 9 -> 0 <= e <= 9 ->
  loc_norm (num_reparse (wire_size b e)) = Ok (wire_size b e) /\ 0 <= dm (wire_size b e).
Proof. exact wire_size_roundtrip. Qed.
Print Assumptions loc_sizes_from_wire_roundtrip.

Theorem loc_altitude_roundtrip : forall alt, -10000000 <= alt < 4284967296 ->
  exists a', num_reparse (the_dbl (dbl_of_Z alt)) = FFin a' /\ dbl_round a' = alt.
Proof. exact altitude_roundtrip. Qed.
Print Assumptions loc_altitude_roundtrip.

(* hence a LOC whose sizes are wire values is read back exactly (loc_expect is what the FLocRec case of
   text_roundtrip_schema returns) *)
Theorem loc_from_wire_reads_back_exactly : forall la lo alt sz hp vp,
  is_wire_size sz -> is_wire_size hp -> is_wire_size vp -> loc_expect la lo alt sz hp vp = VLoc la lo alt sz hp vp.
Proof. exact loc_expect_wire. Qed.
Print Assumptions loc_from_wire_reads_back_exactly.

(* the rounding primitive: for 2^-10 <= n/d < 2^40 the result is finite and within half a unit of its last place *)
Theorem double_rounding_spec : forall neg n d, 0 < n -> 0 < d -> d <= n * 2 ^ 10 -> n < d * 2 ^ 40 ->
  exists m e, round_q neg n d = FFin (mkD neg m e) /\ -64 <= e <= -11 /\ 0 <= m /\
    Z.abs (m * d - n * 2 ^ (- e)) * 2 <= d.
Proof. exact round_q_spec. Qed.
Print Assumptions double_rounding_spec.

(* ------------------------------------------------------------------ whole records *)

(* The regular rdata types as field lists (schema_of): decimal fields of every width, TTLs, names,
   quoted character-strings, rest-of-line hex / base64, TXT strings.  For every well-formed schema,
   all field values within the constructor's ranges, every style whose chunk separators are blanks
   (any chunk sizes, any origin/relativize) and every parsing context (origin, relativize,
   relativize_to): dns.rdata.from_text of the printed text returns the values, names being mapped by
   the name-level effect `name_path` of the two relativization choices (no text involved). *)
Theorem text_roundtrip_schema : forall sty c fs chk vs text vs' rest fw tw,
  schema_wf fs -> Forall2 val_ok fs vs -> style_ok sty -> (rest = [] \/ exists r, rest = 10 :: r) ->
  record_to_text sty fs vs = Ok text -> expects sty c fs vs = Ok vs' -> chk vs' = Ok tt ->
  record_from_text_gen fw tw c fs chk (text ++ rest) = Ok vs'.
Proof. exact record_roundtrip. Qed.
Print Assumptions text_roundtrip_schema.

(* every schema of the table is well-formed *)
Theorem schema_table_wf : forall rdtype fs, schema_of rdtype = Some fs -> schema_wf fs.
Proof. exact schema_table_wf_all. Qed.
Print Assumptions schema_table_wf.

(* the two together, per record type of the table: no side condition on the schema is left, and the
   cross-field check is the type's own (schema_chk) *)
Theorem text_roundtrip_every_schema_type : forall rdtype fs sty c vs text vs' rest fw tw,
  schema_of rdtype = Some fs ->
  Forall2 val_ok fs vs -> style_ok sty -> (rest = [] \/ exists r, rest = 10 :: r) ->
  record_to_text sty fs vs = Ok text -> expects sty c fs vs = Ok vs' -> schema_chk rdtype vs' = Ok tt ->
  record_from_text_gen fw tw c fs (schema_chk rdtype) (text ++ rest) = Ok vs'.
Proof. exact record_roundtrip_type. Qed.
Print Assumptions text_roundtrip_every_schema_type.

(* names printed and parsed without any origin: exactly the same values (asis_vals is the identity except on the
   three LOC sizes, which come back as re-read from their two-decimal text; see the LOC section) *)
Theorem text_roundtrip_asis : forall sty c fs chk vs text rest fw tw,
  schema_wf fs -> Forall2 val_ok fs vs -> style_ok sty -> (rest = [] \/ exists r, rest = 10 :: r) ->
  s_origin sty = None -> p_origin c = None -> p_relativize_to c = None ->
  record_to_text sty fs vs = Ok text -> chk (asis_vals fs vs) = Ok tt ->
  record_from_text_gen fw tw c fs chk (text ++ rest) = Ok (asis_vals fs vs).
Proof. exact record_roundtrip_asis. Qed.
Print Assumptions text_roundtrip_asis.

Theorem asis_is_identity_without_loc : forall fs vs, length fs = length vs ->
  existsb (fun f => match f with FLocRec => true | _ => false end) fs = false -> asis_vals fs vs = vs.
Proof. exact asis_vals_id. Qed.
Print Assumptions asis_is_identity_without_loc.

(* relativity: a name below the (absolute) origin, relativized on output and read back with the same
   origin, is relativize(n, origin) when relativize=True and a name equal to n up to ASCII case
   (the origin's own spelling) when relativize=False *)
Theorem name_relativity_relout : forall sty n x o (rel_in : bool),
  Valid n -> Valid (x :: o) -> is_absolute (x :: o) = true -> is_subdomain n (x :: o) = true ->
  exists r, relativize n (x :: o) = Ok r /\ ci_equal (r ++ x :: o) n /\
    name_path (sty_rel sty (x :: o) true) (mkPctx (Some (x :: o)) rel_in None) n
    = Ok (if rel_in then r else r ++ x :: o).
Proof. exact name_path_relout. Qed.
Print Assumptions name_relativity_relout.

(* a relative name made absolute on output reads back, without origin, as the absolute name *)
Theorem name_relativity_absout : forall sty r x o,
  Valid (r ++ x :: o) -> is_absolute r = false ->
  name_path (sty_rel sty (x :: o) false) (mkPctx None true None) r = Ok (r ++ x :: o).
Proof. exact name_path_absout. Qed.
Print Assumptions name_relativity_absout.

(* non-vacuity: an SOA and a NAPTR with awkward octets, origin ex., relativized output, chunking *)
Definition ex_origin : name := [[101; 120]; []].
Definition ex_sty : style := mkStyle (Some ex_origin) true 3 [32; 9] 5 [32] true.
Definition ex_ctx : pctx := mkPctx (Some ex_origin) true None.
Definition ex_soa : list tval :=
  [VName [[64; 46; 0]; [101; 120]; []]; VName [[]]; VInt 4294967295; VInt 0; VInt 1; VInt 7; VInt 2147483647].
Definition ex_naptr : list tval :=
  [VInt 65535; VInt 0; VBytes [34; 92; 200]; VBytes []; VBytes [59; 40]; VName [[255]; [69; 88]; []]].
Definition ex_rrsig : list tval :=
  [VInt 65280; VInt 13; VInt 255; VInt 2147483647; VInt 4294967295; VInt 951782400; VInt 65535;
   VName [[115]; [101; 120]; []]; VBytes [0; 255; 62; 63]].
Definition ex_soa_fs : list tfield := [FName; FName; u32; FTtl; FTtl; FTtl; FTtl].
Definition ex_naptr_fs : list tfield := [u16; u16; cstr; cstr; cstr; FName].

Example text_roundtrip_schema_hypotheses :
  schema_of 6 = Some ex_soa_fs /\ schema_of 35 = Some ex_naptr_fs /\ style_ok ex_sty /\
  Forall2 val_ok ex_soa_fs ex_soa /\ Forall2 val_ok ex_naptr_fs ex_naptr /\
  exists fs, schema_of 46 = Some fs /\ schema_of 24 = Some fs /\ Forall2 val_ok fs ex_rrsig.
Proof.
  assert (N : forall n, validate_labels n = Ok tt -> Forall (fun l => forallb is_byte l = true) n -> Valid n /\ AllBytes n).
  { intros n H1 H2. split; [apply validate_iff, H1|]. unfold AllBytes.
    eapply Forall_impl; [|exact H2]. intros l Hl. rewrite forallb_forall in Hl. apply Forall_forall.
    intros x Hx. apply is_byte_range, Hl, Hx. }
  split; [reflexivity|]. split; [reflexivity|]. split.
  { split; [reflexivity|]. split; [reflexivity|]. apply N; [reflexivity|repeat constructor]. }
  split; [|split].
  - unfold ex_soa_fs, ex_soa, u32. repeat (apply Forall2_cons || apply Forall2_nil); cbn [val_ok];
      try (apply N; [reflexivity|repeat constructor]); unfold MAX_TTL; lia.
  - unfold ex_naptr_fs, ex_naptr, u16, cstr. repeat (apply Forall2_cons || apply Forall2_nil); cbn [val_ok];
      try (apply N; [reflexivity|repeat constructor]); try lia;
      (split; [reflexivity|]; split; [left; reflexivity|]; split; [right; unfold zlen; cbn; lia|discriminate]).
  - eexists. split; [reflexivity|]. split; [reflexivity|]. unfold ex_rrsig.
    repeat (apply Forall2_cons || apply Forall2_nil); cbn [val_ok enum_max];
      try (apply N; [reflexivity|repeat constructor]); try (unfold MAX_TTL; lia).
    split; [reflexivity|discriminate].
Qed.

Example text_roundtrip_schema_computed :
  (do text <- record_to_text ex_sty ex_soa_fs ex_soa; record_from_text ex_ctx ex_soa_fs no_check (text ++ [10]))
  = Ok (VName [[64; 46; 0]] :: tl ex_soa)
  /\ expects ex_sty ex_ctx ex_soa_fs ex_soa = Ok (VName [[64; 46; 0]] :: tl ex_soa)
  /\ (do text <- record_to_text ex_sty ex_naptr_fs ex_naptr; record_from_text ex_ctx ex_naptr_fs no_check text)
    = Ok [VInt 65535; VInt 0; VBytes [34; 92; 200]; VBytes []; VBytes [59; 40]; VName [[255]]]
  /\ match schema_of 46 with
     | Some fs => (do text <- record_to_text ex_sty fs ex_rrsig; record_from_text ex_ctx fs (schema_chk 46) text)
                  = Ok [VInt 65280; VInt 13; VInt 255; VInt 2147483647; VInt 4294967295; VInt 951782400; VInt 65535;
                        VName [[115]]; VBytes [0; 255; 62; 63]]
     | None => False
     end.
Proof. split; [vm_compute; reflexivity|]. split; [vm_compute; reflexivity|]. split; vm_compute; reflexivity. Qed.

(* the checks relating several fields (chk): DS / CDS / DLV digest length by digest type, ZONEMD *)
Example record_check_examples :
  match schema_of 43, schema_of 59, schema_of 63 with
  | Some fs, Some cfs, Some zfs =>
      let vs := [VInt 60485; VInt 5; VInt 1; VBytes (repeat 171 20)] in
      let del := [VInt 0; VInt 0; VInt 0; VBytes [0]] in
      let z := [VInt 2018031900; VInt 1; VInt 1; VBytes (repeat 7 48)] in
      schema_chk 43 vs = Ok tt
      /\ (do text <- record_to_text ex_sty fs vs; record_from_text ex_ctx fs (schema_chk 43) text) = Ok vs
      (* one octet less: it prints, but the constructor's length check rejects it *)
      /\ (do text <- record_to_text ex_sty fs [VInt 60485; VInt 5; VInt 1; VBytes (repeat 171 19)];
          record_from_text ex_ctx fs (schema_chk 43) text) = Lib eSyntax
      (* the CDS "delete" form is a CDS but not a DS *)
      /\ (do text <- record_to_text ex_sty cfs del; record_from_text ex_ctx cfs (schema_chk 59) text) = Ok del
      /\ (do text <- record_to_text ex_sty fs del; record_from_text ex_ctx fs (schema_chk 43) text) = Lib eSyntax
      /\ (do text <- record_to_text ex_sty zfs z; record_from_text ex_ctx zfs (schema_chk 63) text) = Ok z
  | _, _, _ => False
  end.
Proof. vm_compute. repeat split; reflexivity. Qed.

(* optional and list-valued last fields: ISDN with and without subaddress, HIP with rendezvous servers
   (relativized on output, read back with the same origin), TKEY with and without other data *)
Example tail_field_examples :
  match schema_of 20, schema_of 55, schema_of 249 with
  | Some isdn, Some hip, Some tkey =>
      let i1 := [VBytes [49; 34; 200]; VBytes [0; 92]] in
      let i2 := [VBytes [49; 34; 200]; VBytes []] in
      let h := [VInt 2; VBytes [32; 1; 255]; VBytes [3; 1; 0; 1; 183]; VNames [[[114; 118; 115]; [101; 120]; []]; [[92; 46]; [111]; []]]] in
      let t1 := [VName [[103; 115; 115]; []]; VInt 0; VInt 4294967295; VInt 3; VInt 0; VBytes [1; 2; 3]; VBytes []] in
      let t2 := [VName [[103; 115; 115]; []]; VInt 0; VInt 4294967295; VInt 3; VInt 0; VBytes [1; 2; 3]; VBytes [255]] in
      (do text <- record_to_text ex_sty isdn i1; record_from_text ex_ctx isdn (schema_chk 20) text) = Ok i1
      /\ (do text <- record_to_text ex_sty isdn i2; record_from_text ex_ctx isdn (schema_chk 20) (text ++ [10])) = Ok i2
      /\ (do text <- record_to_text ex_sty hip h; record_from_text ex_ctx hip (schema_chk 55) text)
         = Ok [VInt 2; VBytes [32; 1; 255]; VBytes [3; 1; 0; 1; 183]; VNames [[[114; 118; 115]]; [[92; 46]; [111]; []]]]
      /\ (do text <- record_to_text ex_sty tkey t1; record_from_text ex_ctx tkey (schema_chk 249) text) = Ok t1
      /\ (do text <- record_to_text ex_sty tkey t2; record_from_text ex_ctx tkey (schema_chk 249) (text ++ [10])) = Ok t2
  | _, _, _ => False
  end.
Proof. vm_compute. repeat split; reflexivity. Qed.

(* IEEE-754 checks: 1.15 * 100.0 = 114.99999999999999 (int 114, round 115); 0.29 * 100.0 truncates to 28;
   a LOC with default sizes (omitted), one with explicit sizes, sizes that the wire form cannot hold *)
Example loc_examples :
  (match float_of_text [49; 46; 49; 53] with
   | Ok x => match fmul100 x with FFin d => Some (dm d, de d, dbl_round d, dbl_trunc d) | _ => None end
   | _ => None end) = Some (8092405580431359, -46, 115, 114)
  /\ (match float_of_text [48; 46; 50; 57] with
      | Ok x => match fmul100 x with FFin d => Some (dbl_trunc d) | _ => None end | _ => None end) = Some 28
  /\ match schema_of 29 with
     | Some loc =>
         let l1 := [VLoc (42, 21, 54, 0, 1) (71, 6, 18, 0, -1) (-2400) loc_default_size loc_default_hprec loc_default_vprec] in
         let l2 := [VLoc (90, 0, 0, 1, -1) (0, 0, 0, 999, 1) 4284967295 (wire_size 7 0) (wire_size 1 6) (wire_size 0 0)] in
         (do text <- record_to_text ex_sty loc l1; Ok text)
         = Ok [52;50;32;50;49;32;53;52;46;48;48;48;32;78;32;55;49;32;54;32;49;56;46;48;48;48;32;87;32;45;50;52;46;48;48;109]
         /\ (do text <- record_to_text ex_sty loc l1; record_from_text ex_ctx loc (schema_chk 29) text) = Ok l1
         /\ (do text <- record_to_text ex_sty loc l2; record_from_text ex_ctx loc (schema_chk 29) (text ++ [10])) = Ok l2
         (* 0.07m is re-read as 7.000000000000001 cm and kept as 7 cm *)
         /\ the_dbl (num_reparse (wire_size 7 0)) <> wire_size 7 0 /\ loc_norm (num_reparse (wire_size 7 0)) = Ok (wire_size 7 0)
         (* a size given in the text that the wire form cannot hold: 0.079m is kept as 7 cm, 29m as 20m *)
         /\ record_from_text ex_ctx loc (schema_chk 29)
              [49;32;78;32;49;32;69;32;48;32;48;46;48;55;57;109;32;50;57;109;32;49;109]
            = Ok [VLoc (1, 0, 0, 0, 1) (1, 0, 0, 0, 1) 0 (wire_size 7 0) (wire_size 2 3) (wire_size 1 2)]
     | None => False
     end.
Proof. vm_compute. repeat split; try reflexivity; discriminate. Qed.

(* SVCB / HTTPS: mandatory + alpn with a comma and a backslash inside an id (two levels of escaping) + port +
   hints + ech + an unregistered key with binary data + a valueless key; AliasMode; the record is read back; a
   duplicate key and parameters in AliasMode are rejected *)
Example svcb_examples :
  match schema_of 64, schema_of 65 with
  | Some svcb, Some https =>
      let ps := [(0, PKeys [1; 3]); (1, PStrs [[104; 50]; [97; 44; 92; 34]]); (3, PPort 8443);
                 (4, PAddrs false [[192; 0; 2; 1]; [10; 0; 0; 255]]); (5, PEch [1; 2; 3]);
                 (6, PAddrs true [[32; 1; 13; 184; 0; 0; 0; 0; 0; 0; 0; 0; 0; 0; 0; 1]]);
                 (8, PNone); (65000, PGen [0; 255; 34; 32])] in
      let r1 := [VSvcb 16 [[115; 118; 99]; [101; 120]; []] ps] in
      let r0 := [VSvcb 0 [[]] []] in
      svcb = https
      /\ (do text <- record_to_text ex_sty svcb r1; record_from_text ex_ctx svcb (schema_chk 64) text)
         = Ok [VSvcb 16 [[115; 118; 99]] ps]
      /\ (do text <- record_to_text ex_sty svcb r0; record_from_text ex_ctx svcb (schema_chk 64) (text ++ [10])) = Ok r0
      (* 1 . port=1 port=2 *)
      /\ record_from_text ex_ctx svcb (schema_chk 64) [49;32;46;32;112;111;114;116;61;49;32;112;111;114;116;61;50] = Lib eSyntax
      (* 0 . port=1 *)
      /\ record_from_text ex_ctx svcb (schema_chk 64) [48;32;46;32;112;111;114;116;61;49] = Lib eSyntax
  | _, _ => False
  end.
Proof. vm_compute. repeat split; reflexivity. Qed.

Example svcb_text_example :
  svcb_to_text ex_sty 1 [[]] [(1, PStrs [[104; 50]; [97; 44; 98]]); (2, PNone); (3, PPort 53)]
  = Ok [49;32;46;32;97;108;112;110;61;34;104;50;44;97;92;92;44;98;34;32;110;111;45;100;101;102;97;117;108;116;45;97;108;112;110;32;
        112;111;114;116;61;34;53;51;34].      (* 1 . alpn="h2,a\\,b" no-default-alpn port="53" *)
Proof. vm_compute. reflexivity. Qed.

(* WKS: the bitmap is rebuilt from the listed ports (here ports 0, 7, 8 and 23 -> 0x81 0x80 0x01); no port at all *)
Example wks_examples :
  match schema_of 11 with
  | Some wks =>
      let w1 := [VBytes [10; 0; 0; 1]; VInt 6; VBytes [129; 128; 1]] in
      let w0 := [VBytes [255; 255; 255; 255]; VInt 255; VBytes []] in
      (do text <- record_to_text ex_sty wks w1; record_from_text ex_ctx wks (schema_chk 11) text) = Ok w1
      /\ (do text <- record_to_text ex_sty wks w1; Ok text) = Ok [49;48;46;48;46;48;46;49;32;54;32;48;32;55;32;56;32;50;51]
      /\ (do text <- record_to_text ex_sty wks w0; record_from_text ex_ctx wks (schema_chk 11) (text ++ [10])) = Ok w0
      /\ record_from_text ex_ctx wks (schema_chk 11) [49;46;50;46;51;46;52;32;54;32;54;53;53;51;54] = Lib eSyntax   (* port 65536 *)
  | None => False
  end.
Proof. vm_compute. repeat split; reflexivity. Qed.

(* APL: items of the three address families (the IPv6 address contains colons: the first colon splits), the
   empty list, a missing prefix *)
Example apl_examples :
  match schema_of 42 with
  | Some apl =>
      let a1 := [VApl [(1, false, [10; 0; 0; 0], 8); (2, true, [32; 1; 13; 184; 0; 0; 0; 0; 0; 0; 0; 0; 0; 0; 0; 1], 128);
                       (3, false, [48; 97; 70; 70], 255)]] in
      (do text <- record_to_text ex_sty apl a1; record_from_text ex_ctx apl (schema_chk 42) text) = Ok a1
      /\ (do text <- record_to_text ex_sty apl a1; Ok text)
         = Ok [49;58;49;48;46;48;46;48;46;48;47;56;32;33;50;58;50;48;48;49;58;100;98;56;58;58;49;47;49;50;56;32;51;58;48;97;70;70;47;50;53;53]
      /\ (do text <- record_to_text ex_sty apl [VApl []]; record_from_text ex_ctx apl (schema_chk 42) (text ++ [10])) = Ok [VApl []]
      /\ record_from_text ex_ctx apl (schema_chk 42) [49; 58; 49; 46; 50; 46; 51; 46; 52] = Lib eSyntax
  | None => False
  end.
Proof. vm_compute. repeat split; reflexivity. Qed.

(* KEY: the flags / protocol mnemonics of RFC 2535 are accepted on input; with NOKEY flags nothing follows the
   algorithm (the printed trailing blank is harmless); a key after NOKEY is rejected *)
Example key_examples :
  match schema_of 25 with
  | Some key =>
      let k1 := [VKey 256 3 5 [] [1; 3; 210; 42]] in
      let k2 := [VKey 49152 3 8 [] []] in
      (do text <- record_to_text ex_sty key k1; record_from_text ex_ctx key (schema_chk 25) text) = Ok k1
      /\ (do text <- record_to_text ex_sty key k2; record_from_text ex_ctx key (schema_chk 25) (text ++ [10])) = Ok k2
      (* NOKEY|FLAG2 TLS RSASHA256 *)
      /\ record_from_text ex_ctx key (schema_chk 25)
           [78;79;75;69;89;124;70;76;65;71;50;32;84;76;83;32;82;83;65;83;72;65;50;53;54] = Ok [VKey 57344 1 8 [] []]
      (* NOKEY 3 8 AQID *)
      /\ record_from_text ex_ctx key (schema_chk 25) [78;79;75;69;89;32;51;32;56;32;65;81;73;68] = Lib eSyntax
  | None => False
  end.
Proof. vm_compute. repeat split; reflexivity. Qed.

(* GPOS: three decimal strings kept verbatim; the constructor's checks (_validate_float_string, |latitude| <= 90,
   |longitude| <= 180 as floats) are the cross-field check, shared with the C02 model (SchemaM.gpos_ok) *)
Example gpos_examples :
  match schema_of 27 with
  | Some gpos =>
      let g1 := [VBytes [45; 51; 50; 46; 54; 56; 56; 50]; VBytes [49; 49; 54; 46; 56; 54; 53; 50]; VBytes [49; 48; 46; 48]] in   (* -32.6882 116.8652 10.0 *)
      let g2 := [VBytes [43; 57; 48; 46]; VBytes [46; 53]; VBytes [45; 48]] in                                           (* +90. .5 -0 *)
      let bad := [VBytes [57; 48; 46; 49]; VBytes [48]; VBytes [48]] in                                                  (* 90.1 0 0 *)
      schema_chk 27 g1 = Ok tt /\ schema_chk 27 g2 = Ok tt /\ schema_chk 27 bad = Lib eFormError
      /\ (do text <- record_to_text ex_sty gpos g1; record_from_text ex_ctx gpos (schema_chk 27) text) = Ok g1
      /\ (do text <- record_to_text ex_sty gpos g2; record_from_text ex_ctx gpos (schema_chk 27) (text ++ [10])) = Ok g2
      /\ (do text <- record_to_text ex_sty gpos bad; record_from_text ex_ctx gpos (schema_chk 27) text) = Lib eSyntax
  | None => False
  end.
Proof. vm_compute. repeat split; reflexivity. Qed.

(* TSIG (meta record; its text form exists for debugging): BADSIG is printed for error 16, the other data is
   present or absent according to its length, a wrong MAC length is rejected *)
Example tsig_examples :
  match schema_of 250 with
  | Some tsig =>
      let t1 := [VName [[104; 109; 97; 99]; []]; VInt 281474976710655; VInt 300; VBytes [1; 2; 3; 255]; VInt 65535; VInt 16; VBytes []] in
      let t2 := [VName [[104; 109; 97; 99]; []]; VInt 0; VInt 0; VBytes [0]; VInt 0; VInt 18; VBytes [0; 0; 0; 0; 0; 1]] in
      (do text <- record_to_text ex_sty tsig t1; record_from_text ex_ctx tsig (schema_chk 250) text) = Ok t1
      /\ (do text <- record_to_text ex_sty tsig t2; record_from_text ex_ctx tsig (schema_chk 250) (text ++ [10])) = Ok t2
      /\ enum_print KRcode 16 = Ok [66; 65; 68; 83; 73; 71] /\ enum_print KRcode 4095 = Ok [52; 48; 57; 53]
      /\ record_from_text ex_ctx tsig (schema_chk 250)
           [104; 46; 32; 49; 32; 50; 32; 51; 32; 65; 81; 73; 68; 66; 65; 61; 61; 32; 48; 32; 48; 32; 48] = Lib eSyntax
  | None => False
  end.
Proof. vm_compute. repeat split; reflexivity. Qed.

(* gateway forms (dns.rdtypes.util.Gateway): IPSECKEY with no gateway and no key, with an IPv6 gateway, with a
   name below the origin; AMTRELAY with an IPv4 relay; a gateway text of the wrong form is rejected *)
Example gateway_examples :
  match schema_of 45, schema_of 260 with
  | Some ipk, Some amt =>
      let k0 := [VInt 10; VGw 0 0 GwNone; VBytes []] in
      let k2 := [VInt 10; VGw 2 2 (GwText [50; 48; 48; 49; 58; 100; 98; 56; 58; 58; 49]); VBytes [1; 3; 81; 83]] in
      let k3 := [VInt 0; VGw 3 255 (GwName [[103; 119]; [101; 120]; []]); VBytes [255]] in
      let a1 := [VInt 10; VInt 1; VGw 1 0 (GwText [49; 48; 46; 48; 46; 48; 46; 49])] in
      (do text <- record_to_text ex_sty ipk k0; record_from_text ex_ctx ipk (schema_chk 45) text) = Ok k0
      /\ (do text <- record_to_text ex_sty ipk k2; record_from_text ex_ctx ipk (schema_chk 45) (text ++ [10])) = Ok k2
      /\ (do text <- record_to_text ex_sty ipk k3; record_from_text ex_ctx ipk (schema_chk 45) text)
         = Ok [VInt 0; VGw 3 255 (GwName [[103; 119]]); VBytes [255]]
      /\ (do text <- record_to_text ex_sty amt a1; record_from_text ex_ctx amt (schema_chk 260) text) = Ok a1
      /\ record_from_text ex_ctx ipk (schema_chk 45) [49; 48; 32; 49; 32; 50; 32; 58; 58; 49; 32; 65; 65; 61; 61] = Lib eSyntax
  | _, _ => False
  end.
Proof. vm_compute. repeat split; reflexivity. Qed.

(* ------------------------------------------------------------------ accepted from text => encodable *)

(* whatever cls.from_text (token phase, constructor conversions and checks, cross-field checks) returns for
   a type of the table satisfies, field by field, the conditions under which the type's _to_wire cannot
   fail: integers within their struct.pack format, counted strings <= 255 octets (<= 65535 where the
   length field has two octets), names within the DNS limits, addresses and formatted-hex texts that the
   encoder converts again, bitmap windows 0..255 with 1..32 octets, gateway forms matching their type.
   For every field kind of the language, hence for all types of schema_of. *)
Theorem text_then_wire : forall c fs chk st vs st',
  class_from_text c fs chk st = Ok (vs, st') -> Forall2 wire_ok fs vs.
Proof. exact class_from_text_wire. Qed.
Print Assumptions text_then_wire.

(* the same, tied to the C02 wire model (Model/SchemaM.v, read-only): for the types made of self-delimiting
   fields (integers, counted strings, names) possibly followed by one field that runs to the end of the record
   (opaque octets, TXT strings) the values returned by from_text are valid values of the corresponding SchemaM
   fields, so SchemaM.encode_rdata passes its field-validation step and is the field encoder itself (the record
   checks CkDS / CkZONEMD / CkGPOS / CkCAA of the C02 table are on the text side schema_chk / the field checks) *)
Theorem text_then_schema_encoder : forall c fs chk st vs st' wfs origin,
  to_fields fs = Some wfs -> class_from_text c fs chk st = Ok (vs, st') ->
  exists xs, to_vals fs vs = Some xs /\
    SchemaM.encode_rdata origin wfs SchemaM.CkNone xs = SchemaM.enc_fields origin wfs xs.
Proof. exact RdTextSchemaTie.text_then_schema_encoder. Qed.
Print Assumptions text_then_schema_encoder.

Example text_then_schema_encoder_types :
  tie_types = [2; 5; 6; 12; 13; 15; 16; 17; 18; 19; 21; 22; 23; 24; 26; 27; 33; 35; 36; 37; 39; 43; 44; 46; 48; 49; 51; 52; 53;
               56; 59; 60; 61; 63; 66; 67; 68; 99; 107; 258; 261; 262; 32769; 196609]
  (* 44 types, among them NS CNAME SOA PTR MX TXT SRV NAPTR CERT DS SSHFP RRSIG DNSKEY DHCID NSEC3PARAM TLSA ZONEMD *)
  /\ match schema_of 15 with Some fs => to_fields fs | None => None end
     = Some [SchemaM.FS (SchemaM.FU 2 65535); SchemaM.FS (SchemaM.FName true)]
  /\ match schema_of 16 with Some fs => to_fields fs | None => None end
     = Some [SchemaM.FRepeat true false [SchemaM.FCounted 1 0 255]].
Proof. repeat split; vm_compute; reflexivity. Qed.

Theorem text_then_wire_field : forall c f st raw st' v,
  parse_field c f st = Ok (raw, st') -> ctor_field f raw = Ok v -> wire_ok f v.
Proof. exact parse_field_wire. Qed.
Print Assumptions text_then_wire_field.

Theorem name_from_text_valid : forall c t n, as_name c t = Ok n -> Valid n.
Proof. exact as_name_valid. Qed.
Print Assumptions name_from_text_valid.

(* ------------------------------------------------------------------ known finding, stated *)

(* C05-empty-field-no-text: a record whose rest-of-line hex/base64 field is empty prints a text that
   from_text rejects (SSHFP 1 1 with an empty fingerprint) *)
Theorem empty_rest_field_refuted :
  exists fs vs text, schema_of 44 = Some fs /\ record_to_text (mkStyle None false 128 [32] 32 [32] false) fs vs = Ok text /\
    record_from_text (mkPctx None true None) fs (schema_chk 44) (text ++ [10]) <> Ok vs.
Proof. exact empty_rest_refuted. Qed.
Print Assumptions empty_rest_field_refuted.
