(* C03 - messages survive render-then-parse; compression is sound.
   Model: Model/MessageM.v.  Proofs: Proofs/Message*.v *)
From DV Require Import Base.Prelude Model.NameM Model.MessageM.
From DV Require Import Proofs.MessageBits.
Open Scope Z_scope.

(* the extended rcode is split between the header (low 4 bits) and the OPT TTL (top 8 bits) *)
Theorem rcode_split : forall r, 0 <= r < 4096 ->
  exists v ev, rcode_to_flags r = Ok (v, ev) /\ rcode_from_flags v ev = r
               /\ Z.land v 65520 = 0 /\ Z.land ev 16777215 = 0.
Proof. exact rcode_split_lemma. Qed.
Print Assumptions rcode_split.

(* Message.set_rcode then Message.rcode(), whatever the other header / EDNS flag bits are *)
Theorem set_rcode_then_rcode : forall m r m', 0 <= r < 4096 -> m_set_rcode m r = Ok m' -> m_rcode m' = r.
Proof. exact set_rcode_rcode. Qed.
Print Assumptions set_rcode_then_rcode.

Theorem set_rcode_keeps_other_flags : forall m r m', 0 <= r < 4096 ->
  m_set_rcode m r = Ok m' -> Z.land (mflags m') 65520 = Z.land (mflags m) 65520.
Proof. exact set_rcode_keeps_flags. Qed.
Print Assumptions set_rcode_keeps_other_flags.

Theorem opcode_roundtrip : forall o, 0 <= o < 16 -> opcode_from_flags (opcode_to_flags o) = o.
Proof. exact opcode_split. Qed.
Print Assumptions opcode_roundtrip.

Theorem set_opcode_then_opcode : forall m o, 0 <= o < 16 ->
  m_opcode (m_set_opcode m o) = o /\ Z.land (mflags (m_set_opcode m o)) 34815 = Z.land (mflags m) 34815.
Proof. intros. split; [apply set_opcode_opcode; assumption|apply set_opcode_keeps_flags]. Qed.
Print Assumptions set_opcode_then_opcode.

Theorem edns_version_roundtrip : forall v ef, 0 <= v < 256 ->
  Z.shiftr (Z.land (use_edns_flags v ef) 16711680) 16 = v.
Proof. exact edns_version_split. Qed.
Print Assumptions edns_version_roundtrip.
