(* C03 - messages survive render-then-parse; compression is sound.
   Model: Model/MessageM.v.  Proofs: Proofs/Message*.v *)
From DV Require Import Base.Prelude Model.NameM Model.MessageM.
From DV Require Import Proofs.MessageBits.
Open Scope Z_scope.

(* the extended rcode is split between the header (low 4 bits) and the OPT TTL (top 8 bits) *)
Theorem rcode_split : forall r, 0 <= r < 4096 ->
  exists v ev, rcode_to_flags r = Ok (v, ev) /\ rcode_from_flags v ev = r
               /\ Z.land v 65520 = 0 /\ Z.land ev 16777215 = 0.
Proof. exact rcode_split_lemma. Qed.
Print Assumptions rcode_split.

(* Message.set_rcode then Message.rcode(), whatever the other header / EDNS flag bits are *)
Theorem set_rcode_then_rcode : forall m r m', 0 <= r < 4096 -> m_set_rcode m r = Ok m' -> m_rcode m' = r.
Proof. exact set_rcode_rcode. Qed.
Print Assumptions set_rcode_then_rcode.

Theorem set_rcode_keeps_other_flags : forall m r m', 0 <= r < 4096 ->
  m_set_rcode m r = Ok m' -> Z.land (mflags m') 65520 = Z.land (mflags m) 65520.
Proof. exact set_rcode_keeps_flags. Qed.
Print Assumptions set_rcode_keeps_other_flags.

Theorem opcode_roundtrip : forall o, 0 <= o < 16 -> opcode_from_flags (opcode_to_flags o) = o.
Proof. exact opcode_split. Qed.
Print Assumptions opcode_roundtrip.

Theorem set_opcode_then_opcode : forall m o, 0 <= o < 16 ->
  m_opcode (m_set_opcode m o) = o /\ Z.land (mflags (m_set_opcode m o)) 34815 = Z.land (mflags m) 34815.
Proof. exact set_opcode_then_opcode_lemma. Qed.
Print Assumptions set_opcode_then_opcode.

Theorem edns_version_roundtrip : forall v ef, 0 <= v < 256 ->
  Z.shiftr (Z.land (use_edns_flags v ef) 16711680) 16 = v.
Proof. exact edns_version_split. Qed.
Print Assumptions edns_version_roundtrip.

(* ------------------------------------------------------------------------------------------ *)
From DV Require Import Proofs.NameOrder Proofs.NameValid Proofs.NameCompress.
From DV Require Import Proofs.MessageName Proofs.MessageRender Proofs.MessageRead Proofs.MessageRoundtrip Proofs.MessageRoundtrip2 Proofs.MessageRoundtrip3 Proofs.MessageUpdate Proofs.MessageRerender Proofs.MessageLimit Proofs.MessageApi Proofs.MessageUtf8.

(* Rendering a well-formed ordinary message (any opcode but UPDATE; any id and flags; EDNS with any
   flags, extended rcode, version, payload and generic options; a TSIG record; with or without an
   origin, i.e. with relative names) without a size overflow and parsing the octets with the same
   origin yields the same id and flags (hence opcode and rcode, see the bit theorems above), the same
   EDNS state, the same TSIG record, and in every section the same record sets in the same order with
   the same TTLs and RDATA, names equal up to ASCII case (the library's name equality; compression is
   case-insensitive).
   (dynamic updates: update_forms_roundtrip below; the two theorems together are the first clause of
   the property for rendering without overflow and without padding) *)
Theorem render_parse : forall o m max_size request_payload w,
  org_ok o -> WfMsg o m -> wf_tsig m ->
  to_wire m o max_size request_payload false 0 = Ok w ->
  exists m', from_wire w o po0 = Ok m' /\ msg_equiv_t m' m.
Proof. exact render_parse_stmt. Qed.
Print Assumptions render_parse.

(* the same with a padding block size (Message.pad): the parsed message carries, in addition, the padding
   option that Renderer.add_opt appended (msg_equiv_p: OPT = the original OPT with option 12 of zeros added) *)
Theorem render_parse_padded : forall o pad m max_size request_payload w,
  org_ok o -> WfMsg o m -> wf_tsig m ->
  to_wire m o max_size request_payload false pad = Ok w ->
  exists m', from_wire w o po0 = Ok m' /\ msg_equiv_p pad m' m.
Proof. exact render_parse_padded_stmt. Qed.
Print Assumptions render_parse_padded.

(* ... and rendering the parsed message again (same limit, no shuffling) reproduces the octets exactly:
   the parsed names differ from the originals at most in the case of labels that the renderer wrote as
   a compression pointer (and, below an origin, in the origin labels, which are written from the origin) *)
Theorem rerender_identical : forall o m max_size request_payload w m',
  org_ok o -> WfMsg o m -> wf_tsig m ->
  to_wire m o max_size request_payload false 0 = Ok w -> from_wire w o po0 = Ok m' ->
  to_wire m' o max_size request_payload false 0 = Ok w.
Proof. exact rerender_identical_lemma. Qed.
Print Assumptions rerender_identical.

(* the same for a padded rendering of an unsigned message: the parsed message carries the padding option, and
   rendering it WITHOUT padding gives the same octets.  (For a padded AND signed message this does not hold:
   after padding the TSIG owner is written uncompressed, which the parsed message cannot know.) *)
Theorem rerender_identical_padded : forall o pad m max_size request_payload w m',
  org_ok o -> WfMsg o m -> mtsig m = None ->
  to_wire m o max_size request_payload false pad = Ok w -> from_wire w o po0 = Ok m' ->
  to_wire m' o max_size request_payload false 0 = Ok w.
Proof. exact rerender_identical_padded_lemma. Qed.
Print Assumptions rerender_identical_padded.

(* Dynamic updates (opcode UPDATE; the reader builds an UpdateMessage, one record per record set):
   a zone section with one SOA-typed entry of a non-meta class, and in the prerequisite, update and
   additional sections record sets in the normal form the reader produces - the empty forms
   "name is in use" / "RRset exists (value independent)" / "delete an RRset" / "delete all RRsets"
   (class ANY on the wire, deleting = ANY) and "name is not in use" / "RRset does not exist" (class
   NONE in the prerequisite section), the one-record forms "RRset exists (value dependent)" / "add to
   an RRset" (the record's own class) and "delete an RR from an RRset" (class NONE on the wire,
   deleting = NONE, RDATA in the zone class) - with EDNS, TSIG, with or without origin: rendering and
   parsing gives back the same id, flags, EDNS state, TSIG and the same record sets in every section *)
Theorem update_forms_roundtrip : forall o m z max_size request_payload w,
  org_ok o -> WfUpd o m z -> wf_tsig m ->
  to_wire m o max_size request_payload false 0 = Ok w ->
  exists m', from_wire w o po0 = Ok m' /\ msg_equiv_t m' m.
Proof. exact update_forms_roundtrip_stmt. Qed.
Print Assumptions update_forms_roundtrip.

(* ... also with a padding block size *)
Theorem update_forms_roundtrip_padded : forall o pad m z max_size request_payload w,
  org_ok o -> WfUpd o m z -> wf_tsig m ->
  to_wire m o max_size request_payload false pad = Ok w ->
  exists m', from_wire w o po0 = Ok m' /\ msg_equiv_p pad m' m.
Proof. exact update_forms_roundtrip_padded_stmt. Qed.
Print Assumptions update_forms_roundtrip_padded.

(* ... and the parsed update renders to the same octets again *)
Theorem update_forms_rerender_identical : forall o m z max_size request_payload w m',
  org_ok o -> WfUpd o m z -> wf_tsig m ->
  to_wire m o max_size request_payload false 0 = Ok w -> from_wire w o po0 = Ok m' ->
  to_wire m' o max_size request_payload false 0 = Ok w.
Proof. exact update_forms_rerender_stmt. Qed.
Print Assumptions update_forms_rerender_identical.

(* known finding C03-update-meta-class-spelling, as a theorem: "the parsed message has the same records" does NOT
   hold for the in-memory spelling that UpdateMessage.present(name) / absent(...) / delete(name) produce (class
   ANY or NONE, deleting = None): it renders to the octets of the reader's normal form (zone class, deleting = ANY
   or NONE), so the parsed record set has another class than the rendered one - while re-rendering is identical *)
Theorem update_meta_spelling_refuted :
  exists m w m', to_wire m None 0 0 false 0 = Ok w /\ from_wire w None po0 = Ok m' /\
                 map rclass (man m') <> map rclass (man m) /\ to_wire m' None 0 0 false 0 = Ok w.
Proof. exact update_meta_spelling_refuted_lemma. Qed.
Print Assumptions update_meta_spelling_refuted.

(* the header counts equal the records present (record sets count one per record, an empty set one;
   OPT and TSIG count in the additional section), and the reader, which reads exactly that many
   records and rejects trailing octets, accepts the message *)
Theorem counts_exact : forall o pad m max_size request_payload w,
  org_ok o -> WfMsg o m -> wf_tsig m -> to_wire m o max_size request_payload false pad = Ok w ->
  exists body,
    w = hdr_bytes (mid m) (mflags m) (zlen (mq m)) (rr_count (man m)) (rr_count (mau m))
                  (rr_count (mad m) + opt_count (mopt m) + opt_count (mtsig m)) ++ body /\
    exists m', from_wire w o po0 = Ok m'.
Proof. exact counts_exact_stmt. Qed.
Print Assumptions counts_exact.

(* every name the renderer writes (compressed or not, absolute or completed with the origin) keeps
   the compression table sound (each entry's offset decodes, by the fuel-free decoding relation
   Dec = NameM.from_wire, to a name ci-equal to its key) and is recovered by the independent decoder
   NameM.from_wire and by the reader's get_name *)
Theorem name_write_sound : forall o n c file t file' t',
  org_ok o -> TableSound file t -> name_wf o n -> name_to_wire n o c file t = Ok (file', t') ->
  exists em L L' n',
    file' = file ++ em /\ TableSound file' t' /\ full_labels n o = Ok L /\ ci_equal L' L /\
    NameM.from_wire file' (length file) = Ok (L', length em) /\
    relz o L' = Ok n' /\ ci_equal n' n /\
    (forall ext endp, (length file' <= endp)%nat -> get_name (file' ++ ext) o endp (length file) = Ok (n', length file')).
Proof. exact name_write_sound_stmt. Qed.
Print Assumptions name_write_sound.

(* ... and the invariant holds for the final octets (after the header has been written, the OPT record
   with or without padding and the TSIG record appended): every offset of the compression table decodes to
   its key, so every pointer that was written targets an earlier occurrence of exactly that suffix *)
Theorem render_table_sound : forall o pad m max_size request_payload r,
  org_ok o -> WfMsg o m -> wf_tsig m -> to_wire_st m o max_size request_payload false pad = Ok r ->
  TableSound (out r) (tbl r).
Proof. exact render_table_sound_stmt. Qed.
Print Assumptions render_table_sound.

(* every message the reader returns - from ANY octets, under every reader option - carries its EDNS options
   (NSID, ECS, COOKIE, EDE, the UTF-8 text options, options without a class) in exactly the octets their
   classes render: decoding those octets again gives the same octets back; REPORTCHANNEL carries a valid absolute
   name in uncompressed form.  This is the options part of the
   well-formedness hypothesis of render_parse (WfMsg: wf_opt), so it holds for parsed messages unconditionally *)
Theorem parsed_options_wf : forall wire origin po m,
  Forall (fun b => 0 <= b < 256) wire -> from_wire wire origin po = Ok m ->
  match mopt m with
  | Some oo => Forall (fun cd => if fst cd =? 18
                                then exists n, name_ok n /\ snd cd = wire_labels false n   (* REPORTCHANNEL *)
                                else opt_dec (fst cd) (snd cd) = Ok (snd cd)) (oopts oo)
  | None => True
  end.
Proof. exact parsed_options_wf_lemma. Qed.
Print Assumptions parsed_options_wf.

(* the UTF-8 validator of the text-valued options (the model of bytes.decode("utf8"), byte-exact against the
   implementation on the malformed-UTF-8 table of the harness) accepts exactly the RFC 3629 encodings of sequences
   of Unicode scalar values (no surrogates, no overlong forms, nothing above U+10FFFF) *)
Theorem utf8_validator_exact : forall l, Forall (fun b => 0 <= b) l ->
  (utf8_ok l = true <-> exists cps, Forall scalar cps /\ l = flat_map utf8_enc cps).
Proof. exact utf8_ok_spec. Qed.
Print Assumptions utf8_validator_exact.

(* ---- non-vacuity: a response with shared suffixes, a case variant, MX/NS/SOA names and EDNS ---- *)
Definition n_ex : name := [[101; 120]; [99; 111; 109]; []].                 (* ex.com. *)
Definition n_www : name := [[119; 119; 119]; [101; 120]; [99; 111; 109]; []]. (* www.ex.com. *)
Definition n_WWW : name := [[87; 87; 87]; [69; 88]; [99; 111; 109]; []].      (* WWW.EX.com. *)
Definition ex_m : msg :=
  mkMsg 4660 33152
        [mkRR n_www 1 15 0 None 0 []]
        [mkRR n_www 1 15 0 None 300 [[PB [0; 10]; PN [[109]; [101; 120]; [99; 111; 109]; []]];
                                     [PB [0; 20]; PN n_WWW]];
         mkRR n_WWW 1 1 0 None 60 [[PB [1; 2; 3; 4]]]]
        [mkRR n_ex 1 6 0 None 3600 [[PN n_www; PN n_ex; PB (repeat 0 20)]]]
        [mkRR n_ex 1 16 0 None 5 [[PB [2; 104; 105]]]]
        (* options: one without a class, NSID, COOKIE (client+server), ECS 192.0.2.0/24, EDE 18 "ok", filtering contact "é", REPORTCHANNEL *)
        (Some (mkOpt 32768 1232 [(65001, [1; 2; 3]); (3, [97]); (10, repeat 7 16); (8, [0; 1; 24; 0; 192; 0; 2]);
                                 (15, [0; 18; 111; 107]); (23, [195; 169]);
                                 (18, [3; 97; 98; 99; 2; 101; 120; 0])])) None.     (* report channel abc.ex. *)

Ltac pieces := repeat (cbn [piece_wf]; first [assumption | exact Logic.I | reflexivity | constructor]).
Ltac solve_name_ok := split; [repeat split; [repeat constructor; vm_compute; discriminate | vm_compute; discriminate | repeat constructor; discriminate] | reflexivity].

Lemma nw_none n : name_ok n -> name_wf None n.
Proof. intros H. left. split; [exact H|exact Logic.I]. Qed.

Lemma ex_m_wf : WfMsg None ex_m.
Proof.
  assert (N1 : name_ok n_www) by solve_name_ok.
  assert (N2 : name_ok n_WWW) by solve_name_ok.
  assert (N3 : name_ok n_ex) by solve_name_ok.
  assert (N4 : name_ok [[109]; [101; 120]; [99; 111; 109]; []]) by solve_name_ok.
  pose proof (nw_none _ N1) as W1. pose proof (nw_none _ N2) as W2. pose proof (nw_none _ N3) as W3. pose proof (nw_none _ N4) as W4.
  constructor; cbn [ex_m mflags mq man mau mad mopt].
  - reflexivity.
  - constructor; [exact W1|constructor].
  - constructor; [|constructor; [|constructor]].
    + unfold wf_rrset. cbn [rname rdeleting rrds rtype rttl rclass rcovers].
      split; [exact W1|]. split; [reflexivity|]. split; [discriminate|]. split; [discriminate|]. split; [discriminate|].
      split; [lia|]. split.
      { exists [FFix 2; FNameC]. split; [reflexivity|].
        pieces. }
      split; [repeat constructor|]. split; [repeat constructor; reflexivity|discriminate].
    + unfold wf_rrset. cbn [rname rdeleting rrds rtype rttl rclass rcovers].
      split; [exact W2|]. split; [reflexivity|]. split; [discriminate|]. split; [discriminate|]. split; [discriminate|].
      split; [lia|]. split.
      { exists [FFix 4]. split; [reflexivity|]. repeat constructor. }
      split; [repeat constructor|]. split; [repeat constructor|discriminate].
  - constructor; [|constructor].
    unfold wf_rrset. cbn [rname rdeleting rrds rtype rttl rclass rcovers].
    split; [exact W3|]. split; [reflexivity|]. split; [discriminate|]. split; [discriminate|]. split; [discriminate|].
    split; [lia|]. split.
    { exists [FNameC; FNameC; FFix 20]. split; [reflexivity|]. pieces. }
    split; [repeat constructor|]. split; [repeat constructor|reflexivity].
  - constructor; [|constructor].
    unfold wf_rrset. cbn [rname rdeleting rrds rtype rttl rclass rcovers].
    split; [exact W3|]. split; [reflexivity|]. split; [discriminate|]. split; [discriminate|]. split; [discriminate|].
    split; [lia|]. split.
    { exists [FTxt]. split; [reflexivity|]. repeat constructor.
      exists [[104; 105]]. split; [discriminate|]. split; [repeat constructor; vm_compute; discriminate|reflexivity]. }
    split; [repeat constructor|]. split; [repeat constructor|discriminate].
  - cbn [keys_fresh]. repeat split; repeat constructor.
  - cbn [keys_fresh]. repeat split; repeat constructor.
  - cbn [keys_fresh]. repeat split; repeat constructor.
  - split; [|apply nw_none; split; [apply Valid_root|reflexivity]].
    repeat (constructor; [first [reflexivity | (exists [[97; 98; 99]; [101; 120]; []]; split; [solve_name_ok|reflexivity])]|]).
    constructor.
Qed.

Example render_parse_nonvacuous :
  exists w m', to_wire ex_m None 0 0 false 0 = Ok w /\ zlen w = 209 /\
               from_wire w None po0 = Ok m' /\ msg_equiv m' ex_m /\
               (* the case variant WWW.EX.com. was written as a pointer and reads back as www.ex.com. *)
               map rname (man m') = [n_www; n_www].
Proof.
  destruct (to_wire ex_m None 0 0 false 0) as [w| |] eqn:E; try (vm_compute in E; discriminate).
  destruct (render_parse None ex_m 0 0 w Logic.I ex_m_wf Logic.I E) as (m' & F & (EQ & _)).
  exists w, m'. split; [reflexivity|]. vm_compute in E. injection E as <-.
  split; [reflexivity|]. split; [exact F|]. split; [exact EQ|].
  vm_compute in F. injection F as <-. reflexivity.
Qed.

(* the parsed message differs from ex_m (the case variant) and still renders to the same octets *)
Example rerender_nonvacuous :
  exists w m', to_wire ex_m None 0 0 false 0 = Ok w /\ from_wire w None po0 = Ok m' /\
               man m' <> man ex_m /\ to_wire m' None 0 0 false 0 = Ok w.
Proof.
  destruct (to_wire ex_m None 0 0 false 0) as [w| |] eqn:E; try (vm_compute in E; discriminate).
  destruct (from_wire w None po0) as [m'| |] eqn:F;
    try (vm_compute in E; injection E as <-; vm_compute in F; discriminate).
  exists w, m'. split; [reflexivity|]. split; [exact F|]. split.
  - vm_compute in E. injection E as <-. vm_compute in F. injection F as <-. vm_compute. discriminate.
  - exact (rerender_identical None ex_m 0 0 w m' Logic.I ex_m_wf Logic.I E F).
Qed.

(* with block size 16 the rendering is block aligned and the parsed OPT carries the padding option *)
Example render_parse_padded_nonvacuous :
  exists w m', to_wire ex_m None 0 0 false 16 = Ok w /\ zlen w mod 16 = 0 /\
               from_wire w None po0 = Ok m' /\ msg_equiv_p 16 m' ex_m /\ mopt m' <> mopt ex_m.
Proof.
  destruct (to_wire ex_m None 0 0 false 16) as [w| |] eqn:E; try (vm_compute in E; discriminate).
  destruct (render_parse_padded None 16 ex_m 0 0 w Logic.I ex_m_wf Logic.I E) as (m' & F & EQ).
  exists w, m'. split; [reflexivity|]. vm_compute in E. injection E as <-.
  split; [reflexivity|]. split; [exact F|]. split; [exact EQ|].
  vm_compute in F. injection F as <-. vm_compute. discriminate.
Qed.

(* ---- non-vacuity for updates: zone ex.com/IN, prerequisites "name in use", "RRset does not exist",
   update "delete an RRset", "delete an RR", "add", relative names under the origin com. ---- *)
Definition o_com : option name := Some [[99; 111; 109]; []].
Definition r_ex : name := [[101; 120]].                 (* ex   (relative to com.) *)
Definition r_www : name := [[119; 119; 119]; [101; 120]].  (* www.ex *)
Definition ex_u : msg :=
  mkMsg 77 10240
        [mkRR r_ex 1 6 0 None 0 []]
        [mkRR r_www 1 255 0 (Some 255) 0 []; mkRR r_www 1 15 0 (Some 254) 0 []]
        [mkRR r_www 1 1 0 (Some 255) 0 [];
         mkRR r_www 1 1 0 (Some 254) 0 [[PB [1; 2; 3; 4]]];
         mkRR r_www 1 15 0 None 300 [[PB [0; 10]; PN [[109]; [101; 120]]]]]
        [] None None.

Lemma ex_u_wf : WfUpd o_com ex_u (mkRR r_ex 1 6 0 None 0 []).
Proof.
  assert (OC : name_ok [[99; 111; 109]; []]) by solve_name_ok.
  assert (W1 : name_wf o_com r_ex).
  { right. exists [[99; 111; 109]; []]. split; [reflexivity|]. split; [reflexivity|].
    repeat split; [repeat constructor; vm_compute; discriminate | vm_compute; discriminate | repeat constructor; discriminate]. }
  assert (W2 : name_wf o_com r_www).
  { right. exists [[99; 111; 109]; []]. split; [reflexivity|]. split; [reflexivity|].
    repeat split; [repeat constructor; vm_compute; discriminate | vm_compute; discriminate | repeat constructor; discriminate]. }
  assert (W3 : name_wf o_com [[109]; [101; 120]]).
  { right. exists [[99; 111; 109]; []]. split; [reflexivity|]. split; [reflexivity|].
    repeat split; [repeat constructor; vm_compute; discriminate | vm_compute; discriminate | repeat constructor; discriminate]. }
  constructor; cbn [ex_u mflags mq man mau mad mopt rname rtype rclass].
  - reflexivity.
  - reflexivity.
  - exact W1.
  - reflexivity.
  - reflexivity.
  - constructor; [|constructor; [|constructor]].
    + split; [exact W2|]. split; [discriminate|]. split; [discriminate|]. left. cbn. auto 10.
    + split; [exact W2|]. split; [discriminate|]. split; [discriminate|]. left. cbn. auto 10.
  - constructor; [|constructor; [|constructor; [|constructor]]].
    + split; [exact W2|]. split; [discriminate|]. split; [discriminate|]. left. cbn. auto 10.
    + split; [exact W2|]. split; [discriminate|]. split; [discriminate|]. right.
      exists [PB [1; 2; 3; 4]], [FFix 4]. cbn [rrds rclass rtype rttl rcovers rdeleting].
      split; [reflexivity|]. split; [reflexivity|]. split; [pieces|]. split; [pieces|]. split; [lia|].
      split; [reflexivity|]. right. split; [reflexivity|]. split; [reflexivity|discriminate].
    + split; [exact W2|]. split; [discriminate|]. split; [discriminate|]. right.
      exists [PB [0; 10]; PN [[109]; [101; 120]]], [FFix 2; FNameC]. cbn [rrds rclass rtype rttl rcovers rdeleting].
      split; [reflexivity|]. split; [reflexivity|]. split; [pieces|]. split; [pieces|]. split; [lia|].
      split; [reflexivity|]. left. split; reflexivity.
  - constructor.
  - exact Logic.I.
Qed.

Example update_roundtrip_nonvacuous :
  exists w m', to_wire ex_u o_com 0 0 false 0 = Ok w /\ from_wire w o_com po0 = Ok m' /\ msg_equiv_t m' ex_u.
Proof.
  assert (OC : org_ok o_com) by (cbn; solve_name_ok).
  destruct (to_wire ex_u o_com 0 0 false 0) as [w| |] eqn:E; try (vm_compute in E; discriminate).
  destruct (update_forms_roundtrip o_com ex_u _ 0 0 w OC ex_u_wf Logic.I E) as (m' & F & EQ).
  exists w, m'. auto.
Qed.
