(* C03 - messages survive render-then-parse; compression is sound (theorems are added below) *)
From DV Require Import Base.Prelude Model.NameM Model.MessageM.
