(* C15 - key-free DNSSEC computations equal an independent RFC 4034/4035/5155/6840 reference.
   Model: coq/Model/DnssecM.v (mirrors dns/dnssec.py, dns/rdata.py, dns/rdtypes/dnskeybase.py,
   dns/rdtypes/util.py, dns/zone.py).  Reference: coq/Proofs/DnssecRef.v (written from the RFCs).
   Two more theorems are generated and checked on every run against the table extracted from the
   current dns/rdtypes/** (tools/translate_canon.py -> GenCanon.v in the scratch dir):
     canon_flags_match_rfc4034   : forallb flag_ok table = true
     canonical_rdata_eq_rfc4034  : digestable table cls ty fs origin = rfc4034_canonical_rdata ty fs origin *)
From DV Require Import Base.Prelude Model.NameM Model.DnssecM.
From Coq Require Import Permutation Sorted.
From DV Require Import Proofs.NameValid Proofs.NameOrder Proofs.DnssecRef Proofs.DnssecCanon Proofs.DnssecKey.
From DV Require Import Proofs.DnssecSort Proofs.DnssecRrsig Proofs.DnssecBitmap Proofs.DnssecOrder Proofs.DnssecChain Proofs.DnssecZonemd.
Open Scope Z_scope.

(* Rdata.to_digestable, for any per-type table that passes the RFC 4034 6.2 check, is the RFC
   canonical RDATA: names expanded, never compressed, lower-cased exactly for the listed types *)
Theorem canonical_rdata_eq_rfc : forall tbl : list entry,
  forallb flag_ok tbl = true ->
  forall cls ty fs origin,
    arity_ok tbl cls ty fs = true ->
    digestable tbl cls ty fs origin = rfc4034_canonical_rdata ty fs origin.
Proof. exact digestable_eq_rfc. Qed.
Print Assumptions canonical_rdata_eq_rfc.

(* DNSKEY.key_id == RFC 4034 appendix B, both branches (algorithm 1 and the checksum) *)
Theorem keytag_eq_rfc : forall flags protocol alg key,
  0 <= flags < 65536 -> 0 <= protocol < 256 -> 0 <= alg < 256 -> bytes_ok key ->
  key_id flags protocol alg key =
  Ok (let rdata := u16 flags ++ [protocol; alg] ++ key in
      if alg =? 1 then rfc_keytag_alg1 rdata else rfc_keytag rdata).
Proof. exact key_id_eq_rfc. Qed.
Print Assumptions keytag_eq_rfc.

(* make_ds hashes exactly  canonical owner | DNSKEY RDATA  (RFC 4034 5.1.4) and fills the DS fields *)
Theorem ds_input_eq_rfc : forall owner flags protocol alg key dtype,
  Valid owner -> is_absolute owner = true ->
  0 <= flags < 65536 -> 0 <= protocol < 256 -> 0 <= alg < 256 -> bytes_ok key ->
  dtype = 1 \/ dtype = 2 \/ dtype = 4 ->
  make_ds owner flags protocol alg key dtype =
  Ok (rfc_ds_input owner flags protocol alg key,
      (let rdata := u16 flags ++ [protocol; alg] ++ key in
       if alg =? 1 then rfc_keytag_alg1 rdata else rfc_keytag rdata),
      alg, dtype).
Proof. exact make_ds_eq_rfc. Qed.
Print Assumptions ds_input_eq_rfc.

(* make_ds / make_cds with the owner given as text (relative text completed with `origin`, "@" = the
   origin): the name that dns.name.from_text(text, origin) denotes is the one that is digested *)
Theorem ds_text_owner_eq_rfc : forall text origin owner flags protocol alg key dtype,
  from_text text origin = Ok owner ->
  Valid owner -> is_absolute owner = true ->
  0 <= flags < 65536 -> 0 <= protocol < 256 -> 0 <= alg < 256 -> bytes_ok key ->
  dtype = 1 \/ dtype = 2 \/ dtype = 4 ->
  make_ds_text text origin flags protocol alg key dtype =
  Ok (rfc_ds_input owner flags protocol alg key,
      (let rdata := u16 flags ++ [protocol; alg] ++ key in
       if alg =? 1 then rfc_keytag_alg1 rdata else rfc_keytag rdata),
      alg, dtype).
Proof. exact make_ds_text_eq_rfc. Qed.
Print Assumptions ds_text_owner_eq_rfc.

(* nsec3_hash == RFC 5155 section 5 (iterated hash, base32hex) for every hash function *)
Theorem nsec3_eq_rfc : forall (H : bytes -> bytes) domain salt iterations,
  Valid domain -> is_absolute domain = true ->
  nsec3_hash H domain salt iterations 1 = Ok (rfc_nsec3_hash H domain salt (Z.to_nat iterations)).
Proof. exact nsec3_hash_eq_rfc. Qed.
Print Assumptions nsec3_eq_rfc.

(* sorted(rdatas) is the canonical RR order of RFC 4034 6.3, and that order is unique *)
Theorem canonical_rrset_order : forall l : list bytes,
  is_canonical_order l (sort_bytes l) /\
  forall s, is_canonical_order l s -> s = sort_bytes l.
Proof.
  intros l. split; [apply sort_bytes_canonical|].
  intros s Hs. eapply canonical_order_unique; [exact Hs|apply sort_bytes_canonical].
Qed.
Print Assumptions canonical_rrset_order.

(* _make_rrsig_signature_data == RFC 4034 3.1.8.1: 18-octet RRSIG prefix, canonical signer name,
   then every RR as owner|type|class|original TTL|rdlength|canonical RDATA in canonical order, the
   owner wildcard-reduced per RFC 4035 5.3.2; for relative names with an origin as well *)
Theorem rrsig_input_eq_rfc : forall tbl : list entry,
  forallb flag_ok tbl = true ->
  forall r rrname rdclass rdtype rdatas origin signer owner canon sorted,
    rfc_expand (r_signer r) origin = Ok signer -> Valid signer ->
    rfc_expand rrname origin = Ok owner -> Valid owner ->
    labels_ok owner (r_labels r) ->
    Forall (fun fs => arity_ok tbl rdclass rdtype fs = true) rdatas ->
    map_res (fun fs => rfc4034_canonical_rdata rdtype fs origin) rdatas = Ok canon ->
    Forall (fun c => zlen c < 65536) canon ->
    is_canonical_order canon sorted ->
    make_rrsig_data tbl r rrname rdclass rdtype rdatas origin
    = Ok (rfc_rrsig_input (r_covered r) (r_alg r) (r_labels r) (r_ottl r) (r_exp r) (r_inc r) (r_tag r)
                          signer owner rdclass rdtype sorted).
Proof. exact make_rrsig_data_eq_rfc. Qed.
Print Assumptions rrsig_input_eq_rfc.

(* RFC 4035 5.3.2: fewer labels than the owner has -> "*" + the rightmost `labels` labels (+ root);
   the reduced owner is again a valid name *)
Theorem wildcard_reduction : forall owner labels,
  Valid owner -> is_absolute owner = true -> 0 <= labels <= rfc_label_count owner ->
  rfc_wildcard_owner owner labels =
    (if labels =? rfc_label_count owner then owner
     else [42] :: skipn (length owner - 1 - Z.to_nat labels) owner)
  /\ Valid (rfc_wildcard_owner owner labels).
Proof. exact wildcard_reduction_spec. Qed.
Print Assumptions wildcard_reduction.

(* RFC 4035 5.3.1: labels field larger than the owner's label count is refused *)
Theorem rrsig_labels_too_large_rejected : forall tbl r rrname rdclass rdtype rdatas origin signer owner,
  rfc_expand (r_signer r) origin = Ok signer -> Valid signer ->
  rfc_expand rrname origin = Ok owner -> Valid owner ->
  rfc_label_count owner < r_labels r ->
  make_rrsig_data tbl r rrname rdclass rdtype rdatas origin = Lib eValidationFailure.
Proof. exact make_rrsig_data_rejects_long_labels. Qed.
Print Assumptions rrsig_labels_too_large_rejected.

(* Bitmap.from_rdtypes: for every list of types (any order, duplicates, zeros) the produced blocks
   are a well-formed RFC 4034 4.1.2 encoding (windows strictly increasing within 0..255, 1..32 octets
   per window, all octets bytes, no trailing zero octet) that decodes to exactly the set of non-zero
   types given, in ascending order *)
Theorem bitmap_exact : forall ts,
  Forall (fun t => 0 <= t <= 65535) ts ->
  exists ws, from_rdtypes ts = Ok ws /\ bitmap_wf ws /\ strictly_increasing (bitmap_types ws) /\
             forall t, In t (bitmap_types ws) <-> In t ts /\ t <> 0.
Proof. exact from_rdtypes_members. Qed.
Print Assumptions bitmap_exact.

(* sign_zone(rrset_signer=...) -> _sign_zone_nsec.  For every zone (any delegation / glue / occluded
   data / empty non-terminal layout; stored with absolute names, or relativized with the apex as
   the empty name) whose owner names `sorted` are in canonical order:
   - the NSEC records handed to the signer are, in order, the reference chain over the names that
     are not beneath a zone cut: every such name exactly once, `next` = the following such name,
     the last one wraps to the origin (see nsec_chain_visits_each_once below), each bitmap a
     well-formed encoding of exactly the types at the name (+ RRSIG, NSEC; only NS/DS at a cut);
   - the other RRsets handed to the signer are exactly the authoritative ones (no RRSIGs, at a
     delegation point only DS, nothing beneath a delegation). *)
Theorem nsec_chain_spec_eq : forall (origin apex : name) (relativize : bool) (nodes : list znode)
    (sorted : list name) (ab : bool),
  ci_distinct sorted ->
  Forall (fun n => is_absolute n = ab) sorted ->
  StronglySorted name_le sorted ->
  is_absolute origin = true ->
  (ab = true /\ apex = origin /\ relativize = false) \/ (ab = false /\ apex = [] /\ relativize = true) ->
  (forall n, In n sorted ->
     types_at nodes n <> [] /\ Forall (fun t => 1 <= t <= 65535) (types_at nodes n)) ->
  has_type (types_at nodes apex) tSOA = true ->
  Permutation (map fst nodes) sorted ->
  exists calls,
    sign_zone_nsec origin relativize nodes = Ok calls /\
    rr_calls calls = rfc_signed apex nodes (rfc_secure apex nodes sorted) /\
    Forall2 nsec_matches (nsec_calls calls) (rfc_chain origin apex nodes (rfc_secure apex nodes sorted)).
Proof. exact sign_zone_nsec_eq_rfc. Qed.
Print Assumptions nsec_chain_spec_eq.

(* the same, read off the implementation's output: the NSEC owners are exactly the names that are
   not beneath a delegation, each exactly once, in canonical order; next = following owner, the last
   one wraps to the origin *)
Theorem nsec_chain_visits_each_once : forall origin apex relativize nodes sorted ab,
  ci_distinct sorted ->
  Forall (fun n => is_absolute n = ab) sorted ->
  StronglySorted name_le sorted ->
  is_absolute origin = true ->
  (ab = true /\ apex = origin /\ relativize = false) \/ (ab = false /\ apex = [] /\ relativize = true) ->
  (forall n, In n sorted ->
     types_at nodes n <> [] /\ Forall (fun t => 1 <= t <= 65535) (types_at nodes n)) ->
  has_type (types_at nodes apex) tSOA = true ->
  Permutation (map fst nodes) sorted ->
  exists calls, sign_zone_nsec origin relativize nodes = Ok calls /\
    let owners := map (fun e => fst (fst e)) (nsec_calls calls) in
    let nexts := map (fun e => snd (fst e)) (nsec_calls calls) in
    owners = rfc_secure apex nodes sorted /\ NoDup owners /\ StronglySorted name_le owners /\
    (forall n, In n owners <-> In n sorted /\ rfc_occluded apex nodes sorted n = false) /\
    nexts = match owners with [] => [] | _ :: r => r ++ [origin] end.
Proof. exact nsec_owners_exact. Qed.
Print Assumptions nsec_chain_visits_each_once.

(* Zone._compute_digest (ZONEMD, SIMPLE scheme, SHA-384/512): the octets fed to the hash are the
   RFC 8976 3.3/3.4 serialisation (is_zonemd_input): a list of RRs that is a permutation of the
   zone's records minus the apex ZONEMD RRset and the RRSIG covering it, sorted by canonical owner
   name, then type, then canonical RDATA, each RR as owner|type|class|TTL|RDLENGTH|RDATA with
   canonical owner and RDATA.  Hypotheses = the zone is a dictionary of dictionaries (distinct owner
   names, distinct (type, covers) per node), RRSIG rdatasets are filed under the type they cover
   (`cr` is the canonical RDATA as a total function), rdata shapes fit their types, lengths fit. *)
Theorem zonemd_input_eq_rfc : forall (tbl : list entry) (origin : name) (relativize : bool)
    (nodes : list (name * list zrds)),
  forallb flag_ok tbl = true ->
  ci_distinct (map fst nodes) ->
  (forall nd, In nd nodes -> NoDup (map rds_key (snd nd))) ->
  (forall nd rds, In nd nodes -> In rds (snd nd) -> z_type rds <> tRRSIG -> z_covers rds = 0) ->
  (forall nd rds fs, In nd nodes -> In rds (snd nd) -> In fs (z_rdatas rds) -> z_type rds = tRRSIG ->
     0 <= z_covers rds < 65536 /\ exists rest, cr origin rds fs = u16 (z_covers rds) ++ rest) ->
  (forall nd rds fs, In nd nodes -> In rds (snd nd) -> In fs (z_rdatas rds) ->
     arity_ok tbl (z_class rds) (z_type rds) fs = true) ->
  (forall nd rds fs, In nd nodes -> In rds (snd nd) -> In fs (z_rdatas rds) -> zlen (cr origin rds fs) < 65536) ->
  (forall nd, In nd nodes -> exists a, rfc_expand (fst nd) (Some origin) = Ok a) ->
  forall all, rfc_zone_rrs origin nodes = Ok all ->
  forall halg scheme, halg = 1 \/ halg = 2 -> scheme = 1 ->
  exists input, compute_digest_input tbl origin relativize nodes halg scheme = Ok input
                /\ is_zonemd_input origin (zapex origin relativize) nodes input.
Proof. exact compute_digest_eq_rfc. Qed.
Print Assumptions zonemd_input_eq_rfc.

(* RFC 4034 3.1.3: a wildcard owner whose RRSIG labels field is not (label count - 1) is refused *)
Theorem rrsig_wild_labels_mismatch_rejected : forall tbl r rrname rdclass rdtype rdatas origin signer owner,
  rfc_expand (r_signer r) origin = Ok signer -> Valid signer ->
  rfc_expand rrname origin = Ok owner -> Valid owner ->
  is_wild owner = true -> r_labels r <> rfc_label_count owner - 1 ->
  make_rrsig_data tbl r rrname rdclass rdtype rdatas origin = Lib eValidationFailure.
Proof. exact make_rrsig_data_rejects_wild_mismatch. Qed.
Print Assumptions rrsig_wild_labels_mismatch_rejected.

(* ... and a well-formed encoding is determined by the set it stands for, so from_rdtypes returns
   THE RFC 4034 4.1.2 encoding of the type set, octet for octet *)
Theorem bitmap_unique : forall a b,
  bitmap_wf a -> bitmap_wf b -> bitmap_types a = bitmap_types b -> a = b.
Proof. exact bitmap_encoding_unique. Qed.
Print Assumptions bitmap_unique.

(* ---------- non-vacuity ---------- *)
Example keytag_hyps_satisfiable :
  key_id 257 3 8 [1; 2; 3; 4; 5] = Ok (rfc_keytag (u16 257 ++ [3; 8] ++ [1; 2; 3; 4; 5]))
  /\ key_id 256 3 1 [9; 8; 7] = Ok (9 * 256 + 8).
Proof. split; vm_compute; reflexivity. Qed.

Example ds_text_hyps_satisfiable :
  from_text [99] (Some [[69; 120]; []]) = Ok [[99]; [69; 120]; []] /\
  from_text [64] (Some [[69; 120]; []]) = Ok [[69; 120]; []] /\
  make_ds_text [99] (Some [[69; 120]; []]) 256 3 8 [1; 2] 2 = Ok ([1; 99; 2; 101; 120; 0; 1; 0; 3; 8; 1; 2], 1290, 8, 2).
Proof. repeat split; vm_compute; reflexivity. Qed.

Example ds_hyps_satisfiable :
  Valid [[69; 120]; []] /\ is_absolute [[69; 120]; []] = true /\
  make_ds [[69; 120]; []] 256 3 8 [1; 2] 2 = Ok ([2; 101; 120; 0; 1; 0; 3; 8; 1; 2], 1290, 8, 2).
Proof.
  split; [|split; vm_compute; reflexivity].
  repeat split; repeat constructor; cbn; try lia; discriminate.
Qed.

Example canonical_rdata_nonvacuous :
  let tbl := [ {| e_class := 255; e_type := 15; e_calls := [{| c_none := true; c_canon := true |}]; e_loop := None |};
               {| e_class := 255; e_type := 107; e_calls := [{| c_none := true; c_canon := false |}]; e_loop := None |} ] in
  forallb flag_ok tbl = true /\
  arity_ok tbl 1 15 [FRaw [0; 10]; FName [[77; 88]; []]] = true /\
  digestable tbl 1 15 [FRaw [0; 10]; FName [[77; 88]; []]] None = Ok [0; 10; 2; 109; 120; 0] /\
  digestable tbl 1 107 [FRaw [0; 10]; FName [[77; 88]; []]] None = Ok [0; 10; 2; 77; 88; 0].
Proof. vm_compute. repeat split. Qed.

Example rrsig_hyps_satisfiable :
  let tbl := [ {| e_class := 255; e_type := 15; e_calls := [{| c_none := true; c_canon := true |}]; e_loop := None |} ] in
  let r := {| r_covered := 15; r_alg := 8; r_labels := 1; r_ottl := 300; r_exp := 2; r_inc := 1; r_tag := 7;
              r_signer := []; r_sig := [] |} in
  let origin := Some [[69; 120]; []] in
  let rdatas := [[FRaw [0; 20]; FName [[66]]]; [FRaw [0; 10]; FName [[65]; []]]] in
  rfc_expand (r_signer r) origin = Ok [[69; 120]; []] /\
  rfc_expand [[119]; [88]] origin = Ok [[119]; [88]; [69; 120]; []] /\
  labels_ok [[119]; [88]; [69; 120]; []] 1 /\
  map_res (fun fs => rfc4034_canonical_rdata 15 fs origin) rdatas = Ok [[0; 20; 1; 98; 2; 101; 120; 0]; [0; 10; 1; 97; 0]] /\
  is_canonical_order [[0; 20; 1; 98; 2; 101; 120; 0]; [0; 10; 1; 97; 0]] [[0; 10; 1; 97; 0]; [0; 20; 1; 98; 2; 101; 120; 0]] /\
  make_rrsig_data tbl r [[119]; [88]] 1 15 rdatas origin
  = Ok ([0; 15; 8; 1; 0; 0; 1; 44; 0; 0; 0; 2; 0; 0; 0; 1; 0; 7] ++ [2; 101; 120; 0]
        ++ ([1; 42; 2; 101; 120; 0] ++ [0; 15; 0; 1; 0; 0; 1; 44; 0; 5] ++ [0; 10; 1; 97; 0])
        ++ ([1; 42; 2; 101; 120; 0] ++ [0; 15; 0; 1; 0; 0; 1; 44; 0; 8] ++ [0; 20; 1; 98; 2; 101; 120; 0])).
Proof.
  cbv zeta.
  split; [vm_compute; reflexivity|].
  split; [vm_compute; reflexivity|].
  split; [split; [vm_compute; split; congruence|vm_compute; discriminate]|].
  split; [vm_compute; reflexivity|].
  split; [split; [apply perm_swap|repeat constructor; vm_compute; congruence]|].
  vm_compute; reflexivity.
Qed.

Example bitmap_nonvacuous :
  from_rdtypes [47; 1; 46; 1; 0; 1234] = Ok [(0, [64; 0; 0; 0; 0; 3]); (4, [0; 0; 0; 0; 0; 0; 0; 0; 0; 0; 0; 0; 0; 0; 0; 0; 0; 0; 0; 0; 0; 0; 0; 0; 0; 0; 32])]
  /\ bitmap_types [(0, [64; 0; 0; 0; 0; 3]); (4, [0; 0; 0; 0; 0; 0; 0; 0; 0; 0; 0; 0; 0; 0; 0; 0; 0; 0; 0; 0; 0; 0; 0; 0; 0; 0; 32])] = [1; 46; 47; 1234].
Proof. split; vm_compute; reflexivity. Qed.

(* a zone ex. with a delegation sub.ex. (NS, DS and a glue-like A at the cut), glue beneath it and
   a name after it: all hypotheses of nsec_chain_spec_eq hold, and the chain is as expected *)
Example nsec_chain_hyps_satisfiable :
  let ex := [[101; 120]; []] in
  let nm l := l :: ex in
  let nodes := [ (nm [122], [16]); (ex, [6; 2]); (nm [115], [2; 1; 43]); ([110] :: nm [115], [1]) ] in
  let sorted := [ ex; nm [115]; [110] :: nm [115]; nm [122] ] in
  ci_distinct sorted /\ Forall (fun n => is_absolute n = true) sorted /\ StronglySorted name_le sorted /\
  (forall n, In n sorted -> types_at nodes n <> [] /\ Forall (fun t => 1 <= t <= 65535) (types_at nodes n)) /\
  has_type (types_at nodes ex) tSOA = true /\ Permutation (map fst nodes) sorted /\
  rfc_secure ex nodes sorted = [ex; nm [115]; nm [122]] /\
  sign_zone_nsec ex false nodes =
    Ok [ SignRR ex 6; SignRR ex 2;
         SignRR (nm [115]) 43; SignNSEC ex (nm [115]) [(0, [34; 0; 0; 0; 0; 3])];
         SignRR (nm [122]) 16; SignNSEC (nm [115]) (nm [122]) [(0, [32; 0; 0; 0; 0; 19])];
         SignNSEC (nm [122]) ex [(0, [0; 0; 128; 0; 0; 3])] ].
Proof.
  cbv zeta. split; [|split; [|split; [|split; [|split; [|split; [|split]]]]]].
  - split.
    + repeat constructor; cbn; intuition discriminate.
    + intros x y Hx Hy. cbn in Hx, Hy.
      repeat (destruct Hx as [<-|Hx]; [|]); try contradiction;
        repeat (destruct Hy as [<-|Hy]; [|]); try contradiction;
        try reflexivity; unfold ci_equal; cbn; intros H; discriminate H.
  - repeat constructor.
  - repeat constructor; unfold name_le; vm_compute; intros H; discriminate H.
  - intros n Hn. cbn [In] in Hn.
    repeat (destruct Hn as [<-|Hn]; [|]); try contradiction;
      match goal with
      | |- context [types_at ?nd ?x] =>
          let v := eval vm_compute in (types_at nd x) in change (types_at nd x) with v
      end; (split; [discriminate|repeat (constructor; [lia|]); constructor]).
  - vm_compute. reflexivity.
  - apply Permutation_cons_app with (l1 := [[[101; 120]; []]; [[115]; [101; 120]; []]; [[110]; [115]; [101; 120]; []]]) (l2 := []).
    rewrite app_nil_r. reflexivity.
  - vm_compute. reflexivity.
  - vm_compute. reflexivity.
Qed.

Example zonemd_hyps_satisfiable :
  let ex := [[69; 120]; []] in
  let tbl := [ {| e_class := 255; e_type := 2; e_calls := [{| c_none := true; c_canon := true |}]; e_loop := None |};
               {| e_class := 255; e_type := 46; e_calls := [{| c_none := true; c_canon := true |}]; e_loop := None |} ] in
  let mk ty cov rds := {| z_type := ty; z_covers := cov; z_class := 1; z_ttl := 60; z_rdatas := rds |} in
  let nodes := [ ([[97]; [69; 120]; []], [mk 1 0 [[FRaw [10; 0; 0; 2]]; [FRaw [10; 0; 0; 1]]]]);
                 (ex, [mk 63 0 [[FRaw [0; 0; 0; 1; 1; 1; 9]]]; mk 2 0 [[FName [[78; 83]; [69; 120]; []]]];
                       mk 46 63 [[FRaw [0; 63; 8; 1]; FName ex; FRaw [7]]]; mk 46 2 [[FRaw [0; 2; 8; 1]; FName ex; FRaw [8]]]]) ] in
  ci_distinct (map fst nodes) /\
  (forall nd, In nd nodes -> NoDup (map rds_key (snd nd))) /\
  (exists all, rfc_zone_rrs ex nodes = Ok all /\ length all = 6%nat) /\
  compute_digest_input tbl ex false nodes 1 1 =
    Ok ([2; 101; 120; 0] ++ [0; 2; 0; 1; 0; 0; 0; 60; 0; 7] ++ [2; 110; 115; 2; 101; 120; 0]
        ++ [2; 101; 120; 0] ++ [0; 46; 0; 1; 0; 0; 0; 60; 0; 9] ++ [0; 2; 8; 1; 2; 101; 120; 0; 8]
        ++ [1; 97; 2; 101; 120; 0] ++ [0; 1; 0; 1; 0; 0; 0; 60; 0; 4] ++ [10; 0; 0; 1]
        ++ [1; 97; 2; 101; 120; 0] ++ [0; 1; 0; 1; 0; 0; 0; 60; 0; 4] ++ [10; 0; 0; 2]).
Proof.
  cbv zeta. split; [|split; [|split]].
  - split.
    + repeat constructor; cbn; intuition discriminate.
    + intros x y Hx Hy. cbn in Hx, Hy.
      repeat (destruct Hx as [<-|Hx]; [|]); try contradiction;
        repeat (destruct Hy as [<-|Hy]; [|]); try contradiction;
        try reflexivity; unfold ci_equal; cbn; intros H; discriminate H.
  - intros nd Hn. cbn [In] in Hn. repeat (destruct Hn as [<-|Hn]; [|]); try contradiction;
      cbn; repeat constructor; cbn; intuition discriminate.
  - eexists. split; [vm_compute; reflexivity|reflexivity].
  - vm_compute. reflexivity.
Qed.
