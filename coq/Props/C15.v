(* C15 - key-free DNSSEC computations equal an independent RFC 4034/4035/5155/6840 reference.
   Model: coq/Model/DnssecM.v (mirrors dns/dnssec.py, dns/rdata.py, dns/rdtypes/dnskeybase.py,
   dns/rdtypes/util.py, dns/zone.py).  Reference: coq/Proofs/DnssecRef.v (written from the RFCs).
   Two more theorems are generated and checked on every run against the table extracted from the
   current dns/rdtypes/** (tools/translate_canon.py -> GenCanon.v in the scratch dir):
     canon_flags_match_rfc4034   : forallb flag_ok table = true
     canonical_rdata_eq_rfc4034  : digestable table cls ty fs origin = rfc4034_canonical_rdata ty fs origin *)
From DV Require Import Base.Prelude Model.NameM Model.DnssecM.
From DV Require Import Proofs.NameValid Proofs.DnssecRef Proofs.DnssecCanon Proofs.DnssecKey.
Open Scope Z_scope.

(* Rdata.to_digestable, for any per-type table that passes the RFC 4034 6.2 check, is the RFC
   canonical RDATA: names expanded, never compressed, lower-cased exactly for the listed types *)
Theorem canonical_rdata_eq_rfc : forall tbl : list entry,
  forallb flag_ok tbl = true ->
  forall cls ty fs origin,
    arity_ok tbl cls ty fs = true ->
    digestable tbl cls ty fs origin = rfc4034_canonical_rdata ty fs origin.
Proof. exact digestable_eq_rfc. Qed.
Print Assumptions canonical_rdata_eq_rfc.

(* DNSKEY.key_id == RFC 4034 appendix B, both branches (algorithm 1 and the checksum) *)
Theorem keytag_eq_rfc : forall flags protocol alg key,
  0 <= flags < 65536 -> 0 <= protocol < 256 -> 0 <= alg < 256 -> bytes_ok key ->
  key_id flags protocol alg key =
  Ok (let rdata := u16 flags ++ [protocol; alg] ++ key in
      if alg =? 1 then rfc_keytag_alg1 rdata else rfc_keytag rdata).
Proof. exact key_id_eq_rfc. Qed.
Print Assumptions keytag_eq_rfc.

(* make_ds hashes exactly  canonical owner | DNSKEY RDATA  (RFC 4034 5.1.4) and fills the DS fields *)
Theorem ds_input_eq_rfc : forall owner flags protocol alg key dtype,
  Valid owner -> is_absolute owner = true ->
  0 <= flags < 65536 -> 0 <= protocol < 256 -> 0 <= alg < 256 -> bytes_ok key ->
  dtype = 1 \/ dtype = 2 \/ dtype = 4 ->
  make_ds owner flags protocol alg key dtype =
  Ok (rfc_ds_input owner flags protocol alg key,
      (let rdata := u16 flags ++ [protocol; alg] ++ key in
       if alg =? 1 then rfc_keytag_alg1 rdata else rfc_keytag rdata),
      alg, dtype).
Proof. exact make_ds_eq_rfc. Qed.
Print Assumptions ds_input_eq_rfc.

(* nsec3_hash == RFC 5155 section 5 (iterated hash, base32hex) for every hash function *)
Theorem nsec3_eq_rfc : forall (H : bytes -> bytes) domain salt iterations,
  Valid domain -> is_absolute domain = true ->
  nsec3_hash H domain salt iterations 1 = Ok (rfc_nsec3_hash H domain salt (Z.to_nat iterations)).
Proof. exact nsec3_hash_eq_rfc. Qed.
Print Assumptions nsec3_eq_rfc.

(* ---------- non-vacuity ---------- *)
Example keytag_hyps_satisfiable :
  key_id 257 3 8 [1; 2; 3; 4; 5] = Ok (rfc_keytag (u16 257 ++ [3; 8] ++ [1; 2; 3; 4; 5]))
  /\ key_id 256 3 1 [9; 8; 7] = Ok (9 * 256 + 8).
Proof. split; vm_compute; reflexivity. Qed.

Example ds_hyps_satisfiable :
  Valid [[69; 120]; []] /\ is_absolute [[69; 120]; []] = true /\
  make_ds [[69; 120]; []] 256 3 8 [1; 2] 2 = Ok ([2; 101; 120; 0; 1; 0; 3; 8; 1; 2], 1290, 8, 2).
Proof.
  split; [|split; vm_compute; reflexivity].
  repeat split; repeat constructor; cbn; try lia; discriminate.
Qed.

Example canonical_rdata_nonvacuous :
  let tbl := [ {| e_class := 255; e_type := 15; e_calls := [{| c_none := true; c_canon := true |}]; e_loop := None |};
               {| e_class := 255; e_type := 107; e_calls := [{| c_none := true; c_canon := false |}]; e_loop := None |} ] in
  forallb flag_ok tbl = true /\
  arity_ok tbl 1 15 [FRaw [0; 10]; FName [[77; 88]; []]] = true /\
  digestable tbl 1 15 [FRaw [0; 10]; FName [[77; 88]; []]] None = Ok [0; 10; 2; 109; 120; 0] /\
  digestable tbl 1 107 [FRaw [0; 10]; FName [[77; 88]; []]] None = Ok [0; 10; 2; 77; 88; 0].
Proof. vm_compute. repeat split. Qed.
