(* C15 - key-free DNSSEC computations equal an independent RFC reference. *)
From DV Require Import Base.Prelude Model.NameM Model.DnssecM.
