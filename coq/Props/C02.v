(* C02 - every record type's wire form round-trips and re-encodes byte-identically.
   The theorems are about the generic codec of Model/SchemaM.v; the per-type field lists are
   regenerated from dns/rdtypes/** on every run and checked against `entry_ok` (theorem
   gen_table_ok in the generated file), so that they apply to every generated type. *)
From DV Require Import Base.Prelude Model.NameM Model.SchemaM Proofs.SchemaThm.
Open Scope Z_scope.

(* from_wire(to_wire(x)) = x for every well-formed schema and every value the constructor
   accepts, wherever the RDATA sits inside a message (no origin) *)
Theorem schema_roundtrip : forall fs ck vs b A P,
  schema_wf fs = true -> encode_rdata None fs ck vs = Ok b ->
  decode_rdata None fs ck (A ++ b ++ P) (length A) (length b) = Ok vs.
Proof. exact schema_roundtrip_none. Qed.
Print Assumptions schema_roundtrip.

(* ... and the decoded record re-encodes to the identical octets *)
Theorem schema_reencode_identical : forall fs ck vs b A P vs',
  schema_wf fs = true -> encode_rdata None fs ck vs = Ok b ->
  decode_rdata None fs ck (A ++ b ++ P) (length A) (length b) = Ok vs' ->
  encode_rdata None fs ck vs' = Ok b.
Proof. exact schema_reencode_after_roundtrip. Qed.
Print Assumptions schema_reencode_identical.

(* whatever is accepted from arbitrary octets has passed the constructor's validation *)
Theorem decoded_record_is_valid : forall o fs ck wire cur rdlen vs,
  decode_rdata o fs ck wire cur rdlen = Ok vs -> validate fs ck vs = true.
Proof. exact decode_validates. Qed.
Print Assumptions decoded_record_is_valid.

(* ... and consumed exactly the declared RDATA length *)
Theorem exact_consumption : forall o fs ck wire cur rdlen vs,
  decode_rdata o fs ck wire cur rdlen = Ok vs ->
  (cur + rdlen <= length wire)%nat /\
  dec_fields wire o fs (cur + rdlen) cur = Ok (vs, (cur + rdlen)%nat).
Proof. exact SchemaThm.exact_consumption. Qed.
Print Assumptions exact_consumption.

Theorem inexact_consumption_is_formerror : forall o fs ck wire cur rdlen vs c,
  (cur <= length wire)%nat -> (rdlen <= length wire - cur)%nat ->
  dec_fields wire o fs (cur + rdlen) cur = Ok (vs, c) -> c <> (cur + rdlen)%nat ->
  decode_rdata o fs ck wire cur rdlen = Lib eFormError.
Proof. exact SchemaThm.inexact_consumption_is_formerror. Qed.
Print Assumptions inexact_consumption_is_formerror.

(* ---------- non-vacuity: the hypotheses are satisfiable on realistic records ---------- *)
Definition mx_schema := [FS (FU 2 65535); FS (FName true)].
Definition mx_value := [VS (VI 10); VS (VN [[109; 97; 105; 108]; [101; 120]; []])].
Example mx_wf : schema_wf mx_schema = true. Proof. reflexivity. Qed.
Example mx_encodes :
  encode_rdata None mx_schema CkNone mx_value = Ok [0; 10; 4; 109; 97; 105; 108; 2; 101; 120; 0].
Proof. reflexivity. Qed.
Example mx_decodes_inside_message :
  decode_rdata None mx_schema CkNone ([7; 7; 7] ++ [0; 10; 4; 109; 97; 105; 108; 2; 101; 120; 0] ++ [9]) 3 11
  = Ok mx_value.
Proof. reflexivity. Qed.

Definition nsec3_schema :=
  [FS (FU 1 255); FS (FU 1 255); FS (FU 2 65535); FS (FCounted 1 0 255); FS (FCounted 1 0 255);
   FRepeat false true [FU 1 255; FCounted 1 1 32]].
Example nsec3_wf : schema_wf nsec3_schema = true. Proof. reflexivity. Qed.
Example nsec3_roundtrip :
  let v := [VS (VI 1); VS (VI 0); VS (VI 12); VS (VB [170; 187]); VS (VB [1; 2; 3]);
            VL [[VI 0; VB [64; 1]]; [VI 1; VB [128]]]] in
  exists b, encode_rdata None nsec3_schema CkNone v = Ok b /\
            decode_rdata None nsec3_schema CkNone b 0 (length b) = Ok v.
Proof. eexists. split; reflexivity. Qed.

(* trailing octets are refused (inexact consumption) *)
Example a_record_trailing_octet :
  decode_rdata None [FRemN 4] CkNone [1; 2; 3; 4; 5] 0 5 = Lib eFormError.
Proof. reflexivity. Qed.
