(* C02 - every record type's wire form round-trips and re-encodes byte-identically.
   The theorems are about the generic codec of Model/SchemaM.v; the per-type field lists are
   regenerated from dns/rdtypes/** on every run and checked against `entry_ok` (theorem
   gen_table_ok in the generated file), so that they apply to every generated type. *)
From DV Require Import Base.Prelude Model.NameM Model.SchemaM Proofs.SchemaCodec Proofs.SchemaThm Proofs.SchemaFix Proofs.SchemaTable Proofs.SchemaOrigin.
From DV Require Proofs.NameValid Proofs.SchemaExamples.
From DV Require Import Model.DispatchM Proofs.SchemaDispatch Model.SchemaHand Proofs.SchemaHandThm Proofs.SchemaTotal Proofs.SchemaReenc Proofs.SchemaOptFix Proofs.SchemaAplFix Proofs.SchemaLocFix Proofs.SchemaSvcbFix Proofs.SchemaOriginFix Proofs.SchemaHandOrigin.
Open Scope Z_scope.

(* from_wire(to_wire(x)) = x for every well-formed schema and every value the constructor
   accepts, wherever the RDATA sits inside a message (no origin) *)
Theorem schema_roundtrip : forall fs ck vs b A P,
  schema_wf fs = true -> encode_rdata None fs ck vs = Ok b ->
  decode_rdata None fs ck (A ++ b ++ P) (length A) (length b) = Ok vs.
Proof. exact schema_roundtrip_none. Qed.
Print Assumptions schema_roundtrip.

(* ... and the decoded record re-encodes to the identical octets *)
Theorem schema_reencode_identical : forall fs ck vs b A P vs',
  schema_wf fs = true -> encode_rdata None fs ck vs = Ok b ->
  decode_rdata None fs ck (A ++ b ++ P) (length A) (length b) = Ok vs' ->
  encode_rdata None fs ck vs' = Ok b.
Proof. exact schema_reencode_after_roundtrip. Qed.
Print Assumptions schema_reencode_identical.

(* whatever is accepted from arbitrary octets has passed the constructor's validation *)
Theorem decoded_record_is_valid : forall o fs ck wire cur rdlen vs,
  decode_rdata o fs ck wire cur rdlen = Ok vs -> validate fs ck vs = true.
Proof. exact decode_validates. Qed.
Print Assumptions decoded_record_is_valid.

(* ... and consumed exactly the declared RDATA length *)
Theorem exact_consumption : forall o fs ck wire cur rdlen vs,
  decode_rdata o fs ck wire cur rdlen = Ok vs ->
  (cur + rdlen <= length wire)%nat /\
  dec_fields wire o fs (cur + rdlen) cur = Ok (vs, (cur + rdlen)%nat).
Proof. exact SchemaThm.exact_consumption. Qed.
Print Assumptions exact_consumption.

Theorem inexact_consumption_is_formerror : forall o fs ck wire cur rdlen vs c,
  (cur <= length wire)%nat -> (rdlen <= length wire - cur)%nat ->
  dec_fields wire o fs (cur + rdlen) cur = Ok (vs, c) -> c <> (cur + rdlen)%nat ->
  decode_rdata o fs ck wire cur rdlen = Lib eFormError.
Proof. exact SchemaThm.inexact_consumption_is_formerror. Qed.
Print Assumptions inexact_consumption_is_formerror.

(* decoding ANY octets at any offset/length/origin terminates (the fuel of the repeat loops is
   sufficient, names by C01's from_wire_total) with a record or a library exception *)
Theorem decode_never_internal : forall o fs ck wire cur rdlen x,
  schema_wf fs = true -> decode_rdata o fs ck wire cur rdlen <> Internal x.
Proof. exact decode_never_internal_thm. Qed.
Print Assumptions decode_never_internal.

(* second half of the property: an accepted octet string yields a record whose own encoding
   exists, decodes to the same record, and is a fixed point of decode-then-encode *)
Theorem schema_fixed_point : forall fs ck wire cur rdlen vs,
  schema_wf fs = true ->
  decode_rdata None fs ck wire cur rdlen = Ok vs ->
  exists w', encode_rdata None fs ck vs = Ok w' /\
             decode_rdata None fs ck w' 0 (length w') = Ok vs /\
             (forall vs', decode_rdata None fs ck w' 0 (length w') = Ok vs' ->
                          encode_rdata None fs ck vs' = Ok w').
Proof. exact schema_fixed_point_none. Qed.
Print Assumptions schema_fixed_point.

(* for field lists without normalising fields (no names: compression pointers are expanded; no
   optional tail) decode-then-encode is the identity on ARBITRARY accepted RDATA octets *)
Theorem schema_reencode : forall fs ck wire cur rdlen vs,
  schema_wf fs = true -> forallb no_norm fs = true -> all_bytes wire = true ->
  decode_rdata None fs ck wire cur rdlen = Ok vs ->
  encode_rdata None fs ck vs = Ok (slice wire cur (cur + rdlen)).
Proof. exact schema_reencode_thm. Qed.
Print Assumptions schema_reencode.

(* the same two statements between a type's WRITER field list and its READER field list, for
   every entry of any table that passes entry_ok (the generated file instantiates them on the
   table read from dns/rdtypes/** in this run: gen_table_roundtrip, gen_table_fixed_point) *)
Theorem table_roundtrip : forall tbl e w r ck vs b A P,
  forallb entry_ok tbl = true -> In e tbl -> e_codec e = CSchema w r ck ->
  encode_rdata None (map fst w) ck vs = Ok b ->
  decode_rdata None (map fst r) ck (A ++ b ++ P) (length A) (length b) = Ok vs.
Proof. exact table_roundtrip_none. Qed.
Print Assumptions table_roundtrip.

Theorem table_fixed_point : forall tbl e w r ck wire cur rdlen vs,
  forallb entry_ok tbl = true -> In e tbl -> e_codec e = CSchema w r ck ->
  decode_rdata None (map fst r) ck wire cur rdlen = Ok vs ->
  exists w', encode_rdata None (map fst w) ck vs = Ok w' /\
             decode_rdata None (map fst r) ck w' 0 (length w') = Ok vs /\
             (forall vs', decode_rdata None (map fst r) ck w' 0 (length w') = Ok vs' ->
                          encode_rdata None (map fst w) ck vs' = Ok w').
Proof. exact table_fixed_point_none. Qed.
Print Assumptions table_fixed_point.

(* with an origin: relative names (which must fit together with the origin) and absolute names
   outside the origin come back unchanged; an absolute name below the origin is relativized by
   the reader (dnspython's design) and is therefore excluded by nok_origin *)
Theorem schema_roundtrip_origin : forall o fs ck vs b A P,
  is_absolute o = true -> schema_wf fs = true -> nok_fields (nok_origin o) fs vs ->
  encode_rdata (Some o) fs ck vs = Ok b ->
  decode_rdata (Some o) fs ck (A ++ b ++ P) (length A) (length b) = Ok vs.
Proof. intros o fs ck vs b A P Ho. apply schema_roundtrip_origin_thm. exact Ho. Qed.
Print Assumptions schema_roundtrip_origin.

Theorem table_roundtrip_origin : forall tbl o e w r ck vs b A P,
  forallb entry_ok tbl = true -> In e tbl -> entry_origin_ok e = true ->
  e_codec e = CSchema w r ck -> is_absolute o = true ->
  nok_fields (nok_origin o) (map fst w) vs ->
  encode_rdata (Some o) (map fst w) ck vs = Ok b ->
  decode_rdata (Some o) (map fst r) ck (A ++ b ++ P) (length A) (length b) = Ok vs.
Proof. exact table_roundtrip_origin_thm. Qed.
Print Assumptions table_roundtrip_origin.

(* the second half with an origin: what is accepted under origin o encodes under o and the
   encoding decodes under o to the same record (relativized names fit again with the origin) *)
Theorem schema_fixed_point_origin : forall o fs ck wire cur rdlen vs,
  is_absolute o = true -> schema_wf fs = true ->
  decode_rdata (Some o) fs ck wire cur rdlen = Ok vs ->
  exists w', encode_rdata (Some o) fs ck vs = Ok w' /\
             decode_rdata (Some o) fs ck w' 0 (length w') = Ok vs.
Proof. intros o fs ck wire cur rdlen vs Ho. apply schema_fixed_point_origin_thm. exact Ho. Qed.
Print Assumptions schema_fixed_point_origin.

Theorem table_fixed_point_origin : forall tbl o e w r ck wire cur rdlen vs,
  forallb entry_ok tbl = true -> In e tbl -> entry_origin_ok e = true ->
  e_codec e = CSchema w r ck -> is_absolute o = true ->
  decode_rdata (Some o) (map fst r) ck wire cur rdlen = Ok vs ->
  exists w', encode_rdata (Some o) (map fst w) ck vs = Ok w' /\
             decode_rdata (Some o) (map fst r) ck w' 0 (length w') = Ok vs.
Proof. exact table_fixed_point_origin_thm. Qed.
Print Assumptions table_fixed_point_origin.

(* known finding C02-tsig-relative-algorithm-origin: TSIG's reader calls get_name() without the
   origin its writer appends, so the statement above is false for TSIG (entry_origin_ok fails) *)
Theorem tsig_origin_roundtrip_refuted :
  entry_ok (mk_entry 255 250 tsig_w tsig_r CkNone) = true /\
  exists o vs b,
    is_absolute o = true /\ nok_fields (nok_origin o) (map fst tsig_w) vs /\
    encode_rdata (Some o) (map fst tsig_w) CkNone vs = Ok b /\
    exists vs', decode_rdata (Some o) (map fst tsig_r) CkNone b 0 (length b) = Ok vs' /\ vs' <> vs.
Proof. exact tsig_origin_roundtrip_refuted_thm. Qed.
Print Assumptions tsig_origin_roundtrip_refuted.

(* get_rdata_class (cache + dynamic loading + load_all_types): for every history of lookups
   and load_all_types calls without an "ANY-first" lookup, each lookup answers the history-free
   implementation (own module, else class-independent module, else GenericRdata) *)
Theorem dispatch_history_correct : forall mods all_types h,
  mods_ok mods = true -> loadable mods all_types = true ->
  forallb (safe_step mods) h = true ->
  run_history mods all_types h init_state = expected mods h.
Proof. intros. apply dispatch_history_correct_thm; assumption. Qed.
Print Assumptions dispatch_history_correct.

(* known finding C02-dispatch-any-first: the excluded history really changes the answer *)
Theorem dispatch_any_first_refuted :
  let mods := [(cIN, 1)] in
  mods_ok mods = true /\ loadable mods [1] = true /\
  run_history mods [1] [Query cANY 1; Query cIN 1] init_state = [I 0; I 0] /\
  stateless mods cIN 1 = Typed cIN 1.
Proof. exact dispatch_any_first_refuted_thm. Qed.
Print Assumptions dispatch_any_first_refuted.

(* the irregular codecs that the translator cannot read (hand models, tied to the code by the
   correspondence on every run): from_wire(to_wire(x)) = x anywhere in a message *)
Theorem hip_roundtrip : forall vs b A P,
  hand_encode_rdata HHip None vs = Ok b ->
  hand_decode_rdata HHip None (A ++ b ++ P) (length A) (length b) = Ok vs.
Proof. exact hip_roundtrip_thm. Qed.
Print Assumptions hip_roundtrip.

Theorem ipseckey_roundtrip : forall vs b A P,
  hand_encode_rdata HIpseckey None vs = Ok b ->
  hand_decode_rdata HIpseckey None (A ++ b ++ P) (length A) (length b) = Ok vs.
Proof. exact ipseckey_roundtrip_thm. Qed.
Print Assumptions ipseckey_roundtrip.

Theorem amtrelay_roundtrip : forall vs b A P,
  hand_encode_rdata HAmtrelay None vs = Ok b ->
  hand_decode_rdata HAmtrelay None (A ++ b ++ P) (length A) (length b) = Ok vs.
Proof. exact amtrelay_roundtrip_thm. Qed.
Print Assumptions amtrelay_roundtrip.

(* APL trims trailing zero octets of the address: values are compared in canonical form *)
Theorem apl_roundtrip : forall vs b A P,
  apl_canon vs -> hand_encode_rdata HApl None vs = Ok b ->
  hand_decode_rdata HApl None (A ++ b ++ P) (length A) (length b) = Ok vs.
Proof. exact apl_roundtrip_thm. Qed.
Print Assumptions apl_roundtrip.

(* SVCB / HTTPS (parameter dictionary): in ServiceMode, or AliasMode without parameters *)
Theorem svcb_roundtrip : forall prio target ps b A P,
  (prio <> 0 \/ ps = []) ->
  hand_encode_rdata HSvcb None [VS (VI prio); VS (VN target); VL ps] = Ok b ->
  hand_decode_rdata HSvcb None (A ++ b ++ P) (length A) (length b) = Ok [VS (VI prio); VS (VN target); VL ps].
Proof. exact svcb_roundtrip_thm. Qed.
Print Assumptions svcb_roundtrip.

(* LOC (integer skeleton; the reader's float detour is covered by the correspondence): legal,
   canonical coordinates, altitude inside the 32-bit field, sizes expressible as b*10^e *)
Theorem loc_roundtrip : forall lat lon alt size hp vp b A P,
  coord_canon 90 lat -> coord_canon 180 lon ->
  0 <= alt + 10000000 < 4294967296 ->
  In size loc_sizes -> In hp loc_sizes -> In vp loc_sizes ->
  hand_encode_rdata HLoc None [VL [lat]; VL [lon]; VS (VI alt); VS (VI size); VS (VI hp); VS (VI vp)] = Ok b ->
  hand_decode_rdata HLoc None (A ++ b ++ P) (length A) (length b)
  = Ok [VL [lat]; VL [lon]; VS (VI alt); VS (VI size); VS (VI hp); VS (VI vp)].
Proof. exact loc_roundtrip_thm. Qed.
Print Assumptions loc_roundtrip.

(* OPT: EDNS option framing and the option classes of dns/edns.py (ECS, EDE, NSID, COOKIE,
   REPORTCHANNEL, the UTF-8 text options, generic), payloads in the normal form the classes hold *)
Theorem opt_roundtrip : forall vs b A P,
  hand_encode_rdata HOpt None vs = Ok b ->
  hand_decode_rdata HOpt None (A ++ b ++ P) (length A) (length b) = Ok vs.
Proof. exact opt_roundtrip_thm. Qed.
Print Assumptions opt_roundtrip.

(* the hand codecs that carry names, with an absolute origin (same name condition nok_origin as for
   the schema types) *)
Theorem hip_roundtrip_origin : forall o vs b A P,
  is_absolute o = true -> hip_nok (nok_origin o) vs ->
  hand_encode_rdata HHip (Some o) vs = Ok b ->
  hand_decode_rdata HHip (Some o) (A ++ b ++ P) (length A) (length b) = Ok vs.
Proof. exact hip_roundtrip_origin_thm. Qed.
Print Assumptions hip_roundtrip_origin.

Theorem ipseckey_roundtrip_origin : forall o vs b A P,
  is_absolute o = true -> ipseckey_nok (nok_origin o) vs ->
  hand_encode_rdata HIpseckey (Some o) vs = Ok b ->
  hand_decode_rdata HIpseckey (Some o) (A ++ b ++ P) (length A) (length b) = Ok vs.
Proof. exact ipseckey_roundtrip_origin_thm. Qed.
Print Assumptions ipseckey_roundtrip_origin.

Theorem amtrelay_roundtrip_origin : forall o vs b A P,
  is_absolute o = true -> amtrelay_nok (nok_origin o) vs ->
  hand_encode_rdata HAmtrelay (Some o) vs = Ok b ->
  hand_decode_rdata HAmtrelay (Some o) (A ++ b ++ P) (length A) (length b) = Ok vs.
Proof. exact amtrelay_roundtrip_origin_thm. Qed.
Print Assumptions amtrelay_roundtrip_origin.

Theorem svcb_roundtrip_origin : forall o prio target ps b A P,
  is_absolute o = true -> nok_origin o true target -> (prio <> 0 \/ ps = []) ->
  hand_encode_rdata HSvcb (Some o) [VS (VI prio); VS (VN target); VL ps] = Ok b ->
  hand_decode_rdata HSvcb (Some o) (A ++ b ++ P) (length A) (length b) = Ok [VS (VI prio); VS (VN target); VL ps].
Proof. exact svcb_roundtrip_origin_thm. Qed.
Print Assumptions svcb_roundtrip_origin.

(* APL, LOC and OPT do not depend on the origin at all: their theorems hold for every origin *)
Theorem hand_origin_irrelevant : forall h o wire cur rdlen vs,
  (h = HApl \/ h = HLoc \/ h = HOpt) ->
  hand_decode_rdata h o wire cur rdlen = hand_decode_rdata h None wire cur rdlen /\
  hand_encode_rdata h o vs = hand_encode_rdata h None vs.
Proof. exact hand_origin_irrelevant_thm. Qed.
Print Assumptions hand_origin_irrelevant.

(* second half of the property for hand-modelled codecs without normalisation: an accepted octet
   string yields a record whose own encoding exists and decodes to the same record *)
Theorem hip_fixed_point : forall wire cur rdlen vs,
  all_bytes wire = true ->
  hand_decode_rdata HHip None wire cur rdlen = Ok vs ->
  exists w', hand_encode_rdata HHip None vs = Ok w' /\
             hand_decode_rdata HHip None w' 0 (length w') = Ok vs.
Proof. exact hip_fixed_point_thm. Qed.
Print Assumptions hip_fixed_point.

Theorem ipseckey_fixed_point : forall wire cur rdlen vs,
  hand_decode_rdata HIpseckey None wire cur rdlen = Ok vs ->
  exists w', hand_encode_rdata HIpseckey None vs = Ok w' /\
             hand_decode_rdata HIpseckey None w' 0 (length w') = Ok vs.
Proof. exact ipseckey_fixed_point_thm. Qed.
Print Assumptions ipseckey_fixed_point.

Theorem amtrelay_fixed_point : forall wire cur rdlen vs,
  hand_decode_rdata HAmtrelay None wire cur rdlen = Ok vs ->
  exists w', hand_encode_rdata HAmtrelay None vs = Ok w' /\
             hand_decode_rdata HAmtrelay None w' 0 (length w') = Ok vs.
Proof. exact amtrelay_fixed_point_thm. Qed.
Print Assumptions amtrelay_fixed_point.

(* ... and for the normalising hand codecs.  OPT: the option classes' normalisation is idempotent
   (false before fix e554dd4, EDE text with several trailing NULs), so the reader's output is in
   normal form, encodes, and decodes to itself *)
Theorem opt_normalisation_idempotent : forall ot d p, opt_norm ot d = Some p -> opt_norm ot p = Some p.
Proof. exact opt_norm_idem. Qed.
Print Assumptions opt_normalisation_idempotent.

Theorem opt_fixed_point : forall wire cur rdlen vs,
  all_bytes wire = true ->
  hand_decode_rdata HOpt None wire cur rdlen = Ok vs ->
  exists w', hand_encode_rdata HOpt None vs = Ok w' /\
             hand_decode_rdata HOpt None w' 0 (length w') = Ok vs.
Proof. exact opt_fixed_point_thm. Qed.
Print Assumptions opt_fixed_point.

Theorem svcb_fixed_point : forall wire cur rdlen vs,
  hand_decode_rdata HSvcb None wire cur rdlen = Ok vs ->
  exists w', hand_encode_rdata HSvcb None vs = Ok w' /\
             hand_decode_rdata HSvcb None w' 0 (length w') = Ok vs.
Proof. exact svcb_fixed_point_thm. Qed.
Print Assumptions svcb_fixed_point.

Theorem loc_fixed_point : forall wire cur rdlen vs,
  all_bytes wire = true ->
  hand_decode_rdata HLoc None wire cur rdlen = Ok vs ->
  exists w', hand_encode_rdata HLoc None vs = Ok w' /\
             hand_decode_rdata HLoc None w' 0 (length w') = Ok vs.
Proof. exact loc_fixed_point_thm. Qed.
Print Assumptions loc_fixed_point.

(* APL: every accepted record encodes; the encoding decodes to the record's canonical form
   (trailing zero octets of unknown-family addresses trimmed), which re-encodes identically *)
Theorem apl_fixed_point : forall wire cur rdlen vs,
  hand_decode_rdata HApl None wire cur rdlen = Ok vs ->
  exists items w, vs = [VL items] /\ hand_encode_rdata HApl None vs = Ok w /\
            hand_decode_rdata HApl None w 0 (length w) = Ok [VL (map apl_canon_item items)] /\
            hand_encode_rdata HApl None [VL (map apl_canon_item items)] = Ok w.
Proof. exact apl_decoded_fixed_point. Qed.
Print Assumptions apl_fixed_point.

(* ---------- non-vacuity: the hypotheses are satisfiable on realistic records ---------- *)
Notation mx_schema := SchemaExamples.mx_schema (only parsing).
Notation mx_value := SchemaExamples.mx_value (only parsing).
Example mx_wf : schema_wf mx_schema = true.
Proof. exact SchemaExamples.mx_wf_ex. Qed.
Example mx_encodes :
  encode_rdata None mx_schema CkNone mx_value = Ok [0; 10; 4; 109; 97; 105; 108; 2; 101; 120; 0].
Proof. exact SchemaExamples.mx_encodes_ex. Qed.
Example mx_decodes_inside_message :
  decode_rdata None mx_schema CkNone ([7; 7; 7] ++ [0; 10; 4; 109; 97; 105; 108; 2; 101; 120; 0] ++ [9]) 3 11
  = Ok mx_value.
Proof. exact SchemaExamples.mx_decodes_inside_message_ex. Qed.

Notation nsec3_schema := SchemaExamples.nsec3_schema (only parsing).
Example nsec3_wf : schema_wf nsec3_schema = true.
Proof. exact SchemaExamples.nsec3_wf_ex. Qed.
Example nsec3_roundtrip :
  let v := [VS (VI 1); VS (VI 0); VS (VI 12); VS (VB [170; 187]); VS (VB [1; 2; 3]);
            VL [[VI 0; VB [64; 1]]; [VI 1; VB [128]]]] in
  exists b, encode_rdata None nsec3_schema CkNone v = Ok b /\
            decode_rdata None nsec3_schema CkNone b 0 (length b) = Ok v.
Proof. exact SchemaExamples.nsec3_roundtrip_ex. Qed.

(* trailing octets are refused (inexact consumption) *)
Example a_record_trailing_octet :
  decode_rdata None [FRemN 4] CkNone [1; 2; 3; 4; 5] 0 5 = Lib eFormError.
Proof. exact SchemaExamples.a_record_trailing_octet_ex. Qed.

(* a table entry as the translator emits it (A: reader get_remaining + exact length, writer 4 octets) *)
Example a_entry_ok :
  entry_ok (mk_entry 1 1 [(FS (FFixed 4), 0)] [(FRemN 4, 0)] CkNone) = true.
Proof. exact SchemaExamples.a_entry_ok_ex. Qed.
(* a width slip on one side only is rejected *)
Example mx_width_slip_rejected :
  entry_ok (mk_entry 255 15 [(FS (FU 4 65535), 0); (FS (FName true), 1)]
                            [(FS (FU 2 65535), 0); (FS (FName true), 1)] CkNone) = false.
Proof. exact SchemaExamples.mx_width_slip_rejected_ex. Qed.
(* ... and so is a swap of two equally wide fields *)
Example srv_swap_rejected :
  entry_ok (mk_entry 255 33
     [(FS (FU 2 65535), 1); (FS (FU 2 65535), 0); (FS (FU 2 65535), 2); (FS (FName true), 3)]
     [(FS (FU 2 65535), 0); (FS (FU 2 65535), 1); (FS (FU 2 65535), 2); (FS (FName true), 3)] CkNone) = false.
Proof. exact SchemaExamples.srv_swap_rejected_ex. Qed.

(* origin hypotheses are satisfiable: MX 10 mail (relative) with origin example. *)
Example mx_relative_with_origin :
  let o := [[101; 120; 97; 109; 112; 108; 101]; []] in
  let v := [VS (VI 10); VS (VN [[109; 97; 105; 108]])] in
  nok_fields (nok_origin o) mx_schema v /\
  exists b, encode_rdata (Some o) mx_schema CkNone v = Ok b /\
            decode_rdata (Some o) mx_schema CkNone b 0 (length b) = Ok v.
Proof. exact SchemaExamples.mx_relative_with_origin_ex. Qed.

(* dispatch hypotheses are satisfiable and the theorem is not vacuous: a safe history over
   {IN A, CH A, ANY MX} with load_all_types in the middle *)
Example dispatch_example :
  let mods := [(cIN, 1); (cCH, 1); (cANY, 15)] in
  mods_ok mods = true /\ loadable mods [1; 15] = true /\
  forallb (safe_step mods) [Query 4 15; LoadAll true; Query cCH 15; Query cCH 1; Query cANY 15; Query 4 1] = true /\
  run_history mods [1; 15] [Query 4 15; LoadAll true; Query cCH 15; Query cCH 1; Query cANY 15; Query 4 1] init_state
  = [L [I 255; I 15]; L [I 255; I 15]; L [I 3; I 1]; L [I 255; I 15]; I 0].
Proof. exact SchemaExamples.dispatch_example_ex. Qed.

(* hand codecs: the hypotheses hold on realistic records *)
Example hip_example :
  exists b, hand_encode_rdata HHip None
              [VS (VB [1; 2; 3]); VS (VI 2); VS (VB [9; 9]); VL [[VN [[114; 118; 115]; []]]; [VN [[]]]]] = Ok b.
Proof. exact SchemaExamples.hip_example_ex. Qed.
Example ipseckey_example :
  exists b, hand_encode_rdata HIpseckey None
              [VS (VI 10); VS (VI 3); VS (VI 2); VS (VN [[103; 119]; []]); VS (VB [1; 2])] = Ok b.
Proof. exact SchemaExamples.ipseckey_example_ex. Qed.
Example amtrelay_example :
  exists b, hand_encode_rdata HAmtrelay None [VS (VI 10); VS (VI 1); VS (VI 1); VS (VB [192; 0; 2; 1])] = Ok b
            /\ hand_decode_rdata HAmtrelay None b 0 (length b) = Ok [VS (VI 10); VS (VI 1); VS (VI 1); VS (VB [192; 0; 2; 1])].
Proof. exact SchemaExamples.amtrelay_example_ex. Qed.
Example apl_example :
  let v := [VL [[VI 1; VI 1; VB [0; 0; 0; 0]; VI 0]; [VI 2; VI 0; VB [32; 1; 0; 0; 0; 0; 0; 0; 0; 0; 0; 0; 0; 0; 0; 0]; VI 16]]] in
  apl_canon v /\ exists b, hand_encode_rdata HApl None v = Ok b /\ hand_decode_rdata HApl None b 0 (length b) = Ok v.
Proof. exact SchemaExamples.apl_example_ex. Qed.

Example svcb_example :
  let v := [VS (VI 1); VS (VN [[115; 118; 99]; []]);
            VL [[VI 0; VB [0; 1; 0; 3]]; [VI 1; VB [2; 104; 50]]; [VI 2; VB []]; [VI 3; VB [1; 187]]; [VI 4; VB [192; 0; 2; 1]]]] in
  exists b, hand_encode_rdata HSvcb None v = Ok b /\ hand_decode_rdata HSvcb None b 0 (length b) = Ok v.
Proof. exact SchemaExamples.svcb_example_ex. Qed.
(* a repeated key on the wire keeps the last value (dict semantics) and re-encodes shorter *)
Example svcb_duplicate_key_normalised :
  hand_decode_rdata HSvcb None [0; 1; 0; 0; 3; 0; 2; 0; 80; 0; 3; 0; 2; 1; 187] 0 15
  = Ok [VS (VI 1); VS (VN [[]]); VL [[VI 3; VB [1; 187]]]].
Proof. exact SchemaExamples.svcb_duplicate_key_normalised_ex. Qed.

Example loc_example :
  let lat := [VI 42; VI 21; VI 54; VI 0; VI 1] in
  let lon := [VI 71; VI 6; VI 18; VI 0; VI (-1)] in
  coord_canon 90 lat /\ coord_canon 180 lon /\ In 100 loc_sizes /\ In 1000000 loc_sizes /\
  exists b, hand_encode_rdata HLoc None [VL [lat]; VL [lon]; VS (VI (-2400)); VS (VI 100); VS (VI 1000000); VS (VI 1000)] = Ok b.
Proof. exact SchemaExamples.loc_example_ex. Qed.

Example opt_example :
  let v := [VL [[VI 8; VB [0; 1; 20; 0; 192; 0; 32]]; [VI 15; VB [0; 18; 195; 169]]; [VI 10; VB [1; 2; 3; 4; 5; 6; 7; 8]];
                [VI 18; VB [1; 97; 0]]; [VI 65001; VB []]]] in
  exists b, hand_encode_rdata HOpt None v = Ok b /\ hand_decode_rdata HOpt None b 0 (length b) = Ok v.
Proof. exact SchemaExamples.opt_example_ex. Qed.
(* ECS address bits beyond the source prefix are cleared, a trailing NUL of EDE text is dropped *)
Example opt_normalises :
  hand_decode_rdata HOpt None [0; 8; 0; 7; 0; 1; 20; 0; 192; 0; 47;  0; 15; 0; 4; 0; 18; 120; 0] 0 19
  = Ok [VL [[VI 8; VB [0; 1; 20; 0; 192; 0; 32]]; [VI 15; VB [0; 18; 120]]]].
Proof. exact SchemaExamples.opt_normalises_ex. Qed.

(* schema_reencode is not vacuous: NSEC3 has no names and no optional tail *)
Example nsec3_no_norm : forallb no_norm nsec3_schema = true.
Proof. exact SchemaExamples.nsec3_no_norm_ex. Qed.

(* GPOS as the translator emits it: three counted decimal strings with the range check *)
Example gpos_example :
  let fs := [FS (FCounted 1 0 255); FS (FCounted 1 0 255); FS (FCounted 1 0 255)] in
  check_wf CkGPOS fs = true /\
  (exists b, encode_rdata None fs CkGPOS [VS (VB [45; 57; 48]); VS (VB [49; 56; 48; 46; 48]); VS (VB [46; 53])] = Ok b) /\
  encode_rdata None fs CkGPOS [VS (VB [57; 48; 46; 48; 49]); VS (VB [48]); VS (VB [48])] = Lib eValueError.
Proof. exact SchemaExamples.gpos_example_ex. Qed.
