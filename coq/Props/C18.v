(* C18 - a network exchange returns only a genuine response; stream framing is exact.
   Every theorem is universally quantified over the message parser (parse : wire -> what
   dns.message.from_wire finds), over the script of socket events (datagrams, would-blocks with
   their duration, chunk sizes, EOF), the clock, the deadline and the five option flags. *)
From DV Require Import Base.Prelude Model.NameM Model.NetM Proofs.NameOrder Proofs.NetUdp Proofs.NetStream Proofs.NetAsync.
Open Scope Z_scope.

(* ---------------- the acceptance predicate ---------------- *)

(* Message.is_response is exactly: QR set, same id, same opcode, and the same question section (as
   sets, names up to ASCII case) - or an error rcode with an empty question - or a dynamic update *)
Theorem is_response_is_the_acceptance_predicate :
  forall q r, is_response q r = true <-> genuine q r.
Proof. exact is_response_iff. Qed.
Print Assumptions is_response_is_the_acceptance_predicate.

(* a source is accepted only if it is the queried address (binary compare in the socket's family)
   and port - or the destination is multicast and the port matches *)
Theorem source_accepted_only_if_matching :
  forall af from dest iu, matches_destination af from dest iu = Ok true -> src_ok af from dest.
Proof. exact matches_destination_sound. Qed.
Print Assumptions source_accepted_only_if_matching.

Theorem source_check_as_configured :
  forall af from dest iu, src_defined af dest ->
  (src_ok af from dest -> matches_destination af from dest iu = Ok true) /\
  (~ src_ok af from dest ->
   matches_destination af from dest iu = if iu then Ok false else Lib neUnexpectedSource).
Proof. exact matches_destination_spec. Qed.
Print Assumptions source_check_as_configured.

(* from_wire hands out a message only for a well-formed datagram *)
Theorem parsed_ok_is_wellformed :
  forall a it rot m, from_wire_out a it rot = POk m ->
  p_short a = false /\ p_err a = None /\ m = p_msg a /\
  (p_trailing a = true -> it = true) /\ (rot = true -> has_tc m = false).
Proof. exact from_wire_ok_wellformed. Qed.
Print Assumptions parsed_ok_is_wellformed.

(* ---------------- UDP: soundness for ALL scripts and options ---------------- *)

Theorem udp_returns_genuine :
  forall parse q qwire where_ timeout af o sevs evs now i r wire t from rest,
  udp parse q qwire where_ timeout af o sevs evs now = (i, Ok (r, wire, t, from, rest)) ->
  genuine q r /\ src_ok af from (Some where_) /\
  from_wire_out (parse wire) (o_ignore_trailing o) (o_raise_on_truncation o) = POk r /\
  exists pre, evs = pre ++ UData wire from :: rest /\ i = (length pre + 1)%nat.
Proof. exact NetUdp.udp_returns_genuine. Qed.
Print Assumptions udp_returns_genuine.

Theorem forged_never_returned :
  forall parse q qwire where_ timeout af o sevs evs now i r wire t from rest,
  udp parse q qwire where_ timeout af o sevs evs now = (i, Ok (r, wire, t, from, rest)) ->
  ~ forged parse q where_ af o wire from.
Proof. exact NetUdp.forged_never_returned. Qed.
Print Assumptions forged_never_returned.

Theorem only_forged_never_ok :
  forall parse q qwire where_ timeout af o sevs evs now,
  (forall wire from, In (UData wire from) evs -> forged parse q where_ af o wire from) ->
  forall i x, udp parse q qwire where_ timeout af o sevs evs now <> (i, Ok x).
Proof. exact NetUdp.only_forged_never_ok. Qed.
Print Assumptions only_forged_never_ok.

(* receive_udp on its own: what it returns was read from an accepted source, parsed without error,
   and (ignore_errors with a query) answers the query *)
Theorem receive_udp_returns_checked :
  forall parse af dest expiration o query evs now i j m wire t from rest,
  receive_udp parse af dest expiration o query evs now i = (j, Ok (m, wire, t, from, rest)) ->
  exists pre, evs = pre ++ UData wire from :: rest /\ j = (i + length pre + 1)%nat /\
    matches_destination af from dest (o_ignore_unexpected o) = Ok true /\
    from_wire_out (parse wire) (o_ignore_trailing o) (o_raise_on_truncation o) = POk m /\
    (o_ignore_errors o = true -> forall q, query = Some q -> is_response q m = true).
Proof. exact receive_udp_ok. Qed.
Print Assumptions receive_udp_returns_checked.

(* ---------------- UDP: skip or raise as configured; completeness ---------------- *)

(* whatever the configuration says to pass over is passed over, however long the prefix *)
Theorem ignorable_prefix_is_skipped :
  forall parse af dest expiration o query pre now now',
  passes parse af dest expiration o query pre now now' ->
  forall evs i, receive_udp parse af dest expiration o query (pre ++ evs) now i
              = receive_udp parse af dest expiration o query evs now' (i + length pre)%nat.
Proof. exact passes_skipped. Qed.
Print Assumptions ignorable_prefix_is_skipped.

Theorem raise_or_skip_as_configured :
  forall (parse : list Z -> pabs) q qwire where_ timeout af o pre wire from rest now now',
  let exp := snd (compute_times now timeout) in
  let fw := from_wire_out (parse wire) (o_ignore_trailing o) (o_raise_on_truncation o) in
  let call := udp parse q qwire where_ timeout af o [] (pre ++ UData wire from :: rest) now in
  let pos := (length pre + 1)%nat in
  passes parse af (Some where_) exp o (Some q) pre now now' ->
  src_defined af (Some where_) ->
  (~ src_ok af from (Some where_) -> o_ignore_unexpected o = false ->
     call = (pos, Lib neUnexpectedSource)) /\
  (src_ok af from (Some where_) -> o_ignore_errors o = false -> forall e, fw = PErr e ->
     call = (pos, err_res e)) /\
  (src_ok af from (Some where_) -> o_ignore_errors o = false -> forall m, fw = POk m -> ~ genuine q m ->
     call = (pos, Lib neBadResponse)) /\
  (src_ok af from (Some where_) -> forall m, fw = POk m -> genuine q m ->
     call = (pos, Ok (m, wire, now' - now, from, rest))) /\
  (ignorable parse af (Some where_) o (Some q) wire from ->
     passes parse af (Some where_) exp o (Some q) (pre ++ [UData wire from]) now now').
Proof. exact NetUdp.raise_or_skip_as_configured. Qed.
Print Assumptions raise_or_skip_as_configured.

(* ... and conversely, for ALL scripts: every documented exception that comes out of udp() is the
   deadline, or is justified by the configuration and the datagram at the position reported *)
Theorem errors_only_as_configured :
  forall (parse : list Z -> pabs) q qwire where_ timeout af o sevs evs now i e,
  udp parse q qwire where_ timeout af o sevs evs now = (i, Lib e) ->
  (e = neTimeout /\ timeout <> None) \/
  exists pre wire from rest, evs = pre ++ UData wire from :: rest /\ i = (length pre + 1)%nat /\
    ( raised_as_configured parse af (Some where_) o (Some q) e wire from
      \/ (e = neBadResponse /\ o_ignore_errors o = false /\ src_ok af from (Some where_) /\
          exists m, from_wire_out (parse wire) (o_ignore_trailing o) (o_raise_on_truncation o) = POk m
                    /\ ~ genuine q m) ).
Proof. exact udp_error_sound. Qed.
Print Assumptions errors_only_as_configured.

(* a genuine truncated reply is reported as truncation when asked *)
Theorem truncation_reported :
  forall parse q qwire where_ timeout af o pre wire from rest now now',
  let exp := snd (compute_times now timeout) in
  passes parse af (Some where_) exp o (Some q) pre now now' ->
  src_defined af (Some where_) -> src_ok af from (Some where_) ->
  o_raise_on_truncation o = true ->
  p_short (parse wire) = false -> has_tc (p_msg (parse wire)) = true ->
  (forall e, p_err (parse wire) = Some e -> is_formerr e = true) ->
  genuine q (p_msg (parse wire)) ->
  udp parse q qwire where_ timeout af o [] (pre ++ UData wire from :: rest) now
  = ((length pre + 1)%nat, Lib neTruncated).
Proof. exact NetUdp.truncation_reported. Qed.
Print Assumptions truncation_reported.

(* an expired deadline is an error: nothing but ignorable traffic until the deadline is Timeout *)
Theorem udp_deadline_is_error :
  forall parse q qwire where_ t af o pre now now',
  passes parse af (Some where_) (Some (now + t)) o (Some q) pre now now' ->
  src_defined af (Some where_) ->
  udp parse q qwire where_ (Some t) af o [] pre now = (length pre, Lib neTimeout).
Proof. exact NetUdp.udp_deadline_is_error. Qed.
Print Assumptions udp_deadline_is_error.

Theorem udp_wait_past_deadline_is_timeout :
  forall parse af dest expiration o query pre now now' dt rest i e,
  passes parse af dest expiration o query pre now now' -> expiration = Some e ->
  (match dt with Some d => e - now' <= d | None => True end) ->
  receive_udp parse af dest expiration o query (pre ++ UBlock dt :: rest) now i
  = ((i + length pre + 1)%nat, Lib neTimeout).
Proof. exact deadline_is_error_recv. Qed.
Print Assumptions udp_wait_past_deadline_is_timeout.

(* ---------------- streams ---------------- *)

(* for every chunking / would-block / EOF script and any deadline: a successful read of n octets
   is exactly the next n octets, and the rest of the stream is preserved *)
Theorem net_read_chunking :
  forall expiration sk count res sk',
  net_read expiration sk count = Ok (res, sk') ->
  res = firstn count (rs_stream sk) /\ length res = count /\ rs_stream sk = res ++ rs_stream sk'.
Proof. exact NetStream.net_read_chunking. Qed.
Print Assumptions net_read_chunking.

(* and under every script that only fragments and delays, the read does succeed *)
Theorem net_read_chunking_complete :
  forall sk count, Forall benign_r (rs_evs sk) -> (count <= length (rs_stream sk))%nat ->
  exists sk', net_read None sk count = Ok (firstn count (rs_stream sk), sk')
              /\ rs_stream sk' = skipn count (rs_stream sk) /\ Forall benign_r (rs_evs sk').
Proof. exact NetStream.net_read_chunking_complete. Qed.
Print Assumptions net_read_chunking_complete.

Theorem eof_is_error :
  forall expiration sk count, (length (rs_stream sk) < count)%nat ->
  forall r, net_read expiration sk count <> Ok r.
Proof. exact NetStream.eof_is_error. Qed.
Print Assumptions eof_is_error.

Theorem eof_is_eoferror :
  forall sk count, Forall benign_r (rs_evs sk) -> (length (rs_stream sk) < count)%nat ->
  net_read None sk count = Lib neEOF.
Proof. exact NetStream.eof_is_eoferror. Qed.
Print Assumptions eof_is_eoferror.

(* a read that meets a would-block lasting to the deadline does not return a message
   (if it returned, it had finished before that would-block) *)
Theorem deadline_is_error :
  forall e pre dt rest sk count,
  rs_evs sk = pre ++ RBlock dt :: rest -> no_wait pre ->
  (match dt with Some d => e - rs_now sk <= d | None => True end) ->
  forall res sk', net_read (Some e) sk count = Ok (res, sk') ->
  (length (rs_evs sk') > length rest)%nat.
Proof. exact NetStream.deadline_is_error. Qed.
Print Assumptions deadline_is_error.

(* the deadline stated directly: chunks of k1, k2, ... octets (fewer than asked for), then a
   would-block that lasts to the deadline: Timeout, and the octets read so far are not returned *)
Theorem deadline_is_timeout :
  forall e ks dt rest stream count s now,
  Forall (fun k => (1 <= k)%nat) ks ->
  (list_sum ks < count)%nat -> (list_sum ks <= length stream)%nat ->
  late e now dt ->
  net_read_loop (Some e) (map RAvail ks ++ RBlock dt :: rest) stream count s now = Lib neTimeout.
Proof. exact NetStream.deadline_is_timeout. Qed.
Print Assumptions deadline_is_timeout.

Theorem write_deadline_is_timeout :
  forall e ks dt rest data sent now,
  (list_sum ks < length data)%nat -> late e now dt ->
  net_write_loop (Some e) (map WAccept ks ++ WBlock dt :: rest) data sent now = Lib neTimeout.
Proof. exact NetStream.write_deadline_is_timeout. Qed.
Print Assumptions write_deadline_is_timeout.

Theorem read_never_waits_past_deadline :
  forall e evs stream count s now res sk,
  net_read_loop (Some e) evs stream count s now = Ok (res, sk) -> rs_now sk = now \/ rs_now sk < e.
Proof. exact net_read_loop_deadline. Qed.
Print Assumptions read_never_waits_past_deadline.

(* the only ways a read can fail: end of stream, deadline (and, without a deadline, a script that
   never delivers - the model's stand-in for blocking forever) *)
Theorem read_fails_only_with_eof_or_timeout :
  forall expiration evs stream count s now,
  match net_read_loop expiration evs stream count s now with
  | Ok _ => True
  | Lib e => e = neEOF \/ e = neTimeout
  | Internal e => e = niScriptEnd /\ expiration = None
  end.
Proof. exact net_read_loop_errors. Qed.
Print Assumptions read_fails_only_with_eof_or_timeout.

Theorem send_all_in_order :
  forall exp evs data now sent evs' now',
  net_write_loop exp evs data [] now = Ok (sent, evs', now') -> sent = data.
Proof. exact NetStream.send_all_in_order. Qed.
Print Assumptions send_all_in_order.

Theorem send_all_complete :
  forall evs data sent now, Forall benign_w evs ->
  exists evs' now', net_write_loop None evs data sent now = Ok (sent ++ data, evs', now').
Proof. exact NetStream.send_all_complete. Qed.
Print Assumptions send_all_complete.

Theorem send_failure_leaves_a_prefix :
  forall exp evs data sent now,
  exists done, net_write_trace exp evs data sent now = sent ++ done /\ exists rest, data = done ++ rest.
Proof. exact net_write_trace_prefix. Qed.
Print Assumptions send_failure_leaves_a_prefix.

(* ---------------- framing ---------------- *)

Theorem receive_tcp_exact :
  forall parse exp it sk m wire sk',
  receive_tcp parse exp it sk = Ok (m, wire, sk') ->
  exists hi lo, rs_stream sk = hi :: lo :: wire ++ rs_stream sk' /\
                length wire = Z.to_nat (hi * 256 + lo) /\
                from_wire_out (parse wire) it false = POk m.
Proof. exact NetStream.receive_tcp_exact. Qed.
Print Assumptions receive_tcp_exact.

Theorem tcp_frame_roundtrip :
  forall parse what more exp wevs now n sent evs' now' exp2 it revs now2 m wire sk',
  send_tcp exp wevs what now = Ok (n, (sent, evs', now')) ->
  receive_tcp parse exp2 it {| rs_stream := sent ++ more; rs_evs := revs; rs_now := now2 |}
    = Ok (m, wire, sk') ->
  wire = what /\ rs_stream sk' = more /\ from_wire_out (parse what) it false = POk m.
Proof. exact NetStream.tcp_frame_roundtrip. Qed.
Print Assumptions tcp_frame_roundtrip.

Theorem tcp_frame_roundtrip_complete :
  forall parse what more it revs now2,
  zlen what <= 65535 -> Forall benign_r revs ->
  exists sk', rs_stream sk' = more /\ Forall benign_r (rs_evs sk') /\
    receive_tcp parse None it {| rs_stream := frame what ++ more; rs_evs := revs; rs_now := now2 |}
    = match from_wire_out (parse what) it false with
      | POk m => Ok (m, what, sk')
      | PTrunc _ => Lib neTruncated
      | PErr e => err_res e
      end.
Proof. exact NetStream.tcp_frame_roundtrip_complete. Qed.
Print Assumptions tcp_frame_roundtrip_complete.

Theorem send_tcp_frames_in_order :
  forall exp msgs evs now sent,
  send_tcp_n exp evs msgs now = Ok sent ->
  sent = concat (map frame msgs) /\ Forall (fun w => zlen w <= 65535) msgs.
Proof. exact send_tcp_n_frames. Qed.
Print Assumptions send_tcp_frames_in_order.

Theorem receive_tcp_messages_in_order :
  forall parse exp it more msgs k sk j m w t,
  (k <= length msgs)%nat ->
  rs_stream sk = concat (map frame msgs) ++ more ->
  Forall (fun w => zlen w <= 65535) msgs ->
  nth_error (receive_tcp_n parse exp it k sk) j = Some (Ok (m, w, t)) ->
  nth_error msgs j = Some w /\ from_wire_out (parse w) it false = POk m.
Proof. exact receive_tcp_n_in_order. Qed.
Print Assumptions receive_tcp_messages_in_order.

Theorem oversized_message_is_refused :
  forall exp evs what now, zlen what > 65535 -> send_tcp exp evs what now = Internal niOverflow.
Proof. exact send_tcp_too_long. Qed.
Print Assumptions oversized_message_is_refused.

Theorem tcp_returns_genuine :
  forall parse q qwire timeout it wevs stream revs now m wire t sent sk,
  tcp parse q qwire timeout it wevs stream revs now = Ok (m, wire, t, sent, sk) ->
  genuine q m /\ sent = frame qwire /\
  from_wire_out (parse wire) it false = POk m /\
  exists hi lo, stream = hi :: lo :: wire ++ rs_stream sk /\ length wire = Z.to_nat (hi * 256 + lo).
Proof. exact NetStream.tcp_returns_genuine. Qed.
Print Assumptions tcp_returns_genuine.

Theorem tcp_genuine_returned :
  forall (parse : list Z -> pabs) q qwire it wevs what more revs now m,
  zlen qwire <= 65535 -> zlen what <= 65535 -> Forall benign_w wevs -> Forall benign_r revs ->
  from_wire_out (parse what) it false = POk m -> genuine q m ->
  exists t sk, tcp parse q qwire None it wevs (frame what ++ more) revs now
               = Ok (m, what, t, frame qwire, sk) /\ rs_stream sk = more.
Proof. exact NetStream.tcp_genuine_returned. Qed.
Print Assumptions tcp_genuine_returned.

(* ---------------- udp_with_fallback ---------------- *)

Theorem udp_with_fallback_returns_genuine :
  forall parse q qwire where_ timeout af o evs wevs stream revs now used m wire t,
  udp_with_fallback parse q qwire where_ timeout af o evs wevs stream revs now = Ok (used, (m, wire, t)) ->
  genuine q m /\
  (used = false ->
     has_tc m = false /\
     exists pre from rest, evs = pre ++ UData wire from :: rest /\ src_ok af from (Some where_)) /\
  (used = true ->
     exists i, udp parse q qwire where_ timeout af (with_rot o) [] evs now = (i, Lib neTruncated)).
Proof. exact NetStream.udp_with_fallback_returns_genuine. Qed.
Print Assumptions udp_with_fallback_returns_genuine.

Theorem fallback_on_truncation :
  forall parse q qwire where_ timeout af o pre wire from rest wevs stream revs now now',
  let exp := snd (compute_times now timeout) in
  passes parse af (Some where_) exp (with_rot o) (Some q) pre now now' ->
  src_defined af (Some where_) -> src_ok af from (Some where_) ->
  p_short (parse wire) = false -> has_tc (p_msg (parse wire)) = true ->
  (forall e, p_err (parse wire) = Some e -> is_formerr e = true) ->
  genuine q (p_msg (parse wire)) ->
  udp_with_fallback parse q qwire where_ timeout af o (pre ++ UData wire from :: rest) wevs stream revs now
  = match tcp parse q qwire timeout (o_ignore_trailing o) wevs stream revs
              (now + blocks_time (firstn (length pre + 1) (pre ++ UData wire from :: rest))) with
    | Ok (m, w, t, _, _) => Ok (true, (m, w, t))
    | Lib e => Lib e
    | Internal e => Internal e
    end.
Proof. exact NetStream.fallback_on_truncation. Qed.
Print Assumptions fallback_on_truncation.

(* ---------------- dns.asyncquery = dns.query on the primitives ---------------- *)
(* the loops of asyncquery.py over backend sockets that wait by themselves (timeout recomputed per
   call from the absolute expiration) compute exactly what the selector-based loops of query.py
   compute, for every script whose would-blocks last a non-negative time: all theorems above
   about net_read / net_write_loop / receive_udp hold verbatim for _read_exactly / sendall /
   asyncquery.receive_udp *)
Theorem async_read_exactly_eq_net_read :
  forall exp sk count, Forall r_ok (rs_evs sk) ->
  aread_exactly (length (rs_evs sk) + 2) exp (rs_evs sk) (rs_stream sk) count [] (rs_now sk)
  = net_read exp sk count.
Proof. exact NetAsync.async_read_exactly_eq_net_read. Qed.
Print Assumptions async_read_exactly_eq_net_read.

Theorem async_sendall_eq_net_write :
  forall exp evs data now, Forall w_ok evs ->
  asendall (call_deadline now exp) evs data [] now = net_write_loop exp evs data [] now.
Proof. exact NetAsync.async_sendall_eq_net_write. Qed.
Print Assumptions async_sendall_eq_net_write.

Theorem async_receive_udp_eq :
  forall parse af dest exp o query evs now i, Forall u_ok evs ->
  areceive_udp parse (S (length evs)) af dest exp o query evs now i
  = receive_udp parse af dest exp o query evs now i.
Proof. exact NetAsync.async_receive_udp_eq. Qed.
Print Assumptions async_receive_udp_eq.

Theorem udp_answer_within_timeout :
  forall (parse : list Z -> pabs) q qwire where_ T af o evs now i r wire t from rest,
  udp parse q qwire where_ (Some T) af o [] evs now = (i, Ok (r, wire, t, from, rest)) ->
  t = 0 \/ t < T.
Proof. exact NetUdp.udp_answer_within_timeout. Qed.
Print Assumptions udp_answer_within_timeout.

Theorem tcp_answer_within_timeout :
  forall (parse : list Z -> pabs) q qwire T it wevs stream revs now m wire t sent sk,
  tcp parse q qwire (Some T) it wevs stream revs now = Ok (m, wire, t, sent, sk) -> t = 0 \/ t < T.
Proof. exact NetStream.tcp_answer_within_timeout. Qed.
Print Assumptions tcp_answer_within_timeout.

(* ---------------- octet level, for the parser of the correspondence runs ---------------- *)
(* `lookup tab` is the parser `run` uses: descriptions supplied by the harness, each checked against
   its own wire string (header length, id and flags octets).  Whatever table is supplied, the
   message returned starts on the wire with the query's id and has QR set *)
Theorem udp_answer_on_the_wire :
  forall tab q qwire where_ timeout af o sevs evs now i r wire t from rest,
  udp (lookup tab) q qwire where_ timeout af o sevs evs now = (i, Ok (r, wire, t, from, rest)) ->
  exists b0 b1 b2 b3 tl, wire = b0 :: b1 :: b2 :: b3 :: tl /\
    b0 * 256 + b1 = m_id q /\ Z.land (b2 * 256 + b3) fQR <> 0 /\ (12 <= length wire)%nat.
Proof. exact NetUdp.udp_answer_on_the_wire. Qed.
Print Assumptions udp_answer_on_the_wire.

Theorem tcp_answer_on_the_wire :
  forall tab q qwire timeout it wevs stream revs now m wire t sent sk,
  tcp (lookup tab) q qwire timeout it wevs stream revs now = Ok (m, wire, t, sent, sk) ->
  exists b0 b1 b2 b3 tl, wire = b0 :: b1 :: b2 :: b3 :: tl /\
    b0 * 256 + b1 = m_id q /\ Z.land (b2 * 256 + b3) fQR <> 0 /\ (12 <= length wire)%nat.
Proof. exact NetStream.tcp_answer_on_the_wire. Qed.
Print Assumptions tcp_answer_on_the_wire.

Theorem udp_answer_question_on_the_wire :
  forall tab q qwire where_ timeout af o sevs evs now i r wire t from rest,
  udp (lookup tab) q qwire where_ timeout af o sevs evs now = (i, Ok (r, wire, t, from, rest)) ->
  wire_question_section wire = Some (m_question r) /\ genuine q r.
Proof. exact NetUdp.udp_answer_question_on_the_wire. Qed.
Print Assumptions udp_answer_question_on_the_wire.

Theorem tcp_answer_question_on_the_wire :
  forall tab q qwire timeout it wevs stream revs now m wire t sent sk,
  tcp (lookup tab) q qwire timeout it wevs stream revs now = Ok (m, wire, t, sent, sk) ->
  wire_question_section wire = Some (m_question m) /\ genuine q m.
Proof. exact NetStream.tcp_answer_question_on_the_wire. Qed.
Print Assumptions tcp_answer_question_on_the_wire.

(* ---------------- non-vacuity ---------------- *)

Module Ex.
  Definition nm : name := [[119;119;119]; [101;120]; []].            (* www.ex. *)
  Definition nmU : name := [[87;87;87]; [69;88]; []].               (* WWW.EX. *)
  Definition qe (n : name) : qent := {| q_name := n; q_class := 1; q_type := 1 |}.
  Definition q : msg := {| m_id := 4660; m_flags := 256; m_ednsflags := 0; m_question := [qe nm] |}.
  Definition good : msg := {| m_id := 4660; m_flags := 33152; m_ednsflags := 0; m_question := [qe nmU] |}.
  Definition wrongid : msg := {| m_id := 4661; m_flags := 33152; m_ednsflags := 0; m_question := [qe nm] |}.
  Definition trunc : msg := {| m_id := 4660; m_flags := 33664; m_ednsflags := 0; m_question := [qe nm] |}.
  Definition server : addr := {| a_v4 := Some [10;0;0;53]; a_v6 := None; a_rest := [53] |}.
  Definition other : addr := {| a_v4 := Some [10;0;0;54]; a_v6 := None; a_rest := [53] |}.
  (* wire strings are abstract here: [1] = the genuine reply, [2] = wrong id, [3] = garbage,
     [4] = genuine with TC *)
  Definition parse (w : list Z) : pabs :=
    match w with
    | [1] => {| p_short := false; p_msg := good; p_err := None; p_trailing := false |}
    | [2] => {| p_short := false; p_msg := wrongid; p_err := None; p_trailing := false |}
    | [4] => {| p_short := false; p_msg := trunc; p_err := Some neFormError; p_trailing := false |}
    | _ => {| p_short := true; p_msg := empty_msg; p_err := None; p_trailing := false |}
    end.
  Definition lenient : uopts :=
    {| o_ignore_unexpected := true; o_one_rr_per_rrset := false; o_ignore_trailing := false;
       o_raise_on_truncation := true; o_ignore_errors := true |}.
  Definition strict : uopts :=
    {| o_ignore_unexpected := false; o_one_rr_per_rrset := false; o_ignore_trailing := false;
       o_raise_on_truncation := false; o_ignore_errors := false |}.
  Definition junk : list uev := [UData [1] other; UBlock (Some 2); UData [2] server; UData [3] server].
End Ex.

(* the case-insensitively equal reply is genuine; the wrong id is not *)
Example ex_genuine : genuine Ex.q Ex.good /\ ~ genuine Ex.q Ex.wrongid.
Proof.
  split; [apply is_response_iff; vm_compute; reflexivity|].
  intros H. apply is_response_iff in H. vm_compute in H. discriminate.
Qed.

(* udp() does return something: spoofed source, wrong id and garbage are skipped, the genuine
   reply behind them is returned (hypothesis of udp_returns_genuine is satisfiable) *)
Example ex_udp_ok :
  udp Ex.parse Ex.q [9] Ex.server (Some 10) AF_INET Ex.lenient [] (Ex.junk ++ [UData [1] Ex.server]) 100
  = (5%nat, Ok (Ex.good, [1], 2, Ex.server, [])).
Proof. vm_compute. reflexivity. Qed.

(* the strict configuration raises on the first spoofed datagram *)
Example ex_udp_strict :
  udp Ex.parse Ex.q [9] Ex.server (Some 10) AF_INET Ex.strict [] (Ex.junk ++ [UData [1] Ex.server]) 100
  = (1%nat, Lib neUnexpectedSource).
Proof. vm_compute. reflexivity. Qed.

Example ex_src_defined : src_defined AF_INET (Some Ex.server).
Proof. vm_compute. auto. Qed.

Example ex_src : src_ok AF_INET Ex.server (Some Ex.server) /\ ~ src_ok AF_INET Ex.other (Some Ex.server).
Proof.
  split.
  - left. exists [10;0;0;53]. vm_compute. auto.
  - intros [(n & H1 & H2 & _) | [H _]].
    + vm_compute in H1, H2. congruence.
    + unfold multicast, Ex.server in H. cbn [a_v4] in H. lia.
Qed.

(* the `passes` hypothesis of the configured-outcome theorems is inhabited by a non-trivial prefix *)
Example ex_passes :
  passes Ex.parse AF_INET (Some Ex.server) (Some 110) Ex.lenient (Some Ex.q) Ex.junk 100 102.
Proof.
  pose proof ex_src as [S1 S2]. pose proof ex_src_defined as D. pose proof ex_genuine as [_ G].
  unfold Ex.junk.
  apply pass_data. { split; [exact D|]. left. split; [exact S2 | reflexivity]. }
  eapply pass_block. { vm_compute. reflexivity. }
  apply pass_data.
  { split; [exact D|]. right. split; [exact S1|]. split; [reflexivity|]. right.
    exists Ex.q, Ex.wrongid. split; [reflexivity|]. split; [left; vm_compute; reflexivity | exact G]. }
  apply pass_data.
  { split; [exact D|]. right. split; [exact S1|]. split; [reflexivity|]. left.
    exists neShortHeader. vm_compute. reflexivity. }
  apply pass_nil.
Qed.

(* the truncation hypotheses are satisfiable, and the model agrees with the theorem's conclusion *)
Example ex_truncation :
  udp Ex.parse Ex.q [9] Ex.server (Some 10) AF_INET Ex.lenient [] (Ex.junk ++ [UData [4] Ex.server]) 100
  = (5%nat, Lib neTruncated)
  /\ genuine Ex.q (p_msg (Ex.parse [4])) /\ has_tc (p_msg (Ex.parse [4])) = true.
Proof.
  split; [vm_compute; reflexivity|]. split; [apply is_response_iff; vm_compute; reflexivity|].
  vm_compute. reflexivity.
Qed.

(* streams: a 5-octet stream read as 2 + 3 under the chunking 1,1,would-block,2,1 *)
Example ex_net_read :
  let sk := {| rs_stream := [0;3;7;8;9;42]; rs_evs := [RAvail 1; RAvail 1; RBlock (Some 1); RAvail 2; RAvail 1]; rs_now := 0 |} in
  Forall benign_r (rs_evs sk) /\
  exists sk', net_read None sk 2 = Ok ([0;3], sk') /\
              exists sk'', net_read None sk' 3 = Ok ([7;8;9], sk'') /\ rs_stream sk'' = [42].
Proof.
  cbn zeta. split.
  - repeat constructor.
  - eexists. split; [vm_compute; reflexivity|]. eexists. split; vm_compute; reflexivity.
Qed.

Example ex_eof :
  net_read None {| rs_stream := [0;3;7]; rs_evs := [RAvail 2; REof]; rs_now := 0 |} 5 = Lib neEOF.
Proof. vm_compute. reflexivity. Qed.

Example ex_deadline :
  net_read (Some 5) {| rs_stream := [0;3;7]; rs_evs := [RAvail 2; RBlock (Some 5); RAvail 1]; rs_now := 0 |} 3
  = Lib neTimeout.
Proof. vm_compute. reflexivity. Qed.

(* send_tcp then receive_tcp, both fragmented *)
Example ex_roundtrip :
  exists n sent evs' now',
    send_tcp None [WAccept 1; WBlock (Some 1); WAccept 0; WAccept 2] [1] 0 = Ok (n, (sent, evs', now'))
    /\ sent = [0; 1; 1]
    /\ exists sk', receive_tcp Ex.parse None false
                     {| rs_stream := sent ++ [0;1;2]; rs_evs := [RAvail 1; RAvail 1; RAvail 5]; rs_now := 0 |}
                   = Ok (Ex.good, [1], sk') /\ rs_stream sk' = [0;1;2].
Proof.
  do 4 eexists. split; [vm_compute; reflexivity|]. split; [reflexivity|].
  eexists. split; vm_compute; reflexivity.
Qed.

Example ex_tcp :
  exists sk, tcp Ex.parse Ex.q [9;9] (Some 10) false [WAccept 1] [0;1;1;0;1;2] [RAvail 1; RBlock (Some 3)] 0
             = Ok (Ex.good, [1], 3, [0;2;9;9], sk) /\ rs_stream sk = [0;1;2].
Proof. eexists. split; vm_compute; reflexivity. Qed.

(* a forged reply over TCP is BadResponse *)
Example ex_tcp_forged :
  tcp Ex.parse Ex.q [9;9] None false [] [0;1;2] [] 0 = Lib neBadResponse.
Proof. vm_compute. reflexivity. Qed.

(* truncated over UDP (behind junk), then the full answer over TCP *)
Example ex_fallback :
  udp_with_fallback Ex.parse Ex.q [9;9] Ex.server (Some 10) AF_INET Ex.lenient
                    (Ex.junk ++ [UData [4] Ex.server]) [] [0;1;1] [RBlock (Some 1)] 100
  = Ok (true, (Ex.good, [1], 1)).
Proof. vm_compute. reflexivity. Qed.

(* the octet-level parser check: a real 29-octet reply (id 0x1234, QR|RD|RA, question www.ex. IN A,
   compressed owner in the answer) is accepted by `lookup` only with the description that matches it *)
Example ex_lookup_checked :
  let w := [18;52;129;128;0;1;0;0;0;0;0;0; 3;119;119;119;2;101;120;0; 0;1;0;1] in
  let good := {| p_short := false; p_msg := {| m_id := 4660; m_flags := 33152; m_ednsflags := 0;
                                               m_question := [Ex.qe Ex.nm] |};
                 p_err := None; p_trailing := false |} in
  let wrong := {| p_short := false; p_msg := {| m_id := 4660; m_flags := 33152; m_ednsflags := 0;
                                                m_question := [Ex.qe Ex.nmU] |};
                  p_err := None; p_trailing := false |} in
  p_err (lookup [(w, good)] w) = None /\ p_err (lookup [(w, wrong)] w) = Some niOther
  /\ wire_question_section w = Some [Ex.qe Ex.nm].
Proof. vm_compute. auto. Qed.
