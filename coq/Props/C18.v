From DV Require Import Base.Prelude Model.NetM.
Theorem placeholder_c18 : neTimeout = 1.
Proof. reflexivity. Qed.
Print Assumptions placeholder_c18.
