From DV Require Import Base.Prelude Model.NameM.
Theorem placeholder_c06 : order [] [] = 0.
Proof. reflexivity. Qed.
Print Assumptions placeholder_c06.
