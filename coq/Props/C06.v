(* C06 - Name comparison is the DNSSEC canonical order, coherent with equality and hash.
   Model: coq/Model/NameM.v (fullcompare, __hash__, is_subdomain/is_superdomain, parent, split,
   relativize/derelativize, RFC 4471 successor/predecessor).  Specifications the theorems
   compare against (written independently of the model's loops):
     canon_cmp, ci_equal            Proofs/NameOrder.v   (RFC 4034 6.1 order; ASCII-ci equality)
     common_suffix, rel_of, ci_suffix  Proofs/NameRel.v  (common label count; relation table)
     Valid                          Proofs/NameValid.v   (63 / 255 / empty-label-last limits)
   All theorems quantify over arbitrary label lists (any octets, any relativity). *)
From DV Require Import Base.Prelude Model.NameM.
From DV Require Import Proofs.NameOrder Proofs.NameValid Proofs.NameRel Proofs.NameSucc Proofs.NameWire.
Open Scope Z_scope.

(* ---- the order is exactly RFC 4034 6.1 (relative names first) ---- *)
Theorem order_spec : forall a b : name, (order a b ?= 0) = canon_cmp a b.
Proof. exact NameOrder.order_spec. Qed.
Print Assumptions order_spec.

Theorem order_total : forall a b : name, order a b < 0 \/ ci_equal a b \/ order b a < 0.
Proof. exact NameOrder.order_total. Qed.
Print Assumptions order_total.

Theorem order_antisym : forall a b : name, (order b a ?= 0) = CompOpp (order a b ?= 0).
Proof. exact NameOrder.order_antisym. Qed.
Print Assumptions order_antisym.

Theorem order_antisym_le : forall a b : name, order a b <= 0 -> order b a <= 0 -> ci_equal a b.
Proof. exact NameOrder.order_antisym_le. Qed.
Print Assumptions order_antisym_le.

Theorem order_trans : forall a b c : name, order a b <= 0 -> order b c <= 0 -> order a c <= 0.
Proof. exact NameOrder.order_trans. Qed.
Print Assumptions order_trans.

Theorem order_trans_lt : forall a b c : name, order a b < 0 -> order b c < 0 -> order a c < 0.
Proof. exact NameOrder.order_trans_lt. Qed.
Print Assumptions order_trans_lt.

(* the operators ==, !=, <, <=, >=, > decide exactly the canonical order *)
Theorem richcmp_spec : forall a b : name,
  (name_eqb a b = true <-> canon_cmp a b = Eq) /\
  name_ne a b = negb (name_eqb a b) /\
  (name_lt a b = true <-> canon_cmp a b = Lt) /\
  (name_le a b = true <-> canon_cmp a b <> Gt) /\
  (name_ge a b = true <-> canon_cmp a b <> Lt) /\
  (name_gt a b = true <-> canon_cmp a b = Gt).
Proof. exact NameOrder.richcmp_spec. Qed.
Print Assumptions richcmp_spec.

(* ---- equality is ASCII-case-insensitive label equality; equal names hash equally ---- *)
Theorem eq_iff_ci : forall a b : name, order a b = 0 <-> ci_equal a b.
Proof. exact NameOrder.eq_iff_ci. Qed.
Print Assumptions eq_iff_ci.

Theorem hash_congr : forall a b : name, ci_equal a b -> name_hash a = name_hash b.
Proof. exact NameOrder.hash_congr. Qed.
Print Assumptions hash_congr.

Theorem eq_hash : forall a b : name, order a b = 0 -> name_hash a = name_hash b.
Proof. exact NameOrder.eq_hash. Qed.
Print Assumptions eq_hash.

(* model note: __hash__ computes h += (h << 3) + c, the model writes h + h * 8 + c *)
Theorem hash_shift_equiv : forall h c : Z, h + (Z.shiftl h 3 + c) = h + (h * 8) + c.
Proof. exact NameWire.hash_shift_equiv. Qed.
Print Assumptions hash_shift_equiv.

(* ---- relation and common-label count ---- *)
Theorem relation_spec : forall a b : name,
  is_absolute a = is_absolute b ->
  reln a b = rel_of (length a) (length b) (common_suffix a b) /\
  common a b = Z.of_nat (common_suffix a b).
Proof. exact NameRel.relation_spec. Qed.
Print Assumptions relation_spec.

Theorem relation_spec_mixed : forall a b : name,
  is_absolute a <> is_absolute b -> reln a b = rNONE /\ common a b = 0.
Proof. exact NameRel.relation_spec_mixed. Qed.
Print Assumptions relation_spec_mixed.

Theorem reln_equal_iff : forall a b : name, reln a b = rEQUAL <-> ci_equal a b.
Proof. exact NameRel.reln_equal_iff. Qed.
Print Assumptions reln_equal_iff.

Theorem is_subdomain_iff : forall a b : name,
  is_subdomain a b = true <-> is_absolute a = is_absolute b /\ ci_suffix b a.
Proof. exact NameRel.is_subdomain_iff. Qed.
Print Assumptions is_subdomain_iff.

Theorem is_superdomain_iff : forall a b : name,
  is_superdomain a b = true <-> is_absolute a = is_absolute b /\ ci_suffix a b.
Proof. exact NameRel.is_superdomain_iff. Qed.
Print Assumptions is_superdomain_iff.

Theorem parent_spec : forall n p : name,
  parent n = Ok p ->
  exists l, n = l :: p /\ Valid p /\
    is_subdomain n p = true /\ is_superdomain p n = true /\ common n p = zlen p /\ reln n p = rSUB.
Proof. exact NameRel.parent_spec. Qed.
Print Assumptions parent_spec.

Theorem split_spec : forall (n : name) (d : Z) (p s : name),
  split n d = Ok (p, s) ->
  n = p ++ s /\ zlen s = d /\
  (s <> [] -> is_subdomain n s = true /\ is_superdomain s n = true /\ common n s = d).
Proof. exact NameRel.split_spec. Qed.
Print Assumptions split_spec.

(* ---- relativize then derelativize restores the name (every origin, also the empty one) ---- *)
Theorem rel_derel : forall n o : name,
  Valid n -> is_subdomain n o = true ->
  exists r, relativize n o = Ok r /\ n = r ++ skipn (length r) n /\
    ci_equal (skipn (length r) n) o /\
    derelativize r o = Ok (r ++ o) /\ ci_equal (r ++ o) n.
Proof. exact NameRel.rel_derel. Qed.
Print Assumptions rel_derel.

Theorem rel_derel_outside : forall n o : name,
  is_subdomain n o = false ->
  relativize n o = Ok n /\ (is_absolute n = true -> derelativize n o = Ok n).
Proof. exact NameRel.rel_derel_outside. Qed.
Print Assumptions rel_derel_outside.

Theorem derel_rel : forall r o : name,
  Valid r -> Valid o -> is_absolute r = false -> is_absolute o = true -> Valid (r ++ o) ->
  derelativize r o = Ok (r ++ o) /\ relativize (r ++ o) o = Ok r.
Proof. exact NameRel.derel_rel. Qed.
Print Assumptions derel_rel.

(* ---- RFC 4471 successor / predecessor ---- *)
(* absolute name in the zone: the successor exists, is a valid name of the zone and sorts
   strictly after the name, or is the origin (the documented wrap) *)
Theorem successor_after : forall (n o : name) (prefix_ok : bool) (s : name),
  Valid n -> Valid o -> is_absolute n = true ->
  successor n o prefix_ok = Ok s ->
  Valid s /\ ((order n s < 0 /\ is_subdomain s o = true) \/ s = o).
Proof. exact NameSucc.successor_after_abs. Qed.
Print Assumptions successor_after.

Theorem successor_exists : forall (n o : name) (prefix_ok : bool),
  Valid n -> Valid o -> is_absolute o = true -> is_subdomain n o = true ->
  exists s, absolute_successor n o prefix_ok = Ok s /\ Valid s /\
    ((order n s < 0 /\ is_subdomain s o = true) \/ s = o).
Proof. exact NameSucc.absolute_successor_spec. Qed.
Print Assumptions successor_exists.

(* relative name: relativity is preserved; the wrap to the origin shows as the empty name *)
Theorem successor_after_relative : forall (n o : name) (prefix_ok : bool) (s : name),
  Valid n -> Valid o -> is_absolute n = false ->
  successor n o prefix_ok = Ok s ->
  Valid s /\ is_absolute s = false /\ (order n s < 0 \/ s = []).
Proof. exact NameSucc.successor_after_rel. Qed.
Print Assumptions successor_after_relative.

(* predecessor of any name of the zone other than the origin itself (for the origin the
   documented result is the longest name under the origin) *)
Theorem predecessor_before : forall (n o : name) (prefix_ok : bool) (s : name),
  Valid n -> Valid o -> is_absolute n = true -> name_eqb n o = false ->
  predecessor n o prefix_ok = Ok s ->
  Valid s /\ order s n < 0 /\ is_subdomain s o = true.
Proof. exact NameSucc.predecessor_before_abs. Qed.
Print Assumptions predecessor_before.

(* and it always returns for a name of the zone (the padding stays within the 63/255 limits) *)
Theorem predecessor_exists : forall (n o : name) (prefix_ok : bool),
  Valid n -> Valid o -> is_absolute o = true -> is_subdomain n o = true ->
  exists s, absolute_predecessor n o prefix_ok = Ok s.
Proof. exact NameSucc.absolute_predecessor_total. Qed.
Print Assumptions predecessor_exists.

Theorem predecessor_before_relative : forall (n o : name) (prefix_ok : bool) (s : name),
  Valid n -> Valid o -> is_absolute n = false -> n <> [] ->
  predecessor n o prefix_ok = Ok s ->
  Valid s /\ is_absolute s = false /\ order s n < 0.
Proof. exact NameSucc.predecessor_before_rel. Qed.
Print Assumptions predecessor_before_relative.

(* the origin itself has no predecessor inside the zone: the documented result is the longest
   name below the origin (never before the origin) *)
Theorem predecessor_of_origin : forall (o : name) (prefix_ok : bool) (s : name),
  Valid o -> is_absolute o = true ->
  predecessor o o prefix_ok = Ok s ->
  Valid s /\ is_subdomain s o = true /\ order o s <= 0 /\ exists pads, s = pads ++ o.
Proof. exact NameSucc.predecessor_of_origin. Qed.
Print Assumptions predecessor_of_origin.

(* the fuel of the `while needed > 64` padding loop is sufficient for every name *)
Theorem pad_fuel_sufficient : forall (n : name) acc,
  0 <= wire_length n -> snd (pad_labels 8 (255 - wire_length n) acc) <= 64.
Proof. exact NameSucc.pad_fuel_sufficient. Qed.
Print Assumptions pad_fuel_sufficient.

(* ---- non-vacuity: the hypotheses are satisfiable and the conclusions are not trivial ---- *)
Definition ex_o : name := [[101; 120]; []].                       (* ex. *)
Definition ex_n : name := [[90; 90]; [101; 120]; []].             (* ZZ.ex. *)
Definition ex_z63 : name := [repeat 90 63; [101; 120]; []].       (* 63 x 'Z' . ex. *)

Example ex_valid : Valid ex_n /\ Valid ex_o /\ Valid ex_z63.
Proof. repeat split; apply validate_iff; vm_compute; reflexivity. Qed.
Example ex_sub : is_subdomain ex_n ex_o = true /\ is_absolute ex_n = true /\ name_eqb ex_n ex_o = false.
Proof. repeat split; vm_compute; reflexivity. Qed.
Example ex_succ : successor ex_n ex_o true = Ok ([0] :: ex_n) /\
                  successor ex_n ex_o false = Ok [[90; 90; 0]; [101; 120]; []].
Proof. split; vm_compute; reflexivity. Qed.
(* the case fixed by /repo commit b64278c: a label of 63 'Z' goes to '{', which sorts after it *)
Example ex_succ_z63 : successor ex_z63 ex_o false = Ok [repeat 90 62 ++ [123]; [101; 120]; []]
                      /\ order ex_z63 [repeat 90 62 ++ [123]; [101; 120]; []] < 0
                      /\ order ex_z63 [repeat 90 62 ++ [91]; [101; 120]; []] > 0.
Proof. repeat split; vm_compute; reflexivity. Qed.
Example ex_succ_wrap : successor [repeat 255 63; repeat 255 63; repeat 255 63; repeat 97 61; []] [repeat 97 61; []] true
                       = Ok [repeat 97 61; []].
Proof. vm_compute. reflexivity. Qed.
Example ex_pred : predecessor ex_n ex_o false = Ok [[90; 89] ++ repeat 255 61; [101; 120]; []].
Proof. vm_compute. reflexivity. Qed.
Example ex_rel : successor [[90; 90]] ex_o false = Ok [[90; 90; 0]] /\ predecessor [[90; 90]] ex_o false = Ok [[90; 89] ++ repeat 255 61].
Proof. split; vm_compute; reflexivity. Qed.
Example ex_order_case : order [[64]; []] [[96]; []] < 0 /\ order [[65]; []] [[96]; []] > 0 /\ order [[90]; []] [[91]; []] > 0
                        /\ order [[65; 66]; []] [[97; 98]; []] = 0.
Proof. repeat split; vm_compute; reflexivity. Qed.
Example ex_rel_derel_empty : relativize [[119]] [] = Ok [[119]] /\ derelativize [[119]] [] = Ok [[119]].
Proof. split; reflexivity. Qed.
Example ex_relation : reln ex_n ex_o = rSUB /\ common ex_n ex_o = 2 /\ reln [[97]; []] [[98]; []] = rCOMMON
                      /\ reln [[97]] [[98]] = rNONE /\ reln [[97]] [[97]; []] = rNONE.
Proof. repeat split; reflexivity. Qed.
